#!/bin/bash
# build.sh [plain|race|all]: (re)build vcheck against /repo's current working tree.
set -e
cd "$(dirname "$0")"
. ./env.sh
cd harness
# go.sum = repo's go.sum + the extra lines for harness-only modules (porcupine)
cat /repo/go.sum go.sum.extra 2>/dev/null | sort -u > go.sum
what="${1:-plain}"
if [ "$what" = plain ] || [ "$what" = all ]; then
  go build -o ../bin/vcheck ./cmd/vcheck
fi
if [ "$what" = race ] || [ "$what" = all ]; then
  go build -race -o ../bin/vcheck.race ./cmd/vcheck
fi
