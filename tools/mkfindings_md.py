#!/usr/bin/env python3
"""Renders known_findings.json (+ known_findings.d/*.json) into the marked section of DESIGN.md."""
import json, glob, os, re, subprocess
root = os.path.dirname(os.path.dirname(os.path.abspath(__file__)))
ents = json.load(open(os.path.join(root, "known_findings.json")))
for f in sorted(glob.glob(os.path.join(root, "known_findings.d", "*.json"))):
    ents += json.load(open(f))
fixed = [e for e in ents if e.get("status") == "fixed"]
known = [e for e in ents if e.get("status") == "known"]
out = []
out.append("#### Genuine defects repaired in helm/helm (`fix:` commits in /repo; a fixed entry suppresses nothing)\n")
out.append("| Property | Commit | What failed (witness) |")
out.append("|---|---|---|")
for e in sorted(fixed, key=lambda e: (e["property"], e.get("commit", ""))):
    try:
        subj = subprocess.run(["git", "-C", "/repo", "log", "-1", "--format=%s", e["commit"]], capture_output=True, text=True).stdout.strip()
    except Exception:
        subj = ""
    out.append("| %s | `%s` %s | %s |" % (e["property"], e.get("commit", ""), subj.replace("|", "\\|"), e["description"].replace("|", "\\|").replace("\n", " ")))
out.append("")
out.append("#### Genuine defects recorded as known findings (not repaired: design-level or not small/safe)\n")
by = {}
for e in known:
    by.setdefault((e["property"], e["description"][:160]), []).append(e)
out.append("| Property | Signatures | Defect |")
out.append("|---|---|---|")
for (prop, _), es in sorted(by.items()):
    sigs = "<br>".join("`%s`" % x["signature"].replace("|", "\\|") for x in es[:6])
    if len(es) > 6:
        sigs += "<br>… (%d signatures)" % len(es)
    out.append("| %s | %s | %s |" % (prop, sigs, es[0]["description"].replace("|", "\\|").replace("\n", " ")))
text = "\n".join(out) + "\n"
p = os.path.join(root, "DESIGN.md")
s = open(p).read()
b, e = "<!-- FINDINGS:BEGIN -->", "<!-- FINDINGS:END -->"
if b not in s:
    s += "\n### 8.3 Findings on the unchanged tree\n\n" + b + "\n" + e + "\n"
s = s[:s.index(b) + len(b)] + "\n" + text + s[s.index(e):]
open(p, "w").write(s)
print("fixed:", len(fixed), "known:", len(known))
