#!/bin/bash
# tools/mutants_all.sh [parallelism] — run every mutants/<ID>/*.patch against the quick tier of its property
# (scratch copies; /repo untouched). Writes one line per mutant to stdout: <ID> <name> CAUGHT|MISSED|OTHER.
par="${1:-3}"
cd "$(dirname "$0")/.."
ls mutants/*/*.patch | xargs -P "$par" -I{} bash -c '
  p="{}"; id=$(basename $(dirname "$p")); name=$(basename "$p" .patch)
  out=$(SEEDRUN_LINES=1 tools/seedrun.sh "$p" "$id" quick 1 2>&1); rc=$?
  if [ $rc -eq 1 ] && echo "$out" | grep -q "^VIOLATION"; then v=CAUGHT; elif [ $rc -eq 0 ]; then v=MISSED; else v="OTHER(rc=$rc)"; fi
  echo "$id $name $v $(echo "$out" | grep -m1 "^VIOLATION" | grep -o "signature=\"[^\"]*\"" | cut -c1-120)"'
