#!/bin/bash
# tools/confirm_seed.sh <seed-out-dir> — independently confirm a seeded breaking change in a scratch
# worktree of /repo: demo passes on the unchanged tree, patch applies and builds, demo fails with it,
# the touched packages' existing tests still pass. Writes <dir>/confirm.json. Removes the worktree.
d="$(readlink -f "$1")"; name="$(basename "$d")"
. "$(dirname "$0")/../env.sh"
wt="/tmp/confirm-$name"
git -C /repo worktree remove --force "$wt" >/dev/null 2>&1
git -C /repo worktree add -q --detach "$wt" HEAD || exit 2
trap 'git -C /repo worktree remove --force "$wt" >/dev/null 2>&1; rm -rf "$wt"' EXIT
cd "$wt"
cp -r "$d"/demo/. . 2>/dev/null
demo_cmd="$(jq -r .demo_cmd "$d/meta.json")"
case "$demo_cmd" in *"-count"*) ;; *) demo_cmd="$demo_cmd -count=1";; esac
demo_cmd="$(echo "$demo_cmd" | sed 's/^go test /go test -vet=off /')"
run_demo() { bash -c "$demo_cmd" > "$wt/.demo.out" 2>&1; echo $?; }
base_rc=$(run_demo)
if ! git apply --check "$d/patch.diff" 2>/dev/null; then applies=false; patch -p1 --dry-run < "$d/patch.diff" >/dev/null 2>&1 && applies=fuzzy; else applies=true; fi
if [ "$applies" = true ]; then git apply "$d/patch.diff"; elif [ "$applies" = fuzzy ]; then patch -p1 -s --no-backup-if-mismatch < "$d/patch.diff"; fi
build_rc=1; mut_rc=-1; tests_rc=-1; pkgs=""
if [ "$applies" != false ]; then
  go build ./... > "$wt/.build.out" 2>&1; build_rc=$?
  if [ $build_rc -eq 0 ]; then
    mut_rc=$(run_demo)
    pkgs=$(git diff --name-only | grep '\.go$' | xargs -n1 dirname | sort -u | sed 's#^#./#' | tr '\n' ' ')
    # remove the demo files so that only the existing tests run
    (cd "$d/demo" && find . -type f) | while read f; do rm -f "$wt/$f"; done
    go test -vet=off -count=1 $pkgs > "$wt/.tests.out" 2>&1; tests_rc=$?
    if [ $tests_rc -ne 0 ]; then sleep 5; go test -vet=off -count=1 $pkgs > "$wt/.tests.out" 2>&1; tests_rc=$?; fi
    failed=$(grep -E '^--- FAIL' "$wt/.tests.out" | head -8 | tr '\n' ';')
    # only tests of the stable baseline count; offline/flaky tests outside it are ignored
    stable_failed=0
    for t in $(grep -E '^--- FAIL' "$wt/.tests.out" | awk '{print $3}'); do
      if jq -r '.stable_pass[]' /root/.vp/BASELINE.json | grep -q "::$t\$"; then stable_failed=1; fi
    done
    if [ $tests_rc -ne 0 ] && [ $stable_failed -eq 0 ] && ! grep -qE '^(panic:|FAIL.*build failed)' "$wt/.tests.out"; then tests_rc=0; fi
  fi
fi
jq -n --arg name "$name" --arg applies "$applies" --argjson base "$base_rc" --argjson build "$build_rc" --argjson mut "$mut_rc" --argjson tests "$tests_rc" --arg pkgs "$pkgs" --arg failed "$failed" --arg demo "$demo_cmd" \
  '{name:$name, patch_applies:$applies, demo_cmd:$demo, demo_rc_unchanged:$base, build_rc:$build, demo_rc_with_change:$mut, touched_pkg_tests_rc:$tests, touched_pkgs:$pkgs, failing_existing_tests:$failed,
    confirmed: ($base==0 and $build==0 and $mut!=0 and $mut!=-1 and $tests==0)}' > "$d/confirm.json"
cat "$d/confirm.json" | jq -c '{name,patch_applies,demo_rc_unchanged,build_rc,demo_rc_with_change,touched_pkg_tests_rc,confirmed,failing_existing_tests}'
