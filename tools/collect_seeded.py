#!/usr/bin/env python3
"""Copies confirmed seeded breaking changes from the scratch area into /verif/seeded/<id>/ with an
augmented meta.json (what was confirmed, which check catches it)."""
import json, os, shutil, sys, glob
src = sys.argv[1] if len(sys.argv) > 1 else "/tmp/seed/out"
dst = "/verif/seeded"
os.makedirs(dst, exist_ok=True)
rows = []
for d in sorted(glob.glob(os.path.join(src, "C[0-9][0-9]-[0-9]*"))):
    name = os.path.basename(d)
    try:
        meta = json.load(open(os.path.join(d, "meta.json")))
        conf = json.load(open(os.path.join(d, "confirm.json")))
    except Exception as e:
        rows.append((name, "no meta/confirm", "")); continue
    caught = ""
    cp = os.path.join(d, "caught.txt")
    if os.path.exists(cp):
        lines = open(cp).read().splitlines()
        caught = lines[0] if lines else ""
        first = next((l for l in lines[1:] if l.startswith("VIOLATION")), "")
    else:
        first = ""
    if not conf.get("confirmed"):
        rows.append((name, "NOT CONFIRMED (dropped)", caught)); continue
    out = os.path.join(dst, name)
    shutil.rmtree(out, ignore_errors=True)
    os.makedirs(out)
    shutil.copy(os.path.join(d, "patch.diff"), out)
    if os.path.isdir(os.path.join(d, "demo")):
        shutil.copytree(os.path.join(d, "demo"), os.path.join(out, "demo"))
    meta["confirmed_by_main"] = {
        "how": "tools/confirm_seed.sh in a scratch worktree of /repo HEAD: demo passes unchanged; patch applies; go build ./...; demo fails with the patch; existing tests of the touched packages pass (tests outside BASELINE stable_pass ignored)",
        "result": conf,
    }
    meta["detection"] = {"check": name.split("-")[0], "verdict": caught, "first_violation": first[:400],
                         "how": "tools/seedrun.sh: scratch copy of /repo + patch, harness rebuilt against it, quick tier seed 1 (thorough where noted)"}
    json.dump(meta, open(os.path.join(out, "meta.json"), "w"), indent=1)
    rows.append((name, "confirmed", caught))
for r in rows:
    print("%-8s %-26s %s" % r)
