#!/bin/bash
# tools/sweep.sh "<seeds>" [tier] [ids...] — run checks at several seeds; print one line per run.
seeds="$1"; tier="${2:-quick}"; shift 2
ids="$@"; [ -z "$ids" ] && ids=$(jq -r '.checks[].property_id' "$(dirname "$0")/../MANIFEST.json")
cd "$(dirname "$0")/.."
for id in $ids; do for s in $seeds; do
  out=$(./check $id --tier $tier --seed $s 2>&1); rc=$?
  echo "$id seed=$s rc=$rc $(echo "$out" | grep -E "^$id tier" | sed 's/.*cases=/cases=/') $(echo "$out" | grep -c '^KNOWN-FINDING') known-lines"
  echo "$out" | grep -E '^(VIOLATION|INCONCLUSIVE)' | cut -c1-300
done; done
