#!/bin/bash
# tools/mutants.sh <PROP-ID> [tier] — run the property's check against every patch in mutants/<ID>/
# (each on a scratch copy of /repo); prints CAUGHT / MISSED per mutant.
id="$1"; tier="${2:-quick}"
for p in "$(dirname "$0")"/../mutants/$id/*.patch; do
  out=$(SEEDRUN_LINES=2 "$(dirname "$0")/seedrun.sh" "$p" "$id" "$tier" 2>&1); rc=$?
  if [ $rc -eq 1 ] && echo "$out" | grep -q '^VIOLATION'; then v=CAUGHT; elif [ $rc -eq 0 ]; then v=MISSED; else v="OTHER(rc=$rc)"; fi
  echo "$v $(basename "$p" .patch): $(echo "$out" | grep -m1 -E '^VIOLATION|BUILD|error' | cut -c1-220)"
done
