#!/bin/bash
# tools/baseline_check.sh [repo-dir] — run the repository's test suite (guard off) and report every
# test of BASELINE.json's stable_pass list that did not pass.
repo="${1:-/repo}"
. "$(dirname "$0")/../env.sh"
out="$(mktemp /tmp/baseline-XXXXXX.json)"
( cd "$repo" && go test -json -vet=off -count=1 -timeout 25m ./... > "$out" 2>/dev/null )
python3 - "$out" <<'PY'
import json, sys
stable = set(json.load(open('/root/.vp/BASELINE.json'))['stable_pass'])
res = {}
for line in open(sys.argv[1]):
    try: e = json.loads(line)
    except Exception: continue
    if e.get('Test') and e.get('Action') in ('pass', 'fail', 'skip'):
        res[e['Package'] + '::' + e['Test']] = e['Action']
bad = sorted(t for t in stable if res.get(t) != 'pass')
print("stable tests:", len(stable), "passed:", len(stable) - len(bad))
for t in bad: print("NOT PASSING:", t, res.get(t))
sys.exit(1 if bad else 0)
PY
rc=$?; rm -f "$out"; exit $rc
