#!/usr/bin/env python3
"""Renders the measured summary table (from evidence/*.json of the last quick runs and a thorough sweep log)
into DESIGN.md between SUMMARY markers."""
import json, glob, os, re, sys
root = os.path.dirname(os.path.dirname(os.path.abspath(__file__)))
thlog = sys.argv[1] if len(sys.argv) > 1 else None
th = {}
if thlog and os.path.exists(thlog):
    for l in open(thlog):
        m = re.match(r"(C\d+) seed=\d+ rc=(\d+) cases=(\d+) evaluations=(\d+) distinct_nontrivial=(\d+) violations=(\d+) known=(\d+) wall=([\d.]+)s", l)
        if m: th[m.group(1)] = m.groups()
man = {c["property_id"]: c for c in json.load(open(os.path.join(root, "MANIFEST.json")))["checks"]}
rows = ["| ID | Level | Deciding monitor (technique) | quick: cases / evaluations / distinct / wall | thorough: cases / evaluations / distinct / wall |", "|---|---|---|---|---|"]
for f in sorted(glob.glob(os.path.join(root, "evidence", "C*.json"))):
    e = json.load(open(f)); pid = e["property_id"]; c = e["coverage"]
    q = "%s / %s / %s / %.0f s" % (c.get("cases"), c.get("evaluations"), c.get("distinct_nontrivial"), e.get("wall_s", 0))
    t = th.get(pid)
    ts = "%s / %s / %s / %s s" % (t[2], t[3], t[4], t[7]) if t else "n/a"
    rows.append("| %s | %s | %s | %s | %s |" % (pid, e["level"], man[pid]["technique"].replace("runtime monitoring: ", ""), q, ts))
text = "\n".join(rows) + "\n"
p = os.path.join(root, "DESIGN.md"); s = open(p).read()
b, e_ = "<!-- SUMMARY:BEGIN -->", "<!-- SUMMARY:END -->"
if b not in s:
    s = s.replace("## 5. Interface plan", "### 4.1 Measured (final tree, 16 cores, numbers written by the checks themselves)\n\n" + b + "\n" + e_ + "\n\n## 5. Interface plan")
s = s[:s.index(b) + len(b)] + "\n" + text + s[s.index(e_):]
open(p, "w").write(s)
print("rows", len(rows) - 2)
