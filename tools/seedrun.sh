#!/bin/bash
# tools/seedrun.sh <patch.diff> <PROP-ID> [tier] [seed] — run one property check against a scratch
# copy of /repo with a patch applied (non-disruptive: /repo and bin/ stay untouched).
# Prints the check's summary lines; exit code = check's exit code (1 = caught).
set -e
patch="$(readlink -f "$1")"; id="$2"; tier="${3:-quick}"; seed="${4:-1}"
. "$(dirname "$0")/../env.sh"
work="$(mktemp -d /tmp/seedrun-XXXXXX)"
trap 'rm -rf "$work"' EXIT
rsync -a --exclude .git /repo/ "$work/repo/"
( cd "$work/repo" && patch -p1 --no-backup-if-mismatch -s < "$patch" )
race=""
if grep -q "^$id\$" "$(dirname "$0")/../race_props.txt" 2>/dev/null; then race="--race"; fi
"$(dirname "$0")/devbuild.sh" "$work/vcheck" $race --repo "$work/repo"
mkdir -p "$work/vd"; cp -r "$(dirname "$0")/../known_findings.json" "$(dirname "$0")/../known_findings.d" "$work/vd/" 2>/dev/null || true
set +e
VERIF_DIR="$work/vd" "$work/vcheck" run -prop "$id" -tier "$tier" -seed "$seed" > "$work/out.txt" 2>&1
rc=$?
{ grep -E "^VIOLATION" "$work/out.txt"; grep -E "^(KNOWN-FINDING|INCONCLUSIVE|$id tier)" "$work/out.txt"; grep -iE "^(#|.*cannot|.*undefined)" "$work/out.txt" | head -3; } | cut -c1-400 | head -${SEEDRUN_LINES:-12}
echo "exit=$rc"
exit $rc
