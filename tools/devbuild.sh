#!/bin/bash
# tools/devbuild.sh <out-binary> [--race] [--repo <scratch copy of /repo>] [--pkg ./cmd/vcheck]
# Builds the harness into <out-binary> (and <out-binary>.race with --race) without touching bin/.
# With --repo the harness is built against a scratch copy of helm (for trying breaking edits)
# through a private -modfile, so /verif/harness/go.mod and /repo stay untouched.
set -e
. "$(dirname "$0")/../env.sh"
out="$1"; shift
race=""; repo="/repo"; pkg="./cmd/vcheck"
while [ $# -gt 0 ]; do
  case "$1" in
    --race) race=1; shift;;
    --repo) repo="$2"; shift 2;;
    --pkg) pkg="$2"; shift 2;;
    *) echo "unknown arg $1" >&2; exit 2;;
  esac
done
cd "$(dirname "$0")/../harness"
mf="$(mktemp -d)/go.mod"
sed "s#=> /repo#=> $repo#" go.mod > "$mf"
cat "$repo/go.sum" go.sum.extra 2>/dev/null | sort -u > "${mf%.mod}.sum"
go build -modfile="$mf" -o "$out" "$pkg"
if [ -n "$race" ]; then go build -race -modfile="$mf" -o "$out.race" "$pkg"; fi
rm -rf "$(dirname "$mf")"
