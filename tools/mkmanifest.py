#!/usr/bin/env python3
"""Regenerates /verif/MANIFEST.json from tools/checks.json (one entry per claimed property)."""
import json, os, subprocess
root = os.path.dirname(os.path.dirname(os.path.abspath(__file__)))
checks = json.load(open(os.path.join(root, "tools", "checks.json")))
props = [json.loads(l) for l in open(os.path.join(root, "properties.jsonl"))]
claimed = {c["property_id"] for c in checks["checks"]}
out_checks = []
for c in checks["checks"]:
    pid = c["property_id"]
    e = {
        "property_id": pid,
        "quick_cmd": f"./check {pid} --tier quick",
        "thorough_cmd": f"./check {pid} --tier thorough",
        "evidence_file": f"evidence/{pid}.json",
        "replay_cmd_template": f"./check {pid} --replay {{path}}",
        "engine": "vcheck",
        "level_claimed": {"category": c["level"], "text": c["text"], "design_ref": f"DESIGN.md section 3, {pid}"},
        "level_note": c["note"],
        "technique": c["technique"],
    }
    out_checks.append(e)
na = []
for p in props:
    if p["id"] not in claimed:
        na.append({"property_id": p["id"], "reason": checks.get("not_applicable", {}).get(p["id"], "monitor not built yet (work in progress)")})
hooks_commits = checks.get("hook_commits", [])
m = {
    "version": 1,
    "setup_cmd": "./setup.sh",
    "hooks": {
        "guard": "verif",
        "enable": checks.get("hooks_enable", "no guarded source exists: all interposition happens outside helm (http.RoundTripper behind client-go, driver.Driver wrapper, kube.Interface.GetWaiter override, HTTP proxy, strace); checks build /repo's working tree through a go.mod replace"),
        "baseline_off_cmd": "cd /repo && PATH=/root/go/pkg/mod/golang.org/toolchain@v0.0.1-go1.24.0.linux-amd64/bin:$PATH GOFLAGS=-mod=mod GOPROXY=off go test -vet=off -count=1 -timeout 25m ./...",
        "source_commits": hooks_commits,
        "add_only": True,
    },
    "engines": [{"name": "vcheck", "path": "harness/cmd/vcheck", "serves_properties": sorted(claimed),
                 "kind_free_text": "Go harness: real helm packages run against a simulated API server / generated inputs in sharded worker processes; monitors judge recorded events; Go race detector and strace for the concurrency and host-access clauses"}],
    "checks": out_checks,
    "not_applicable": na,
    "notes": checks.get("notes", ""),
}
json.dump(m, open(os.path.join(root, "MANIFEST.json"), "w"), indent=1)
print("MANIFEST.json:", len(out_checks), "checks,", len(na), "not_applicable")
