#!/usr/bin/env python3
"""Renders /verif/seeded/*/meta.json and /verif/mutants/* into the detection section of DESIGN.md."""
import json, glob, os
root = os.path.dirname(os.path.dirname(os.path.abspath(__file__)))
rows = []
for d in sorted(glob.glob(os.path.join(root, "seeded", "C*-*"))):
    m = json.load(open(os.path.join(d, "meta.json")))
    det = m.get("detection", {})
    sig = ""
    fv = det.get("first_violation", "")
    if 'signature="' in fv:
        sig = fv.split('signature="', 1)[1].split('"', 1)[0]
    rows.append((os.path.basename(d), m.get("summary", "").replace("|", "\\|").replace("\n", " ")[:260],
                 m.get("needs", "").replace("|", "\\|").replace("\n", " ")[:200], det.get("verdict", "?"), sig.replace("|", "\\|")[:160]))
out = ["#### Independently seeded breaking changes (fresh sub-agents, property text only; kept under `/verif/seeded/`)\n",
       "| Seed | Change | Needs | Verdict of the property's check | First signature |", "|---|---|---|---|---|"]
for r in rows:
    out.append("| %s | %s | %s | %s | `%s` |" % r)
caught = sum(1 for r in rows if r[3].startswith("CAUGHT"))
out.append("\n%d of %d seeded changes are caught (see the notes below for the ones that were first missed and what was strengthened).\n" % (caught, len(rows)))
out.append("#### Must-catch mutants written while building (`/verif/mutants/<ID>/*.patch`, run with `tools/mutants.sh <ID>`)\n")
out.append("| Property | Mutants |")
out.append("|---|---|")
for d in sorted(glob.glob(os.path.join(root, "mutants", "C*"))):
    names = sorted(os.path.basename(p)[:-6] for p in glob.glob(os.path.join(d, "*.patch")))
    out.append("| %s | %s |" % (os.path.basename(d), ", ".join(names)))
text = "\n".join(out) + "\n"
p = os.path.join(root, "DESIGN.md")
s = open(p).read()
b, e = "<!-- DETECT:BEGIN -->", "<!-- DETECT:END -->"
if b not in s:
    s += "\n### 8.4 Which checks catch which changes\n\n" + b + "\n" + e + "\n"
s = s[:s.index(b) + len(b)] + "\n" + text + s[s.index(e):]
open(p, "w").write(s)
print("seeds:", len(rows), "caught:", caught)
