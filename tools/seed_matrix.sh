#!/bin/bash
# tools/seed_matrix.sh <seed-root> [names...] — run each seeded change against the quick (then thorough) check
# of its property on a scratch copy; writes <dir>/caught.txt.
root="$1"; shift
names="$@"; [ -z "$names" ] && names=$(ls "$root" | grep -E '^C[0-9]+-[0-9]+$')
for n in $names; do
  d="$root/$n"; id="${n%%-*}"
  out=$(SEEDRUN_LINES=3 "$(dirname "$0")/seedrun.sh" "$d/patch.diff" "$id" quick 1 2>&1); rc=$?
  tier=quick
  if [ $rc -eq 0 ] && [ -n "$SEED_THOROUGH" ]; then
    out=$(SEEDRUN_LINES=3 "$(dirname "$0")/seedrun.sh" "$d/patch.diff" "$id" thorough 1 2>&1); rc=$?; tier=thorough
  fi
  if [ $rc -eq 1 ] && echo "$out" | grep -q '^VIOLATION'; then v="CAUGHT($tier)"; elif [ $rc -eq 0 ]; then v=MISSED; else v="OTHER(rc=$rc)"; fi
  { echo "$v"; echo "$out" | cut -c1-500; } > "$d/caught.txt"
  echo "$n $v :: $(echo "$out" | grep -m1 '^VIOLATION' | grep -o 'signature="[^"]*"' | cut -c1-200)"
done
