# sourced by setup.sh and check: offline Go environment that can build /repo (needs go 1.24)
export PATH=/root/go/pkg/mod/golang.org/toolchain@v0.0.1-go1.24.0.linux-amd64/bin:$PATH
export GOFLAGS=-mod=mod GOPROXY=off GOSUMDB=off GOTOOLCHAIN=local GONOSUMDB=* GONOSUMCHECK=1 GOFLAGS="-mod=mod"
export CGO_ENABLED=1
VERIF_DIR="${VERIF_DIR:-/verif}"
export VERIF_DIR
