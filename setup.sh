#!/bin/bash
# MANIFEST.setup_cmd: build the harness binaries (plain and race) from files on disk only.
set -e
cd "$(dirname "$0")"
. ./env.sh
mkdir -p bin evidence replays
./build.sh all
