package ref

// Reference model of helm's value precedence rules (C04, C11, C13). It is deliberately tiny:
//
//   Canon         brings any values tree (json.Number, int, int64, float64, chartutil.Values ...)
//                 into one canonical representation (map[string]any, []any, string, bool, nil, float64)
//   MergeKeep     hi over lo: maps merge key by key, everything else hi wins; an explicit null in hi
//                 is an ordinary value (it masks lo and stays null).          [-f files, --set-json
//                 objects, parent section over subchart section, upgrade overlays]
//   ApplyDefaults hi over chart defaults lo: like MergeKeep, but an explicit null in hi on a key that
//                 lo defines REMOVES the key; a null on a key lo does not define stays null.
//   Diff          compares an expected tree with an observed one. An expected null means
//                 "no value may be visible here": observed null or absent both satisfy it (the property
//                 only speaks of removing a default). An expected-absent key must be absent.
//
// Nothing here is used instead of helm code; the functions only judge what helm produced.

import (
	"encoding/json"
	"fmt"
	"sort"
	"strconv"
	"strings"
)

// Canon returns a deep canonical copy of v.
func Canon(v any) any {
	switch t := v.(type) {
	case nil:
		return nil
	case map[string]any:
		out := make(map[string]any, len(t))
		for k, x := range t {
			out[k] = Canon(x)
		}
		return out
	case interface{ AsMap() map[string]any }: // chartutil.Values
		m := t.AsMap()
		out := make(map[string]any, len(m))
		for k, x := range m {
			out[k] = Canon(x)
		}
		return out
	case []any:
		out := make([]any, len(t))
		for i, x := range t {
			out[i] = Canon(x)
		}
		return out
	case []string:
		out := make([]any, len(t))
		for i, x := range t {
			out[i] = x
		}
		return out
	case string, bool:
		return t
	case json.Number:
		if f, err := strconv.ParseFloat(string(t), 64); err == nil {
			return f
		}
		return string(t)
	case float64:
		return t
	case float32:
		return float64(t)
	case int:
		return float64(t)
	case int64:
		return float64(t)
	case int32:
		return float64(t)
	case uint64:
		return float64(t)
	}
	// anything else (should not occur in values trees): go through JSON
	b, err := json.Marshal(v)
	if err != nil {
		return fmt.Sprintf("%#v", v)
	}
	var x any
	if json.Unmarshal(b, &x) != nil {
		return string(b)
	}
	return x
}

// CanonMap is Canon for a top-level map (nil -> empty map).
func CanonMap(m map[string]any) map[string]any {
	if m == nil {
		return map[string]any{}
	}
	return Canon(m).(map[string]any)
}

// MergeKeep merges hi over lo (both canonical); nulls in hi are kept as values. Inputs are not modified.
func MergeKeep(hi, lo map[string]any) map[string]any {
	out := make(map[string]any, len(hi)+len(lo))
	for k, lv := range lo {
		out[k] = Canon(lv)
	}
	for k, hv := range hi {
		hm, hok := hv.(map[string]any)
		lm, lok := lo[k].(map[string]any)
		if hok && lok {
			out[k] = MergeKeep(hm, lm)
		} else {
			out[k] = Canon(hv)
		}
	}
	return out
}

// ApplyDefaults overlays hi on the chart defaults lo; an explicit null in hi removes a key that lo
// defines. Keys listed in keepNull (subchart names) are merged with MergeKeep instead, because their
// nulls are meant for the subchart's own defaults one level down.
func ApplyDefaults(hi, lo map[string]any, keepNull map[string]bool) map[string]any {
	out := make(map[string]any, len(hi)+len(lo))
	for k, lv := range lo {
		if _, ok := hi[k]; !ok {
			out[k] = Canon(lv)
		}
	}
	for k, hv := range hi {
		lv, has := lo[k]
		if hv == nil {
			if !has {
				out[k] = nil
			}
			continue
		}
		hm, hok := hv.(map[string]any)
		lm, lok := lv.(map[string]any)
		switch {
		case hok && lok && keepNull[k]:
			out[k] = MergeKeep(hm, lm)
		case hok && lok:
			out[k] = ApplyDefaults(hm, lm, nil)
		default:
			out[k] = Canon(hv)
		}
	}
	return out
}

// Difference is one path at which an observed tree contradicts the expected one.
type Difference struct {
	Path string
	Kind string // differs | missing | extra | null-not-removed | value-under-null
	Exp  any
	Act  any
}

func (d Difference) String() string {
	return fmt.Sprintf("%s at %q: expected %s, observed %s", d.Kind, d.Path, J(d.Exp), J(d.Act))
}

// J renders a canonical tree compactly (sorted keys).
func J(v any) string {
	b, err := json.Marshal(v)
	if err != nil {
		return fmt.Sprintf("%#v", v)
	}
	return string(b)
}

// PathJoin appends a key to a display path; keys containing dots are quoted.
func PathJoin(p, k string) string {
	if strings.ContainsAny(k, ".[] ") || k == "" {
		k = strconv.Quote(k)
	}
	if p == "" {
		return k
	}
	return p + "." + k
}

// Diff compares canonical trees. compared counts the leaf positions looked at.
func Diff(exp, act any, path string, out *[]Difference, compared *int64) {
	em, eok := exp.(map[string]any)
	am, aok := act.(map[string]any)
	if eok && aok {
		keys := map[string]bool{}
		for k := range em {
			keys[k] = true
		}
		for k := range am {
			keys[k] = true
		}
		var ks []string
		for k := range keys {
			ks = append(ks, k)
		}
		sort.Strings(ks)
		for _, k := range ks {
			ev, ein := em[k]
			av, ain := am[k]
			p := PathJoin(path, k)
			switch {
			case ein && ev == nil:
				*compared++
				if ain && av != nil {
					*out = append(*out, Difference{p, "value-under-null", nil, av})
				}
			case !ein:
				*compared++
				kind := "extra"
				if av == nil {
					kind = "null-not-removed"
				}
				*out = append(*out, Difference{p, kind, "<absent>", av})
			case !ain || av == nil:
				*compared++
				if m, ok := ev.(map[string]any); ok && ain == false && onlyNulls(m) {
					continue // a table holding nothing but nulls carries no value
				}
				*out = append(*out, Difference{p, "missing", ev, "<absent>"})
			default:
				Diff(ev, av, p, out, compared)
			}
		}
		return
	}
	el, eok := exp.([]any)
	al, aok := act.([]any)
	if eok && aok {
		if len(el) != len(al) {
			*compared++
			*out = append(*out, Difference{path, "differs", exp, act})
			return
		}
		for i := range el {
			p := fmt.Sprintf("%s[%d]", path, i)
			if el[i] == nil || al[i] == nil {
				*compared++
				if el[i] != nil || al[i] != nil {
					*out = append(*out, Difference{p, "differs", el[i], al[i]})
				}
				continue
			}
			Diff(el[i], al[i], p, out, compared)
		}
		return
	}
	*compared++
	if !scalarEq(exp, act) {
		*out = append(*out, Difference{path, "differs", exp, act})
	}
}

func onlyNulls(m map[string]any) bool {
	for _, v := range m {
		if v == nil {
			continue
		}
		if mm, ok := v.(map[string]any); ok && onlyNulls(mm) {
			continue
		}
		return false
	}
	return true
}

func scalarEq(a, b any) bool {
	switch x := a.(type) {
	case nil:
		return b == nil
	case string:
		y, ok := b.(string)
		return ok && x == y
	case bool:
		y, ok := b.(bool)
		return ok && x == y
	case float64:
		y, ok := b.(float64)
		return ok && x == y
	}
	return J(a) == J(b)
}

// Equal is strict structural equality of canonical trees (nulls are ordinary values).
func Equal(a, b any) bool { return J(a) == J(b) }

// Flatten lists the leaf paths of a canonical tree (maps descend, everything else is a leaf;
// an empty map is a leaf too).
func Flatten(v any, path string, out map[string]any) {
	if m, ok := v.(map[string]any); ok && len(m) > 0 {
		for k, x := range m {
			Flatten(x, PathJoin(path, k), out)
		}
		return
	}
	out[path] = v
}
