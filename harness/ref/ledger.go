// Package ref holds the small reference models (oracles) that judge recorded events.
package ref

import (
	"fmt"
	"sort"
	"strconv"
	"strings"

	"helm.sh/helm/v4/verifh/core"
	"helm.sh/helm/v4/verifh/env"
	"helm.sh/helm/v4/verifh/sim"
)

// LedgerBasic checks the state invariants of a raw ledger: unique revisions (and record body
// agreeing with its key), at most one deployed. ctx describes the situation for the witness class.
func LedgerBasic(r *core.Result, recs []env.Rec, bad []string, ctx string, detail func() string) {
	seen := map[int]bool{}
	for _, rec := range recs {
		if seen[rec.Revision] {
			r.Add("I1-duplicate-revision", ctx, "revision %d appears twice: %s | %s", rec.Revision, env.LedgerString(recs), detail())
		}
		seen[rec.Revision] = true
		if i := strings.LastIndex(rec.ObjKey, ".v"); i >= 0 {
			if n, err := strconv.Atoi(rec.ObjKey[i+2:]); err == nil && n != rec.Revision {
				r.Add("I1-key-mismatch", ctx, "record %s holds revision %d | %s", rec.ObjKey, rec.Revision, detail())
			}
		}
		if rec.Revision <= 0 {
			r.Add("I1-nonpositive-revision", ctx, "record %s holds revision %d | %s", rec.ObjKey, rec.Revision, detail())
		}
	}
	for _, b := range bad {
		r.Add("I1-unreadable-record", ctx, "record %s cannot be decoded | %s", b, detail())
	}
	d := 0
	for _, rec := range recs {
		if rec.Status == "deployed" {
			d++
		}
	}
	if d > 1 {
		r.Add("I3-multiple-deployed", ctx, "%d revisions are marked deployed: %s | %s", d, env.LedgerString(recs), detail())
	}
}

// MaxRev returns the highest revision (0 for an empty ledger).
func MaxRev(recs []env.Rec) int {
	m := 0
	for _, r := range recs {
		if r.Revision > m {
			m = r.Revision
		}
	}
	return m
}

// LatestDeployed returns the highest revision marked deployed, or nil.
func LatestDeployed(recs []env.Rec) *env.Rec {
	var out *env.Rec
	for i := range recs {
		if recs[i].Status == "deployed" && (out == nil || recs[i].Revision > out.Revision) {
			out = &recs[i]
		}
	}
	return out
}

func Find(recs []env.Rec, rev int) *env.Rec {
	for i := range recs {
		if recs[i].Revision == rev {
			return &recs[i]
		}
	}
	return nil
}

// StorageKeyRev parses "sh.helm.release.v1.<name>.v<N>" (or "<name>.v<N>").
func StorageKeyRev(key string) (int, bool) {
	i := strings.LastIndex(key, ".v")
	if i < 0 {
		return 0, false
	}
	n, err := strconv.Atoi(key[i+2:])
	return n, err == nil
}

// CreatedRevisions lists, in log order, the revisions successfully created in storage by the
// given agents ("" = any).
func CreatedRevisions(log []sim.Event, agent string) []sim.Event {
	var out []sim.Event
	for _, e := range log {
		if e.Phase == "done" && e.Class == "storage" && e.Method == "POST" && e.Code == 201 && !e.Injected && (agent == "" || e.Agent == agent) {
			out = append(out, e)
		}
	}
	return out
}

// CheckCreates verifies I2: every storage create of the agent used revision max(existing)+1,
// where existing = ledger at op start plus revisions created since (own pruning ignored).
func CheckCreates(r *core.Result, before []env.Rec, log []sim.Event, agent, ctx string, detail func() string) {
	max := MaxRev(before)
	for _, e := range CreatedRevisions(log, agent) {
		n, ok := StorageKeyRev(e.Name)
		if !ok {
			continue
		}
		if n != max+1 {
			r.Add("I2-revision-not-max-plus-one", ctx, "created revision %d while the highest existing one was %d | %s", n, max, detail())
		}
		if n > max {
			max = n
		}
	}
}

// CheckPruning verifies I5 for an op that ran with history limit n. "Removes only the oldest,
// never the deployed one" is judged on the before/after ledgers. "Leaves at most n (n+1 when the
// deployed revision was protected)" is judged at the moment pruning happened, i.e. right after
// the op's first storage create (reconstructed from the log: ledger at op start minus the op's
// deletes plus its create); a revision appended later by --atomic's internal rollback, which the
// code runs without a limit, is not pruning. sizeClause is false when storage was faulted.
func CheckPruning(r *core.Result, before, after []env.Rec, log []sim.Event, agent string, n int, sizeClause bool, ctx string, detail func() string) {
	if n <= 0 {
		return
	}
	afterSet := map[int]bool{}
	for _, a := range after {
		afterSet[a.Revision] = true
	}
	prot := LatestDeployed(before)
	// state right after the first create of the op
	present := map[int]bool{}
	for _, b := range before {
		present[b.Revision] = true
	}
	created := false
	for _, e := range log {
		if e.Agent != agent || e.Phase != "done" || e.Class != "storage" || e.Injected || e.Cut {
			continue
		}
		rev, ok := StorageKeyRev(e.Name)
		if !ok {
			continue
		}
		if e.Method == "DELETE" && e.Code == 200 {
			delete(present, rev)
		}
		if e.Method == "POST" && e.Code == 201 {
			present[rev] = true
			created = true
			break
		}
	}
	for _, b := range before {
		if present[b.Revision] || !created {
			continue
		}
		// b was pruned by this op's create
		if prot != nil && b.Revision == prot.Revision {
			r.Add("I5-pruned-deployed", ctx, "pruning removed the currently deployed revision %d: before [%s] after [%s] | %s", b.Revision, env.LedgerString(before), env.LedgerString(after), detail())
		}
		for _, k := range before {
			if present[k.Revision] && k.Revision < b.Revision && !(prot != nil && k.Revision == prot.Revision) {
				r.Add("I5-pruned-not-oldest", ctx, "pruning removed revision %d but kept older revision %d: before [%s] after [%s] | %s", b.Revision, k.Revision, env.LedgerString(before), env.LedgerString(after), detail())
			}
		}
	}
	if sizeClause && created && len(present) > n {
		ok := false
		if len(present) == n+1 && prot != nil && present[prot.Revision] {
			oldest := true
			for rev := range present {
				if rev < prot.Revision {
					oldest = false
				}
			}
			ok = oldest
		}
		if !ok {
			var revs []int
			for rev := range present {
				revs = append(revs, rev)
			}
			sort.Ints(revs)
			r.Add("I5-history-limit-exceeded", ctx, "history limit %d but revisions %v existed right after the op created its revision: before [%s] after [%s] | %s", n, revs, env.LedgerString(before), env.LedgerString(after), detail())
		}
	}
}

// HistoryAgrees verifies I6: helm's Storage.History sees what the raw ledger holds.
func HistoryAgrees(r *core.Result, w *env.World, name string, recs []env.Rec, ctx string, detail func() string) {
	h, err := w.Config("checker").Releases.History(name)
	if err != nil && len(recs) > 0 {
		r.Add("I6-history-error", ctx, "Storage.History failed (%v) although the raw ledger holds [%s] | %s", err, env.LedgerString(recs), detail())
		return
	}
	var a, b []string
	for _, x := range h {
		a = append(a, fmt.Sprintf("%d:%s", x.Version, x.Info.Status))
	}
	for _, x := range recs {
		b = append(b, fmt.Sprintf("%d:%s", x.Revision, x.Status))
	}
	sort.Strings(a)
	sort.Strings(b)
	if strings.Join(a, " ") != strings.Join(b, " ") {
		r.Add("I6-history-disagrees", ctx, "Storage.History [%s] vs raw ledger [%s] | %s", strings.Join(a, " "), strings.Join(b, " "), detail())
	}
}
