package ref

// Reference helpers over the simulated object store that are independent of helm's own
// manifest handling (shared by C02 and C07):
//   - ParseManifest: split + decode a recorded manifest stream with sigs.k8s.io/yaml and map every
//     document to the store key it addresses;
//   - ReleaseObjectKeys: every store key named by a manifest or hook of a set of ledger records;
//   - Subsumes: "the live object carries every field the manifest document specifies";
//   - OwnershipProblems: the three ownership items of C07.

import (
	"encoding/json"
	"fmt"
	"sort"
	"strings"

	"k8s.io/apimachinery/pkg/runtime/schema"
	"k8s.io/apimachinery/pkg/util/strategicpatch"
	"k8s.io/client-go/kubernetes/scheme"
	"sigs.k8s.io/yaml"

	"helm.sh/helm/v4/verifh/env"
	"helm.sh/helm/v4/verifh/sim"
)

const (
	PolicyAnno      = "helm.sh/resource-policy"
	ManagedByLabel  = "app.kubernetes.io/managed-by"
	RelNameAnno     = "meta.helm.sh/release-name"
	RelNamespaceAnn = "meta.helm.sh/release-namespace"
)

// Doc is one manifest document.
type Doc struct {
	APIVersion, Kind, NS, Name string
	Res                        *sim.Res // nil when the kind is not served by the simulator
	Key                        string   // store key ("" when Res == nil)
	Obj                        map[string]any
	HasPolicy                  bool   // the document carries the helm.sh/resource-policy annotation
	Policy                     string // its raw value
}

func (d Doc) String() string { return d.Kind + "/" + d.Name }

// Typed reports whether the kind is a built-in (strategic-merge, 3-way) kind.
func (d Doc) Typed() bool { return d.Res != nil && d.Res.Group != "example.com" }

// SplitYAMLDocs splits a YAML stream at lines that consist of "---".
func SplitYAMLDocs(stream string) []string {
	var docs []string
	var cur []string
	flush := func() {
		if len(cur) > 0 {
			docs = append(docs, strings.Join(cur, "\n"))
		}
		cur = nil
	}
	for _, line := range strings.Split(stream, "\n") {
		if t := strings.TrimRight(line, " \t\r"); t == "---" {
			flush()
			continue
		}
		cur = append(cur, line)
	}
	flush()
	return docs
}

// ParseManifest decodes every document of a manifest stream. Documents without content
// (comments only) are skipped; undecodable ones are reported in problems.
func ParseManifest(manifest, defaultNS string) (docs []Doc, problems []string) {
	for _, raw := range SplitYAMLDocs(manifest) {
		var o map[string]any
		if err := yaml.Unmarshal([]byte(raw), &o); err != nil {
			problems = append(problems, fmt.Sprintf("undecodable document: %v", err))
			continue
		}
		if len(o) == 0 {
			continue
		}
		d := Doc{Obj: o}
		d.APIVersion, _ = o["apiVersion"].(string)
		d.Kind, _ = o["kind"].(string)
		md, _ := o["metadata"].(map[string]any)
		d.Name, _ = md["name"].(string)
		d.NS, _ = md["namespace"].(string)
		if ann, ok := md["annotations"].(map[string]any); ok {
			if v, ok := ann[PolicyAnno]; ok {
				d.HasPolicy = true
				d.Policy = fmt.Sprint(v)
			}
		}
		d.Res = sim.FindKind(d.APIVersion, d.Kind)
		if d.Res != nil {
			if d.Res.Namespaced {
				if d.NS == "" {
					d.NS = defaultNS
				}
			} else {
				d.NS = ""
			}
			d.Key = sim.Key(d.Res.Group, d.Res.Plural, d.NS, d.Name)
		}
		docs = append(docs, d)
	}
	return
}

// HookDocs decodes the manifests of the hooks stored in a ledger record.
func HookDocs(rec env.Rec, defaultNS string) []Doc {
	var hooks []struct {
		Manifest string `json:"manifest"`
	}
	if err := json.Unmarshal([]byte(rec.Hooks), &hooks); err != nil {
		return nil
	}
	var out []Doc
	for _, h := range hooks {
		d, _ := ParseManifest(h.Manifest, defaultNS)
		out = append(out, d...)
	}
	return out
}

// ReleaseObjectKeys adds the store key of every object named in a manifest or hook of the given
// records to into (allocated when nil).
func ReleaseObjectKeys(into map[string]bool, recs []env.Rec, defaultNS string) map[string]bool {
	if into == nil {
		into = map[string]bool{}
	}
	for _, r := range recs {
		docs, _ := ParseManifest(r.Manifest, defaultNS)
		for _, d := range append(docs, HookDocs(r, defaultNS)...) {
			if d.Key != "" {
				into[d.Key] = true
			}
		}
	}
	return into
}

// TopRec returns the record with the highest revision or nil.
func TopRec(recs []env.Rec) *env.Rec {
	var out *env.Rec
	for i := range recs {
		if out == nil || recs[i].Revision > out.Revision {
			out = &recs[i]
		}
	}
	return out
}

// IsReleaseRecordKey reports whether a store key is a storage record of the named release.
func IsReleaseRecordKey(key, ns, rel string) bool {
	for _, plural := range []string{"secrets", "configmaps"} {
		if strings.HasPrefix(key, sim.Key("", plural, ns, "sh.helm.release.v1."+rel+".v")) {
			return true
		}
	}
	return false
}

// LiveAnnotation reads metadata.annotations[k] of a stored object.
func LiveAnnotation(o map[string]any, k string) (string, bool) {
	md, _ := o["metadata"].(map[string]any)
	ann, _ := md["annotations"].(map[string]any)
	v, ok := ann[k]
	if !ok {
		return "", false
	}
	return fmt.Sprint(v), true
}

// LiveLabel reads metadata.labels[k] of a stored object.
func LiveLabel(o map[string]any, k string) (string, bool) {
	md, _ := o["metadata"].(map[string]any)
	l, _ := md["labels"].(map[string]any)
	v, ok := l[k]
	if !ok {
		return "", false
	}
	return fmt.Sprint(v), true
}

// LiveLabelOr / LiveAnnotationOr return "" when the key is absent.
func LiveLabelOr(o map[string]any, k string) string      { v, _ := LiveLabel(o, k); return v }
func LiveAnnotationOr(o map[string]any, k string) string { v, _ := LiveAnnotation(o, k); return v }

// DecodeObj decodes a snapshot entry.
func DecodeObj(s string) map[string]any {
	if s == "" {
		return nil
	}
	var o map[string]any
	json.Unmarshal([]byte(s), &o)
	return o
}

// OwnershipProblems lists which of the three ownership items are missing or wrong.
func OwnershipProblems(o map[string]any, rel, ns string) []string {
	var p []string
	if v, ok := LiveLabel(o, ManagedByLabel); !ok {
		p = append(p, "label "+ManagedByLabel+" missing")
	} else if v != "Helm" {
		p = append(p, fmt.Sprintf("label %s=%q", ManagedByLabel, v))
	}
	if v, ok := LiveAnnotation(o, RelNameAnno); !ok {
		p = append(p, "annotation "+RelNameAnno+" missing")
	} else if v != rel {
		p = append(p, fmt.Sprintf("annotation %s=%q (want %q)", RelNameAnno, v, rel))
	}
	if v, ok := LiveAnnotation(o, RelNamespaceAnn); !ok {
		p = append(p, "annotation "+RelNamespaceAnn+" missing")
	} else if v != ns {
		p = append(p, fmt.Sprintf("annotation %s=%q (want %q)", RelNamespaceAnn, v, ns))
	}
	return p
}

// ---------------------------------------------------------------- subsumption

func patchMetaFor(res *sim.Res) (pm strategicpatch.LookupPatchMeta) {
	if res == nil {
		return nil
	}
	defer func() {
		if recover() != nil {
			pm = nil
		}
	}()
	obj, err := scheme.Scheme.New(schema.GroupVersionKind{Group: res.Group, Version: res.Version, Kind: res.Kind})
	if err != nil {
		return nil
	}
	m, err := strategicpatch.NewPatchMetaFromStruct(obj)
	if err != nil {
		return nil
	}
	return m
}

// Subsumes returns the list of differences that refute "live carries every field that want
// specifies": maps are compared recursively on want's keys only, scalars must be equal
// (numbers numerically), lists whose API type declares a strategic-merge key are matched by
// that key (extra live elements are fine), all other lists must have the same length and
// subsume element-wise. res selects the Kubernetes type whose patch metadata is used (none for
// custom kinds).
func Subsumes(live, want map[string]any, res *sim.Res) []string {
	var out []string
	subsume(live, want, patchMetaFor(res), "", &out)
	return out
}

func lookupStruct(pm strategicpatch.LookupPatchMeta, k string) (sub strategicpatch.LookupPatchMeta) {
	if pm == nil {
		return nil
	}
	defer func() {
		if recover() != nil {
			sub = nil
		}
	}()
	s, _, err := pm.LookupPatchMetadataForStruct(k)
	if err != nil {
		return nil
	}
	return s
}

func lookupSlice(pm strategicpatch.LookupPatchMeta, k string) (sub strategicpatch.LookupPatchMeta, mergeKey string) {
	if pm == nil {
		return nil, ""
	}
	defer func() {
		if recover() != nil {
			sub, mergeKey = nil, ""
		}
	}()
	s, m, err := pm.LookupPatchMetadataForSlice(k)
	if err != nil {
		return nil, ""
	}
	return s, m.GetPatchMergeKey()
}

func short(v any) string {
	b, _ := json.Marshal(v)
	if len(b) > 80 {
		return string(b[:80]) + "..."
	}
	return string(b)
}

func subsume(live, want any, pm strategicpatch.LookupPatchMeta, path string, out *[]string) {
	switch w := want.(type) {
	case nil:
		return // a null in the manifest specifies nothing
	case map[string]any:
		l, ok := live.(map[string]any)
		if !ok {
			*out = append(*out, fmt.Sprintf("%s: manifest has a map, live has %s", path, short(live)))
			return
		}
		keys := make([]string, 0, len(w))
		for k := range w {
			keys = append(keys, k)
		}
		sort.Strings(keys)
		for _, k := range keys {
			wv := w[k]
			if wv == nil {
				continue
			}
			lv, ok := l[k]
			if !ok {
				*out = append(*out, fmt.Sprintf("%s.%s: missing in live object (manifest: %s)", path, k, short(wv)))
				continue
			}
			switch wv.(type) {
			case map[string]any:
				subsume(lv, wv, lookupStruct(pm, k), path+"."+k, out)
			case []any:
				sub, mk := lookupSlice(pm, k)
				subsumeList(lv, wv.([]any), sub, mk, path+"."+k, out)
			default:
				subsume(lv, wv, nil, path+"."+k, out)
			}
		}
	case []any:
		subsumeList(live, w, nil, "", path, out)
	default:
		if !scalarEqual(live, want) {
			*out = append(*out, fmt.Sprintf("%s: manifest %s, live %s", path, short(want), short(live)))
		}
	}
}

func scalarEqual(a, b any) bool {
	switch x := a.(type) {
	case float64:
		y, ok := b.(float64)
		return ok && x == y
	case string:
		y, ok := b.(string)
		return ok && x == y
	case bool:
		y, ok := b.(bool)
		return ok && x == y
	}
	return false
}

func subsumeList(live any, want []any, elem strategicpatch.LookupPatchMeta, mergeKey, path string, out *[]string) {
	l, ok := live.([]any)
	if !ok {
		*out = append(*out, fmt.Sprintf("%s: manifest has a list, live has %s", path, short(live)))
		return
	}
	if mergeKey != "" {
		for _, we := range want {
			wm, ok := we.(map[string]any)
			if !ok {
				continue
			}
			kv, has := wm[mergeKey]
			if !has {
				continue
			}
			var match any
			for _, le := range l {
				if lm, ok := le.(map[string]any); ok && scalarEqual(lm[mergeKey], kv) {
					match = le
					break
				}
			}
			if match == nil {
				*out = append(*out, fmt.Sprintf("%s[%s=%s]: element missing in live list", path, mergeKey, short(kv)))
				continue
			}
			subsume(match, we, elem, fmt.Sprintf("%s[%s=%s]", path, mergeKey, short(kv)), out)
		}
		return
	}
	if len(l) != len(want) {
		*out = append(*out, fmt.Sprintf("%s: manifest list %s, live list %s", path, short(want), short(live)))
		return
	}
	for i := range want {
		subsume(l[i], want[i], elem, fmt.Sprintf("%s[%d]", path, i), out)
	}
}
