package ref

// Structured reference for helm's --set family ("strvals"): a set-expression is a path (map keys and
// list indexes) plus a value; applying it changes exactly that path. The printer renders the
// structured operation in the documented grammar (backslash escapes, [i] indexes, {a,b} lists,
// typed literals); the oracle applies the structured form and compares whole trees.

import (
	"encoding/json"
	"fmt"
	"strconv"
	"strings"
)

// Seg is one path segment.
type Seg struct {
	Key   string `json:"k,omitempty"`
	Idx   int    `json:"i,omitempty"`
	IsIdx bool   `json:"x,omitempty"`
}

// SetOp is one structured set-expression. Val is canonical (string, bool, nil, float64, []any, map).
type SetOp struct {
	Path []Seg `json:"path"`
	Val  any   `json:"val"`
	// Text overrides how the value is spelled in --set syntax (e.g. "TRUE", "Null"); "" = default.
	Text string `json:"text,omitempty"`
	// ItemText does the same for the items of a {a,b} list ("" = default spelling of that item).
	ItemText []string `json:"itemText,omitempty"`
}

func (o SetOp) PathString() string {
	var b strings.Builder
	for i, s := range o.Path {
		if s.IsIdx {
			fmt.Fprintf(&b, "[%d]", s.Idx)
			continue
		}
		if i > 0 {
			b.WriteByte('.')
		}
		b.WriteString(strconv.Quote(s.Key))
	}
	return b.String()
}

// ApplySet applies op to the canonical tree root in place. conflict is true when the path runs
// through existing data of another type (scalar/null where a map or list is needed, map where a
// list is needed ...): helm's outcome for those is not pinned down by the property.
func ApplySet(root map[string]any, op SetOp) (conflict bool) {
	if len(op.Path) == 0 || op.Path[0].IsIdx {
		return true
	}
	return setInMap(root, op.Path, Canon(op.Val))
}

func setInMap(m map[string]any, path []Seg, val any) bool {
	k := path[0].Key
	if len(path) == 1 {
		m[k] = val
		return false
	}
	ex, has := m[k]
	if path[1].IsIdx {
		var l []any
		if has {
			var ok bool
			if l, ok = ex.([]any); !ok {
				return true
			}
		}
		l, c := setInList(l, path[1:], val)
		if c {
			return true
		}
		m[k] = l
		return false
	}
	inner := map[string]any{}
	if has {
		var ok bool
		if inner, ok = ex.(map[string]any); !ok {
			return true
		}
	}
	if setInMap(inner, path[1:], val) {
		return true
	}
	m[k] = inner
	return false
}

func setInList(l []any, path []Seg, val any) ([]any, bool) {
	i := path[0].Idx
	if i < 0 {
		return l, true
	}
	for len(l) <= i {
		l = append(l, nil)
	}
	if len(path) == 1 {
		l[i] = val
		return l, false
	}
	ex := l[i]
	if path[1].IsIdx {
		var sub []any
		if ex != nil {
			var ok bool
			if sub, ok = ex.([]any); !ok {
				return l, true
			}
		}
		sub, c := setInList(sub, path[1:], val)
		if c {
			return l, true
		}
		l[i] = sub
		return l, false
	}
	inner := map[string]any{}
	if ex != nil {
		var ok bool
		if inner, ok = ex.(map[string]any); !ok {
			return l, true
		}
	}
	if setInMap(inner, path[1:], val) {
		return l, true
	}
	l[i] = inner
	return l, false
}

// LookAlike: strings that resemble a typed literal but are NOT one in the documented --set grammar
// (only true/false/null in any letter case, "0" and integers without a leading zero are typed).
var LookAlike = map[string]bool{"t": true, "T": true, "f": true, "F": true, "y": true, "n": true, "yes": true, "no": true, "Yes": true, "NO": true,
	"on": true, "off": true, "On": true, "OFF": true, "~": true, "nil": true, "none": true, "tru": true, "falsy": true, "nul": true}

// Features describes which grammar features an expression exercises (for evidence keys).
type Features struct {
	Escape, Index, NestedIndex, Sparse, Typed, List, Unicode, Deep bool
}

func (f Features) String() string {
	var p []string
	for _, x := range []struct {
		on bool
		n  string
	}{{f.Escape, "esc"}, {f.Index, "idx"}, {f.NestedIndex, "idx2"}, {f.Sparse, "sparse"}, {f.Typed, "typed"}, {f.List, "list"}, {f.Unicode, "uni"}, {f.Deep, "deep"}} {
		if x.on {
			p = append(p, x.n)
		}
	}
	if len(p) == 0 {
		return "plain"
	}
	return strings.Join(p, "+")
}

func escKey(k string, f *Features) string {
	var b strings.Builder
	for _, r := range k {
		switch r {
		case '.', ',', '=', '[', '\\':
			b.WriteByte('\\')
			f.Escape = true
		}
		if r > 127 {
			f.Unicode = true
		}
		b.WriteRune(r)
	}
	return b.String()
}

func pathExpr(path []Seg, escape bool, f *Features) string {
	var b strings.Builder
	nidx := 0
	for i, s := range path {
		if s.IsIdx {
			fmt.Fprintf(&b, "[%d]", s.Idx)
			f.Index = true
			nidx++
			if i > 0 && path[i-1].IsIdx {
				f.NestedIndex = true
			}
			continue
		}
		if i > 0 {
			b.WriteByte('.')
		}
		if escape {
			b.WriteString(escKey(s.Key, f))
		} else {
			b.WriteString(s.Key)
		}
	}
	if len(path) >= 4 {
		f.Deep = true
	}
	return b.String()
}

func escVal(s string, inList bool, f *Features) string {
	var b strings.Builder
	for i, r := range s {
		switch {
		case r == ',' || r == '\\', inList && r == '}', i == 0 && r == '{':
			b.WriteByte('\\')
			f.Escape = true
		}
		if r > 127 {
			f.Unicode = true
		}
		b.WriteRune(r)
	}
	return b.String()
}

func scalarText(v any, text string, inList bool, f *Features) string {
	if text != "" {
		f.Typed = true
		return text
	}
	switch t := v.(type) {
	case nil:
		f.Typed = true
		return "null"
	case bool:
		f.Typed = true
		return strconv.FormatBool(t)
	case float64:
		f.Typed = true
		return strconv.FormatInt(int64(t), 10)
	case string:
		if t != "" && (t[0] == '0' || t[0] == '-') || LookAlike[t] {
			f.Typed = true // leading-zero / dash strings and literal look-alikes probe the typing rule
		}
		return escVal(t, inList, f)
	}
	panic(fmt.Sprintf("scalarText: unsupported %T", v))
}

// Expr renders the operation for the given flag kind: set | set-string | set-json | set-literal.
// For set-file use ExprWithValue with the file path.
func (o SetOp) Expr(kind string) (string, Features) {
	var f Features
	switch kind {
	case "set", "set-string":
		p := pathExpr(o.Path, true, &f)
		if l, ok := o.Val.([]any); ok {
			f.List = true
			var items []string
			for i, it := range l {
				txt := ""
				if i < len(o.ItemText) {
					txt = o.ItemText[i]
				}
				items = append(items, scalarText(it, txt, true, &f))
			}
			return p + "={" + strings.Join(items, ",") + "}", f
		}
		return p + "=" + scalarText(o.Val, o.Text, false, &f), f
	case "set-json":
		p := pathExpr(o.Path, true, &f)
		b, err := json.Marshal(o.Val)
		if err != nil {
			panic(err)
		}
		if o.Val == nil && o.Text == "empty" {
			return p + "=", f
		}
		return p + "=" + string(b), f
	case "set-literal":
		p := pathExpr(o.Path, false, &f)
		return p + "=" + o.Val.(string), f
	}
	panic("unknown kind " + kind)
}

// ExprWithValue renders path=value with a caller-supplied raw value text (set-file paths).
func (o SetOp) ExprWithValue(raw string) (string, Features) {
	var f Features
	return pathExpr(o.Path, true, &f) + "=" + raw, f
}
