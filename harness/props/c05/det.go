package c05

import (
	"fmt"
	"math/rand"
	"os"
	"path/filepath"
	"strings"
	"sync"

	chart "helm.sh/helm/v4/pkg/chart/v2"
	"helm.sh/helm/v4/verifh/core"
)

// confirmation group sizes: in a changed state the group only has to agree with itself (20 renders:
// a false "depends-on" claim would need all of them to hit the same rare variant while the base
// group of >= 6 renders all hit the other); for concurrency the sequential group has to reproduce
// the deviating variant, so it is larger.
const (
	confirmState      = 20
	confirmSequential = 128
)

// judge attributes differences between renders of ONE chart to a cause shape.
//
//   - a component (manifest / notes / hooks / outcome) that differs between two renders made in
//     the SAME state (phase "repeat": fresh load from the same in-memory files, same values, same
//     flags, same environment) is non-deterministic: clause nondet-<component>;
//   - a component that is stable under repetition but differs after a change of something the
//     output must not depend on (reload from archive / directory, environment, cwd, host files)
//     is reported as <component>-depends-on-<phase>. Before saying so, the chart is re-rendered
//     20 more times in the changed state (same loader, same environment); if those disagree among
//     themselves the difference is attributed to non-determinism instead (map-order effects
//     can be rare, e.g. 1/8 for a two-entry Go map).
type judge struct {
	res       *core.Result
	cs        *chartSpec
	can       *canaries
	base      snap
	nondet    map[string]bool
	reported  map[string]bool
	confirmed map[string]bool
	again     func() snap // render once more from a fresh in-memory load
	idx       int
}

func (j *judge) witness() string {
	return fmt.Sprintf("[replay: set \"only\":%d] chart %s (%s) flags %s; files: %s", j.idx, j.cs.Name, j.cs.shape(), j.cs.Flags, strings.Join(sortedNames(j.cs.Files), " "))
}

func (j *judge) report(clause, comp string, a, b snap, phase string) {
	fc := featureClass(comp, j.cs)
	if comp == "manifest" && strings.HasSuffix(clause, "archive-member-order") {
		fc = featureClass("manifest/archive-member-order", j.cs)
	}
	class := diagnose(comp, a, b) + "; " + fc
	key := clause + "|" + class
	if j.reported[key] {
		return
	}
	j.reported[key] = true
	j.res.Add(clause, class, "phase %s: %s | %s", phase, diffWitness(comp, a, b), j.witness())
}

func (j *judge) leak(phase string, s snap) {
	for where, text := range s.allText() {
		if src, k := j.can.find(text); k != "" {
			key := "leak|" + src + where
			if j.reported[key] {
				continue
			}
			j.reported[key] = true
			j.res.Add("canary-leak", fmt.Sprintf("canary planted in %s appears in %s of a render", src, where), "phase %s: canary %s found in %s | %s", phase, k, where, j.witness())
		}
	}
	j.res.Stat("canary_probes", 1)
}

// confirm renders n more times the way the deviating render was made; disagreement inside that
// group (ref = the deviating render itself) means non-determinism.
func (j *judge) confirm(phase string, ref snap, again func() snap, n int) {
	if j.confirmed[phase] {
		return
	}
	j.confirmed[phase] = true
	for i := 0; i < n; i++ {
		s := again()
		for _, c := range differing(ref, s) {
			if !j.nondet[c] {
				j.nondet[c] = true
				j.report("nondet-"+c, c, ref, s, "confirmation group of phase "+phase)
			}
		}
	}
	j.res.Stat("confirmation_renders", int64(n))
}

func (j *judge) compare(phase string, s snap, again func() snap) {
	j.res.Stat("renders_compared", 1)
	j.leak(phase, s)
	for _, c := range differing(j.base, s) {
		if j.nondet[c] {
			continue
		}
		if phase == "repeat" {
			j.nondet[c] = true
			j.report("nondet-"+c, c, j.base, s, phase)
			continue
		}
		if phase == "concurrent-installs" {
			// is a deviating variant reachable sequentially? (ref = the sequential base)
			j.confirm(phase, j.base, again, confirmSequential)
		} else {
			j.confirm(phase, s, again, confirmState)
		}
		if j.nondet[c] {
			continue
		}
		j.report(c+"-depends-on-"+phase, c, j.base, s, phase)
	}
}

type detParams struct {
	repeats   int
	envStates int
}

// runDetChart performs all sequential renders of one chart.
func runDetChart(res *core.Result, cs *chartSpec, rng *rand.Rand, root string, idx int, p detParams, can *canaries, verbose bool) {
	j := &judge{res: res, cs: cs, can: can, nondet: map[string]bool{}, reported: map[string]bool{}, confirmed: map[string]bool{}, idx: idx}
	fresh := func() *chart.Chart { return cs.Files.Build() }
	j.again = func() snap { return renderInstall(fresh(), cs.Vals, cs.Flags, nil) }
	saved := saveEnv()
	defer saved.restore()

	if core.Guard(res, "render of a generated chart", func() { j.base = j.again() }) {
		return
	}
	j.leak("base", j.base)
	res.Evals++
	if verbose {
		fmt.Printf("==== chart %d %s\n", idx, j.witness())
		for _, n := range sortedNames(cs.Files) {
			fmt.Printf("--- %s\n%s\n", n, cs.Files[n])
		}
		fmt.Printf("values: %v\nbase: err=%v %s\n--- manifest\n%s\n--- notes\n%s\n--- %d hooks\n", cs.Vals, j.base.Err, j.base.ErrText, j.base.Manifest, j.base.Notes, len(j.base.Hooks))
	}
	if j.base.Err != cs.Feat.Fails {
		res.Add("generator-expectation", "render outcome differs from what the generator intended", "err=%q intended-failure=%v | %s", j.base.ErrText, cs.Feat.Fails, j.witness())
	}
	// (1) repetition, fresh in-memory load each time
	for i := 0; i < p.repeats; i++ {
		j.compare("repeat", j.again(), j.again)
		res.Evals++
	}
	// (1a) the SAME chart object installed (dry-run) again and again: a render must not leave traces
	// in the chart object (defaults are copied for every render)
	core.Guard(res, "repeated dry-run install of one chart object", func() {
		ch := fresh()
		same := func() snap { return renderInstall(ch, cs.Vals, cs.Flags, nil) }
		for i := 0; i < 3; i++ {
			j.compare("re-render-of-the-same-chart-object", same(), same)
			res.Stat("same_object_installs_compared", 1)
			res.Evals++
		}
	})
	// (1c) other renders in between: client-only render on configuration A, an unrelated client-only
	// render with another --api-versions value on configuration B, then A again — client-only, and
	// as a plain dry-run that re-uses the capabilities the first render left on configuration A
	core.Guard(res, "renders interleaved with renders of another configuration", func() {
		cfgA := offlineConfig()
		onA := func() snap { return renderInstall(fresh(), cs.Vals, cs.Flags, cfgA) }
		j.compare("other-renders-in-between", onA(), onA)
		renderNeighbour(cs.Flags.APIVersions)
		again := func() snap {
			renderNeighbour(cs.Flags.APIVersions)
			return dryRunOnConfig(fresh(), cs.Vals, cs.Flags, cfgA)
		}
		j.compare("other-renders-in-between", dryRunOnConfig(fresh(), cs.Vals, cs.Flags, cfgA), again)
		renderNeighbour(cs.Flags.APIVersions)
		j.compare("other-renders-in-between", onA(), onA)
		res.Stat("interleaved_renders_compared", 3)
		res.Evals += 3
	})
	// (1b) ToRenderValues + engine.Render repeatedly on ONE loaded chart object
	core.Guard(res, "engine.Render of a generated chart", func() {
		ch, top, err := prepareEngine(cs)
		if err != nil {
			res.Add("generator-expectation", "ProcessDependencies failed on a generated chart", "err=%v | %s", err, j.witness())
			return
		}
		ref := engineRender(ch, top, false)
		if ref.Err != cs.Feat.Fails {
			res.Add("generator-expectation", "engine render outcome differs from what the generator intended", "err=%q intended-failure=%v | %s", ref.Text, cs.Feat.Fails, j.witness())
		}
		for i := 0; i < p.repeats; i++ {
			s := engineRender(ch, top, false)
			res.Stat("engine_renders_compared", 1)
			res.Evals++
			if k, d := engDiff(ref, s); k != "" {
				res.Add("nondet-engine-render", k+" differs between two ToRenderValues+engine.Render runs on the same chart object", "%s | %s", d, j.witness())
				break
			}
			for k, v := range s.Files {
				if src, c := can.find(v); c != "" {
					res.Add("canary-leak", "canary planted in "+src+" appears in engine.Render output", "canary %s in %s | %s", c, k, j.witness())
				}
			}
		}
	})
	// (2) reload from archive / directory
	dir := filepath.Join(root, fmt.Sprintf("c05-chartdir-%d", idx), cs.Name)
	arch := filepath.Join(root, fmt.Sprintf("c05-chartdir-%d", idx), cs.Name+"-0.1.0.tgz")
	arch2 := filepath.Join(root, fmt.Sprintf("c05-chartdir-%d", idx), cs.Name+"-0.1.0-shuffled.tgz")
	defer os.RemoveAll(filepath.Join(root, fmt.Sprintf("c05-chartdir-%d", idx)))
	if err := writeDir(cs.Files, dir); err != nil {
		res.Inconclusive = "cannot write chart dir: " + err.Error()
		return
	}
	names := sortedNames(cs.Files)
	if err := writeArchive(cs.Files, cs.Name, arch, names); err != nil {
		res.Inconclusive = "cannot write archive: " + err.Error()
		return
	}
	sh := append([]string(nil), names...)
	rng.Shuffle(len(sh), func(a, b int) { sh[a], sh[b] = sh[b], sh[a] })
	if err := writeArchive(cs.Files, cs.Name, arch2, sh); err != nil {
		res.Inconclusive = "cannot write archive: " + err.Error()
		return
	}
	reload := func(phase, path string, n int) {
		for i := 0; i < n; i++ {
			ch, err := loadFrom(path)
			if err != nil {
				res.Add("reload-failed", "chart that loads from memory fails to load from "+phase, "err=%v | %s", err, j.witness())
				return
			}
			again := func() snap {
				c2, err := loadFrom(path)
				if err != nil {
					return snap{Err: true, ErrText: err.Error()}
				}
				return renderInstall(c2, cs.Vals, cs.Flags, nil)
			}
			j.compare(phase, renderInstall(ch, cs.Vals, cs.Flags, nil), again)
			res.Stat("reloads", 1)
			res.Evals++
		}
	}
	reload("reload-from-archive", arch, 2)
	reload("reload-from-directory", dir, 2)
	reload("archive-member-order", arch2, 1)
	// (3) environment, working directory, host files next to / above the chart
	sib := filepath.Join(root, fmt.Sprintf("c05-chartdir-%d", idx), "canary.txt")
	os.WriteFile(sib, []byte(can.mk("file")+"\n"), 0o644)
	os.WriteFile(filepath.Join(root, "canary.txt"), []byte(can.mk("file")+"\n"), 0o644)
	for e := 0; e < p.envStates; e++ {
		applyEnvState(rng, can, root)
		var ch *chart.Chart
		var err error
		phase := "environment-change"
		switch e % 3 {
		case 0:
			ch = fresh()
		case 1:
			ch, err = loadFrom(dir)
		default:
			ch, err = loadFrom(arch)
		}
		if err != nil {
			res.Add("reload-failed", "chart fails to load after an environment change", "err=%v | %s", err, j.witness())
			continue
		}
		j.compare(phase, renderInstall(ch, cs.Vals, cs.Flags, nil), j.again)
		res.Stat("env_permutations", 1)
		res.Evals++
	}
	cwds := []string{filepath.Join(root, "cwd-canary"), dir, "/", filepath.Dir(dir)}
	for ci, cwd := range cwds {
		if ci >= 2 && rng.Intn(2) == 0 {
			continue
		}
		if err := os.Chdir(cwd); err != nil {
			continue
		}
		// flip the host files as well
		os.WriteFile(sib, []byte(can.mk("file")+"\n"), 0o644)
		var ch *chart.Chart
		if ci%2 == 0 {
			ch = fresh()
		} else {
			var err error
			if ch, err = loadFrom(dir); err != nil {
				res.Add("reload-failed", "chart fails to load after a working-directory change", "err=%v | %s", err, j.witness())
				continue
			}
		}
		j.compare("cwd-or-host-file-change", renderInstall(ch, cs.Vals, cs.Flags, nil), j.again)
		res.Stat("cwd_permutations", 1)
		res.Evals++
	}
	saved.restore()
	// (4) renders that FAIL in between (an unrelated chart / this chart with a failing template):
	// the next render of the chart must give the bytes of the clean base render (failing.go)
	core.Guard(res, "render after a failed render", func() { afterFailedRenders(res, j, cs, rng, fresh) })
	if cs.nonTrivial() {
		res.Key("det|%s", cs.shape())
	}
}

// runConcChart: 8 goroutines engine.Render on one shared chart object, 8 client-only installs on
// separately loaded copies; everything compared with the sequential result. (race build)
func runConcChart(res *core.Result, cs *chartSpec, idx int, can *canaries, verbose bool) {
	const G = 8
	j := &judge{res: res, cs: cs, can: can, nondet: map[string]bool{}, reported: map[string]bool{}, confirmed: map[string]bool{}, idx: idx}
	j.again = func() snap { return renderInstall(cs.Files.Build(), cs.Vals, cs.Flags, nil) }
	if core.Guard(res, "render of a generated chart", func() { j.base = j.again() }) {
		return
	}
	res.Evals++
	// a sequential repetition first, so that plain non-determinism is named as such
	for i := 0; i < 3; i++ {
		j.compare("repeat", j.again(), j.again)
	}
	var wg sync.WaitGroup
	installs := make([]snap, G)
	for g := 0; g < G; g++ {
		wg.Add(1)
		go func(g int) {
			defer wg.Done()
			installs[g] = j.again()
		}(g)
	}
	// next to them: unrelated client-only renders with another --api-versions value
	for g := 0; g < G/2; g++ {
		wg.Add(1)
		go func() {
			defer wg.Done()
			for i := 0; i < 4; i++ {
				renderNeighbour(cs.Flags.APIVersions)
			}
		}()
	}
	wg.Wait()
	for g := 0; g < G; g++ {
		j.compare("concurrent-installs", installs[g], j.again)
		res.Stat("concurrent_installs_compared", 1)
		res.Evals++
	}
	ch, top, err := prepareEngine(cs)
	if err != nil {
		return
	}
	ref := engineRender(ch, top, false)
	seqNondet := func(n int) bool {
		for i := 0; i < n; i++ {
			if k, d := engDiff(ref, engineRender(ch, top, false)); k != "" {
				res.Add("nondet-engine-render", k+" differs between two ToRenderValues+engine.Render runs on the same chart object", "%s | %s", d, j.witness())
				return true
			}
		}
		return false
	}
	if seqNondet(3) {
		return
	}
	outs := make([]engSnap, G)
	for g := 0; g < G; g++ {
		wg.Add(1)
		go func(g int) {
			defer wg.Done()
			outs[g] = engineRender(ch, top, false) // ONE chart object shared by all goroutines; render values composed per call
		}(g)
	}
	wg.Wait()
	for g := 0; g < G; g++ {
		res.Stat("concurrent_engine_renders_compared", 1)
		res.Evals++
		if k, d := engDiff(ref, outs[g]); k != "" {
			if !seqNondet(confirmSequential) {
				res.Add("concurrent-engine-render-differs", k+" differs from the sequential engine.Render result", "%s | %s", d, j.witness())
			}
			break
		}
	}
	if cs.nonTrivial() {
		res.Key("conc|%s", cs.shape())
	}
}
