// Package c05: rendering is deterministic and sees only the chart, values and release data.
//
// Monitors (DESIGN.md §3 C05), all observing the real helm code:
//
//	det     generated charts (many template files, partials, tpl/include nesting, .Files.Get/Glob/
//	        AsConfig/AsSecrets/Lines, toYaml/toJson/toToml of maps, range over maps, listed and
//	        unlisted subcharts to depth 2, crds/, several NOTES.txt; SubNotes/IncludeCRDs/
//	        DisableHooks/IsUpgrade varied; deterministic template vocabulary only) rendered through
//	        a client-only dry-run action.Install (the `helm template` path) and through engine.Render:
//	        repeated, re-loaded from archive / shuffled archive / directory, under permuted
//	        environment variables, working directories and flipped canary files; and again right
//	        after a render that FAILED in the same process (an unrelated chart, or the chart itself
//	        with a failing template), the failing execution cut short at 9 kinds of site (top level,
//	        inside an included helper before / after output, nested include, tpl, include from tpl,
//	        NOTES.txt, subchart helper, unparsable manifest) in 5 ways; what the failing render
//	        printed before it failed carries canaries (failing.go).
//	reach   templates that try to reach out: env / expandenv (must not exist), getHostByName (""
//	        unless EnableDNS), .Files.* with ../, absolute and cwd-relative paths, lookup in
//	        client-only mode against a reachable simulated cluster holding a canary object.
//	schema  values.schema.json with $ref in every URL form pointing at host documents whose
//	        content is flipped between validations (accepting / rejecting / canary enum / absent).
//	conc    (race build) 8 concurrent ToRenderValues+engine.Render runs on one chart object and 8 concurrent
//	        client-only installs on separately loaded copies, compared with the sequential result.
//	strace  a worker under `strace -f -e trace=open,openat,openat2,creat,socket,connect` brackets
//	        every render with marker opens; Post asserts that between markers there is no
//	        successful open outside {Go runtime paths, the chart directory while loading from it}
//	        and no socket/connect at all; a positive control proves the monitor sees both.
//
// Oracle: byte equality of manifest, notes and the hook list (name, kind, path, manifest, events,
// weight, delete and output-log policies, order) across all renders of a chart; canary
// substrings never in any output or error text; schema accept/reject independent of host
// document content.
//
// Don't-care zones: time / random / crypto template functions and bare keys/values (excluded
// from the vocabulary: non-deterministic by sprig's documentation); unset/merge* (set on .Values
// IS used: it passes a trail from template file to template file, which is deterministic exactly
// when templates execute in a fixed order);
// Release.Info timestamps; the text of error messages and the partial debugging manifest attached
// to a FAILED render (only error-vs-success agreement is demanded); getHostByName with EnableDNS
// on (environment-dependent by definition); that an http(s) $ref makes validation fail.
package c05

import (
	"fmt"
	"math/rand"
	"os"

	"helm.sh/helm/v4/verifh/core"
	"helm.sh/helm/v4/verifh/env"
)

type caseData struct {
	Kind    string `json:"kind"` // det | conc | reach | schema | strace
	Seed    int64  `json:"seed"`
	N       int    `json:"n,omitempty"`
	Repeats int    `json:"repeats,omitempty"`
	Envs    int    `json:"envs,omitempty"`
	Only    int    `json:"only,omitempty"` // 1-based chart index (replay aid)
}

func init() {
	core.Register(&core.Prop{
		ID:    "C05",
		Level: "exploration",
		Rule: "seeded chart trees (root + 0-3 subcharts, listed/unlisted, depth <= 2; 2-7 template files per chart with 1-3 documents built from 30 template constructs; helpers with same-named defines in several charts; files/, crds/, NOTES.txt; random SubNotes/IncludeCRDs/DisableHooks/IsUpgrade and 0, 1 or 2 extra --api-versions entries, printed by the templates through .Capabilities.APIVersions.Has / len) each rendered >= 20 times: base, repeats from a fresh in-memory load, repeated dry-run installs and ToRenderValues+engine.Render repeats on ONE chart object, renders interleaved with client-only renders of an unrelated chart on another configuration with another --api-versions value (incl. a plain dry-run re-using the capabilities cached on the first configuration) (templates rewrite elements of default lists in place and pass a trail through .Values), reload from archive / shuffled archive / directory, permuted environment, changed cwd and host files, and 2+2 renders (install / engine.Render) each made right after a FAILING render of an unrelated chart or of the chart itself plus a failing template (execution cut short at top level / inside an included helper before or after it produced output / in a nested include / in tpl / in an include called from tpl / in NOTES.txt / in a subchart helper / by an unparsable manifest; by required, fail, field of a scalar, undefined template or index out of range; its partial output carries canaries) and compared with the clean base render; 18 reach-out probes x 2 load forms; 12 $ref spellings x 4 host-document states x 2 entry points; concurrent renders under the race detector; one strace-monitored batch. " +
			"distinct_nontrivial counts distinct chart shapes (subchart listing, depth, flags, template-file / notes / crd / hook buckets, number of construct kinds) of charts with >= 2 template files and (>= 1 map-ranging construct or >= 2 notes/CRD sources), plus one key per reach-out probe and per $ref spelling.",
		Assumptions: []string{
			"client-only dry-run action.Install is the `helm template` code path; engine.Render is the engine entry point",
			"the template vocabulary excludes functions documented as non-deterministic (now, date*, rand*, uuidv4, gen*, htpasswd, shuffle, bare keys/values); `set` on .Values is used only to pass a trail from template to template (deterministic under a fixed execution order)",
			"a difference between renders made in identical state is attributed to non-determinism; environment/cwd/reload dependence is only claimed after 20 confirmation renders in the changed state agree with each other, concurrency dependence only after 128 sequential renders never produce the deviating variant",
			"strace sees every open/openat/openat2/creat/socket/connect of the worker and its threads (-f); paths under /proc, /sys, /dev/null, /dev/urandom, /etc/localtime and zoneinfo are Go runtime accesses",
		},
		Gen:            genCases,
		Run:            run,
		Post:           post,
		CaseTimeoutSec: 600,
		StraceArgs:     []string{"--seccomp-bpf", "-e", "trace=open,openat,openat2,creat,socket,connect"},
	})
}

func genCases(seed int64, tier string) []core.Case {
	rng := rand.New(rand.NewSource(seed*15485863 + 5))
	nDet, perDet, repeats, envs := 32, 10, 5, 3
	nConc, perConc := 16, 3
	nProbe := 1
	nStrace := 20
	if tier == "thorough" {
		nDet, perDet, repeats, envs = 160, 28, 7, 4
		nConc, perConc = 64, 6
		nProbe = 3
		nStrace = 200
	}
	var out []core.Case
	for i := 0; i < nDet; i++ {
		out = append(out, core.Case{ID: fmt.Sprintf("det-%d", i), Data: core.J(caseData{Kind: "det", Seed: rng.Int63(), N: perDet, Repeats: repeats, Envs: envs})})
	}
	for i := 0; i < nProbe; i++ {
		out = append(out, core.Case{ID: fmt.Sprintf("reach-%d", i), Data: core.J(caseData{Kind: "reach", Seed: rng.Int63()})})
		out = append(out, core.Case{ID: fmt.Sprintf("schema-%d", i), Data: core.J(caseData{Kind: "schema", Seed: rng.Int63()})})
	}
	for i := 0; i < nConc; i++ {
		out = append(out, core.Case{ID: fmt.Sprintf("conc-%d", i), Mode: "race", Data: core.J(caseData{Kind: "conc", Seed: rng.Int63(), N: perConc})})
	}
	out = append(out, core.Case{ID: "strace-0", Mode: "strace", Data: core.J(caseData{Kind: "strace", Seed: rng.Int63(), N: nStrace})})
	return out
}

func run(c core.Case, verbose bool) core.Result {
	env.Quiet()
	var d caseData
	core.U(c, &d)
	var res core.Result
	root, err := os.MkdirTemp("", "c05-")
	if err != nil {
		res.Inconclusive = err.Error()
		return res
	}
	defer os.RemoveAll(root)
	saved := saveEnv()
	defer saved.restore()
	rng := rand.New(rand.NewSource(d.Seed))
	noBracket := func(_, _ string, f func()) { f() }
	switch d.Kind {
	case "det":
		can := newCanaries(d.Seed)
		if err := plantCwd(can, root+"/cwd-canary"); err != nil {
			res.Inconclusive = err.Error()
			return res
		}
		for i := 1; i <= d.N; i++ {
			crng := rand.New(rand.NewSource(rng.Int63()))
			cs := genChart(crng)
			if d.Only != 0 && d.Only != i {
				continue
			}
			runDetChart(&res, cs, crng, root, i, detParams{repeats: d.Repeats, envStates: d.Envs}, can, verbose)
			res.Stat("charts", 1)
			if res.Sample == nil && cs.nonTrivial() {
				res.Sample = map[string]any{"kind": "det", "chart": cs.Name, "shape": cs.shape(), "files": sortedNames(cs.Files), "flags": cs.Flags.String()}
			}
		}
	case "conc":
		can := newCanaries(d.Seed)
		for i := 1; i <= d.N; i++ {
			crng := rand.New(rand.NewSource(rng.Int63()))
			cs := genChart(crng)
			if d.Only != 0 && d.Only != i {
				continue
			}
			runConcChart(&res, cs, i, can, verbose)
			res.Stat("charts_concurrent", 1)
		}
	case "reach":
		runReach(&res, d.Seed, root, verbose, noBracket)
	case "schema":
		runSchema(&res, d.Seed, root, verbose, noBracket)
	case "strace":
		runStraceCase(&res, c.ID, d, rng, root, verbose)
	default:
		res.Inconclusive = "unknown case kind " + d.Kind
	}
	return res
}

// runStraceCase renders a batch inside marker brackets. Meaningful only when the worker runs
// under strace (Mode "strace"); in a replay it just performs the same renders.
func runStraceCase(res *core.Result, caseID string, d caseData, rng *rand.Rand, root string, verbose bool) {
	b := &bracketer{on: os.Getenv("VERIF_WORKER") != "", Index: map[string]string{}}
	can := newCanaries(d.Seed)
	// warm-up outside any bracket: lazy runtime initialisation (time zone database ...) is not helm's
	warm := genChart(rand.New(rand.NewSource(1)))
	renderInstall(warm.Files.Build(), warm.Vals, warm.Flags, nil)
	b.positiveControl(root)
	for i := 1; i <= d.N; i++ {
		crng := rand.New(rand.NewSource(rng.Int63()))
		cs := genChart(crng)
		if d.Only != 0 && d.Only != i {
			continue
		}
		dir := fmt.Sprintf("%s/c05-chartdir-%d/%s", root, i, cs.Name)
		arch := fmt.Sprintf("%s/c05-chartdir-%d/%s-0.1.0.tgz", root, i, cs.Name)
		if err := writeDir(cs.Files, dir); err != nil {
			res.Inconclusive = err.Error()
			return
		}
		if err := writeArchive(cs.Files, cs.Name, arch, sortedNames(cs.Files)); err != nil {
			res.Inconclusive = err.Error()
			return
		}
		applyEnvState(crng, can, root)
		ch := cs.Files.Build()
		var base, s2, s3 snap
		b.class = "render of a generated chart loaded from memory"
		b.run("mem", func() { base = renderInstall(ch, cs.Vals, cs.Flags, nil) })
		b.class = "load from directory + render of a generated chart"
		b.run("dir", func() {
			if c2, err := loadFrom(dir); err == nil {
				s2 = renderInstall(c2, cs.Vals, cs.Flags, nil)
			}
		})
		b.class = "load from archive + render of a generated chart"
		b.run("dir", func() {
			if c3, err := loadFrom(arch); err == nil {
				s3 = renderInstall(c3, cs.Vals, cs.Flags, nil)
			}
		})
		b.class = "engine.Render of a generated chart"
		if ech, top, err := prepareEngine(cs); err == nil {
			b.run("mem", func() { engineRender(ech, top, false) })
		}
		for _, s := range []snap{base, s2, s3} {
			for where, text := range s.allText() {
				if src, k := can.find(text); k != "" {
					res.Add("canary-leak", fmt.Sprintf("canary planted in %s appears in %s of a render", src, where), "canary %s | chart %s", k, cs.shape())
				}
			}
		}
		os.RemoveAll(fmt.Sprintf("%s/c05-chartdir-%d", root, i))
		res.Evals += 4
		res.Stat("strace_bracketed_renders", 4)
		if cs.nonTrivial() {
			res.Key("strace|%s", cs.shape())
		}
	}
	// reach-out probes and schema references inside brackets as well
	var sub core.Result
	br := func(tag, what string, f func()) {
		b.class = what
		b.run(tag, f)
	}
	runReach(&sub, d.Seed+1, root, verbose, br)
	runSchema(&sub, d.Seed+2, root, verbose, br)
	// the probe oracles themselves are judged in the reach / schema cases; here only the syscalls
	// matter. Their evaluations and keys are still counted.
	res.Evals += sub.Evals
	res.Stat("strace_bracketed_renders", sub.Evals)
	b.positiveControl(root)
	b.save(caseID)
}

func post(a *core.Agg) string {
	if msg := postStrace(a); msg != "" {
		return msg
	}
	for _, k := range []string{"renders_compared", "reloads", "env_permutations", "cwd_permutations", "canary_probes", "reach_out_probes", "schema_validations_with_flipped_host_document", "schema_positive_controls", "concurrent_installs_compared", "concurrent_engine_renders_compared", "engine_renders_compared", "same_object_installs_compared", "interleaved_renders_compared",
		"renders_after_failed_render_compared", "engine_renders_after_failed_render_compared"} {
		if a.Stats[k] == 0 {
			return "monitor counter " + k + " is zero"
		}
	}
	for _, site := range failSites {
		if a.Stats["failed_in_between_site_"+site] == 0 {
			return "no failing render in between was cut short at site " + site
		}
	}
	return ""
}
