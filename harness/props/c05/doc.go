// Package c05: monitor for property C05 (see DESIGN.md section 3).
package c05
