package c05

import (
	"fmt"
	"math/rand"

	chart "helm.sh/helm/v4/pkg/chart/v2"
	chartutil "helm.sh/helm/v4/pkg/chart/v2/util"
	"helm.sh/helm/v4/verifh/core"
	"helm.sh/helm/v4/verifh/env"
	"helm.sh/helm/v4/verifh/gen"
)

// Renders that FAIL in between (phase "failed-render-in-between").
//
// The property quantifies over repeated renders in one process and says the outcome never depends
// on anything outside the chart, the values and the release options. A render that failed earlier
// in the same process (another release of an operator, the previous chart of a `helm lint` /
// `helm template` loop, the same chart with an incomplete values set) is such an outside thing: it
// is the one kind of render whose execution is cut short at an arbitrary point, so whatever the
// engine keeps between renders is left in a half-way state. The workload therefore renders a chart
// from a clean state, then lets a failing render run, then renders the chart again and demands the
// bytes of the clean render. The failing render is varied over WHERE the execution is cut short
// (top level of a file, inside an included helper before / after it has produced output, in the
// inner of two nested includes, inside tpl, inside an include called from tpl, in NOTES.txt, in a
// subchart's helper, in the rendered YAML after the engine succeeded) and HOW (required, fail,
// field of a scalar, undefined template, index out of range). Everything the failing render prints
// before it fails carries canaries: they are the other release's data and must not show up in the
// next render's output.

var failSites = []string{
	"top-level", "include-after-output", "include-before-output", "nested-include-after-output",
	"tpl-after-output", "include-from-tpl-after-output", "notes-include-after-output",
	"subchart-include-after-output", "invalid-yaml-after-successful-engine-run",
}

// failHow: name -> action that fails when executed.
var failHows = []struct{ name, action string }{
	{"required", `{{ required "a token is required" .Values.token }}`},
	{"fail", `{{ fail "no token configured" }}`},
	{"field-of-scalar", `{{ .Values.user.first.second }}`},
	{"undefined-template", `{{ include "no.such.template" . }}`},
	{"index-out-of-range", `{{ index .Values.list 7 }}`},
}

type failingChart struct {
	Site, How string
	Own       bool // the chart under test itself plus a failing template (another values set), else an unrelated chart
	Files     gen.Files
	Vals      map[string]any
	Flags     flags
}

func (fc *failingChart) String() string {
	who := "unrelated chart"
	if fc.Own {
		who = "same chart + failing template"
	}
	return fmt.Sprintf("%s failing at %s by %s", who, fc.Site, fc.How)
}

// credsHelper is a helper that prints a few lines (carrying canaries) and then fails.
func credsHelper(c, action string, outputFirst bool) string {
	body := ""
	if outputFirst {
		body = "user: {{ .Values.user }}\npassword: {{ .Values.password }}\n{{- range $k, $v := .Values.extra }}\n{{ $k }}: {{ $v }}\n{{- end }}\ntoken: "
	}
	return "{{- define \"" + c + ".creds\" -}}\n" + body + action + "\n{{- end -}}\n" +
		"{{- define \"" + c + ".outer\" -}}\nouter-user: {{ .Values.user }}\nouter-secret: {{ .Values.password | b64enc }}\ninner: {{ include \"" + c + ".creds\" . }}\n{{- end -}}\n"
}

// genFailing builds a chart whose render fails. With own=true it is cs's own file set plus a failing
// helper and a template file calling it (sorted before or after cs's own templates), rendered with
// cs's values plus the values the helper prints; otherwise an unrelated small chart.
func genFailing(rng *rand.Rand, cs *chartSpec, can *canaries, own bool) *failingChart {
	fc := &failingChart{Site: failSites[rng.Intn(len(failSites))], Own: own, Files: gen.Files{}}
	how := failHows[rng.Intn(len(failHows))]
	fc.How = how.name
	c := "other"
	if own {
		c = "zz" + cs.Name
		for k, v := range cs.Files {
			fc.Files[k] = v
		}
		fc.Vals = env.DeepCopyMap(cs.Vals)
		fc.Flags = cs.Flags
		if fc.Site == "subchart-include-after-output" {
			fc.Site = "include-after-output"
		}
	} else {
		fc.Files["Chart.yaml"] = "apiVersion: v2\nname: other\nversion: 0.3.0\n"
		fc.Files["values.yaml"] = "name: other\n"
		fc.Files["templates/cm.yaml"] = "apiVersion: v1\nkind: ConfigMap\nmetadata:\n  name: {{ .Release.Name }}-other\ndata:\n  a: {{ .Values.user | quote }}\n"
		fc.Vals = map[string]any{}
		fc.Flags = flags{SubNotes: rng.Intn(2) == 0}
	}
	extra := map[string]any{}
	for i, n := 0, rng.Intn(4); i < n; i++ {
		extra[word(rng)] = can.mk("failedrender")
	}
	secrets := map[string]any{
		"user": can.mk("failedrender"), "password": can.mk("failedrender"), "extra": extra,
		"list": []any{can.mk("failedrender"), "b"},
	}
	for k, v := range secrets {
		fc.Vals[k] = v
	}
	pos := []string{"a0", "zz"}[rng.Intn(2)]
	file := "templates/" + pos + "-creds.yaml"
	secret := func(payload string) string {
		return "apiVersion: v1\nkind: Secret\nmetadata:\n  name: {{ .Release.Name }}-creds\nstringData:\n  first: {{ .Values.user | quote }}\n" + payload + "\n"
	}
	helperFile := "templates/_" + pos + "creds.tpl"
	switch fc.Site {
	case "top-level":
		fc.Files[file] = secret("  second: {{ .Values.password | quote }}\n  token: " + how.action)
	case "include-after-output":
		fc.Files[helperFile] = credsHelper(c, how.action, true)
		fc.Files[file] = secret("{{ include \"" + c + ".creds\" . | indent 2 }}")
	case "include-before-output":
		fc.Files[helperFile] = credsHelper(c, how.action, false)
		fc.Files[file] = secret("{{ include \"" + c + ".creds\" . | indent 2 }}")
	case "nested-include-after-output":
		fc.Files[helperFile] = credsHelper(c, how.action, true)
		fc.Files[file] = secret("{{ include \"" + c + ".outer\" . | indent 2 }}")
	case "tpl-after-output":
		fc.Vals["tplfail"] = "password: {{ .Values.password }}\ntoken: " + how.action
		fc.Files[file] = secret("{{ tpl .Values.tplfail . | indent 2 }}")
	case "include-from-tpl-after-output":
		fc.Files[helperFile] = credsHelper(c, how.action, true)
		fc.Vals["tplfail"] = "via-tpl: {{ .Values.user }}\n{{ include \"" + c + ".creds\" . }}"
		fc.Files[file] = secret("{{ tpl .Values.tplfail . | indent 2 }}")
	case "notes-include-after-output":
		fc.Files[helperFile] = credsHelper(c, how.action, true)
		fc.Files["templates/NOTES.txt"] = "Your credentials:\n{{ include \"" + c + ".creds\" . }}\n"
	case "subchart-include-after-output":
		p := "charts/vault/"
		fc.Files[p+"Chart.yaml"] = "apiVersion: v2\nname: vault\nversion: 0.1.0\n"
		fc.Files[p+"values.yaml"] = "user: vault-default\n"
		fc.Files[p+"templates/_helpers.tpl"] = credsHelper("vault", how.action, true)
		fc.Files[p+"templates/secret.yaml"] = secret("{{ include \"vault.creds\" . | indent 2 }}")
		fc.Vals["vault"] = secrets
	case "invalid-yaml-after-successful-engine-run":
		// the engine succeeds, the failure comes afterwards (the manifest is not YAML)
		fc.How = "unparsable-manifest"
		fc.Files[helperFile] = "{{- define \"" + c + ".creds\" -}}\nuser: {{ .Values.user }}\npassword: {{ .Values.password }}\n{{- end -}}\n"
		fc.Files[file] = secret("{{ include \"" + c + ".creds\" . | indent 2 }}\n  broken: [unclosed, {{ .Values.password }}\n :::")
	}
	return fc
}

func (fc *failingChart) install() snap {
	return renderInstall(fc.Files.Build(), fc.Vals, fc.Flags, nil)
}

// engine renders the failing chart through ToRenderValues + engine.Render.
func (fc *failingChart) engine() engSnap {
	ch := fc.Files.Build()
	vals := env.DeepCopyMap(fc.Vals)
	if err := chartutil.ProcessDependencies(ch, vals); err != nil {
		return engSnap{Err: true, Text: err.Error()}
	}
	return engineRender(ch, vals, false)
}

// afterFailedRenders is phase (4) of a det chart: clean render (j.base, made before any failing
// render of this chart), failing render, render again.
func afterFailedRenders(res *core.Result, j *judge, cs *chartSpec, rng *rand.Rand, fresh func() *chart.Chart) {
	if cs.Feat.Fails {
		return // the chart under test fails itself: only error-vs-success agreement is demanded of it
	}
	// install path: once after an unrelated failing chart, once after the chart itself failing
	for _, own := range []bool{false, true} {
		fc := genFailing(rng, cs, j.can, own)
		phase := "failed-render-in-between"
		good := func() snap {
			f := fc.install()
			if !f.Err {
				res.Add("generator-expectation", "chart that was meant to fail renders", "%s | %s", fc, j.witness())
			}
			res.Stat("failed_renders_in_between", 1)
			res.Stat("failed_in_between_site_"+fc.Site, 1)
			return renderInstall(fresh(), cs.Vals, cs.Flags, nil)
		}
		before := len(res.Violations)
		j.compare(phase, good(), good)
		if len(res.Violations) > before {
			res.Violations[len(res.Violations)-1].Detail += " | the render in between: " + fc.String()
		}
		res.Stat("renders_after_failed_render_compared", 1)
		res.Evals++
	}
	// engine path
	ch, top, err := prepareEngine(cs)
	if err != nil {
		return
	}
	ref := engineRender(ch, top, false)
	for _, own := range []bool{false, true} {
		fc := genFailing(rng, cs, j.can, own)
		if fc.Site == "invalid-yaml-after-successful-engine-run" {
			fc.Site, fc.How = "include-after-output", "unparsable-manifest->required" // not a failure for the engine alone
			fc.Files["templates/_zzcreds2.tpl"] = "{{- define \"zz.creds2\" -}}\nuser: {{ .Values.user }}\npassword: {{ .Values.password }}\ntoken: {{ required \"a token is required\" .Values.token }}\n{{- end -}}\n"
			fc.Files["templates/zz-creds2.yaml"] = "stringData:\n{{ include \"zz.creds2\" . | indent 2 }}\n"
		}
		f := fc.engine()
		if !f.Err {
			res.Add("generator-expectation", "chart that was meant to fail renders (engine)", "%s | %s", fc, j.witness())
		}
		res.Stat("failed_renders_in_between", 1)
		res.Stat("failed_in_between_site_"+fc.Site, 1)
		s := engineRender(ch, top, false)
		res.Stat("engine_renders_after_failed_render_compared", 1)
		res.Evals++
		if k, d := engDiff(ref, s); k != "" {
			// attribute: is the same render unstable without a failing render in between?
			unstable := false
			for i := 0; i < confirmState && !unstable; i++ {
				if k2, _ := engDiff(ref, engineRender(ch, top, false)); k2 != "" {
					unstable = true
				}
			}
			if unstable {
				res.Add("nondet-engine-render", k+" differs between two ToRenderValues+engine.Render runs on the same chart object", "%s | %s", d, j.witness())
			} else {
				res.Add("engine-render-depends-on-failed-render-in-between", k+" differs from the engine.Render result before a failing render of another chart", "%s | the render in between: %s | %s", d, fc, j.witness())
			}
		}
		for name, v := range s.Files {
			if src, c := j.can.find(v); c != "" {
				res.Add("canary-leak", "canary planted in "+src+" appears in engine.Render output", "canary %s in %s after: %s | %s", c, name, fc, j.witness())
				break
			}
		}
	}
}
