// Private development entry point for C05/C08 only (see harness/README.md, "private main").
package main

import (
	"helm.sh/helm/v4/verifh/core"

	_ "helm.sh/helm/v4/verifh/props/c05"
	_ "helm.sh/helm/v4/verifh/props/c08"
)

func main() { core.Main() }
