package c05

import (
	"fmt"
	"math/rand"
	"sort"
	"strings"

	"sigs.k8s.io/yaml"

	"helm.sh/helm/v4/verifh/gen"
)

// flags are the release options that select render code paths.
type flags struct {
	SubNotes     bool `json:"subNotes,omitempty"`
	IncludeCRDs  bool `json:"includeCRDs,omitempty"`
	DisableHooks bool `json:"disableHooks,omitempty"`
	IsUpgrade    bool `json:"isUpgrade,omitempty"`
	EnableDNS    bool `json:"enableDNS,omitempty"`
	// APIVersions: extra --api-versions entries of the client-only route (0, 1 or 2)
	APIVersions []string `json:"apiVersions,omitempty"`
}

var apiVersionPool = []string{"ext-a.example.com/v1", "ext-b.example.com/v1", "ext-c.example.com/v2", "ext-d.example.com/v1beta1"}

// capsLine prints which of the pool's API versions the render sees and how many there are in all.
func capsLine(n int) string {
	var has []string
	for _, v := range apiVersionPool {
		has = append(has, fmt.Sprintf("(.Capabilities.APIVersions.Has %q)", v))
	}
	return fmt.Sprintf("  k%dcaps: {{ printf \"%%v|%%v|%%v|%%v|%%d\" %s (len .Capabilities.APIVersions) | quote }}\n", n, strings.Join(has, " "))
}

func (f flags) String() string {
	var p []string
	for _, x := range []struct {
		on bool
		n  string
	}{{f.SubNotes, "subnotes"}, {f.IncludeCRDs, "crds"}, {f.DisableHooks, "nohooks"}, {f.IsUpgrade, "upgrade"}, {f.EnableDNS, "dns"}} {
		if x.on {
			p = append(p, x.n)
		}
	}
	if len(p) == 0 {
		return "-"
	}
	return strings.Join(p, "+")
}

type features struct {
	TemplateFiles      int // non-partial template files over all charts
	Partials           int
	MapRanges          int // constructs that range over / serialise a map
	NotesFiles         int // files whose name ends in NOTES.txt, all charts
	CRDFiles           int
	MaxCRDFilesInChart int
	Subcharts          int
	ListedSubs         int
	UnlistedSubs       int
	CRDSibs            int // largest group of sibling subcharts whose subtrees all carry crds/
	Depth              int
	Hooks              int
	Fails              bool
	UsesSet            bool // some templates pass state to later templates through `set .Values`
	Constructs         map[string]bool
}

type chartSpec struct {
	Name  string
	Files gen.Files
	Vals  map[string]any
	Flags flags
	Feat  features
}

func bucket(n int) string {
	switch {
	case n == 0:
		return "0"
	case n == 1:
		return "1"
	}
	return ">=2"
}

func (cs *chartSpec) shape() string {
	var c []string
	for k := range cs.Feat.Constructs {
		c = append(c, k)
	}
	sort.Strings(c)
	tf := "1"
	switch {
	case cs.Feat.TemplateFiles >= 8:
		tf = ">=8"
	case cs.Feat.TemplateFiles >= 4:
		tf = "4-7"
	case cs.Feat.TemplateFiles >= 2:
		tf = "2-3"
	}
	return fmt.Sprintf("subs=%dL+%dU depth=%d flags=%s tf=%s notes=%s crds=%s hooks=%s fail=%v constructs=%d",
		cs.Feat.ListedSubs, cs.Feat.UnlistedSubs, cs.Feat.Depth, cs.Flags, tf, bucket(cs.Feat.NotesFiles), bucket(cs.Feat.CRDFiles), bucket(cs.Feat.Hooks), cs.Feat.Fails, len(c))
}

// nonTrivial: >= 2 template files and (>= 1 map-ranging construct or >= 2 notes/CRD sources).
func (cs *chartSpec) nonTrivial() bool {
	return cs.Feat.TemplateFiles >= 2 && (cs.Feat.MapRanges >= 1 || cs.Feat.NotesFiles+cs.Feat.CRDFiles >= 2)
}

var words = []string{"alpha", "beta", "gamma", "delta", "omega", "kilo", "lima", "mike", "nova", "oscar", "papa", "quark", "romeo", "sigma", "tango", "ultra", "victor", "whisky", "xray", "yankee", "zulu", "amber", "birch", "cedar", "dune", "ember", "fjord"}

var oddStrings = []string{"a: b", "it's", "x #y", "007", "true", "null", "l1\nl2", "tab\there", "{brace}", "[1,2]", "- dash", "100%", "*star", "&anchor", "ünï", "", " lead", "trail ", "a\"q"}

func word(rng *rand.Rand) string { return words[rng.Intn(len(words))] }

func genScalar(rng *rand.Rand) any {
	switch rng.Intn(8) {
	case 0:
		return rng.Intn(1000)
	case 1:
		return rng.Intn(2) == 0
	case 2:
		return float64(rng.Intn(100)) + 0.5
	case 3:
		return oddStrings[rng.Intn(len(oddStrings))]
	case 4:
		return nil
	}
	return word(rng) + fmt.Sprint(rng.Intn(10))
}

func genMap(rng *rand.Rand, depth int) map[string]any {
	m := map[string]any{}
	n := 2 + rng.Intn(6)
	for i := 0; i < n; i++ {
		k := word(rng)
		switch r := rng.Intn(10); {
		case r < 6 || depth <= 0:
			m[k] = genScalar(rng)
		case r < 8:
			var l []any
			for j := rng.Intn(4); j >= 0; j-- {
				l = append(l, genScalar(rng))
			}
			m[k] = l
		default:
			m[k] = genMap(rng, depth-1)
		}
	}
	return m
}

func genLabels(rng *rand.Rand) map[string]any {
	m := map[string]any{}
	n := 3 + rng.Intn(7)
	for i := 0; i < n; i++ {
		m[word(rng)] = word(rng) + "-" + fmt.Sprint(rng.Intn(100))
	}
	return m
}

var tplStrings = []string{
	`{{ .Release.Name }}-{{ .Values.name }}`,
	`{{ include "%s.name" . }}/{{ .Chart.Version }}`,
	`{{ range $k, $v := .Values.labels }}{{ $k }}={{ $v }};{{ end }}`,
	`{{ tpl "{{ .Values.name | upper }}" . }}::{{ .Release.Namespace }}`,
	`{{ define "inline.%s" }}inl-{{ .Values.name }}{{ end }}{{ include "inline.%s" . }}`,
	`plain text without actions`,
}

func genValuesTree(rng *rand.Rand, name string) map[string]any {
	ts := tplStrings[rng.Intn(len(tplStrings))]
	if strings.Contains(ts, "%s") {
		ts = strings.ReplaceAll(ts, "%s", name)
	}
	items := []any{}
	for j := 2 + rng.Intn(4); j > 0; j-- {
		items = append(items, word(rng))
	}
	return map[string]any{
		"name":     word(rng),
		"replicas": 1 + rng.Intn(5),
		"enabled":  true,
		"flag":     rng.Intn(2) == 0,
		"labels":   genLabels(rng),
		"config":   genMap(rng, 2),
		"items":    items,
		"tplstr":   ts,
		"global":   map[string]any{"gk": word(rng), "gmap": genLabels(rng)},
		// a default list of tables, never overridden by the user or the parent chart: templates
		// rewrite its elements in place (see construct set-list-element-in-place)
		"containers": []any{
			map[string]any{"name": word(rng), "port": 80 + rng.Intn(20)},
			map[string]any{"name": word(rng), "env": []any{map[string]any{"name": "E", "value": word(rng)}}},
		},
	}
}

func mustYAML(v any) string {
	b, err := yaml.Marshal(v)
	if err != nil {
		panic(err)
	}
	return string(b)
}

// construct returns the template text of data-section construct kind k (lines at indent 2 under
// "data:"); n makes keys unique inside one document. mapRange reports whether it iterates or
// serialises a map.
type construct struct {
	name     string
	mapRange bool
	text     func(c string, n int) string
}

var constructs = []construct{
	{"values-scalar", false, func(c string, n int) string { return fmt.Sprintf("  k%d: {{ .Values.name | quote }}\n", n) }},
	{"include", false, func(c string, n int) string { return fmt.Sprintf("  k%d: {{ include \"%s.name\" . | quote }}\n", n, c) }},
	{"toYaml-map", true, func(c string, n int) string {
		return fmt.Sprintf("  k%d:\n{{ toYaml .Values.config | indent 4 }}\n", n)
	}},
	{"range-map", true, func(c string, n int) string {
		return fmt.Sprintf("{{- range $k, $v := .Values.labels }}\n  r%d-{{ $k }}: {{ $v | quote }}\n{{- end }}\n", n)
	}},
	{"files-get", false, func(c string, n int) string {
		return fmt.Sprintf("  k%d: {{ .Files.Get \"files/a.txt\" | quote }}\n", n)
	}},
	{"files-glob-asconfig", true, func(c string, n int) string {
		return fmt.Sprintf("  k%d:\n{{ (.Files.Glob \"files/**\").AsConfig | indent 4 }}\n", n)
	}},
	{"files-glob-assecrets", true, func(c string, n int) string {
		return fmt.Sprintf("  k%d:\n{{ (.Files.Glob \"files/conf/*\").AsSecrets | indent 4 }}\n", n)
	}},
	{"files-lines", false, func(c string, n int) string {
		return fmt.Sprintf("{{- range $i, $l := .Files.Lines \"files/a.txt\" }}\n  l%d-{{ $i }}: {{ $l | quote }}\n{{- end }}\n", n)
	}},
	{"range-files-glob", true, func(c string, n int) string {
		return fmt.Sprintf("{{- range $p, $b := .Files.Glob \"files/**\" }}\n  g%d-{{ $p | replace \"/\" \"_\" | replace \".\" \"_\" }}: {{ $b | toString | sha256sum }}\n{{- end }}\n", n)
	}},
	{"tpl", false, func(c string, n int) string { return fmt.Sprintf("  k%d: {{ tpl .Values.tplstr . | quote }}\n", n) }},
	{"toJson-map", true, func(c string, n int) string { return fmt.Sprintf("  k%d: {{ toJson .Values.config | quote }}\n", n) }},
	{"sha-of-map", true, func(c string, n int) string {
		return fmt.Sprintf("  k%d: {{ toJson .Values.labels | sha256sum | quote }}\n", n)
	}},
	{"sorted-keys", true, func(c string, n int) string {
		return fmt.Sprintf("  k%d: {{ keys .Values.labels | sortAlpha | join \",\" | quote }}\n", n)
	}},
	{"toYaml-dict", true, func(c string, n int) string {
		return fmt.Sprintf("  k%d:\n{{ toYaml (dict \"z\" 1 \"a\" .Values.name \"m\" (list 1 2 3) \"q\" (dict \"y\" true \"b\" \"x\")) | indent 4 }}\n", n)
	}},
	{"nested-include-tpl", false, func(c string, n int) string {
		return fmt.Sprintf("  k%d: {{ include \"%s.nest\" (dict \"ctx\" . \"depth\" 3) | quote }}\n", n, c)
	}},
	{"global", true, func(c string, n int) string {
		return fmt.Sprintf("  k%d: {{ .Values.global.gk | default \"none\" | quote }}\n  k%dg: {{ toJson .Values.global | quote }}\n", n, n)
	}},
	{"builtins", false, func(c string, n int) string {
		return fmt.Sprintf("  k%d: {{ printf \"%%s|%%s|%%s|%%v|%%s|%%s\" .Capabilities.KubeVersion.Version .Chart.Version .Release.Namespace .Release.IsInstall .Template.Name .Template.BasePath | quote }}\n", n)
	}},
	{"getHostByName", false, func(c string, n int) string {
		return fmt.Sprintf("  k%d: {{ getHostByName \"localhost\" | quote }}\n", n)
	}},
	{"lookup", false, func(c string, n int) string {
		return fmt.Sprintf("  k%d: {{ lookup \"v1\" \"ConfigMap\" \"default\" \"x\" | toJson | quote }}\n", n)
	}},
	{"toToml-map", true, func(c string, n int) string { return fmt.Sprintf("  k%d: {{ toToml .Values.labels | quote }}\n", n) }},
	{"dup-define", false, func(c string, n int) string { return fmt.Sprintf("  k%d: {{ include \"common.tag\" . | quote }}\n", n) }},
	{"with-if", true, func(c string, n int) string {
		return fmt.Sprintf("{{- with .Values.config }}\n  k%d: {{ toJson . | sha1sum | quote }}\n{{- end }}\n{{- if .Values.flag }}\n  k%df: \"on\"\n{{- else }}\n  k%df: \"off\"\n{{- end }}\n", n, n, n)
	}},
	{"pick-omit", true, func(c string, n int) string {
		return fmt.Sprintf("  k%d: {{ omit .Values.labels \"alpha\" \"beta\" | toJson | quote }}\n", n)
	}},
	{"subcharts", true, func(c string, n int) string {
		return fmt.Sprintf("{{- range $n, $sc := .Subcharts }}\n  sc%d-{{ $n }}: {{ $sc.Chart.Name | quote }}\n{{- end }}\n", n)
	}},
	{"all-values-digest", true, func(c string, n int) string {
		return fmt.Sprintf("  k%d: {{ .Values | toJson | sha256sum | quote }}\n", n)
	}},
	{"yaml-roundtrip", true, func(c string, n int) string {
		return fmt.Sprintf("  k%d: {{ fromYaml (toYaml .Values.labels) | toJson | quote }}\n", n)
	}},
	{"string-funcs", false, func(c string, n int) string {
		return fmt.Sprintf("  k%d: {{ printf \"%%s-%%d\" (regexReplaceAll \"[aeiou]\" .Values.name \"_\") (int .Values.replicas) | upper | b64enc | quote }}\n", n)
	}},
	{"range-list", false, func(c string, n int) string {
		return fmt.Sprintf("{{- range $i, $e := .Values.items }}\n  i%d-{{ $i }}: {{ $e | quote }}\n{{- end }}\n", n)
	}},
	{"toYamlPretty", true, func(c string, n int) string {
		return fmt.Sprintf("  k%d:\n{{ toYamlPretty .Values.labels | indent 4 }}\n", n)
	}},
	{"set-values-trail", false, func(c string, n int) string {
		return fmt.Sprintf("{{- $_ := set .Values \"trail\" (printf \"%%s>%%s\" (.Values.trail | default \"\") (base .Template.Name)) }}\n  k%dtrail: {{ .Values.trail | quote }}\n", n)
	}},
	{"set-list-element-in-place", false, func(c string, n int) string {
		return fmt.Sprintf("{{- range .Values.containers }}{{ $_ := set . \"name\" (printf \"%%s-%%s\" $.Release.Name .name) }}{{ range .env }}{{ $_ := set . \"value\" (printf \"%%s!\" .value) }}{{ end }}{{ end }}\n  k%dc: {{ toJson .Values.containers | quote }}\n", n)
	}},
	{"capabilities-apiversions", false, func(c string, n int) string { return capsLine(n) }},
	{"range-nested-maps", true, func(c string, n int) string {
		return fmt.Sprintf("{{- range $k, $v := .Values.config }}\n  n%d-{{ $k }}: {{ kindOf $v | quote }}\n{{- end }}\n", n)
	}},
}

var docKinds = []struct{ kind, api string }{
	{"ConfigMap", "v1"}, {"Secret", "v1"}, {"Service", "v1"}, {"ServiceAccount", "v1"}, {"Deployment", "apps/v1"}, {"StatefulSet", "apps/v1"},
	{"Job", "batch/v1"}, {"Role", "rbac.authorization.k8s.io/v1"}, {"Widget", "example.com/v1"}, {"Gadget", "example.com/v1"}, {"Ingress", "networking.k8s.io/v1"},
	{"Namespace", "v1"}, {"Pod", "v1"}, {"Zebra", "zoo.example/v1"},
}

var hookEvents = []string{"pre-install", "post-install", "pre-upgrade", "post-upgrade", "pre-delete", "post-delete", "pre-rollback", "post-rollback", "test"}

func helpers(c string) string {
	return "{{- define \"" + c + ".name\" -}}\n{{ .Chart.Name }}-{{ .Values.name | default \"x\" }}\n{{- end -}}\n" +
		"{{- define \"" + c + ".labels\" -}}\n{{- range $k, $v := .Values.labels }}\n{{ $k }}: {{ $v | quote }}\n{{- end }}\nchart: {{ .Chart.Name }}\n{{- end -}}\n" +
		"{{- define \"common.tag\" -}}\ntag-from-" + c + "\n{{- end -}}\n" +
		"{{- define \"" + c + ".nest\" -}}\n{{- if gt (int .depth) 0 -}}\n{{ .ctx.Values.name }}>{{ include \"" + c + ".nest\" (dict \"ctx\" .ctx \"depth\" (sub (int .depth) 1)) }}\n{{- else -}}\n" +
		"{{ tpl \"{{ .Release.Name }}/{{ include \\\"" + c + ".name\\\" . }}\" .ctx }}\n{{- end -}}\n{{- end -}}\n"
}

// genOneChart fills out with the files of one chart rooted at prefix ("" or "charts/x/").
func genOneChart(rng *rand.Rand, cs *chartSpec, name, prefix string, depth int, listedDeps []string, conditions map[string]bool, vals map[string]any) {
	f := &cs.Feat
	out := cs.Files
	chartYAML := fmt.Sprintf("apiVersion: v2\nname: %s\nversion: 0.%d.0\nappVersion: \"1.%d\"\ndescription: generated chart %s\n", name, 1+depth, rng.Intn(9), name)
	if len(listedDeps) > 0 {
		chartYAML += "dependencies:\n"
		for _, d := range listedDeps {
			chartYAML += fmt.Sprintf("- name: %s\n  version: \">=0.1.0\"\n", d)
			if conditions[d] {
				chartYAML += fmt.Sprintf("  condition: %s.enabled\n", d)
			}
		}
	}
	out[prefix+"Chart.yaml"] = chartYAML
	out[prefix+"values.yaml"] = mustYAML(vals)
	// files
	nl := 2 + rng.Intn(4)
	var lines []string
	for i := 0; i < nl; i++ {
		lines = append(lines, word(rng)+" "+oddStrings[rng.Intn(len(oddStrings)-1)])
	}
	out[prefix+"files/a.txt"] = strings.ReplaceAll(strings.Join(lines, "\n"), "\n\n", "\n") + "\n"
	for i, n := 0, 1+rng.Intn(4); i < n; i++ {
		out[prefix+fmt.Sprintf("files/conf/%s%d.ini", word(rng), i)] = fmt.Sprintf("[%s]\nkey=%s\n", word(rng), word(rng))
	}
	if rng.Intn(2) == 0 {
		out[prefix+"files/deep/er/x.json"] = fmt.Sprintf("{\"%s\": %d}\n", word(rng), rng.Intn(100))
	}
	// partials
	out[prefix+"templates/_helpers.tpl"] = helpers(name)
	f.Partials++
	if rng.Intn(3) == 0 {
		out[prefix+"templates/sub/_more.tpl"] = "{{- define \"" + name + ".more\" -}}more-{{ .Values.name }}{{- end -}}\n"
		f.Partials++
	}
	// template files
	nt := 1 + rng.Intn(3)
	if depth == 0 {
		nt = 2 + rng.Intn(4)
	}
	// file naming: plain t<n>.yaml, or numbered names as chart authors write them, including pairs
	// that differ only in the zero padding of the number (step-1 / step-01) and numbers whose
	// string order differs from their numeric order (step-2 / step-10). In numbered charts the first
	// document of every file has the same kind (and all are hooks or none is), so the order in
	// which helm visits the files is visible in the manifest / hook list.
	numbered := rng.Intn(100) < 35
	pairHook := rng.Intn(2) == 0
	var numberedNames []string
	if numbered {
		stem := []string{"step", "job", "a"}[rng.Intn(3)]
		n := 1 + rng.Intn(9)
		pool := []string{fmt.Sprintf("%s-%d", stem, n), fmt.Sprintf("%s-%02d", stem, n), fmt.Sprintf("%s-%03d", stem, n), fmt.Sprintf("%s-%d", stem, n+1), fmt.Sprintf("%s-%d", stem, 10*n), fmt.Sprintf("%s-%d", stem, n+10)}
		rest := pool[2:]
		rng.Shuffle(len(rest), func(i, j int) { rest[i], rest[j] = rest[j], rest[i] })
		numberedNames = pool
		f.Constructs["numbered-file-names"] = true
	}
	for t := 0; t < nt; t++ {
		var b strings.Builder
		nd := 1 + rng.Intn(3)
		for j := 0; j < nd; j++ {
			if j > 0 {
				b.WriteString("---\n")
			}
			k := docKinds[rng.Intn(len(docKinds))]
			forced := numbered && j == 0
			if forced {
				k = docKinds[0]
			}
			fmt.Fprintf(&b, "apiVersion: %s\nkind: %s\nmetadata:\n  name: {{ .Release.Name }}-%s-t%d-%d\n  labels:\n    {{- include \"%s.labels\" . | trim | nindent 4 }}\n", k.api, k.kind, name, t, j, name)
			f.MapRanges++
			if hook := rng.Intn(5) == 0; (hook && !forced) || (forced && pairHook) {
				ev := hookEvents[rng.Intn(len(hookEvents))]
				if forced {
					ev = "pre-install"
				}
				if rng.Intn(3) == 0 {
					ev += "," + hookEvents[rng.Intn(len(hookEvents))]
				}
				fmt.Fprintf(&b, "  annotations:\n    \"helm.sh/hook\": %q\n", ev)
				if rng.Intn(2) == 0 {
					fmt.Fprintf(&b, "    \"helm.sh/hook-weight\": \"%d\"\n", rng.Intn(7)-3)
				}
				if rng.Intn(2) == 0 {
					fmt.Fprintf(&b, "    \"helm.sh/hook-delete-policy\": %q\n", []string{"hook-succeeded", "before-hook-creation", "hook-failed,hook-succeeded"}[rng.Intn(3)])
				}
				f.Hooks++
			}
			b.WriteString("data:\n  fixed: \"f\"\n")
			if depth == 0 && t == 0 && j == 0 {
				b.WriteString(capsLine(99))
				f.Constructs["capabilities-apiversions"] = true
			}
			nc := 2 + rng.Intn(6)
			for x := 0; x < nc; x++ {
				c := constructs[rng.Intn(len(constructs))]
				b.WriteString(c.text(name, x))
				f.Constructs[c.name] = true
				if c.name == "set-values-trail" {
					f.UsesSet = true
				}
				if c.mapRange {
					f.MapRanges++
				}
			}
		}
		p := fmt.Sprintf("templates/t%d.yaml", t)
		if rng.Intn(4) == 0 {
			p = fmt.Sprintf("templates/sub/t%d.yaml", t)
		}
		if numbered {
			p = "templates/" + numberedNames[t%len(numberedNames)] + ".yaml"
		}
		out[prefix+p] = b.String()
		f.TemplateFiles++
	}
	// notes
	notes := func(tag string) string {
		trail := ""
		if rng.Intn(3) == 0 {
			trail = "{{- $_ := set .Values \"trail\" (printf \"%s>notes-" + tag + "\" (.Values.trail | default \"\")) }}\ntrail={{ .Values.trail }}\n"
			f.UsesSet = true
		}
		return trail + fmt.Sprintf("NOTES of %s (%s): release {{ .Release.Name }} in {{ .Release.Namespace }}\n{{- range $k, $v := .Values.labels }}\n  {{ $k }}={{ $v }}\n{{- end }}\nname={{ include \"%s.name\" . }} tag={{ include \"common.tag\" . }}\n", name, tag, name)
	}
	if rng.Intn(100) < 75 {
		out[prefix+"templates/NOTES.txt"] = notes("main")
		f.NotesFiles++
		f.TemplateFiles++
	}
	if rng.Intn(100) < 15 {
		out[prefix+"templates/extra/NOTES.txt"] = notes("extra")
		f.NotesFiles++
		f.TemplateFiles++
	}
	// crds
	ncrd := 0
	if rng.Intn(100) < 40 {
		ncrd = 1 + rng.Intn(3)
	}
	for i := 0; i < ncrd; i++ {
		out[prefix+fmt.Sprintf("crds/%s%d.yaml", word(rng), i)] = fmt.Sprintf("apiVersion: apiextensions.k8s.io/v1\nkind: CustomResourceDefinition\nmetadata:\n  name: %s%ds.%s.example.com\nspec:\n  group: %s.example.com\n  names:\n    kind: %s%d\n", word(rng), i, name, name, strings.ToUpper(name[:1])+name[1:], i)
		f.CRDFiles++
	}
	if ncrd > f.MaxCRDFilesInChart {
		f.MaxCRDFilesInChart = ncrd
	}
}

// genChart builds one chart tree (root + 0-3 subcharts, depth <= 2), values and flags from rng.
func genChart(rng *rand.Rand) *chartSpec {
	cs := &chartSpec{Files: gen.Files{}, Feat: features{Constructs: map[string]bool{}}}
	cs.Name = "root" + word(rng)
	cs.Flags = flags{SubNotes: rng.Intn(2) == 0, IncludeCRDs: rng.Intn(2) == 0, DisableHooks: rng.Intn(4) == 0, IsUpgrade: rng.Intn(5) == 0}
	switch r := rng.Intn(10); {
	case r < 3:
	case r < 8: // exactly one extra entry
		cs.Flags.APIVersions = []string{apiVersionPool[rng.Intn(len(apiVersionPool))]}
	default:
		p := rng.Perm(len(apiVersionPool))
		cs.Flags.APIVersions = []string{apiVersionPool[p[0]], apiVersionPool[p[1]]}
	}

	var build func(name, prefix string, depth int) (hasCRDs bool)
	build = func(name, prefix string, depth int) bool {
		vals := genValuesTree(rng, name)
		nsub := 0
		if depth == 0 {
			nsub = rng.Intn(4)
		} else if depth == 1 && rng.Intn(4) == 0 {
			nsub = 1 + rng.Intn(2)
		}
		var listed []string
		conditions := map[string]bool{}
		var subNames []string
		sibsWithCRDs := 0
		used := map[string]bool{}
		for i := 0; i < nsub; i++ {
			sn := word(rng)
			if used[sn] || sn == name {
				sn = fmt.Sprintf("%s%d", sn, i)
			}
			used[sn] = true
			subNames = append(subNames, sn)
		}
		// at least half of the multi-subchart charts have all subcharts unlisted
		allUnlisted := rng.Intn(2) == 0
		for _, sn := range subNames {
			isListed := !allUnlisted && rng.Intn(2) == 0
			if isListed {
				listed = append(listed, sn)
				cs.Feat.ListedSubs++
				if rng.Intn(3) == 0 {
					conditions[sn] = true
				}
			} else {
				cs.Feat.UnlistedSubs++
			}
			cs.Feat.Subcharts++
			if depth+1 > cs.Feat.Depth {
				cs.Feat.Depth = depth + 1
			}
			before := cs.Feat.CRDFiles
			build(sn, prefix+"charts/"+sn+"/", depth+1)
			if cs.Feat.CRDFiles > before {
				sibsWithCRDs++
			}
			// parent-side overrides for the subchart
			ov := map[string]any{"name": word(rng) + "-ov", "enabled": true}
			if conditions[sn] && rng.Intn(4) == 0 {
				ov["enabled"] = false
			}
			if rng.Intn(2) == 0 {
				ov["labels"] = map[string]any{word(rng): "parent-" + word(rng)}
			}
			vals[sn] = ov
		}
		if sibsWithCRDs > cs.Feat.CRDSibs {
			cs.Feat.CRDSibs = sibsWithCRDs
		}
		genOneChart(rng, cs, name, prefix, depth, listed, conditions, vals)
		return false
	}
	build(cs.Name, "", 0)

	// user supplied values
	cs.Vals = map[string]any{"name": word(rng) + "-user"}
	if rng.Intn(2) == 0 {
		cs.Vals["labels"] = map[string]any{word(rng): "user-" + word(rng), word(rng): "user2"}
	}
	if rng.Intn(2) == 0 {
		cs.Vals["config"] = map[string]any{"extra": genMap(rng, 1)}
	}
	if rng.Intn(3) == 0 {
		cs.Vals["global"] = map[string]any{"gk": "user-global-" + word(rng)}
	}
	// a few charts fail deliberately: outcome (error) must be reproducible too
	if rng.Intn(100) < 4 {
		cs.Feat.Fails = true
		if rng.Intn(2) == 0 {
			cs.Files["templates/zfail.yaml"] = "apiVersion: v1\nkind: ConfigMap\nmetadata:\n  name: x\ndata:\n  v: {{ required \"need .Values.nope\" .Values.nope | quote }}\n"
		} else {
			cs.Files["templates/zfail.yaml"] = "{{ fail (printf \"deliberate failure in %s\" .Chart.Name) }}\n"
		}
		cs.Feat.TemplateFiles++
	}
	return cs
}
