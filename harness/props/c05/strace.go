package c05

import (
	"bufio"
	"encoding/json"
	"fmt"
	"os"
	"path/filepath"
	"regexp"
	"sort"
	"strconv"
	"strings"
	"syscall"

	"helm.sh/helm/v4/verifh/core"
)

// ---------------------------------------------------------------- worker side: brackets

// bracketer brackets monitored sections with marker opens that show up in the strace log:
// open("/verif-marker/begin-<n>-<tag>") ... open("/verif-marker/end-<n>"). Both fail with ENOENT.
// tag: mem = nothing outside the Go runtime may be opened; dir = additionally the chart
// directory; ctl = positive control (the harness itself opens a file and a socket).
type bracketer struct {
	on    bool
	n     int
	class string            // current description, set by the caller
	Index map[string]string `json:"index"` // bracket number -> class of what ran inside
}

func (b *bracketer) run(tag string, f func()) {
	if !b.on {
		f()
		return
	}
	b.n++
	b.Index[strconv.Itoa(b.n)] = b.class
	if fh, err := os.Open(fmt.Sprintf("/verif-marker/begin-%d-%s", b.n, tag)); err == nil {
		fh.Close()
	}
	f()
	if fh, err := os.Open(fmt.Sprintf("/verif-marker/end-%d", b.n)); err == nil {
		fh.Close()
	}
}

func (b *bracketer) save(caseID string) {
	if !b.on {
		return
	}
	dir := os.Getenv("VERIF_SCRATCH")
	if dir == "" {
		return
	}
	data, _ := json.Marshal(b)
	os.WriteFile(filepath.Join(dir, "c05-strace-index-"+caseID+".json"), data, 0o644)
}

// positiveControl performs, inside a ctl bracket, exactly the accesses the monitor must see.
func (b *bracketer) positiveControl(root string) {
	p := filepath.Join(root, "strace-control.txt")
	os.WriteFile(p, []byte("x"), 0o644)
	b.class = "positive control"
	b.run("ctl", func() {
		if fh, err := os.Open(p); err == nil {
			fh.Close()
		}
		if fd, err := syscall.Socket(syscall.AF_INET, syscall.SOCK_STREAM, 0); err == nil {
			syscall.Close(fd)
		}
	})
}

// ---------------------------------------------------------------- parent side: log analysis

var (
	callRe    = regexp.MustCompile(`^(\d+)\s+(\w+)\((.*)$`)
	resumedRe = regexp.MustCompile(`^(\d+)\s+<\.\.\. (\w+) resumed>(.*)$`)
	pathRe    = regexp.MustCompile(`"((?:[^"\\]|\\.)*)"`)
	retRe     = regexp.MustCompile(`\)\s+=\s+(-?\d+)`)
	beginRe   = regexp.MustCompile(`^/verif-marker/begin-(\d+)-(\w+)$`)
	endRe     = regexp.MustCompile(`^/verif-marker/end-(\d+)$`)
)

var runtimePrefixes = []string{"/proc/", "/sys/", "/dev/null", "/dev/urandom", "/etc/localtime", "/usr/share/zoneinfo", "/usr/lib/go", "/usr/local/go/lib/time"}

func runtimePath(p string) bool {
	for _, pre := range runtimePrefixes {
		if strings.HasPrefix(p, pre) {
			return true
		}
	}
	return strings.HasSuffix(p, "/lib/time/zoneinfo.zip")
}

type pendingCall struct {
	name, path string
	bracket    int
	tag        string
}

type straceStats struct {
	lines, inspected, brackets int64
	ctlOpen, ctlSocket         bool
}

// analyseStrace walks one strace -f output file. found is called for every refuting syscall.
func analyseStrace(path string, st *straceStats, found func(bracket int, tag, kind, detail string)) error {
	fh, err := os.Open(path)
	if err != nil {
		return err
	}
	defer fh.Close()
	sc := bufio.NewScanner(fh)
	sc.Buffer(make([]byte, 1<<20), 1<<24)
	cur, curTag := 0, ""
	pend := map[string]*pendingCall{}
	complete := func(c *pendingCall, rest string) {
		if c.bracket == 0 {
			return
		}
		m := retRe.FindStringSubmatch(rest)
		if m == nil {
			return
		}
		ret, _ := strconv.Atoi(m[1])
		if ret < 0 {
			return
		}
		switch {
		case c.tag == "ctl":
			st.ctlOpen = true
		case runtimePath(c.path):
		case c.tag == "dir" && strings.Contains(c.path, "/c05-chartdir-"):
		default:
			found(c.bracket, c.tag, "open", fmt.Sprintf("%s(%q) = %d", c.name, c.path, ret))
		}
	}
	for sc.Scan() {
		line := sc.Text()
		st.lines++
		if m := resumedRe.FindStringSubmatch(line); m != nil {
			if c := pend[m[1]]; c != nil && c.name == m[2] {
				delete(pend, m[1])
				complete(c, m[3])
			}
			continue
		}
		m := callRe.FindStringSubmatch(line)
		if m == nil {
			continue
		}
		pid, name, rest := m[1], m[2], m[3]
		switch name {
		case "open", "openat", "openat2", "creat":
			pm := pathRe.FindStringSubmatch(rest)
			if pm == nil {
				continue
			}
			p := pm[1]
			if bm := beginRe.FindStringSubmatch(p); bm != nil {
				cur, _ = strconv.Atoi(bm[1])
				curTag = bm[2]
				st.brackets++
				continue
			}
			if endRe.MatchString(p) {
				cur, curTag = 0, ""
				continue
			}
			if cur != 0 {
				st.inspected++
			}
			c := &pendingCall{name: name, path: p, bracket: cur, tag: curTag}
			if strings.Contains(rest, "<unfinished ...>") {
				pend[pid] = c
			} else {
				complete(c, rest)
			}
		case "socket", "connect":
			if cur == 0 {
				continue
			}
			st.inspected++
			if curTag == "ctl" {
				st.ctlSocket = true
				continue
			}
			d := line
			if len(d) > 200 {
				d = d[:200]
			}
			found(cur, curTag, name, d)
		}
	}
	return sc.Err()
}

// straceCaseOf finds the strace-mode case of this run (to attach violations / replays to).
func straceCases(seed int64, tier string) []core.Case {
	var out []core.Case
	for _, c := range genCases(seed, tier) {
		if c.Mode == "strace" {
			out = append(out, c)
		}
	}
	return out
}

func postStrace(a *core.Agg) string {
	cases := straceCases(a.Seed, a.Tier)
	if len(cases) == 0 {
		return ""
	}
	index := map[string]string{}
	idxFiles, _ := filepath.Glob(filepath.Join(a.Scratch, "c05-strace-index-*.json"))
	for _, f := range idxFiles {
		var b bracketer
		if data, err := os.ReadFile(f); err == nil && json.Unmarshal(data, &b) == nil {
			for k, v := range b.Index {
				index[k] = v
			}
		}
	}
	files, _ := filepath.Glob(filepath.Join(a.Scratch, "strace-*"))
	sort.Strings(files)
	if len(files) == 0 {
		return "no strace output found for the strace-mode case (is strace installed and permitted?)"
	}
	var st straceStats
	seen := map[string]bool{}
	for _, f := range files {
		err := analyseStrace(f, &st, func(bracket int, tag, kind, detail string) {
			what := index[strconv.Itoa(bracket)]
			if what == "" {
				what = "unknown section"
			}
			clause := "strace-open-outside-chart"
			if kind != "open" {
				clause = "strace-network-syscall"
			}
			class := kind + " during " + what
			a.Stats["strace_refuting_syscalls"]++
			if seen[clause+class] {
				return
			}
			seen[clause+class] = true
			a.ExtraViol = append(a.ExtraViol, core.CaseViolation{Case: cases[0], V: core.Violation{Clause: clause, Class: class,
				Detail: fmt.Sprintf("between markers begin-%d-%s / end-%d the worker issued %s (strace file %s)", bracket, tag, bracket, detail, filepath.Base(f))}})
		})
		if err != nil {
			return "cannot read strace output: " + err.Error()
		}
	}
	a.Stats["strace_lines"] = st.lines
	a.Stats["strace_syscalls_inspected_inside_brackets"] = st.inspected
	a.Stats["strace_brackets"] = st.brackets
	if st.brackets == 0 {
		return "strace log contains no render brackets"
	}
	if !st.ctlOpen || !st.ctlSocket {
		return fmt.Sprintf("strace positive control not observed (open seen=%v socket seen=%v): the syscall monitor is blind", st.ctlOpen, st.ctlSocket)
	}
	return ""
}
