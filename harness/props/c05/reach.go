package c05

import (
	"fmt"
	"os"
	"path/filepath"
	"strings"

	"sigs.k8s.io/yaml"

	"helm.sh/helm/v4/pkg/action"
	chart "helm.sh/helm/v4/pkg/chart/v2"
	"helm.sh/helm/v4/verifh/core"
	"helm.sh/helm/v4/verifh/env"
	"helm.sh/helm/v4/verifh/gen"
)

// A probe is a template expression that tries to reach outside the chart.
type probe struct {
	name      string // names the construct (part of the signature)
	expr      string // template expression, rendered as  v: {{ expr | quote }}
	vals      map[string]any
	wantErr   bool   // the render must fail (function does not exist)
	want      string // otherwise: the only acceptable value
	clusterCM bool   // needs a reachable (simulated) cluster holding a canary ConfigMap
}

func probes(absCanary, root string) []probe {
	q := func(s string) string { return fmt.Sprintf("%q", s) }
	return []probe{
		{name: "env", expr: `env "VERIF_CANARY_1"`, wantErr: true},
		{name: "expandenv", expr: `expandenv "$VERIF_CANARY_1 ${HOME}"`, wantErr: true},
		{name: "env inside tpl", expr: `tpl "{{ env \"VERIF_CANARY_1\" }}" .`, wantErr: true},
		{name: "expandenv inside tpl of a value", expr: `tpl .Values.t .`, vals: map[string]any{"t": `{{ expandenv "$HOME" }}`}, wantErr: true},
		{name: "env inside include", expr: `include "probe.env" .`, wantErr: true},
		{name: "getHostByName", expr: `getHostByName "localhost"`, want: ""},
		{name: "getHostByName inside tpl", expr: `tpl "{{ getHostByName \"localhost\" }}" .`, want: ""},
		{name: ".Files.Get ../", expr: `.Files.Get "../canary.txt"`, want: ""},
		{name: ".Files.Get ../../", expr: `.Files.Get "../../canary.txt"`, want: ""},
		{name: ".Files.Get absolute path", expr: `.Files.Get ` + q(absCanary), want: ""},
		{name: ".Files.Get cwd-relative file outside the chart", expr: `.Files.Get "canary.txt"`, want: ""},
		{name: ".Files.GetBytes absolute path", expr: `.Files.GetBytes ` + q(absCanary) + ` | toString`, want: ""},
		{name: ".Files.Lines absolute path", expr: `.Files.Lines ` + q(absCanary) + ` | join ","`, want: ""},
		{name: ".Files.Glob absolute pattern", expr: `(.Files.Glob ` + q(root+"/**") + `).AsConfig`, want: "{}"},
		{name: ".Files.Glob ../*", expr: `(.Files.Glob "../*").AsConfig`, want: "{}"},
		{name: ".Files.Glob ** sees only chart files", expr: `(.Files.Glob "**").AsConfig`, want: "inchart.txt: |\n  in-chart\n"},
		{name: "lookup in client-only mode", expr: `lookup "v1" "ConfigMap" "ns1" "canary-cm" | toJson`, want: "{}", clusterCM: true},
		{name: "lookup list in client-only mode", expr: `lookup "v1" "ConfigMap" "" "" | toJson`, want: "{}", clusterCM: true},
	}
}

func probeChart(p probe) gen.Files {
	tpl := "apiVersion: v1\nkind: ConfigMap\nmetadata:\n  name: probe\ndata:\n  v: {{ " + p.expr + " | quote }}\n"
	f := gen.Files{
		"Chart.yaml":             "apiVersion: v2\nname: probe\nversion: 0.1.0\n",
		"values.yaml":            "t: plain\n",
		"templates/p.yaml":       tpl,
		"templates/_helpers.tpl": "{{- define \"probe.ok\" -}}ok{{- end -}}\n",
		"inchart.txt":            "in-chart\n",
	}
	if p.name == "env inside include" {
		f["templates/_helpers.tpl"] += "{{- define \"probe.env\" -}}{{ env \"HOME\" }}{{- end -}}\n"
	}
	return f
}

func dataV(manifest string) (string, bool) {
	for _, d := range splitDocs(manifest) {
		var o struct {
			Data map[string]string `json:"data"`
		}
		if err := yaml.Unmarshal([]byte(d), &o); err == nil {
			if v, ok := o.Data["v"]; ok {
				return v, true
			}
		}
	}
	return "", false
}

// runReach executes every probe under two load forms and two working directories.
func runReach(res *core.Result, seed int64, root string, verbose bool, bracket func(tag, what string, f func())) {
	can := newCanaries(seed)
	saved := saveEnv()
	defer saved.restore()
	os.Setenv("VERIF_CANARY_1", can.mk("env"))
	os.Setenv("HOME", filepath.Join(root, can.mk("env")))
	absCanary := filepath.Join(root, "abs-canary.txt")
	os.WriteFile(absCanary, []byte(can.mk("file")+"\nsecond\n"), 0o644)
	os.WriteFile(filepath.Join(root, "canary.txt"), []byte(can.mk("file")+"\n"), 0o644)
	os.MkdirAll(filepath.Join(root, "d1", "d2"), 0o755)
	os.WriteFile(filepath.Join(root, "d1", "canary.txt"), []byte(can.mk("file")+"\n"), 0o644)
	os.WriteFile(filepath.Join(root, "d1", "d2", "canary.txt"), []byte(can.mk("file")+"\n"), 0o644)

	// not asserted, outside any syscall bracket: with EnableDNS the same expression is allowed to
	// resolve; counted to show that the override (and not the resolver) produced the "" above
	if s := renderInstall(probeChart(probe{expr: `getHostByName "localhost"`}).Build(), nil, flags{EnableDNS: true}, nil); !s.Err {
		if v, ok := dataV(s.Manifest); ok && v != "" {
			res.Stat("getHostByName_nonempty_with_EnableDNS", 1)
		}
	}
	// positive control of the probe scaffold: a harmless expression renders and is read back
	ctl := probe{name: "control", expr: `include "probe.ok" . | upper`, want: "OK"}
	for _, p := range append([]probe{ctl}, probes(absCanary, root)...) {
		files := probeChart(p)
		dir := filepath.Join(root, "d1", "d2", "c05-chartdir-probe")
		os.RemoveAll(dir)
		if err := writeDir(files, dir); err != nil {
			res.Inconclusive = err.Error()
			return
		}
		// canary next to templates inside cwd but outside the chart's file list is impossible when
		// cwd == chart dir, so cwd alternates between the chart dir's parent (holding canary.txt) and root
		for variant := 0; variant < 2; variant++ {
			var ch *chart.Chart
			var err error
			if variant == 0 {
				os.Chdir(filepath.Join(root, "d1", "d2"))
				ch, err = loadFrom(dir)
			} else {
				os.Chdir(root)
				ch = files.Build()
			}
			if err != nil {
				res.Add("generator-expectation", "probe chart does not load", "%v", err)
				continue
			}
			var cfg *action.Configuration
			var w *env.World
			if p.clusterCM {
				w = env.NewWorld("memory", "ns1")
				w.Sim.Put(map[string]any{"apiVersion": "v1", "kind": "ConfigMap", "metadata": map[string]any{"name": "canary-cm", "namespace": "ns1"}, "data": map[string]any{"secret": can.mk("cluster")}})
				cfg = w.Config("tpl")
			}
			var s snap
			bracket("mem", "render of a template using "+p.name, func() { s = renderInstall(ch, p.vals, flags{}, cfg) })
			res.Evals++
			res.Stat("reach_out_probes", 1)
			if verbose {
				fmt.Printf("probe %-45s variant %d: err=%v %q manifest=%q\n", p.name, variant, s.Err, s.ErrText, s.Manifest)
			}
			for where, text := range s.allText() {
				if src, k := can.find(text); k != "" {
					res.Add("canary-leak", fmt.Sprintf("canary planted in %s appears in %s; template uses %s", src, where, p.name), "canary %s | expr {{ %s }} | %s: %q", k, p.expr, where, text)
				}
			}
			switch {
			case p.wantErr:
				if !s.Err {
					res.Add("host-reachable-from-template", p.name+" is available to templates", "expr {{ %s }} rendered successfully: %q", p.expr, s.Manifest)
				} else if !strings.Contains(s.ErrText, "not defined") {
					res.Add("generator-expectation", "probe failed for another reason than a missing function", "probe %s: %s", p.name, s.ErrText)
				}
			default:
				if s.Err {
					res.Add("generator-expectation", "probe expression failed to render", "probe %s: %s", p.name, s.ErrText)
					break
				}
				v, ok := dataV(s.Manifest)
				if !ok {
					res.Add("generator-expectation", "probe value not found in manifest", "probe %s: %q", p.name, s.Manifest)
					break
				}
				if strings.TrimSpace(v) != strings.TrimSpace(p.want) {
					cl := "host-reachable-from-template"
					res.Add(cl, p.name+" returns data from outside the chart", "expr {{ %s }} gave %q, the only host-independent value is %q", p.expr, v, p.want)
				}
			}
			if w != nil {
				n := 0
				for _, e := range w.Sim.Log() {
					if e.Agent == "tpl" && e.Class != "discovery" {
						n++
					}
				}
				if n > 0 {
					res.Add("host-reachable-from-template", p.name+" sends requests to the cluster", "%d non-discovery requests logged for the client-only render", n)
				}
			}
		}
		os.RemoveAll(dir)
		res.Key("reach|%s", p.name)
	}
}
