package c05

import (
	"archive/tar"
	"bytes"
	"compress/gzip"
	"fmt"
	"io"
	"math/rand"
	"os"
	"path/filepath"
	"sort"
	"strings"

	"helm.sh/helm/v4/pkg/action"
	chart "helm.sh/helm/v4/pkg/chart/v2"
	"helm.sh/helm/v4/pkg/chart/v2/loader"
	chartutil "helm.sh/helm/v4/pkg/chart/v2/util"
	"helm.sh/helm/v4/pkg/engine"
	kubefake "helm.sh/helm/v4/pkg/kube/fake"
	release "helm.sh/helm/v4/pkg/release/v1"
	"helm.sh/helm/v4/pkg/storage"
	"helm.sh/helm/v4/pkg/storage/driver"
	"helm.sh/helm/v4/verifh/env"
	"helm.sh/helm/v4/verifh/gen"
)

// ---------------------------------------------------------------- snapshots

type hookSnap struct {
	Name, Kind, Path, Manifest string
	Events                     string
	Weight                     int
	DeletePolicies             string
	OutputLogPolicies          string
}

type snap struct {
	Err      bool
	ErrText  string
	Manifest string
	Notes    string
	Hooks    []hookSnap
}

func snapOf(rel *release.Release, err error) snap {
	s := snap{Err: err != nil}
	if err != nil {
		s.ErrText = err.Error()
	}
	if rel == nil {
		return s
	}
	s.Manifest = rel.Manifest
	if rel.Info != nil {
		s.Notes = rel.Info.Notes
	}
	for _, h := range rel.Hooks {
		hs := hookSnap{Name: h.Name, Kind: h.Kind, Path: h.Path, Manifest: h.Manifest, Weight: h.Weight}
		for _, e := range h.Events {
			hs.Events += string(e) + ","
		}
		for _, p := range h.DeletePolicies {
			hs.DeletePolicies += string(p) + ","
		}
		for _, p := range h.OutputLogPolicies {
			hs.OutputLogPolicies += string(p) + ","
		}
		s.Hooks = append(s.Hooks, hs)
	}
	return s
}

// allText is everything a render produced (for canary searches).
func (s snap) allText() map[string]string {
	m := map[string]string{"manifest": s.Manifest, "notes": s.Notes, "error": s.ErrText}
	var hb strings.Builder
	for _, h := range s.Hooks {
		hb.WriteString(h.Manifest)
		hb.WriteString("\n")
	}
	m["hooks"] = hb.String()
	return m
}

// renderInstall is the `helm template` path: client-only dry-run install.
func renderInstall(ch *chart.Chart, vals map[string]any, f flags, cfg *action.Configuration) snap {
	if cfg == nil {
		cfg = &action.Configuration{}
	}
	in := action.NewInstall(cfg)
	in.DryRun, in.ClientOnly, in.Replace = true, true, true
	in.ReleaseName, in.Namespace = "rel", "ns1"
	in.SubNotes, in.IncludeCRDs, in.DisableHooks, in.IsUpgrade, in.EnableDNS = f.SubNotes, f.IncludeCRDs, f.DisableHooks, f.IsUpgrade, f.EnableDNS
	in.APIVersions = append([]string(nil), f.APIVersions...)
	var rel *release.Release
	var err error
	func() {
		defer func() {
			if x := recover(); x != nil {
				err = fmt.Errorf("PANIC in install: %v", x)
			}
		}()
		rel, err = in.Run(ch, env.DeepCopyMap(vals))
	}()
	return snapOf(rel, err)
}

// dryRunOnConfig is a (non client-only) dry-run install on a configuration that already carries
// capabilities, e.g. the ones a previous client-only render on the same configuration left there.
func dryRunOnConfig(ch *chart.Chart, vals map[string]any, f flags, cfg *action.Configuration) snap {
	in := action.NewInstall(cfg)
	in.DryRun, in.Replace = true, true
	in.ReleaseName, in.Namespace = "rel", "ns1"
	in.SubNotes, in.IncludeCRDs, in.DisableHooks, in.IsUpgrade, in.EnableDNS = f.SubNotes, f.IncludeCRDs, f.DisableHooks, f.IsUpgrade, f.EnableDNS
	var rel *release.Release
	var err error
	func() {
		defer func() {
			if x := recover(); x != nil {
				err = fmt.Errorf("PANIC in install: %v", x)
			}
		}()
		rel, err = in.Run(ch, env.DeepCopyMap(vals))
	}()
	return snapOf(rel, err)
}

func offlineConfig() *action.Configuration {
	return &action.Configuration{Releases: storage.Init(driver.NewMemory()), KubeClient: &kubefake.PrintingKubeClient{Out: io.Discard}}
}

// neighbour is an unrelated small chart rendered (client-only) on its own configuration with its
// own single extra API version between / next to the renders under comparison.
var neighbourFiles = gen.Files{
	"Chart.yaml":        "apiVersion: v2\nname: neighbour\nversion: 0.1.0\n",
	"templates/cm.yaml": "apiVersion: v1\nkind: ConfigMap\nmetadata:\n  name: nb\ndata:\n" + capsLine(0),
}

func renderNeighbour(own []string) snap {
	extra := apiVersionPool[0]
	for _, c := range apiVersionPool {
		if len(own) == 0 || c != own[0] {
			extra = c
			break
		}
	}
	return renderInstall(neighbourFiles.Build(), map[string]any{}, flags{APIVersions: []string{extra}}, offlineConfig())
}

// differing returns the names of the components in which two renders differ. On errors only
// error-vs-success agreement is demanded (DESIGN: the text of error messages and the partial
// debugging output attached to a failed render are don't-care).
func differing(a, b snap) []string {
	if a.Err != b.Err {
		return []string{"outcome"}
	}
	if a.Err {
		return nil
	}
	var d []string
	if a.Manifest != b.Manifest {
		d = append(d, "manifest")
	}
	if a.Notes != b.Notes {
		d = append(d, "notes")
	}
	if !hooksEqual(a.Hooks, b.Hooks) {
		d = append(d, "hooks")
	}
	return d
}

func hooksEqual(a, b []hookSnap) bool {
	if len(a) != len(b) {
		return false
	}
	for i := range a {
		if a[i] != b[i] {
			return false
		}
	}
	return true
}

func splitDocs(m string) []string {
	var out []string
	for _, d := range strings.Split("\n"+m, "\n---\n") {
		// trailing newlines belong to the separator, not the document: the last document of a
		// manifest carries one more than the same document in the middle
		if strings.TrimSpace(d) != "" {
			out = append(out, strings.TrimRight(d, "\n"))
		}
	}
	return out
}

func sameMultiset(a, b []string) bool {
	if len(a) != len(b) {
		return false
	}
	x := append([]string(nil), a...)
	y := append([]string(nil), b...)
	sort.Strings(x)
	sort.Strings(y)
	for i := range x {
		if x[i] != y[i] {
			return false
		}
	}
	return true
}

// diagnose names the shape of a difference (stable: it depends on what differed, not where).
func diagnose(comp string, a, b snap) string {
	switch comp {
	case "outcome":
		return "one render fails, the other succeeds"
	case "manifest":
		da, db := splitDocs(a.Manifest), splitDocs(b.Manifest)
		if !sameMultiset(da, db) {
			return "content of manifest documents differs"
		}
		crdOnly := true
		for i := range da {
			if da[i] != db[i] {
				if !strings.Contains(strings.SplitN(da[i], "\n", 2)[0], "/crds/") {
					crdOnly = false
				}
			}
		}
		if crdOnly {
			return "order of crds/ documents differs"
		}
		return "order of template documents differs"
	case "notes":
		la, lb := strings.Split(a.Notes, "\n"), strings.Split(b.Notes, "\n")
		if sameMultiset(la, lb) {
			return "order of NOTES.txt sections differs"
		}
		return "content of notes differs"
	case "hooks":
		var ha, hb []string
		for _, h := range a.Hooks {
			ha = append(ha, fmt.Sprint(h))
		}
		for _, h := range b.Hooks {
			hb = append(hb, fmt.Sprint(h))
		}
		if sameMultiset(ha, hb) {
			return "order of hooks differs"
		}
		return "content of hooks differs"
	}
	return comp
}

// featureClass is the part of a signature that names the chart constructs relevant for comp.
func featureClass(comp string, cs *chartSpec) string {
	switch comp {
	case "notes":
		return fmt.Sprintf("subnotes=%v notes-files%s", cs.Flags.SubNotes, bucket2(cs.Feat.NotesFiles))
	case "manifest":
		return fmt.Sprintf("include-crds=%v sibling-subcharts-with-crds%s extra-api-versions=%d", cs.Flags.IncludeCRDs, bucket2(cs.Feat.CRDSibs), len(cs.Flags.APIVersions))
	case "manifest/archive-member-order":
		return fmt.Sprintf("include-crds=%v crd-files-in-one-chart%s", cs.Flags.IncludeCRDs, bucket2(cs.Feat.MaxCRDFilesInChart))
	case "hooks":
		return fmt.Sprintf("hook-documents%s", bucket2(cs.Feat.Hooks))
	}
	return fmt.Sprintf("deliberately-failing-template=%v", cs.Feat.Fails)
}

func bucket2(n int) string {
	if n >= 2 {
		return ">=2"
	}
	return "<2"
}

func firstDiff(a, b string) string {
	n := len(a)
	if len(b) < n {
		n = len(b)
	}
	i := 0
	for i < n && a[i] == b[i] {
		i++
	}
	lo := i - 80
	if lo < 0 {
		lo = 0
	}
	cut := func(s string) string {
		hi := i + 160
		if hi > len(s) {
			hi = len(s)
		}
		if lo > len(s) {
			return ""
		}
		return s[lo:hi]
	}
	return fmt.Sprintf("first difference at byte %d: A=%q B=%q", i, cut(a), cut(b))
}

func diffWitness(comp string, a, b snap) string {
	switch comp {
	case "outcome":
		return fmt.Sprintf("A err=%q B err=%q", a.ErrText, b.ErrText)
	case "manifest":
		return firstDiff(a.Manifest, b.Manifest)
	case "notes":
		return firstDiff(a.Notes, b.Notes)
	case "hooks":
		return firstDiff(fmt.Sprint(a.Hooks), fmt.Sprint(b.Hooks))
	}
	return ""
}

// ---------------------------------------------------------------- chart on disk

func sortedNames(f gen.Files) []string {
	var n []string
	for k := range f {
		n = append(n, k)
	}
	sort.Strings(n)
	return n
}

func writeDir(f gen.Files, root string) error {
	for _, n := range sortedNames(f) {
		p := filepath.Join(root, filepath.FromSlash(n))
		if err := os.MkdirAll(filepath.Dir(p), 0o755); err != nil {
			return err
		}
		if err := os.WriteFile(p, []byte(f[n]), 0o644); err != nil {
			return err
		}
	}
	return nil
}

// writeArchive writes name/<path> members in the given order.
func writeArchive(f gen.Files, name, path string, order []string) error {
	var buf bytes.Buffer
	zw := gzip.NewWriter(&buf)
	tw := tar.NewWriter(zw)
	for _, n := range order {
		data := []byte(f[n])
		if err := tw.WriteHeader(&tar.Header{Name: name + "/" + n, Mode: 0o644, Size: int64(len(data)), Typeflag: tar.TypeReg}); err != nil {
			return err
		}
		if _, err := tw.Write(data); err != nil {
			return err
		}
	}
	if err := tw.Close(); err != nil {
		return err
	}
	if err := zw.Close(); err != nil {
		return err
	}
	return os.WriteFile(path, buf.Bytes(), 0o644)
}

func loadFrom(path string) (ch *chart.Chart, err error) {
	defer func() {
		if x := recover(); x != nil {
			err = fmt.Errorf("PANIC in loader: %v", x)
		}
	}()
	return loader.Load(path)
}

// ---------------------------------------------------------------- engine.Render path

type engSnap struct {
	Err   bool
	Text  string
	Files map[string]string
}

// prepareEngine loads the chart once and resolves its dependencies; the returned chart object is
// then rendered many times (sequentially and concurrently).
func prepareEngine(cs *chartSpec) (*chart.Chart, map[string]any, error) {
	ch := cs.Files.Build()
	vals := env.DeepCopyMap(cs.Vals)
	if err := chartutil.ProcessDependencies(ch, vals); err != nil {
		return nil, nil, err
	}
	return ch, vals, nil
}

// engineRender = chartutil.ToRenderValues + engine.Render on the GIVEN chart object. The render
// values are composed afresh for every call (templates may `set` into .Values and into elements
// of default lists; helm hands every render its own copy of the chart defaults), the chart
// object is shared between calls.
func engineRender(ch *chart.Chart, vals map[string]any, dns bool) (s engSnap) {
	defer func() {
		if x := recover(); x != nil {
			s = engSnap{Err: true, Text: fmt.Sprintf("PANIC in engine: %v", x)}
		}
	}()
	top, err := chartutil.ToRenderValues(ch, env.DeepCopyMap(vals), chartutil.ReleaseOptions{Name: "rel", Namespace: "ns1", Revision: 1, IsInstall: true}, chartutil.DefaultCapabilities.Copy())
	if err != nil {
		return engSnap{Err: true, Text: err.Error()}
	}
	e := engine.Engine{EnableDNS: dns}
	out, err := e.Render(ch, top)
	if err != nil {
		return engSnap{Err: true, Text: err.Error()}
	}
	return engSnap{Files: out}
}

// engDiff returns the kind of difference (stable, part of signatures) and a witness.
func engDiff(a, b engSnap) (kind, detail string) {
	if a.Err != b.Err {
		return "success/failure outcome", fmt.Sprintf("A err=%q B err=%q", a.Text, b.Text)
	}
	if a.Err {
		return "", ""
	}
	for _, k := range sortedNames(a.Files) {
		v, ok := b.Files[k]
		if !ok {
			return "set of rendered files", k + " missing in B"
		}
		if v != a.Files[k] {
			return "content of a rendered file", k + ": " + firstDiff(a.Files[k], v)
		}
	}
	if len(a.Files) != len(b.Files) {
		return "set of rendered files", "B has extra files"
	}
	return "", ""
}

// ---------------------------------------------------------------- environment manipulation

type envSaver struct {
	environ []string
	cwd     string
}

func saveEnv() envSaver {
	cwd, _ := os.Getwd()
	return envSaver{environ: os.Environ(), cwd: cwd}
}

func (s envSaver) restore() {
	os.Clearenv()
	for _, kv := range s.environ {
		if i := strings.IndexByte(kv, '='); i > 0 {
			os.Setenv(kv[:i], kv[i+1:])
		}
	}
	if s.cwd != "" {
		os.Chdir(s.cwd)
	}
}

var envNames = []string{"HOME", "USER", "LOGNAME", "TZ", "LANG", "LC_ALL", "KUBECONFIG", "XDG_CONFIG_HOME", "XDG_CACHE_HOME", "XDG_DATA_HOME",
	"HELM_NAMESPACE", "HELM_DEBUG", "HELM_DRIVER", "HELM_KUBECONTEXT", "HELM_MAX_HISTORY", "HELM_CACHE_HOME", "HELM_CONFIG_HOME", "HELM_DATA_HOME",
	"HELM_PLUGINS", "HELM_REGISTRY_CONFIG", "HELM_REPOSITORY_CACHE", "HELM_REPOSITORY_CONFIG", "HELM_KUBEAPISERVER", "HELM_KUBETOKEN", "HELM_BURST_LIMIT",
	"NAME", "RELEASE_NAME", "VERIF_CANARY_1", "VERIF_CANARY_2", "VERIF_CANARY_3", "HTTP_PROXY", "HTTPS_PROXY", "NO_PROXY"}

// canaries of one case; the nonce encodes where it was planted.
type canaries struct {
	all []string
	n   int
	tag string
}

func newCanaries(seed int64) *canaries {
	return &canaries{tag: fmt.Sprintf("%08x", uint32(seed)^0x5bd1e995)}
}

func (c *canaries) mk(source string) string {
	c.n++
	s := fmt.Sprintf("VCNRY-%s-%s-%d-Z", source, c.tag, c.n)
	c.all = append(c.all, s)
	return s
}

// find returns (source, canary) of the first canary contained in s.
func (c *canaries) find(s string) (string, string) {
	if !strings.Contains(s, "VCNRY-") {
		return "", ""
	}
	for _, k := range c.all {
		if strings.Contains(s, k) {
			return strings.Split(k, "-")[1], k
		}
	}
	return "", ""
}

// applyEnvState k sets / unsets the environment names; every value carries a canary.
func applyEnvState(rng *rand.Rand, c *canaries, root string) string {
	var desc []string
	for _, n := range envNames {
		switch rng.Intn(3) {
		case 0:
			os.Unsetenv(n)
		default:
			v := c.mk("env")
			switch n {
			case "HOME", "KUBECONFIG", "XDG_CONFIG_HOME", "XDG_CACHE_HOME", "XDG_DATA_HOME", "HELM_CACHE_HOME", "HELM_CONFIG_HOME", "HELM_DATA_HOME", "HELM_PLUGINS", "HELM_REGISTRY_CONFIG", "HELM_REPOSITORY_CACHE", "HELM_REPOSITORY_CONFIG":
				v = filepath.Join(root, "envhome", v)
			case "TZ":
				v = []string{"UTC", "Asia/Tokyo", "America/Los_Angeles", "Pacific/Kiritimati"}[rng.Intn(4)]
			case "HTTP_PROXY", "HTTPS_PROXY":
				v = "http://127.0.0.1:9/" + v
			case "HELM_DEBUG":
				v = "true"
			case "HELM_MAX_HISTORY", "HELM_BURST_LIMIT":
				v = "7"
			}
			os.Setenv(n, v)
			desc = append(desc, n)
		}
	}
	return "set " + strings.Join(desc, ",")
}

// plantCwd creates a directory that looks like a chart made of canaries and returns it.
func plantCwd(c *canaries, dir string) error {
	files := map[string]string{
		"Chart.yaml":             "apiVersion: v2\nname: " + c.mk("cwd") + "\nversion: 9.9.9\n",
		"values.yaml":            "name: " + c.mk("cwd") + "\nlabels:\n  canary: " + c.mk("cwd") + "\n",
		"templates/_helpers.tpl": "{{- define \"common.tag\" -}}" + c.mk("cwd") + "{{- end -}}\n",
		"templates/NOTES.txt":    c.mk("cwd") + "\n",
		"files/a.txt":            c.mk("cwd") + "\n",
		"files/conf/x.ini":       c.mk("cwd") + "\n",
		"canary.txt":             c.mk("cwd") + "\n",
		".helmignore":            "templates/\n",
	}
	for n, v := range files {
		p := filepath.Join(dir, n)
		if err := os.MkdirAll(filepath.Dir(p), 0o755); err != nil {
			return err
		}
		if err := os.WriteFile(p, []byte(v), 0o644); err != nil {
			return err
		}
	}
	return nil
}
