package c05

import (
	"encoding/json"
	"fmt"
	"net"
	"os"
	"path/filepath"
	"strings"
	"sync/atomic"

	chartutil "helm.sh/helm/v4/pkg/chart/v2/util"
	"helm.sh/helm/v4/verifh/core"
	"helm.sh/helm/v4/verifh/gen"
)

// refForm is one way to spell a reference from values.schema.json to another document.
type refForm struct {
	form   string // URL form (part of the signature)
	schema func(canaryPath string, port int) string
	// internal: the referenced definition lives inside values.schema.json itself (chart content)
	internal bool
	sub      bool // the schema sits in a subchart
}

func refSchema(ref string) string {
	return fmt.Sprintf(`{"$schema":"https://json-schema.org/draft/2020-12/schema","type":"object","properties":{"name":{"$ref":%q}}}`, ref)
}

var refForms = []refForm{
	{form: "in-document #/$defs", internal: true, schema: func(string, int) string {
		return `{"$schema":"https://json-schema.org/draft/2020-12/schema","type":"object","properties":{"name":{"$ref":"#/$defs/n"}},"$defs":{"n":{"type":"string"}}}`
	}},
	{form: "file: URL", schema: func(p string, _ int) string { return refSchema("file://" + p) }},
	{form: "file: URL", schema: func(p string, _ int) string { return refSchema("file://localhost" + p) }},
	{form: "file: URL", schema: func(p string, _ int) string { return refSchema("file://" + filepath.Dir(p) + "/wrapped.json#/$defs/n") }},
	{form: "file: URL", sub: true, schema: func(p string, _ int) string { return refSchema("file://" + p) }},
	{form: "relative path", schema: func(p string, _ int) string { return refSchema(strings.TrimPrefix(p, "/")) }},
	{form: "relative path", schema: func(p string, _ int) string { return refSchema("../../.." + p) }},
	{form: "relative path", schema: func(p string, _ int) string {
		return fmt.Sprintf(`{"$id":"file://%s/values.schema.json","type":"object","properties":{"name":{"$ref":"canary.json"}}}`, filepath.Dir(p))
	}},
	{form: "absolute path", schema: func(p string, _ int) string { return refSchema(p) }},
	{form: "http: URL", schema: func(_ string, port int) string {
		return refSchema(fmt.Sprintf("http://127.0.0.1:%d/canary.json", port))
	}},
	{form: "https: URL", schema: func(_ string, port int) string {
		return refSchema(fmt.Sprintf("https://127.0.0.1:%d/canary.json", port))
	}},
	{form: "$schema naming a file: URL", schema: func(p string, _ int) string {
		return fmt.Sprintf(`{"$schema":"file://%s","type":"object","properties":{"name":{"type":"string"}}}`, p)
	}},
}

func schemaChart(f refForm, schema string) gen.Files {
	files := gen.Files{
		"Chart.yaml":        "apiVersion: v2\nname: sch\nversion: 0.1.0\n",
		"values.yaml":       "name: abc\nsub:\n  name: abc\n",
		"templates/cm.yaml": "apiVersion: v1\nkind: ConfigMap\nmetadata:\n  name: x\ndata:\n  n: {{ .Values.name | quote }}\n",
	}
	if f.sub {
		files["charts/sub/Chart.yaml"] = "apiVersion: v2\nname: sub\nversion: 0.1.0\n"
		files["charts/sub/values.yaml"] = "name: abc\n"
		files["charts/sub/values.schema.json"] = schema
	} else {
		files["values.schema.json"] = schema
	}
	return files
}

// runSchema: for every reference form validate the same values while the referenced host
// document says "string", says "integer", contains a canary, or does not exist.
func runSchema(res *core.Result, seed int64, root string, verbose bool, bracket func(tag, what string, f func())) {
	can := newCanaries(seed)
	saved := saveEnv()
	defer saved.restore()
	os.Chdir(root)
	// a listener that only counts connections: an http(s) $ref must not even be dialled
	var hits atomic.Int64
	port := 9
	if ln, err := net.Listen("tcp", "127.0.0.1:0"); err == nil {
		port = ln.Addr().(*net.TCPAddr).Port
		defer ln.Close()
		go func() {
			for {
				c, err := ln.Accept()
				if err != nil {
					return
				}
				hits.Add(1)
				c.Close()
			}
		}()
	}
	canaryPath := filepath.Join(root, "canary.json")
	wrapped := filepath.Join(root, "wrapped.json")
	leak := can.mk("file")
	states := []struct{ name, doc string }{
		{"host document accepts strings", `{"type":"string"}`},
		{"host document accepts integers only", `{"type":"integer"}`},
		{"host document is an enum of a canary", fmt.Sprintf(`{"enum":[%q]}`, leak)},
		{"host document absent", ""},
	}
	reported := map[string]bool{}
	for fi, f := range refForms {
		schema := f.schema(canaryPath, port)
		files := schemaChart(f, schema)
		type outcome struct {
			accept bool
			err    string
		}
		var viaInstall, direct []outcome
		for _, st := range states {
			if st.doc == "" {
				os.Remove(canaryPath)
				os.Remove(wrapped)
			} else {
				os.WriteFile(canaryPath, []byte(st.doc), 0o644)
				os.WriteFile(wrapped, []byte(`{"$defs":{"n":`+st.doc+`}}`), 0o644)
			}
			var s snap
			bracket("mem", "schema validation; $ref form: "+f.form, func() { s = renderInstall(files.Build(), map[string]any{}, flags{}, nil) })
			viaInstall = append(viaInstall, outcome{!s.Err, s.ErrText})
			var derr error
			core.Guard(res, "ValidateAgainstSchema", func() {
				ch := files.Build()
				vals, err := chartutil.CoalesceValues(ch, map[string]any{})
				if err != nil {
					derr = err
					return
				}
				bracket("mem", "schema validation; $ref form: "+f.form, func() { derr = chartutil.ValidateAgainstSchema(ch, vals) })
			})
			o := outcome{accept: derr == nil}
			if derr != nil {
				o.err = derr.Error()
			}
			direct = append(direct, o)
			res.Evals += 2
			res.Stat("schema_validations_with_flipped_host_document", 2)
			for _, text := range []string{s.ErrText, o.err, s.Manifest, s.Notes} {
				if src, k := can.find(text); k != "" && !reported["leak"+f.form] {
					reported["leak"+f.form] = true
					res.Add("canary-leak", fmt.Sprintf("content of a host %s outside the chart appears in the schema validation error; $ref form: %s", src, f.form), "schema %s | state %q | canary %s in %q", schema, st.name, k, text)
				}
			}
			if verbose {
				fmt.Printf("form %-28s #%d state %-40s install-accept=%v direct-accept=%v err=%q\n", f.form, fi, st.name, !s.Err, derr == nil, strings.ReplaceAll(o.err, "\n", " | "))
			}
		}
		for _, via := range []struct {
			name string
			o    []outcome
		}{{"dry-run install", viaInstall}, {"ValidateAgainstSchema", direct}} {
			same := true
			for i := range via.o {
				if via.o[i].accept != via.o[0].accept {
					same = false
				}
			}
			if !same && !reported["flip"+f.form] {
				reported["flip"+f.form] = true
				var p []string
				for i, st := range states {
					p = append(p, fmt.Sprintf("%s -> accept=%v", st.name, via.o[i].accept))
				}
				b, _ := json.Marshal(schema)
				res.Add("schema-outcome-follows-host-file", "$ref form: "+f.form, "via %s, values {name: abc}, schema %s (subchart=%v): %s", via.name, b, f.sub, strings.Join(p, "; "))
			}
		}
		if f.internal {
			// positive control: the same probe values DO flip when the chart's own definition flips
			alt := strings.Replace(schema, `"n":{"type":"string"}`, `"n":{"type":"integer"}`, 1)
			a := renderInstall(schemaChart(f, schema).Build(), map[string]any{}, flags{}, nil)
			b := renderInstall(schemaChart(f, alt).Build(), map[string]any{}, flags{}, nil)
			if a.Err || !b.Err {
				res.Add("generator-expectation", "schema probe values are not sensitive to the referenced definition", "string-def err=%q integer-def err=%q", a.ErrText, b.ErrText)
			} else {
				res.Stat("schema_positive_controls", 1)
			}
		}
		res.Key("schema|%s|sub=%v|#%d", f.form, f.sub, fi)
	}
	if n := hits.Load(); n > 0 {
		res.Add("network-reached-from-schema", "http(s) $ref dialled", "%d connections arrived at the harness listener on 127.0.0.1:%d", n, port)
	}
	res.Stat("schema_ref_forms", int64(len(refForms)))
}
