// Package c01: release revision ledger stays well-formed under any history and faults.
package c01

import (
	"fmt"
	"math/rand"
	"strings"

	"helm.sh/helm/v4/verifh/core"
	"helm.sh/helm/v4/verifh/env"
	"helm.sh/helm/v4/verifh/gen"
	"helm.sh/helm/v4/verifh/ref"
	"helm.sh/helm/v4/verifh/sim"
)

type caseData struct {
	HSeed  int64  `json:"hseed"`
	Driver string `json:"driver"`
	HLen   int    `json:"hlen"`
	Target int    `json:"target"` // index of the op under fault
	// Only: restrict to one fault (replay aid): "kind:k"
	Only string `json:"only,omitempty"`
	// LongLimit > 0 selects the long-history family: a fault-free history of LongLimit+5 revisions
	// (install, upgrades, a few rollbacks) under history limit LongLimit, judged after every op.
	// It reaches revision numbers with two digits, where the Kubernetes-backed drivers list
	// records in name order (.v1, .v10, .v11, .v2 ...).
	LongLimit int `json:"longLimit,omitempty"`
	// EnumDepth > 0 selects the short exhaustive family: install (ok / readiness failure / first
	// mutation rejected = EnumInst 0..2) followed by every sequence of EnumDepth upgrades/rollbacks,
	// each ok / failing at the readiness wait / failing at its first mutation, all under history
	// limit EnumLimit; judged after every op. It reaches the states in which a failed or superseded
	// revision that an action still holds in memory has just been pruned.
	EnumDepth int `json:"enumDepth,omitempty"`
	EnumLimit int `json:"enumLimit,omitempty"`
	EnumInst  int `json:"enumInst,omitempty"`
}

const relName = "rel"

func init() {
	core.Register(&core.Prop{
		ID:    "C01",
		Level: "fault_enumeration",
		Rule: "histories of install/upgrade/rollback/uninstall from gen.NewHistory over a 4-version chart family, on memory/secrets/configmaps storage; for the target op every call position k gets a cluster fault (500 once), a storage-write fault, and a cut (process death after call k) followed by 1-2 recovery ops; every wait/hook-watch call fails once. " +
			"distinct_nontrivial counts distinct (driver, op kind+flags, fault kind, faulted call role, outcome class, resulting ledger shape) tuples in which the fault actually fired.",
		Assumptions: []string{
			"the simulated API server (sim) applies requests like a real API server (CRUD, strategic/merge patch, 404/409)",
			"a cut = all later calls of the op fail at transport level without being applied; recovery runs under a fresh action.Configuration",
			"single-fault model: one injected fault per execution; earlier ops of the history run fault-free",
			"readiness is scripted at kube.Interface.GetWaiter",
		},
		Gen:            genCases,
		Run:            run,
		CaseTimeoutSec: 600,
	})
}

func genCases(seed int64, tier string) []core.Case {
	nh := 10
	if tier == "thorough" {
		nh = 150
	}
	var out []core.Case
	rng := rand.New(rand.NewSource(seed*7919 + 1))
	for _, drv := range []string{"memory", "secrets", "configmaps"} {
		for _, lim := range []int{2, 3, 10} {
			out = append(out, core.Case{ID: fmt.Sprintf("long-%s-max%d", drv, lim), Data: core.J(caseData{HSeed: rng.Int63(), Driver: drv, LongLimit: lim})})
		}
	}
	depth := 2
	if tier == "thorough" {
		depth = 3
	}
	for _, drv := range []string{"memory", "secrets", "configmaps"} {
		for _, lim := range []int{1, 2} {
			for inst := 0; inst < 3; inst++ {
				out = append(out, core.Case{ID: fmt.Sprintf("enum-%s-max%d-i%d", drv, lim, inst), Data: core.J(caseData{HSeed: rng.Int63(), Driver: drv, EnumDepth: depth, EnumLimit: lim, EnumInst: inst})})
			}
		}
	}
	for h := 0; h < nh; h++ {
		hs := rng.Int63()
		hl := 3 + rng.Intn(3)
		if tier == "thorough" {
			hl = 3 + rng.Intn(6)
		}
		for _, drv := range []string{"memory", "secrets", "configmaps"} {
			for t := 0; t < hl; t++ {
				out = append(out, core.Case{ID: fmt.Sprintf("h%d-%s-t%d", h, drv, t), Data: core.J(caseData{HSeed: hs, Driver: drv, HLen: hl, Target: t})})
			}
		}
	}
	return out
}

type setup struct {
	fam gen.Family
	ops []env.Op
}

func mkSetup(d caseData) setup {
	rng := rand.New(rand.NewSource(d.HSeed))
	fam := gen.NewFamily(rng, gen.FamilyOpts{Versions: 4, MaxSlots: 6, Hooks: true, Keep: true})
	ops := gen.NewHistory(rng, gen.HistoryOpts{Len: d.HLen, Versions: 4, MaxHistory: true, Atomic: true, Uninstall: true, Failures: true})
	return setup{fam, ops}
}

func (s setup) exec(w *env.World, agent string, op env.Op) env.OpResult {
	var ch = s.fam.Files(op.Chart).Build()
	return w.ExecInject(agent, relName, op, ch)
}

// prefix runs ops[:p] fault-free and returns the world.
func (s setup) prefix(driver string, p int) *env.World {
	w := env.NewWorld(driver, "ns1")
	for i := 0; i < p; i++ {
		s.exec(w, fmt.Sprintf("pre%d", i), s.ops[i])
	}
	return w
}

func opsString(ops []env.Op) string {
	var p []string
	for _, o := range ops {
		p = append(p, o.String())
	}
	return strings.Join(p, " ; ")
}

// callRole names the role of a logged call relative to the ledger at op start.
func callRole(e sim.Event, before []env.Rec) string {
	if e.Class == "storage" {
		if e.Name == "" {
			return "storage " + e.Method + " list"
		}
		rev, _ := ref.StorageKeyRev(e.Name)
		role := "old-record"
		if d := ref.LatestDeployed(before); d != nil && d.Revision == rev {
			role = "prev-deployed-record"
		}
		if rev > ref.MaxRev(before) {
			role = fmt.Sprintf("new-record+%d", rev-ref.MaxRev(before))
		}
		return "storage " + e.Method + " " + role
	}
	role := "manifest-resource"
	if strings.Contains(e.Name, "-hook-") {
		role = "hook-object"
	}
	return e.Class + " " + e.Method + " " + role
}

func run(c core.Case, verbose bool) core.Result {
	env.Quiet()
	var d caseData
	core.U(c, &d)
	var res core.Result
	if d.EnumDepth > 0 {
		return runEnum(d, verbose)
	}
	if d.LongLimit > 0 {
		return runLong(d, verbose)
	}
	s := mkSetup(d)
	target := s.ops[d.Target]
	hist := opsString(s.ops[:d.Target+1])

	// ---- baseline: the whole prefix including the target, invariants after every op
	w := env.NewWorld(d.Driver, "ns1")
	var baseTrace []sim.Event
	var before []env.Rec
	var baseWaits, baseWatches int
	for i := 0; i <= d.Target; i++ {
		agent := fmt.Sprintf("pre%d", i)
		if i == d.Target {
			agent = "op"
			w.Script.Reset()
		}
		b, _ := w.Ledger(relName)
		r := s.exec(w, agent, s.ops[i])
		a, bad := w.Ledger(relName)
		detail := func() string {
			return fmt.Sprintf("history: %s | op %d %s err=%q | ledger before [%s] after [%s]", hist, i, s.ops[i], r.ErrString(), env.LedgerString(b), env.LedgerString(a))
		}
		judge(&res, w, s.ops[i], r, b, a, bad, agent, plainCtx(s.ops[i], b), true, detail)
		if i == d.Target {
			before = b
			baseTrace = w.Sim.Done("op")
			baseWaits, baseWatches = w.Script.Counts()
			res.Key("%s|%s|baseline|%s|%s", d.Driver, target, errClass(r.Err), shape(a))
		}
		res.Evals++
	}
	if verbose {
		fmt.Printf("history: %s\nbaseline trace of target op (%d calls, %d waits, %d watches):\n", hist, len(baseTrace), baseWaits, baseWatches)
		for _, e := range baseTrace {
			fmt.Printf("  #%d %s %s %s/%s -> %d   [%s]\n", e.N, e.Class, e.Method, e.Kind, e.Name, e.Code, callRole(e, before))
		}
	}
	res.Stat("baseline_calls_of_target_ops", int64(len(baseTrace)))

	// ---- fault enumeration on the target op
	type fault struct {
		kind string // cluster | storage | cut | wait | watch
		k    int
	}
	var faults []fault
	// The memory driver lives inside the helm process and keeps the caller's pointers: it has no
	// write failures, and a process death takes the storage with it. Storage faults and cuts are
	// therefore only meaningful (and only generated) on the Kubernetes-backed drivers.
	persistent := d.Driver != "memory"
	for _, e := range baseTrace {
		switch {
		case e.Class == "storage" && e.Method != "GET":
			if persistent {
				faults = append(faults, fault{"storage", e.N})
			}
		case e.Class == "mutation" || e.Class == "read":
			faults = append(faults, fault{"cluster", e.N})
		}
		if persistent {
			faults = append(faults, fault{"cut", e.N})
		}
	}
	for j := 1; j <= baseWaits; j++ {
		faults = append(faults, fault{"wait", j})
	}
	for j := 1; j <= baseWatches; j++ {
		faults = append(faults, fault{"watch", j})
	}
	byN := map[int]sim.Event{}
	for _, e := range baseTrace {
		byN[e.N] = e
	}
	for _, f := range faults {
		if d.Only != "" && d.Only != fmt.Sprintf("%s:%d", f.kind, f.k) {
			continue
		}
		w := s.prefix(d.Driver, d.Target)
		w.Script.Reset()
		before, _ := w.Ledger(relName)
		var fl *sim.Fault
		role := ""
		switch f.kind {
		case "cluster", "storage":
			k := f.k
			fl = w.Sim.AddFault(&sim.Fault{Match: func(r *sim.Req) bool { return r.Agent == "op" && r.N == k }, Code: 500, Once: true})
			role = callRole(byN[f.k], before)
		case "cut":
			w.Sim.CutAfter("op", f.k)
			role = "after " + callRole(byN[f.k], before)
		case "wait":
			w.Script.FailWaitNth, w.Script.FailAgent = f.k, "op"
			role = fmt.Sprintf("wait#%d", f.k)
		case "watch":
			w.Script.FailWatchNth, w.Script.FailAgent = f.k, "op"
			role = fmt.Sprintf("hook-watch#%d", f.k)
		}
		r := s.exec(w, "op", target)
		w.Sim.ClearFaults()
		w.Script.Reset()
		res.Evals++
		fired := true
		if fl != nil && fl.Fired() == 0 {
			fired = false
		}
		after, bad := w.Ledger(relName)
		ctx := fmt.Sprintf("%s/%s-fault:%s", target.Kind, f.kind, role)
		detail := func() string {
			return fmt.Sprintf("driver %s | history: %s | target op %s with %s fault at position %d (%s) err=%q | ledger before [%s] after [%s]", d.Driver, hist, target, f.kind, f.k, role, r.ErrString(), env.LedgerString(before), env.LedgerString(after))
		}
		storageHealthy := f.kind != "storage" && f.kind != "cut"
		if f.kind == "cut" {
			// the op "died": its return value was never seen by anyone; only state invariants apply
			ref.LedgerBasic(&res, after, bad, ctx, detail)
			ref.CheckCreates(&res, before, w.Sim.Log(), "op", ctx, detail)
			if target.Kind == "upgrade" || target.Kind == "rollback" {
				ref.CheckPruning(&res, before, after, w.Sim.Log(), "op", target.MaxHistory, false, ctx, detail)
			}
			ref.HistoryAgrees(&res, w, relName, after, ctx, detail)
			// recovery by fresh processes
			rrng := rand.New(rand.NewSource(d.HSeed ^ int64(f.k*7919+d.Target)))
			nrec := 1 + rrng.Intn(2)
			var recKinds []string
			for j := 0; j < nrec; j++ {
				var rop env.Op
				switch rrng.Intn(5) {
				case 0, 1:
					rop = env.Op{Kind: "upgrade", Chart: rrng.Intn(4), MaxHistory: target.MaxHistory}
				case 2:
					rop = env.Op{Kind: "rollback", MaxHistory: target.MaxHistory}
				case 3:
					rop = env.Op{Kind: "uninstall", KeepHistory: rrng.Intn(2) == 0}
				default:
					rop = env.Op{Kind: "install", Chart: rrng.Intn(4), Replace: true}
				}
				recKinds = append(recKinds, rop.Kind)
				agent := fmt.Sprintf("rec%d", j)
				b2, _ := w.Ledger(relName)
				rr := s.exec(w, agent, rop)
				a2, bad2 := w.Ledger(relName)
				res.Evals++
				ctx2 := plainCtx(rop, b2)
				detail2 := func() string {
					return detail() + fmt.Sprintf(" | recovery op %s err=%q ledger [%s] -> [%s]", rop, rr.ErrString(), env.LedgerString(b2), env.LedgerString(a2))
				}
				judge(&res, w, rop, rr, b2, a2, bad2, agent, ctx2, true, detail2)
			}
			res.Key("%s|%s|cut|%s|%s|rec=%s", d.Driver, target.Kind, role, shape(after), strings.Join(recKinds, ","))
			continue
		}
		judge(&res, w, target, r, before, after, bad, "op", ctx, storageHealthy, detail)
		if fired {
			res.Stat("faults_fired_"+f.kind, 1)
			res.Key("%s|%s|%s|%s|%s|%s", d.Driver, target, f.kind, role, errClass(r.Err), shape(after))
		} else {
			res.Stat("faults_not_reached", 1)
		}
	}
	res.Stat("fault_positions_enumerated", int64(len(faults)))
	if d.Target == 0 {
		res.Sample = map[string]any{"driver": d.Driver, "history": opsString(s.ops), "target_op": target.String(), "baseline_calls": len(baseTrace), "faults_enumerated": len(faults)}
	}
	return res
}

// plainCtx is the witness class of an op that ran without an injected fault: its kind, the
// flags that select a code path, and the status of the highest revision before it.
func plainCtx(op env.Op, before []env.Rec) string {
	s := op.Kind
	if op.Replace {
		s += "+replace"
	}
	if op.KeepHistory {
		s += "+keep-history"
	}
	if op.Atomic {
		s += "+atomic"
	}
	last := "none"
	if r := ref.Find(before, ref.MaxRev(before)); r != nil {
		last = r.Status
	}
	return s + " (no fault) on a history whose last revision is " + last
}

// runEnum executes the short exhaustive family (see caseData.EnumDepth).
func runEnum(d caseData, verbose bool) core.Result {
	var res core.Result
	rng := rand.New(rand.NewSource(d.HSeed))
	fam := gen.NewFamily(rng, gen.FamilyOpts{Versions: 4, MaxSlots: 3})
	s := setup{fam: fam}
	injects := []string{"", "wait", "mut"}
	choices := 6 // (upgrade|rollback) x inject
	total := 1
	for i := 0; i < d.EnumDepth; i++ {
		total *= choices
	}
	for seq := 0; seq < total; seq++ {
		ops := []env.Op{{Kind: "install", Chart: 0, NoHooks: true, Inject: injects[d.EnumInst]}}
		x := seq
		for i := 0; i < d.EnumDepth; i++ {
			c := x % choices
			x /= choices
			op := env.Op{Kind: "upgrade", Chart: 1 + (i+c)%3, MaxHistory: d.EnumLimit, NoHooks: true, Inject: injects[c%3]}
			if c >= 3 {
				op = env.Op{Kind: "rollback", MaxHistory: d.EnumLimit, NoHooks: true, Inject: injects[c%3]}
			}
			ops = append(ops, op)
		}
		w := env.NewWorld(d.Driver, "ns1")
		var hist []string
		for i, op := range ops {
			hist = append(hist, op.String())
			agent := fmt.Sprintf("enum%d", i)
			b, _ := w.Ledger(relName)
			r := s.exec(w, agent, op)
			a, bad := w.Ledger(relName)
			detail := func() string {
				return fmt.Sprintf("driver %s | short history (limit %d): %s | op %d %s err=%q | ledger before [%s] after [%s]", d.Driver, d.EnumLimit, strings.Join(hist, " ; "), i, op, r.ErrString(), env.LedgerString(b), env.LedgerString(a))
			}
			ctx := strings.Replace(plainCtx(op, b), "(no fault)", "(environment failure: "+map[string]string{"": "none", "wait": "readiness wait", "mut": "first mutation rejected"}[op.Inject]+")", 1) + fmt.Sprintf(" --history-max=%d", op.MaxHistory)
			judge(&res, w, op, r, b, a, bad, agent, ctx, true, detail)
			res.Evals++
			res.Stat("short_history_ops", 1)
			if r.Err != nil {
				res.Stat("short_history_ops_failed", 1)
			}
			if len(b) > len(a) || (len(b) == len(a) && len(b) > 0 && ref.MaxRev(a) > ref.MaxRev(b)) {
				res.Stat("short_history_ops_that_pruned", 1)
			}
			if verbose {
				fmt.Println(detail())
			}
			if i == len(ops)-1 {
				res.Key("enum|%s|max%d|%s|%s", d.Driver, d.EnumLimit, op.Kind+"/"+op.Inject, shape(a))
			}
		}
	}
	return res
}

// runLong executes the long-history family (see caseData.LongLimit).
func runLong(d caseData, verbose bool) core.Result {
	var res core.Result
	rng := rand.New(rand.NewSource(d.HSeed))
	fam := gen.NewFamily(rng, gen.FamilyOpts{Versions: 4, MaxSlots: 3})
	s := setup{fam: fam}
	w := env.NewWorld(d.Driver, "ns1")
	n := d.LongLimit + 5
	var hist []string
	for i := 0; i < n; i++ {
		op := env.Op{Kind: "upgrade", Chart: rng.Intn(4), MaxHistory: d.LongLimit, NoHooks: true}
		if i == 0 {
			op = env.Op{Kind: "install", Chart: rng.Intn(4), NoHooks: true}
		} else if i > 2 && rng.Intn(5) == 0 {
			op = env.Op{Kind: "rollback", MaxHistory: d.LongLimit, NoHooks: true}
		}
		hist = append(hist, op.String())
		agent := fmt.Sprintf("long%d", i)
		b, _ := w.Ledger(relName)
		r := s.exec(w, agent, op)
		a, bad := w.Ledger(relName)
		detail := func() string {
			return fmt.Sprintf("driver %s | long history (limit %d): %s | op %d %s err=%q | ledger before [%s] after [%s]", d.Driver, d.LongLimit, strings.Join(hist, " ; "), i, op, r.ErrString(), env.LedgerString(b), env.LedgerString(a))
		}
		judge(&res, w, op, r, b, a, bad, agent, plainCtx(op, b)+" (long history)", true, detail)
		res.Evals++
		res.Stat("long_history_ops", 1)
		if ref.MaxRev(a) >= 10 {
			res.Stat("long_history_ops_with_two_digit_revisions", 1)
		}
		if verbose {
			fmt.Println(detail())
		}
	}
	a, _ := w.Ledger(relName)
	res.Key("long|%s|max%d|%s", d.Driver, d.LongLimit, shape(a))
	return res
}

func errClass(err error) string {
	if err == nil {
		return "ok"
	}
	return "err"
}

func shape(recs []env.Rec) string {
	var p []string
	for _, r := range recs {
		p = append(p, r.Status)
	}
	return strings.Join(p, ",")
}

// judge evaluates I1..I6 for one finished op.
func judge(res *core.Result, w *env.World, op env.Op, r env.OpResult, before, after []env.Rec, bad []string, agent, ctx string, storageHealthy bool, detail func() string) {
	ref.LedgerBasic(res, after, bad, ctx, detail)
	ref.CheckCreates(res, before, w.Sim.Log(), agent, ctx, detail)
	if op.Kind == "upgrade" || op.Kind == "rollback" {
		ref.CheckPruning(res, before, after, w.Sim.Log(), agent, op.MaxHistory, storageHealthy, ctx, detail)
	}
	ref.HistoryAgrees(res, w, relName, after, ctx, detail)
	if r.Err != nil || op.DryRun != "" {
		return
	}
	// I4: the op reported success
	switch op.Kind {
	case "uninstall":
		if !op.KeepHistory && len(after) != 0 {
			res.Add("I4-uninstall-left-history", ctx, "uninstall without keep-history succeeded but revisions remain: [%s] | %s", env.LedgerString(after), detail())
		}
	case "install", "upgrade", "rollback":
		maxBefore := ref.MaxRev(before)
		var top *env.Rec
		for i := range after {
			if top == nil || after[i].Revision > top.Revision {
				top = &after[i]
			}
		}
		if top == nil || top.Revision <= maxBefore {
			res.Add("I4-no-new-revision", ctx, "%s succeeded but the highest revision is not new | %s", op.Kind, detail())
			return
		}
		if top.Status != "deployed" {
			res.Add("I4-new-revision-not-deployed", ctx, "%s succeeded but its revision %d is %q | %s", op.Kind, top.Revision, top.Status, detail())
		}
		if pd := ref.LatestDeployed(before); pd != nil {
			if now := ref.Find(after, pd.Revision); now != nil && now.Status != "superseded" {
				res.Add("I4-previous-not-superseded", ctx, "%s succeeded but the previously deployed revision %d is now %q | %s", op.Kind, pd.Revision, now.Status, detail())
			}
		}
		if op.Kind == "rollback" {
			t := op.ToRev
			if t == 0 {
				t = maxBefore - 1
			}
			if tr := ref.Find(before, t); tr != nil {
				if tr.Manifest != top.Manifest || tr.Config != top.Config || tr.ChartJSON != top.ChartJSON {
					res.Add("I4-rollback-content-differs", ctx, "rollback to %d created revision %d with different chart/values/manifest | %s", t, top.Revision, detail())
				}
			}
		}
	}
}
