// Package c17: monitor for property C17 (see DESIGN.md section 3).
package c17
