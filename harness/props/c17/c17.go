// Package c17: provenance verification accepts exactly untampered, trusted-key-signed charts.
//
// Observed: error / non-error and Verification{FileHash, FileName, SignedBy} of the real
// provenance.Signatory.Verify, downloader.VerifyChart, action.Verify, ChartPathOptions.LocateChart
// (Verify) and a verifying ChartDownloader.DownloadTo (local HTTP file source) on charts that were
// packaged and signed by helm itself (action.Package --sign / Signatory.ClearSign) with freshly
// generated OpenPGP keys, and on every mutation class of archive, clear-signed body, headers and
// signature armor, structural mutants, keyring variants and renamed archives.
//
// Oracle. Hard clauses (no library involved): archive bytes changed => fail; base name changed =>
// fail; signer not in keyring => fail; no provenance file => fail; untouched => pass with
// FileHash = sha256 of the archive. Library-classified clause for provenance mutants: expected =
// x/crypto clearsign.Decode + openpgp.CheckDetachedSignature accept the mutant with that keyring
// AND the files entry for the base name (own YAML parse of the decoded text) equals the archive's
// sha256. A mutant the library accepts although its canonical signed text differs from the
// original is reported as inconclusive (trusted-base anomaly), not as a helm violation.
//
// Sequences of operations that share one repository cache / destination directory (leftovers of
// failed, deferred or unverified fetches; keyring, upstream or cache content changed in between)
// are in reuse.go, with their hard-clause oracle.
//
// Don't-care zones: which error is returned; spelling variants of the digest (upper-case hex,
// missing "sha256:" prefix) are not generated; VerifyIfPossible / the dependency manager when NO provenance
// file is available (proceeding is the documented behaviour; with a provenance file present a
// failing verification must fail); expiry / revocation of keys (the text says "a key in the
// given keyring"); OCI sources.
package c17

import (
	"bytes"
	"crypto"
	"crypto/sha256"
	"encoding/hex"
	"fmt"
	"io"
	"log"
	"log/slog"
	"math/rand"
	"net"
	"net/http"
	"os"
	"path/filepath"
	"strings"
	"sync"

	"golang.org/x/crypto/openpgp"           //nolint
	"golang.org/x/crypto/openpgp/clearsign" //nolint
	"golang.org/x/crypto/openpgp/packet"    //nolint
	yaml3 "gopkg.in/yaml.v3"

	"helm.sh/helm/v4/pkg/action"
	"helm.sh/helm/v4/pkg/cli"
	"helm.sh/helm/v4/pkg/downloader"
	"helm.sh/helm/v4/pkg/getter"
	"helm.sh/helm/v4/pkg/provenance"
	"helm.sh/helm/v4/verifh/core"
)

type caseData struct {
	Seed  int64  `json:"seed"`
	Group string `json:"group"` // archive | body | armor | structural
	Tier  string `json:"tier"`
	Only  string `json:"only,omitempty"` // replay aid: "kind@pos"
}

func init() {
	core.Register(&core.Prop{
		ID:    "C17",
		Level: "exploration",
		Rule: "seeded charts packaged and signed by helm (action.Package --sign and Signatory.ClearSign) with OpenPGP RSA keys generated per worker; per chart: every byte position (stride-sampled to ~240 positions per part in the quick tier; thorough: all positions, all 8 bit flips at every 4th) of archive, clear-signed headers+body and signature armor × {bit flip, byte replacement, insertion, deletion, truncation}; structural mutants (re-signed messages with swapped / extra / missing file entries, other signer, other hash, duplicated / prefixed blocks, several clear-signed blocks (untrusted-key block vouching for a tampered archive before / after / around the genuine block, blank-line and text gaps) with the tampered archive on disk, CRLF, trailing blanks, header changes, second signature block); keyrings {signer, signer+others, others, empty, missing, secret ring, same user id other key}; keyring files rewritten in place between verifications (same path, same process: signer removed / added / file emptied / removed / replaced by rename); renamed / moved archives incl. names not ending in .tgz (.tar.gz, .tar, none, .zip, ...; untouched and tampered bytes) by direct URL, repository index reference and dependency manager; through Signatory.Verify and downloader.VerifyChart (all mutants) and action.Verify, LocateChart(Verify), DownloadTo(VerifyAlways/VerifyIfPossible/VerifyLater), action.Pull with --verify × --prov × --untar (sampled + all structural) and Manager.Update(VerifyIfPossible/VerifyAlways) / Manager.Build(VerifyIfPossible) on a local-server repository dependency (the dependency whose verification must fail must give an error and must not reach charts/); sequences of operations sharing ONE repository cache / destination directory and one chart reference (URL and repo/chart), so that the leftovers of an earlier step are on disk for the next: failed verification retried, deferred (VerifyLater / pull --prov) or unverified fetch followed by a verifying one, keyring changed after a verified fetch, upstream or cache content replaced after a verified fetch, archive+provenance planted in the cache, provenance withdrawn upstream — every verifying step that succeeds must hand out exactly the signed bytes with the signer in the keyring as it is now, and must succeed when the genuine pair is served and the signer is trusted. " +
			"distinct_nontrivial counts (part, mutation kind, expected outcome, entry point) tuples.",
		Assumptions: []string{
			"golang.org/x/crypto/openpgp (clearsign.Decode, CheckDetachedSignature, armor) is the trusted definition of 'valid signature by a key in the keyring'",
			"key material is generated once per worker process (crypto/rsa deliberately defeats deterministic generation); the case list and every mutation are functions of the seed",
			"crypto/sha256 and gopkg.in/yaml.v3 (reference parse of the files map) are trusted",
		},
		Gen:            genCases,
		Run:            run,
		Post:           post,
		CaseTimeoutSec: 600,
	})
}

var groups = []string{"archive", "body", "armor", "structural"}

func genCases(seed int64, tier string) []core.Case {
	n := 16
	if tier == "thorough" {
		n = 120
	}
	rng := rand.New(rand.NewSource(seed*15485863 + 17))
	var out []core.Case
	for i := 0; i < n; i++ {
		cs := rng.Int63()
		for _, g := range groups {
			out = append(out, core.Case{ID: fmt.Sprintf("chart%03d-%s", i, g), Data: core.J(caseData{Seed: cs, Group: g, Tier: tier})})
		}
	}
	return out
}

// ---------------------------------------------------------------- keys (once per worker)

type keyset struct {
	A, B, C, D *openpgp.Entity // A signs; D has A's user id but is another key
	err        error
}

var (
	keysOnce sync.Once
	keys     keyset
)

func getKeys() *keyset {
	keysOnce.Do(func() {
		mk := func(name, email string, bits int) *openpgp.Entity {
			e, err := openpgp.NewEntity(name, "verif", email, &packet.Config{RSABits: bits, DefaultHash: crypto.SHA256})
			if err != nil && keys.err == nil {
				keys.err = err
			}
			return e
		}
		keys.A = mk("Signer A", "a@example.test", 2048)
		keys.B = mk("Other B", "b@example.test", 2048)
		keys.C = mk("Other C", "c@example.test", 1024)
		keys.D = mk("Signer A", "a@example.test", 1024)
	})
	return &keys
}

func writeRing(path string, secret bool, es ...*openpgp.Entity) {
	var buf bytes.Buffer
	for _, e := range es {
		var err error
		if secret {
			err = e.SerializePrivate(&buf, nil)
		} else {
			err = e.Serialize(&buf)
		}
		if err != nil {
			panic(err)
		}
	}
	if err := os.WriteFile(path, buf.Bytes(), 0o600); err != nil {
		panic(err)
	}
}

// ---------------------------------------------------------------- local file source (once per worker)

type fileServer struct {
	mu    sync.Mutex
	files map[string][]byte
	base  string
	hits  int64
}

var (
	srvOnce sync.Once
	srv     *fileServer
)

func getServer() *fileServer {
	srvOnce.Do(func() {
		s := &fileServer{files: map[string][]byte{}}
		ln, err := net.Listen("tcp", "127.0.0.1:0")
		if err != nil {
			panic(err)
		}
		s.base = "http://" + ln.Addr().String()
		go http.Serve(ln, http.HandlerFunc(func(w http.ResponseWriter, r *http.Request) {
			s.mu.Lock()
			b, ok := s.files[r.URL.Path]
			s.hits++
			s.mu.Unlock()
			if !ok {
				http.NotFound(w, r)
				return
			}
			w.Header().Set("Content-Type", "application/octet-stream")
			w.Header().Set("Connection", "close") // every helm getter owns a transport: do not pile up idle connections
			w.Write(b)
		}))
		srv = s
	})
	return srv
}

func (s *fileServer) set(path string, b []byte) {
	s.mu.Lock()
	if b == nil {
		delete(s.files, path)
	} else {
		s.files[path] = b
	}
	s.mu.Unlock()
}

// ---------------------------------------------------------------- chart generation and signing

type world struct {
	dir      string // case temp dir
	work     string // directory holding the file pair under test
	base     string // archive base name
	name     string // chart name
	version  string // chart version
	archive  []byte
	prov     []byte
	sum      string // "sha256:..."
	ringA    string // keyring file: signer only
	sigA     *provenance.Signatory
	settings *cli.EnvSettings
	via      string
}

var names = []string{"web", "my-chart", "db2", "a", "chart.with.dots", "UPPER"}
var versions = []string{"1.0.0", "0.1.0-beta.1", "2.3.4+build.7", "10.20.30", "1.0.0-rc.1+exp"}

func chartFiles(rng *rand.Rand) (name, version string, files map[string]string) {
	name = names[rng.Intn(len(names))]
	version = versions[rng.Intn(len(versions))]
	var y strings.Builder
	fmt.Fprintf(&y, "apiVersion: v2\nname: %s\nversion: %s\n", name, version)
	switch rng.Intn(4) {
	case 0:
		y.WriteString("description: plain description\n")
	case 1:
		y.WriteString("description: |\n  first line  \n  - dash line\n  ...\n  -----BEGIN PGP SIGNATURE-----\n  tab\t\n")
	case 2:
		y.WriteString("description: \"unicode \\u00e9\\u4e2d trailing  \"\n")
	}
	if rng.Intn(2) == 0 {
		y.WriteString("keywords:\n- one\n- two words\n- \"-dash\"\n")
	}
	if rng.Intn(2) == 0 {
		y.WriteString("maintainers:\n- name: M\n  email: m@example.test\n")
	}
	if rng.Intn(3) == 0 {
		y.WriteString("annotations:\n  \"files\": \"x\"\n  k: \"...\"\n")
	}
	files = map[string]string{
		"Chart.yaml":                              y.String(),
		"values.yaml":                             fmt.Sprintf("replicas: %d\nnote: %q\n", rng.Intn(9), strings.Repeat("v", rng.Intn(40))),
		"templates/configmap.yaml":                "apiVersion: v1\nkind: ConfigMap\nmetadata:\n  name: {{ .Release.Name }}-cm\ndata:\n  k: {{ .Values.note | quote }}\n",
		"templates/NOTES.txt":                     strings.Repeat("notes ", rng.Intn(30)),
		fmt.Sprintf("files/f%d.txt", rng.Intn(3)): strings.Repeat(string(rune('a'+rng.Intn(26))), rng.Intn(300)),
	}
	return
}

func setup(rng *rand.Rand, dir string) (*world, error) {
	ks := getKeys()
	if ks.err != nil {
		return nil, ks.err
	}
	w := &world{dir: dir}
	name, version, files := chartFiles(rng)
	w.name, w.version = name, version
	src := filepath.Join(dir, "src", name)
	for p, c := range files {
		fp := filepath.Join(src, p)
		os.MkdirAll(filepath.Dir(fp), 0o755)
		if err := os.WriteFile(fp, []byte(c), 0o644); err != nil {
			return nil, err
		}
	}
	w.ringA = filepath.Join(dir, "ringA.gpg")
	writeRing(w.ringA, false, ks.A)
	secring := filepath.Join(dir, "secring.gpg")
	writeRing(secring, true, ks.B, ks.A)
	w.work = filepath.Join(dir, "work")
	os.MkdirAll(w.work, 0o755)
	var archivePath string
	if rng.Intn(2) == 0 {
		w.via = "action.Package --sign"
		p := action.NewPackage()
		p.Sign, p.Key, p.Keyring, p.Destination = true, "Signer A", secring, w.work
		ap, err := p.Run(src, nil)
		if err != nil {
			return nil, fmt.Errorf("package --sign: %w", err)
		}
		archivePath = ap
	} else {
		w.via = "Signatory.ClearSign"
		p := action.NewPackage()
		p.Destination = w.work
		ap, err := p.Run(src, nil)
		if err != nil {
			return nil, fmt.Errorf("package: %w", err)
		}
		keyfile := filepath.Join(dir, "keyA.sec")
		writeRing(keyfile, true, ks.A)
		s, err := provenance.NewFromFiles(keyfile, w.ringA)
		if err != nil {
			return nil, fmt.Errorf("NewFromFiles: %w", err)
		}
		sig, err := s.ClearSign(ap)
		if err != nil {
			return nil, fmt.Errorf("ClearSign: %w", err)
		}
		if err := os.WriteFile(ap+".prov", []byte(sig), 0o644); err != nil {
			return nil, err
		}
		archivePath = ap
	}
	var err error
	w.base = filepath.Base(archivePath)
	if w.archive, err = os.ReadFile(archivePath); err != nil {
		return nil, err
	}
	if w.prov, err = os.ReadFile(archivePath + ".prov"); err != nil {
		return nil, err
	}
	w.sum = digest(w.archive)
	if w.sigA, err = provenance.NewFromKeyring(w.ringA, ""); err != nil {
		return nil, err
	}
	w.settings = &cli.EnvSettings{
		PluginsDirectory: filepath.Join(dir, "plugins"),
		RepositoryConfig: filepath.Join(dir, "repositories.yaml"),
		RepositoryCache:  filepath.Join(dir, "cache"),
		RegistryConfig:   filepath.Join(dir, "registry.json"),
	}
	os.WriteFile(w.settings.RepositoryConfig, []byte("apiVersion: \"\"\ngenerated: \"0001-01-01T00:00:00Z\"\nrepositories: []\n"), 0o644)
	return w, nil
}

func digest(b []byte) string {
	h := sha256.Sum256(b)
	return "sha256:" + hex.EncodeToString(h[:])
}

// ---------------------------------------------------------------- reference

// libVerdict: does the OpenPGP library accept the first clear-signed block of prov with ring?
func libVerdict(prov []byte, ring openpgp.EntityList) (ok bool, blk *clearsign.Block) {
	blk, _ = clearsign.Decode(prov)
	if blk == nil {
		return false, nil
	}
	_, err := openpgp.CheckDetachedSignature(ring, bytes.NewReader(blk.Bytes), blk.ArmoredSignature.Body)
	return err == nil, blk
}

// listedDigest: own parse of the signed text: the files entry for base.
func listedDigest(plaintext []byte, base string) (string, bool) {
	parts := bytes.Split(plaintext, []byte("\n...\n"))
	if len(parts) < 2 {
		return "", false
	}
	var sc struct {
		Files map[string]string `yaml:"files"`
	}
	if err := yaml3.Unmarshal(parts[1], &sc); err != nil {
		return "", false
	}
	d, ok := sc.Files[base]
	return d, ok
}

func expectedByLibrary(prov []byte, ring openpgp.EntityList, base, sum string) (bool, *clearsign.Block) {
	ok, blk := libVerdict(prov, ring)
	if !ok {
		return false, blk
	}
	d, listed := listedDigest(blk.Plaintext, base)
	return listed && d == sum, blk
}

// ---------------------------------------------------------------- mutation

var kinds = []string{"bitflip", "replace", "insert", "delete", "truncate"}

func mutate(rng *rand.Rand, b []byte, kind string, pos int, bit int) []byte {
	switch kind {
	case "bitflip":
		o := append([]byte(nil), b...)
		o[pos] ^= 1 << uint(bit)
		return o
	case "replace":
		o := append([]byte(nil), b...)
		nb := byte(rng.Intn(256))
		if nb == o[pos] {
			nb++
		}
		o[pos] = nb
		return o
	case "insert":
		o := make([]byte, 0, len(b)+1)
		o = append(o, b[:pos]...)
		var nb byte
		switch rng.Intn(4) {
		case 0:
			nb = b[pos] // duplicate the byte
		case 1:
			nb = []byte{' ', '\t', '\n', '\r', '-', '=', ':'}[rng.Intn(7)]
		default:
			nb = byte(rng.Intn(256))
		}
		o = append(o, nb)
		return append(o, b[pos:]...)
	case "delete":
		o := make([]byte, 0, len(b))
		o = append(o, b[:pos]...)
		return append(o, b[pos+1:]...)
	case "truncate":
		return append([]byte(nil), b[:pos]...)
	}
	panic(kind)
}

// mutRng: the random choices of one mutant depend only on (case seed, position, kind, bit).
func mutRng(seed int64, pos int, kind string, bit int) *rand.Rand {
	return rand.New(rand.NewSource(seed ^ int64(pos+1)*1000003 ^ int64(len(kind))*7919 ^ int64(bit)<<40))
}

// ---------------------------------------------------------------- entry points

type verdict struct {
	ok       bool
	err      error
	hash     string
	fileName string
	signer   [20]byte
	hasSig   bool
}

func fromVer(v *provenance.Verification, err error) verdict {
	vd := verdict{ok: err == nil, err: err}
	if v != nil {
		vd.hash, vd.fileName = v.FileHash, v.FileName
		if v.SignedBy != nil && v.SignedBy.PrimaryKey != nil {
			vd.signer, vd.hasSig = v.SignedBy.PrimaryKey.Fingerprint, true
		}
	}
	return vd
}

type checker struct {
	res     *core.Result
	w       *world
	verbose bool
	count   int
	keys    map[string]bool
}

func (c *checker) key(k string) {
	if c.keys == nil {
		c.keys = map[string]bool{}
	}
	if !c.keys[k] {
		c.keys[k] = true
		c.res.Keys = append(c.res.Keys, k)
	}
}

// judge compares one verdict with the expectation. hard=true: the expectation follows from a hard
// clause (no library); otherwise it is the library-classified clause.
func (c *checker) judge(ep, part, kind string, expect, hard bool, vd verdict, sum string, detail func() string) {
	res := c.res
	class := fmt.Sprintf("%s · %s/%s", ep, part, kind)
	exp := "reject"
	if expect {
		exp = "accept"
	}
	res.Evals++
	res.Stat("verifications_"+ep, 1)
	c.key(part + "|" + kind + "|" + exp + "|" + ep)
	switch {
	case vd.ok && !expect:
		cl := "accepted-although-library-rejects-or-digest-not-listed"
		if hard {
			cl = "accepted-but-must-fail"
		}
		res.Add(cl, class, "%s returned success (FileHash %q) | %s", ep, vd.hash, detail())
	case !vd.ok && expect:
		cl := "rejected-although-library-accepts-and-digest-listed"
		if hard {
			cl = "rejected-but-must-pass"
		}
		res.Add(cl, class, "%s failed: %v | %s", ep, vd.err, detail())
	case vd.ok && expect:
		if vd.hash != sum {
			res.Add("filehash-wrong", class, "%s succeeded with FileHash %q, archive sha256 is %q | %s", ep, vd.hash, sum, detail())
		}
	}
}

// verifyPair runs the entry points on the file pair (archivePath, archivePath+".prov").
// full=false: Signatory.Verify + VerifyChart only.
func (c *checker) verifyPair(part, kind string, archivePath string, sig *provenance.Signatory, ringFile string, expect, hard, full bool, sum string, detail func() string) {
	var vd verdict
	if sig != nil {
		core.Guard(c.res, "Signatory.Verify", func() { vd = fromVer(sig.Verify(archivePath, archivePath+".prov")) })
		c.judge("Signatory.Verify", part, kind, expect, hard, vd, sum, detail)
		if vd.ok && expect && (vd.fileName != filepath.Base(archivePath) || !vd.hasSig) {
			c.res.Add("verification-record-wrong", "Signatory.Verify · "+part+"/"+kind, "FileName %q signer-present=%v | %s", vd.fileName, vd.hasSig, detail())
		}
	}
	core.Guard(c.res, "downloader.VerifyChart", func() { vd = fromVer(downloader.VerifyChart(archivePath, ringFile)) })
	c.judge("downloader.VerifyChart", part, kind, expect, hard, vd, sum, detail)
	if !full {
		return
	}
	// action.Verify
	core.Guard(c.res, "action.Verify", func() {
		v := action.NewVerify()
		v.Keyring = ringFile
		err := v.Run(archivePath)
		vd = verdict{ok: err == nil, err: err, hash: sum}
		if err == nil && !strings.Contains(v.Out, sum) {
			vd.hash = "(output: " + v.Out + ")"
		}
	})
	c.judge("action.Verify", part, kind, expect, hard, vd, sum, detail)
	// LocateChart with --verify on a local file
	core.Guard(c.res, "LocateChart(local,verify)", func() {
		o := action.ChartPathOptions{Verify: true, Keyring: ringFile}
		_, err := o.LocateChart(archivePath, c.w.settings)
		vd = verdict{ok: err == nil, err: err, hash: sum}
	})
	c.judge("LocateChart(local,verify)", part, kind, expect, hard, vd, sum, detail)
}

// download runs the verifying download paths with the given bytes served by the local file source.
func (c *checker) download(part, kind string, base string, archive, prov []byte, ringFile string, expect, hard bool, sum string, detail func() string) {
	s := getServer()
	c.count++
	prefix := fmt.Sprintf("/p%d-%d", os.Getpid(), c.count)
	s.set(prefix+"/"+base, archive)
	s.set(prefix+"/"+base+".prov", prov)
	defer s.set(prefix+"/"+base, nil)
	defer s.set(prefix+"/"+base+".prov", nil)
	url := s.base + prefix + "/" + base
	httpOnly := getter.Providers{{Schemes: []string{"http", "https"}, New: getter.NewHTTPGetter}}

	dest := filepath.Join(c.w.dir, fmt.Sprintf("dl%d", c.count))
	os.MkdirAll(dest, 0o755)
	defer os.RemoveAll(dest)
	var vd verdict
	core.Guard(c.res, "DownloadTo(VerifyAlways)", func() {
		dl := downloader.ChartDownloader{Out: io.Discard, Verify: downloader.VerifyAlways, Keyring: ringFile, Getters: httpOnly,
			RepositoryConfig: c.w.settings.RepositoryConfig, RepositoryCache: c.w.settings.RepositoryCache}
		_, v, err := dl.DownloadTo(url, "", dest)
		vd = fromVer(v, err)
	})
	c.judge("DownloadTo(VerifyAlways)", part, kind, expect, hard, vd, sum, detail)

	// VerifyIfPossible (what `helm dependency build --verify` uses): a missing provenance file is
	// tolerated (don't-care), but when one IS available a failing verification must fail the download.
	if prov != nil {
		dest1 := dest + "-ifpossible"
		os.MkdirAll(dest1, 0o755)
		defer os.RemoveAll(dest1)
		core.Guard(c.res, "DownloadTo(VerifyIfPossible)", func() {
			dl := downloader.ChartDownloader{Out: io.Discard, Verify: downloader.VerifyIfPossible, Keyring: ringFile, Getters: httpOnly,
				RepositoryConfig: c.w.settings.RepositoryConfig, RepositoryCache: c.w.settings.RepositoryCache}
			_, v, err := dl.DownloadTo(url, "", dest1)
			vd = fromVer(v, err)
		})
		c.judge("DownloadTo(VerifyIfPossible)", part, kind, expect, hard, vd, sum, detail)
		byteLevel := part == "archive" || part == "body" || part == "armor" || part == "header"
		if !byteLevel || c.count%8 == 0 {
			c.manager(part, kind, base, archive, prov, ringFile, expect, hard, sum, detail)
		}
	}

	// VerifyLater: fetches both files, verifies nothing; a later VerifyChart on the saved pair decides
	dest2 := dest + "-later"
	os.MkdirAll(dest2, 0o755)
	defer os.RemoveAll(dest2)
	core.Guard(c.res, "DownloadTo(VerifyLater)+VerifyChart", func() {
		dl := downloader.ChartDownloader{Out: io.Discard, Verify: downloader.VerifyLater, Keyring: ringFile, Getters: httpOnly,
			RepositoryConfig: c.w.settings.RepositoryConfig, RepositoryCache: c.w.settings.RepositoryCache}
		saved, _, err := dl.DownloadTo(url, "", dest2)
		if err != nil {
			vd = verdict{err: err}
			if prov != nil {
				c.res.Add("verify-later-download-failed", "DownloadTo(VerifyLater) · "+part+"/"+kind, "download without verification failed: %v | %s", err, detail())
			}
			return
		}
		vd = fromVer(downloader.VerifyChart(saved, ringFile))
	})
	c.judge("DownloadTo(VerifyLater)+VerifyChart", part, kind, expect, hard, vd, sum, detail)

	// install path: LocateChart with --verify on a URL
	cache := filepath.Join(c.w.dir, fmt.Sprintf("lc%d", c.count))
	defer os.RemoveAll(cache)
	core.Guard(c.res, "LocateChart(url,verify)", func() {
		st := *c.w.settings
		st.RepositoryCache = cache
		o := action.ChartPathOptions{Verify: true, Keyring: ringFile}
		_, err := o.LocateChart(url, &st)
		vd = verdict{ok: err == nil, err: err, hash: sum}
	})
	c.judge("LocateChart(url,verify)", part, kind, expect, hard, vd, sum, detail)

	// helm pull: every flag combination with --verify set (with and without --prov / --untar):
	// whenever Verify is set a pull whose verification must fail must return an error.
	type combo struct{ later, untar bool }
	combos := []combo{{false, false}, {true, false}, {false, true}, {true, true}}
	if part == "archive" || part == "body" || part == "armor" || part == "header" {
		combos = []combo{{true, false}, {false, true}}
	}
	for i, cb := range combos {
		ep := "Pull(--verify"
		if cb.later {
			ep += " --prov"
		}
		if cb.untar {
			ep += " --untar"
		}
		ep += ")"
		pd := filepath.Join(c.w.dir, fmt.Sprintf("pull%d-%d", c.count, i))
		os.MkdirAll(pd, 0o755)
		core.Guard(c.res, ep, func() {
			p := action.NewPull(action.WithConfig(&action.Configuration{}))
			p.Settings = c.w.settings
			p.Verify, p.VerifyLater, p.Untar, p.Keyring = true, cb.later, cb.untar, ringFile
			p.DestDir, p.UntarDir = pd, "unpacked"
			out, err := p.Run(url)
			vd = verdict{ok: err == nil, err: err, hash: sum}
			if err == nil && !strings.Contains(out, sum) {
				vd.hash = "(pull output without the verified hash: " + trunc(out, 200) + ")"
			}
		})
		c.judge(ep, part, kind, expect, hard, vd, sum, detail)
		os.RemoveAll(pd)
	}
	c.res.Stat("download_path_runs", 1)
}

// manager runs the dependency manager with verification on a repository (local file source)
// that serves the given archive + provenance for the chart: Manager.Update with VerifyIfPossible
// and VerifyAlways on a fresh parent chart, and Manager.Build(VerifyIfPossible) on a parent whose
// lock and charts/ come from an earlier good update. A dependency whose verification must fail
// must produce an error and must not end up in charts/.
func (c *checker) manager(part, kind, base string, archive, prov []byte, ringFile string, expect, hard bool, sum string, detail func() string) {
	w, s := c.w, getServer()
	prefix := fmt.Sprintf("/m%d-%d", os.Getpid(), c.count)
	idx, _ := yaml3.Marshal(map[string]any{"apiVersion": "v1", "generated": "2024-01-02T03:04:05Z",
		"entries": map[string]any{w.name: []any{map[string]any{"name": w.name, "version": w.version, "apiVersion": "v2", "urls": []any{base}}}}})
	serve := func(a, p []byte) {
		s.set(prefix+"/index.yaml", idx)
		s.set(prefix+"/"+base, a)
		s.set(prefix+"/"+base+".prov", p)
	}
	defer func() {
		s.set(prefix+"/index.yaml", nil)
		s.set(prefix+"/"+base, nil)
		s.set(prefix+"/"+base+".prov", nil)
	}()
	repoURL := s.base + prefix
	httpOnly := getter.Providers{{Schemes: []string{"http", "https"}, New: getter.NewHTTPGetter}}
	root := filepath.Join(w.dir, fmt.Sprintf("mgr%d", c.count))
	defer os.RemoveAll(root)
	mk := func(sub string, strat downloader.VerificationStrategy, ring string) (*downloader.Manager, string) {
		parent := filepath.Join(root, sub, "parent")
		os.MkdirAll(parent, 0o755)
		cy, _ := yaml3.Marshal(map[string]any{"apiVersion": "v2", "name": "parent", "version": "0.1.0",
			"dependencies": []any{map[string]any{"name": w.name, "version": w.version, "repository": repoURL}}})
		if _, err := os.Stat(filepath.Join(parent, "Chart.yaml")); err != nil {
			os.WriteFile(filepath.Join(parent, "Chart.yaml"), cy, 0o644)
		}
		cfg := filepath.Join(root, sub, "repositories.yaml")
		os.WriteFile(cfg, []byte("apiVersion: \"\"\nrepositories:\n- name: local\n  url: "+repoURL+"\n"), 0o644)
		cache := filepath.Join(root, sub, "cache")
		os.MkdirAll(cache, 0o755)
		return &downloader.Manager{Out: io.Discard, ChartPath: parent, Verify: strat, Keyring: ring, Getters: httpOnly, RepositoryConfig: cfg, RepositoryCache: cache}, filepath.Join(parent, "charts", base)
	}
	stored := func(ep, stored string, before []byte, err error) {
		got, rerr := os.ReadFile(stored)
		class := fmt.Sprintf("%s · %s/%s", ep, part, kind)
		switch {
		case !expect && rerr == nil && bytes.Equal(got, archive) && !bytes.Equal(got, before):
			c.res.Add("unverified-dependency-stored-in-charts", class, "%s (err=%v) left the dependency whose verification must fail in charts/%s | %s", ep, err, base, detail())
		case expect && err == nil && (rerr != nil || !bytes.Equal(got, archive)):
			c.res.Add("verified-dependency-not-stored", class, "%s succeeded but charts/%s does not hold the verified archive (%v) | %s", ep, base, rerr, detail())
		}
	}
	serve(archive, prov)
	for _, st := range []struct {
		name  string
		strat downloader.VerificationStrategy
	}{{"Manager.Update(VerifyIfPossible)", downloader.VerifyIfPossible}, {"Manager.Update(VerifyAlways)", downloader.VerifyAlways}} {
		m, dst := mk(st.name, st.strat, ringFile)
		var err error
		core.Guard(c.res, st.name, func() { err = m.Update() })
		c.judge(st.name, part, kind, expect, hard, verdict{ok: err == nil, err: err, hash: sum}, sum, detail)
		stored(st.name, dst, nil, err)
	}
	// the same repository through a chart reference: `helm pull local/<chart> --verify` and
	// `helm install local/<chart> --verify` (URL taken from the cached repository index)
	{
		sub := filepath.Join(root, "byref")
		cache := filepath.Join(sub, "cache")
		os.MkdirAll(cache, 0o755)
		cfg := filepath.Join(sub, "repositories.yaml")
		os.WriteFile(cfg, []byte("apiVersion: \"\"\nrepositories:\n- name: local\n  url: "+repoURL+"\n"), 0o644)
		os.WriteFile(filepath.Join(cache, "local-index.yaml"), idx, 0o644)
		for _, st := range []struct {
			name  string
			strat downloader.VerificationStrategy
		}{{"DownloadTo(repo/chart,VerifyAlways)", downloader.VerifyAlways}, {"DownloadTo(repo/chart,VerifyIfPossible)", downloader.VerifyIfPossible}} {
			var vd verdict
			dest := filepath.Join(sub, "dest-"+fmt.Sprint(int(st.strat)))
			os.MkdirAll(dest, 0o755)
			core.Guard(c.res, st.name, func() {
				dl := downloader.ChartDownloader{Out: io.Discard, Verify: st.strat, Keyring: ringFile, Getters: httpOnly, RepositoryConfig: cfg, RepositoryCache: cache}
				_, v, err := dl.DownloadTo("local/"+w.name, w.version, dest)
				vd = fromVer(v, err)
			})
			c.judge(st.name, part, kind, expect, hard, vd, sum, detail)
		}
		var vd verdict
		core.Guard(c.res, "LocateChart(repo/chart,verify)", func() {
			st := *w.settings
			st.RepositoryConfig, st.RepositoryCache = cfg, cache
			o := action.ChartPathOptions{Verify: true, Keyring: ringFile, Version: w.version}
			_, err := o.LocateChart("local/"+w.name, &st)
			vd = verdict{ok: err == nil, err: err, hash: sum}
		})
		c.judge("LocateChart(repo/chart,verify)", part, kind, expect, hard, vd, sum, detail)
	}
	// Build from a lock: first a good state (genuine pair, signer-only keyring), then the pair under test
	if base == w.base {
		const ep = "Manager.Build(VerifyIfPossible)"
		serve(w.archive, w.prov)
		m0, dst := mk(ep, downloader.VerifyIfPossible, w.ringA)
		if err := m0.Update(); err != nil {
			c.res.Add("rejected-but-must-pass", "Manager.Update(VerifyIfPossible) · build-setup/untouched", "setting up the lock with the genuine pair failed: %v | %s", err, detail())
			return
		}
		before, _ := os.ReadFile(dst)
		serve(archive, prov)
		m, _ := mk(ep, downloader.VerifyIfPossible, ringFile)
		var err error
		core.Guard(c.res, ep, func() { err = m.Build() })
		c.judge(ep, part, kind, expect, hard, verdict{ok: err == nil, err: err, hash: sum}, sum, detail)
		stored(ep, dst, before, err)
	}
	c.res.Stat("manager_path_runs", 1)
}

// ---------------------------------------------------------------- run

func quiet() {
	log.SetOutput(io.Discard)
	slog.SetDefault(slog.New(slog.NewTextHandler(io.Discard, nil)))
}

func run(cs core.Case, verbose bool) core.Result {
	quiet()
	var d caseData
	core.U(cs, &d)
	var res core.Result
	dir, err := os.MkdirTemp("", "c17-")
	if err != nil {
		res.Inconclusive = err.Error()
		return res
	}
	defer os.RemoveAll(dir)
	for _, k := range []string{"HELM_CACHE_HOME", "HELM_CONFIG_HOME", "HELM_DATA_HOME"} {
		os.Setenv(k, filepath.Join(dir, "home", k))
	}
	rng := rand.New(rand.NewSource(d.Seed))
	w, err := setup(rng, dir)
	if err != nil {
		res.Add("sign-failed", "setup", "packaging/signing a generated chart failed: %v", err)
		return res
	}
	c := &checker{res: &res, w: w, verbose: verbose}
	archivePath := filepath.Join(w.work, w.base)
	provPath := archivePath + ".prov"
	if verbose {
		fmt.Printf("chart archive %s (%d bytes, %s) signed via %s\nprovenance (%d bytes):\n%s\n", w.base, len(w.archive), w.sum, w.via, len(w.prov), w.prov)
	}

	// positive control: the untouched triple passes everywhere (hard clause)
	ctl := func() string { return fmt.Sprintf("untouched %s signed via %s, keyring = signer only", w.base, w.via) }
	c.verifyPair("untouched", "none", archivePath, w.sigA, w.ringA, true, true, true, w.sum, ctl)
	c.download("untouched", "none", w.base, w.archive, w.prov, w.ringA, true, true, w.sum, ctl)
	res.Stat("positive_controls", 1)
	// sanity of the reference itself on the original
	if ok, _ := expectedByLibrary(w.prov, w.sigA.KeyRing, w.base, w.sum); !ok {
		res.Inconclusive = "reference rejects the untouched provenance file produced by helm (trusted-base anomaly or helm signer defect)"
		res.Add("signed-by-helm-but-library-rejects", "sign via "+w.via, "the OpenPGP library / reference parse does not accept helm's own signature | prov: %q", w.prov)
		return res
	}
	_, origBlk := libVerdict(w.prov, w.sigA.KeyRing)

	stride := func(n, budget int) int {
		if d.Tier == "thorough" || n <= budget {
			return 1
		}
		return (n + budget - 1) / budget
	}

	fullEvery := 16
	if d.Tier == "thorough" {
		fullEvery = 64
	}
	switch d.Group {
	case "archive":
		st := stride(len(w.archive), 240)
		off := rng.Intn(st)
		for pos := off; pos < len(w.archive); pos += st {
			for _, kind := range kinds {
				bits := []int{rng.Intn(8)}
				if kind == "bitflip" && d.Tier == "thorough" && pos%4 == 0 {
					bits = []int{0, 1, 2, 3, 4, 5, 6, 7}
				}
				for _, bit := range bits {
					if d.Only != "" && d.Only != fmt.Sprintf("%s@%d", kind, pos) {
						continue
					}
					m := mutate(mutRng(d.Seed, pos, kind, bit), w.archive, kind, pos, bit)
					if bytes.Equal(m, w.archive) {
						continue
					}
					if err := os.WriteFile(archivePath, m, 0o644); err != nil {
						res.Inconclusive = err.Error()
						return res
					}
					det := func() string {
						return fmt.Sprintf("archive %s (%d bytes, signed via %s): %s at offset %d (bit %d) -> %d bytes, sha256 %s (signed %s); provenance and keyring untouched", w.base, len(w.archive), w.via, kind, pos, bit, len(m), digest(m), w.sum)
					}
					full := (pos/st)%fullEvery == 0
					c.verifyPair("archive", kind, archivePath, w.sigA, w.ringA, false, true, full, digest(m), det)
					if full && kind != "truncate" {
						c.download("archive", kind, w.base, m, w.prov, w.ringA, false, true, digest(m), det)
					}
					res.Stat("mutants_archive_"+kind+"_reject", 1)
				}
			}
		}
		// appended bytes
		for _, extra := range [][]byte{{0}, {'\n'}, w.archive} {
			m := append(append([]byte(nil), w.archive...), extra...)
			os.WriteFile(archivePath, m, 0o644)
			det := func() string { return fmt.Sprintf("archive %s with %d byte(s) appended", w.base, len(extra)) }
			c.verifyPair("archive", "append", archivePath, w.sigA, w.ringA, false, true, true, digest(m), det)
			c.download("archive", "append", w.base, m, w.prov, w.ringA, false, true, digest(m), det)
			res.Stat("mutants_archive_append_reject", 1)
		}
		os.WriteFile(archivePath, w.archive, 0o644)

	case "body", "armor":
		// regions of the provenance file
		sigStart := bytes.Index(w.prov, []byte("-----BEGIN PGP SIGNATURE-----"))
		if sigStart < 0 {
			res.Inconclusive = "no signature armor in helm's provenance output"
			return res
		}
		lo, hi, part := 0, sigStart, "body"
		if d.Group == "armor" {
			lo, hi, part = sigStart, len(w.prov), "armor"
		}
		hdrEnd := bytes.Index(w.prov, []byte("\n\n")) + 2
		st := stride(hi-lo, 240)
		off := rng.Intn(st)
		for pos := lo + off; pos < hi; pos += st {
			p := part
			if part == "body" && pos < hdrEnd {
				p = "header"
			}
			for _, kind := range kinds {
				bits := []int{rng.Intn(8)}
				if kind == "bitflip" && d.Tier == "thorough" && pos%4 == 0 {
					bits = []int{0, 1, 2, 3, 4, 5, 6, 7}
				}
				for _, bit := range bits {
					if d.Only != "" && d.Only != fmt.Sprintf("%s@%d", kind, pos) {
						continue
					}
					m := mutate(mutRng(d.Seed, pos, kind, bit), w.prov, kind, pos, bit)
					if bytes.Equal(m, w.prov) {
						continue
					}
					c.provMutant(p, kind, m, origBlk, (pos/st)%(fullEvery*3/2) == 0, func() string {
						ctx := w.prov[max(0, pos-12):min(len(w.prov), pos+12)]
						return fmt.Sprintf("provenance of %s (signed via %s): %s at offset %d (bit %d), context %q; archive and keyring untouched", w.base, w.via, kind, pos, bit, ctx)
					})
				}
			}
		}
		os.WriteFile(provPath, w.prov, 0o644)

	case "structural":
		c.structural(rng, origBlk)
		c.reuse(rng)
	}
	if d.Group == "structural" {
		res.Sample = map[string]any{"chart_archive": w.base, "archive_bytes": len(w.archive), "prov_bytes": len(w.prov), "signed_via": w.via, "sha256": w.sum}
	}
	return res
}

// provMutant checks one mutated provenance file (archive + signer-only keyring untouched).
func (c *checker) provMutant(part, kind string, m []byte, origBlk *clearsign.Block, full bool, detail func() string) {
	w := c.w
	archivePath := filepath.Join(w.work, w.base)
	if err := os.WriteFile(archivePath+".prov", m, 0o644); err != nil {
		c.res.Inconclusive = err.Error()
		return
	}
	expect, blk := expectedByLibrary(m, w.sigA.KeyRing, w.base, w.sum)
	if expect && origBlk != nil && !bytes.Equal(blk.Bytes, origBlk.Bytes) {
		c.res.Inconclusive = "trusted-base anomaly: the OpenPGP library accepts a mutant whose canonical signed text differs from the original | " + detail()
		return
	}
	out := "reject"
	if expect {
		out = "accept"
	}
	c.res.Stat("mutants_"+part+"_"+kind+"_"+out, 1)
	det := func() string { return detail() + " | library+digest reference says " + out }
	c.verifyPair(part, kind, archivePath, w.sigA, w.ringA, expect, false, full, w.sum, det)
	if full {
		c.download(part, kind, w.base, w.archive, m, w.ringA, expect, false, w.sum, det)
	}
	if c.verbose {
		fmt.Printf("  %s/%s expected %s\n", part, kind, out)
	}
}

// resign clear-signs body with e (hash h) the way helm does.
func resign(body []byte, e *openpgp.Entity, h crypto.Hash) []byte {
	var out bytes.Buffer
	wc, err := clearsign.Encode(&out, e.PrivateKey, &packet.Config{DefaultHash: h})
	if err != nil {
		panic(err)
	}
	wc.Write(body)
	if err := wc.Close(); err != nil {
		panic(err)
	}
	return out.Bytes()
}

func (c *checker) structural(rng *rand.Rand, origBlk *clearsign.Block) {
	w, res := c.w, c.res
	ks := getKeys()
	archivePath := filepath.Join(w.work, w.base)
	provPath := archivePath + ".prov"
	meta := bytes.Split(origBlk.Plaintext, []byte("\n...\n"))[0]
	msg := func(files ...string) []byte { // files: name, digest pairs
		var b bytes.Buffer
		b.Write(meta)
		b.WriteString("\n...\nfiles:\n")
		for i := 0; i+1 < len(files); i += 2 {
			fmt.Fprintf(&b, "  %s: %s\n", files[i], files[i+1])
		}
		if len(files) == 0 {
			b.Reset()
			b.Write(meta)
			b.WriteString("\n...\nfiles: {}\n")
		}
		return b.Bytes()
	}
	otherBytes := append(append([]byte(nil), w.archive...), 'x')
	otherSum := digest(otherBytes)
	type sm struct {
		kind string
		prov []byte
		hard int // 0 library-classified, +1 must pass, -1 must fail
	}
	sigStart := bytes.Index(w.prov, []byte("-----BEGIN PGP SIGNATURE-----"))
	body, armor := w.prov[:sigStart], w.prov[sigStart:]
	foreign := resign(msg("zzz-other-9.9.9.tgz", otherSum), ks.A, crypto.SHA512)
	byB := resign(origBlk.Plaintext, ks.B, crypto.SHA512)
	bArmor := byB[bytes.Index(byB, []byte("-----BEGIN PGP SIGNATURE-----")):]
	ms := []sm{
		{"resigned-same-message", resign(origBlk.Plaintext, ks.A, crypto.SHA512), +1},
		{"resigned-sha256-hash", resign(origBlk.Plaintext, ks.A, crypto.SHA256), +1},
		{"resigned-digest-of-other-bytes", resign(msg(w.base, otherSum), ks.A, crypto.SHA512), -1},
		{"resigned-only-other-file-listed", resign(msg("aaa-"+w.base, w.sum), ks.A, crypto.SHA512), -1},
		{"resigned-extra-file-first-wrong-base-right", resign(msg("aaa-other.tgz", otherSum, w.base, w.sum, "zzz-other.tgz", otherSum), ks.A, crypto.SHA512), +1},
		{"resigned-other-file-right-base-wrong", resign(msg("aaa-other.tgz", w.sum, w.base, otherSum, "zzz-other.tgz", w.sum), ks.A, crypto.SHA512), -1},
		{"resigned-empty-files", resign(msg(), ks.A, crypto.SHA512), -1},
		{"resigned-no-separator", resign(append(append([]byte(nil), meta...), []byte("\nfiles:\n  "+w.base+": "+w.sum+"\n")...), ks.A, crypto.SHA512), 0},
		{"resigned-changed-metadata", resign(append([]byte("appVersion: tampered\n"), msg(w.base, w.sum)...), ks.A, crypto.SHA512), 0},
		{"signed-by-untrusted-key", byB, -1},
		{"signed-by-same-userid-other-key", resign(origBlk.Plaintext, ks.D, crypto.SHA512), -1},
		{"body-with-untrusted-signature-armor", append(append([]byte(nil), body...), bArmor...), -1},
		{"duplicated-block", append(append([]byte(nil), w.prov...), w.prov...), 0},
		{"foreign-block-first", append(append([]byte(nil), foreign...), w.prov...), 0},
		{"foreign-block-second", append(append([]byte(nil), w.prov...), foreign...), 0},
		{"garbage-prefix", append([]byte("some text\nmore: text\n\n"), w.prov...), 0},
		{"second-signature-block-appended", append(append([]byte(nil), w.prov...), bArmor...), 0},
		{"untrusted-signature-block-first", append(append(append([]byte(nil), body...), bArmor...), armor...), 0},
		{"crlf-everywhere", bytes.ReplaceAll(w.prov, []byte("\n"), []byte("\r\n")), 0},
		{"crlf-body-only", append(bytes.ReplaceAll(body, []byte("\n"), []byte("\r\n")), armor...), 0},
		{"trailing-blanks-on-body-lines", append(bytes.ReplaceAll(body, []byte("\n"), []byte(" \t\n")), armor...), 0},
		{"hash-header-sha256", bytes.Replace(w.prov, []byte("Hash: SHA512"), []byte("Hash: SHA256"), 1), 0},
		{"hash-header-removed", bytes.Replace(w.prov, []byte("Hash: SHA512\n"), nil, 1), 0},
		{"comment-header-added", bytes.Replace(w.prov, []byte("Hash: SHA512\n"), []byte("Hash: SHA512\nComment: x\n"), 1), 0},
		{"armor-header-added", bytes.Replace(w.prov, []byte("-----BEGIN PGP SIGNATURE-----\n"), []byte("-----BEGIN PGP SIGNATURE-----\nVersion: X 1\n"), 1), 0},
		{"blank-line-appended-to-body", append(append(append([]byte(nil), body...), '\n'), armor...), 0},
		{"line-appended-to-body", append(append(append([]byte(nil), body...), []byte("  "+w.base+": "+otherSum+"\n")...), armor...), 0},
		{"armor-only", append([]byte(nil), armor...), -1},
		{"body-only", append([]byte(nil), body...), -1},
		{"empty-provenance", []byte{}, -1},
		{"message-text-unsigned", append([]byte(nil), origBlk.Plaintext...), -1},
		{"archive-as-provenance", append([]byte(nil), w.archive...), -1},
	}
	for _, m := range ms {
		os.WriteFile(provPath, m.prov, 0o644)
		expect, blk := expectedByLibrary(m.prov, w.sigA.KeyRing, w.base, w.sum)
		det := func() string {
			return fmt.Sprintf("structural mutant %q of the provenance of %s (signed via %s); archive untouched, keyring = signer only | mutant: %s", m.kind, w.base, w.via, trunc(fmt.Sprintf("%q", m.prov), 1600))
		}
		hard := m.hard != 0
		if hard && expect != (m.hard > 0) {
			res.Inconclusive = fmt.Sprintf("reference disagrees with a hard clause on structural mutant %q (reference %v) — trusted-base anomaly", m.kind, expect)
			res.Add("reference-vs-hard-clause", "structural/"+m.kind, "library+digest reference says accept=%v, hard clause says %v | %s", expect, m.hard > 0, det())
			continue
		}
		_ = blk
		out := "reject"
		if expect {
			out = "accept"
		}
		res.Stat("mutants_structural_"+out, 1)
		c.verifyPair("structural", m.kind, archivePath, w.sigA, w.ringA, expect, hard, true, w.sum, det)
		c.download("structural", m.kind, w.base, w.archive, m.prov, w.ringA, expect, hard, w.sum, det)
		if c.verbose {
			fmt.Printf("  structural/%s expected %s\n", m.kind, out)
		}
	}
	os.WriteFile(provPath, w.prov, 0o644)

	// ---- several clear-signed blocks in one provenance file, with a TAMPERED archive on disk.
	// Whatever the blocks say and whoever signed them: the trusted signer never signed these
	// bytes, so the hard clause "archive bytes changed => must fail" applies to every case.
	{
		tampered := append([]byte(nil), w.archive...)
		tampered[rng.Intn(len(tampered))] ^= 0x20
		tsum := digest(tampered)
		cat := func(parts ...[]byte) []byte {
			var o []byte
			for _, p := range parts {
				o = append(o, p...)
			}
			return o
		}
		tmsg := msg(w.base, tsum)
		atkB := resign(tmsg, ks.B, crypto.SHA512) // untrusted key vouches for the tampered bytes
		atkD := resign(tmsg, ks.D, crypto.SHA512) // untrusted key with the signer's user id
		atkC := resign(tmsg, ks.C, crypto.SHA256)
		gap := []byte("\n\n-- counter-signature follows --\n\n")
		type mb struct {
			kind string
			prov []byte
		}
		mbs := []mb{
			{"untrusted-block-for-tampered-bytes-first-genuine-second", cat(atkB, w.prov)},
			{"genuine-first-untrusted-block-for-tampered-bytes-second", cat(w.prov, atkB)},
			{"untrusted-block-first-text-gap-genuine-second", cat(atkB, gap, w.prov)},
			{"untrusted-block-first-blank-lines-genuine-second", cat(atkB, []byte("\n\n\n"), w.prov)},
			{"same-userid-untrusted-block-first-genuine-second", cat(atkD, w.prov)},
			{"two-untrusted-blocks-then-genuine", cat(atkB, atkC, w.prov)},
			{"untrusted-genuine-untrusted", cat(atkC, w.prov, atkB)},
			{"untrusted-block-alone", atkB},
			{"genuine-then-genuine-of-another-chart", cat(w.prov, foreign)},
			{"genuine-of-another-chart-then-genuine", cat(foreign, w.prov)},
			{"genuine-twice", cat(w.prov, []byte("\n"), w.prov)},
			{"text-prefix-untrusted-block-genuine", cat([]byte("mirror note\n\n"), atkB, w.prov)},
		}
		os.WriteFile(archivePath, tampered, 0o644)
		for _, m := range mbs {
			os.WriteFile(provPath, m.prov, 0o644)
			det := func() string {
				return fmt.Sprintf("multi-block provenance %q with a TAMPERED archive %s (one bit flipped: sha256 %s, signed by the trusted key: %s); keyring = signer only | provenance: %s", m.kind, w.base, tsum, w.sum, trunc(fmt.Sprintf("%q", m.prov), 1200))
			}
			res.Stat("mutants_multiblock-tampered-archive_reject", 1)
			c.verifyPair("multi-block+tampered-archive", m.kind, archivePath, w.sigA, w.ringA, false, true, true, tsum, det)
			c.download("multi-block+tampered-archive", m.kind, w.base, tampered, m.prov, w.ringA, false, true, tsum, det)
		}
		os.WriteFile(archivePath, w.archive, 0o644)
		// multi-block files with the untouched archive: library-classified (first block decides).
		// [untrusted block over the same message] + [genuine] is deliberately NOT generated: the file
		// does carry a trusted signature over a message listing the true digest (don't-care).
		okB := resign(origBlk.Plaintext, ks.B, crypto.SHA512)
		for _, m := range []mb{
			{"genuine-first-untrusted-block-same-message-second", cat(w.prov, okB)},
			{"genuine-text-gap-genuine-of-another-chart", cat(w.prov, gap, foreign)},
			{"genuine-blank-lines-untrusted-block", cat(w.prov, []byte("\n\n\n"), atkB)},
		} {
			os.WriteFile(provPath, m.prov, 0o644)
			expect, _ := expectedByLibrary(m.prov, w.sigA.KeyRing, w.base, w.sum)
			det := func() string {
				return fmt.Sprintf("multi-block provenance %q with the untouched archive %s; keyring = signer only | provenance: %s", m.kind, w.base, trunc(fmt.Sprintf("%q", m.prov), 1200))
			}
			out := "reject"
			if expect {
				out = "accept"
			}
			res.Stat("mutants_multiblock_"+out, 1)
			c.verifyPair("multi-block", m.kind, archivePath, w.sigA, w.ringA, expect, false, true, w.sum, det)
			c.download("multi-block", m.kind, w.base, w.archive, m.prov, w.ringA, expect, false, w.sum, det)
		}
		os.WriteFile(provPath, w.prov, 0o644)
	}

	// ---- missing provenance file
	os.Remove(provPath)
	noProv := func() string { return "archive " + w.base + " without any .prov file" }
	c.verifyPair("provenance-file", "missing", archivePath, nil, w.ringA, false, true, true, w.sum, noProv)
	c.download("provenance-file", "missing", w.base, w.archive, nil, w.ringA, false, true, w.sum, noProv)
	os.WriteFile(provPath, w.prov, 0o644)

	// ---- keyrings (archive and provenance untouched)
	type kr struct {
		kind  string
		write func(path string)
		hard  int
	}
	krs := []kr{
		{"signer-plus-others", func(p string) { writeRing(p, false, ks.B, ks.A, ks.C) }, +1},
		{"others-first-signer-last", func(p string) { writeRing(p, false, ks.C, ks.D, ks.B, ks.A) }, +1},
		{"others-only", func(p string) { writeRing(p, false, ks.B, ks.C) }, -1},
		{"same-userid-other-key", func(p string) { writeRing(p, false, ks.D) }, -1},
		{"empty-file", func(p string) { os.WriteFile(p, nil, 0o600) }, -1},
		{"missing-file", func(p string) { os.Remove(p) }, -1},
		{"garbage-file", func(p string) { os.WriteFile(p, []byte("not a keyring"), 0o600) }, -1},
		{"archive-as-keyring", func(p string) { os.WriteFile(p, w.archive, 0o600) }, -1},
		{"secret-ring-of-signer", func(p string) { writeRing(p, true, ks.A) }, 0},
		{"secret-ring-of-others", func(p string) { writeRing(p, true, ks.B, ks.C) }, -1},
	}
	for _, k := range krs {
		ringFile := filepath.Join(w.dir, "ring-"+k.kind+".gpg")
		k.write(ringFile)
		var sig *provenance.Signatory
		var ring openpgp.EntityList
		if s, err := provenance.NewFromKeyring(ringFile, ""); err == nil {
			sig, ring = s, s.KeyRing
		}
		expect := k.hard > 0
		if k.hard == 0 {
			expect, _ = expectedByLibrary(w.prov, ring, w.base, w.sum)
		} else if sig != nil {
			if lib, _ := expectedByLibrary(w.prov, ring, w.base, w.sum); lib != expect {
				res.Inconclusive = fmt.Sprintf("reference disagrees with a hard clause on keyring %q — trusted-base anomaly", k.kind)
				continue
			}
		}
		det := func() string {
			return fmt.Sprintf("untouched %s and provenance (signed via %s) with keyring variant %q", w.base, w.via, k.kind)
		}
		out := "reject"
		if expect {
			out = "accept"
		}
		res.Stat("keyring_variants_"+out, 1)
		c.verifyPair("keyring", k.kind, archivePath, sig, ringFile, expect, k.hard != 0, true, w.sum, det)
		c.download("keyring", k.kind, w.base, w.archive, w.prov, ringFile, expect, k.hard != 0, w.sum, det)
	}

	// ---- keyring file rewritten in place between verifications (same path, same process):
	// trust must follow the current content of the file, never an earlier reading of it.
	type kstep struct {
		kind   string
		write  func(path string)
		expect bool
	}
	seqs := [][]kstep{
		{ // trusted first, then revoked in several ways, then trusted again
			{"seq1-step1-signer-present", func(p string) { writeRing(p, false, ks.A) }, true},
			{"seq1-step2-signer-replaced-by-others", func(p string) { writeRing(p, false, ks.B, ks.C) }, false},
			{"seq1-step3-signer-back-with-others", func(p string) { writeRing(p, false, ks.B, ks.A) }, true},
			{"seq1-step4-file-emptied", func(p string) { os.WriteFile(p, nil, 0o600) }, false},
			{"seq1-step5-signer-present-again", func(p string) { writeRing(p, false, ks.A, ks.C) }, true},
			{"seq1-step6-same-userid-other-key", func(p string) { writeRing(p, false, ks.D) }, false},
			{"seq1-step7-file-removed", func(p string) { os.Remove(p) }, false},
		},
		{ // untrusted first, then the signer is added
			{"seq2-step1-others-only", func(p string) { writeRing(p, false, ks.C) }, false},
			{"seq2-step2-signer-added", func(p string) { writeRing(p, false, ks.C, ks.A) }, true},
			{"seq2-step3-signer-removed", func(p string) { writeRing(p, false, ks.C) }, false},
		},
		{ // the file does not exist first
			{"seq3-step1-file-missing", func(p string) { os.Remove(p) }, false},
			{"seq3-step2-signer-written", func(p string) { writeRing(p, false, ks.A) }, true},
			{"seq3-step3-replaced-through-rename", func(p string) {
				writeRing(p+".new", false, ks.B)
				os.Rename(p+".new", p)
			}, false},
		},
	}
	for si, seq := range seqs {
		ringFile := filepath.Join(w.dir, fmt.Sprintf("ring-mutable-%d.gpg", si+1))
		var hist []string
		for _, st := range seq {
			st.write(ringFile)
			hist = append(hist, st.kind)
			h := strings.Join(hist, " -> ")
			det := func() string {
				return fmt.Sprintf("untouched %s and provenance (signed via %s); keyring file %s rewritten in place between verifications in one process: %s", w.base, w.via, filepath.Base(ringFile), h)
			}
			out := "reject"
			if st.expect {
				out = "accept"
			}
			res.Stat("keyring_in_place_changes_"+out, 1)
			c.verifyPair("keyring-rewritten-in-place", st.kind, archivePath, nil, ringFile, st.expect, true, true, w.sum, det)
			c.download("keyring-rewritten-in-place", st.kind, w.base, w.archive, w.prov, ringFile, st.expect, true, w.sum, det)
		}
	}

	// ---- renamed / moved archives (bytes, provenance, keyring untouched)
	flipCase := func(s string) string {
		for i, r := range s {
			if r >= 'a' && r <= 'z' {
				return s[:i] + strings.ToUpper(string(r)) + s[i+1:]
			}
			if r >= 'A' && r <= 'Z' {
				return s[:i] + strings.ToLower(string(r)) + s[i+1:]
			}
		}
		return "x" + s
	}
	stem := strings.TrimSuffix(w.base, ".tgz")
	type rn struct {
		kind, rel string
		same      bool
		tamper    bool // additionally flip one bit of the archive bytes
	}
	rns := []rn{
		{"moved-same-basename", filepath.Join("moved", "deeper", w.base), true, false},
		{"prefix-added", "x-" + w.base, false, false},
		{"suffix-added", stem + "-copy.tgz", false, false},
		{"version-shortened", stem[:len(stem)-1] + ".tgz", false, false},
		{"case-changed", flipCase(w.base), false, false},
		{"extension-case-changed", stem + ".TGZ", false, false},
		{"other-chart-name", "zzz-other-9.9.9.tgz", false, false},
		{"basename-is-prov-name", w.base + ".prov.tgz", false, false},
	}
	// file names that do not end in .tgz: with verification required such a download can never be
	// verified (the signed name is <name>-<version>.tgz), so it must fail — untouched and tampered alike
	for _, ext := range []string{".tar.gz", ".tar", "", ".tgz.bak", ".zip", ".tgz.", ".TAR.GZ"} {
		label := "extension-" + strings.Trim(strings.ToLower(ext), ".")
		if ext == "" {
			label = "no-extension"
		} else if ext == ".tgz." {
			label = "extension-tgz-dot"
		} else if ext == ".TAR.GZ" {
			label = "extension-tar.gz-upper"
		}
		rns = append(rns, rn{label, stem + ext, false, false}, rn{label + "+tampered-bytes", stem + ext, false, true})
	}
	for _, r := range rns {
		np := filepath.Join(w.dir, "renamed", r.rel)
		os.MkdirAll(filepath.Dir(np), 0o755)
		data := w.archive
		if r.tamper {
			data = append([]byte(nil), w.archive...)
			data[len(data)/2] ^= 0x04
		}
		os.WriteFile(np, data, 0o644)
		os.WriteFile(np+".prov", w.prov, 0o644)
		det := func() string {
			return fmt.Sprintf("archive %s stored / served as %q (bytes tampered: %v) with its untouched provenance as %q; keyring = signer only", w.base, r.rel, r.tamper, r.rel+".prov")
		}
		out := "reject"
		if r.same {
			out = "accept"
		}
		res.Stat("renames_"+out, 1)
		c.verifyPair("rename", r.kind, np, w.sigA, w.ringA, r.same, true, true, digest(data), det)
		c.download("rename", r.kind, filepath.Base(np), data, w.prov, w.ringA, r.same, true, digest(data), det)
		os.RemoveAll(filepath.Join(w.dir, "renamed"))
	}
}

func trunc(s string, n int) string {
	if len(s) > n {
		return s[:n] + "..."
	}
	return s
}

func post(a *core.Agg) string {
	if a.Stats["positive_controls"] == 0 {
		return "no positive control executed"
	}
	var acc, rej int64
	for k, v := range a.Stats {
		if strings.HasPrefix(k, "mutants_") {
			if strings.HasSuffix(k, "_accept") {
				acc += v
			} else if strings.HasSuffix(k, "_reject") {
				rej += v
			}
		}
	}
	if rej < 1000 || acc < 10 {
		return fmt.Sprintf("too few mutants classified (accept %d, reject %d)", acc, rej)
	}
	if a.Stats["reuse_steps_reject"] < 100 || a.Stats["reuse_steps_accept"] < 30 {
		return fmt.Sprintf("too few steps in shared-cache sequences (accept %d, reject %d)", a.Stats["reuse_steps_accept"], a.Stats["reuse_steps_reject"])
	}
	return ""
}
