package c17

// Sequences of verifying operations that share state on disk.
//
// Every other workload of this package gives each verifying download a fresh destination / cache
// directory. Here several operations run one after the other against ONE repository cache (or
// destination directory) and ONE chart URL / repository reference, so that whatever an earlier
// operation left behind (the archive and provenance of a download whose verification FAILED or was
// deferred, an archive fetched without verification, an archive verified against a keyring that
// has changed since, cache files modified afterwards) is there when the next one runs.
//
// Oracle (hard clauses only, per step with verification required):
//   - the step returns success => the file it hands out (returned path / destination file) holds
//     exactly the bytes the trusted key signed (sha256 = signed digest) AND the signer is in the
//     keyring as it is NOW; otherwise "archive bytes changed => must fail" / "signer absent =>
//     must fail" / "a download or install whose verification fails returns an error" is refuted;
//   - the step fails although the repository serves the genuine pair at this moment and the
//     keyring holds the signer => "signed and verified with the matching key always passes" is
//     refuted (leftovers of earlier failed attempts must not poison a good download).
//
// Don't-care: a step that fails while the repository serves tampered bytes but the cache still
// holds a genuine archive; steps without verification (only used to create leftovers).

import (
	"bytes"
	"fmt"
	"io"
	"math/rand"
	"os"
	"path/filepath"
	"strings"

	yaml3 "gopkg.in/yaml.v3"

	"helm.sh/helm/v4/pkg/action"
	"helm.sh/helm/v4/pkg/downloader"
	"helm.sh/helm/v4/pkg/getter"
	"helm.sh/helm/v4/verifh/core"
)

type rstep struct {
	op    string // locate-verify | locate-noverify | dl-always | dl-ifpossible | dl-later | dl-never | pull-verify | pull-verify-prov | pull-prov
	serve string // "" (unchanged) | genuine | tampered | no-prov | genuine-prov-removed
	ring  string // "" (unchanged) | signer | others | signer+others | empty
	disk  string // "" | tamper-cached-archive | restore-genuine-pair | plant-tampered-pair | remove-prov
}

type rseq struct {
	name  string
	steps []rstep
}

var reuseSeqs = []rseq{
	{"retry-after-failed-verification", []rstep{
		{op: "locate-verify", serve: "tampered", ring: "signer"},
		{op: "locate-verify"},
		{op: "locate-verify"},
		{op: "locate-verify", serve: "genuine"},
		{op: "locate-verify", serve: "tampered"},
		{op: "locate-verify"},
	}},
	{"deferred-verification-leftovers", []rstep{
		{op: "dl-later", serve: "tampered", ring: "signer"},
		{op: "locate-verify"},
		{op: "dl-always"},
		{op: "pull-verify"},
		{op: "locate-verify", serve: "genuine"},
	}},
	{"pull-prov-into-cache-then-install", []rstep{
		{op: "pull-prov", serve: "tampered", ring: "signer"},
		{op: "locate-verify"},
		{op: "pull-verify-prov"},
		{op: "locate-verify"},
	}},
	{"unverified-fetch-first", []rstep{
		{op: "locate-noverify", serve: "tampered", ring: "signer"},
		{op: "locate-verify"},
		{op: "dl-never"},
		{op: "dl-ifpossible"},
		{op: "locate-verify"},
	}},
	{"trust-withdrawn-after-first-fetch", []rstep{
		{op: "locate-verify", serve: "genuine", ring: "signer"},
		{op: "locate-verify", ring: "others"},
		{op: "locate-verify"},
		{op: "dl-always"},
		{op: "locate-verify", ring: "signer+others"},
		{op: "locate-verify", ring: "empty"},
	}},
	{"untrusted-first-fetch-then-trusted", []rstep{
		{op: "locate-verify", serve: "genuine", ring: "others"},
		{op: "locate-verify"},
		{op: "locate-verify", ring: "signer"},
	}},
	{"upstream-replaced-after-verified-fetch", []rstep{
		{op: "locate-verify", serve: "genuine", ring: "signer"},
		{op: "locate-verify"},
		{op: "locate-verify", serve: "tampered"},
		{op: "locate-verify"},
		{op: "pull-verify"},
	}},
	{"cache-modified-after-verified-fetch", []rstep{
		{op: "locate-verify", serve: "genuine", ring: "signer"},
		{op: "locate-verify", disk: "tamper-cached-archive"},
		{op: "locate-verify", disk: "tamper-cached-archive", serve: "tampered"},
		{op: "locate-verify", disk: "restore-genuine-pair"},
		{op: "locate-verify", disk: "plant-tampered-pair", serve: "genuine"},
	}},
	{"planted-pair-in-cache", []rstep{
		{op: "locate-verify", disk: "plant-tampered-pair", serve: "tampered", ring: "signer"},
		{op: "dl-always"},
		{op: "dl-ifpossible"},
		{op: "locate-verify", serve: "no-prov"},
		{op: "locate-verify", disk: "remove-prov", serve: "tampered"},
	}},
	{"provenance-withdrawn-upstream", []rstep{
		{op: "locate-verify", serve: "genuine", ring: "signer"},
		{op: "locate-verify", serve: "genuine-prov-removed"},
		{op: "dl-always"},
		{op: "locate-verify", serve: "tampered"},
	}},
	{"repeated-download-same-destination", []rstep{
		{op: "dl-always", serve: "tampered", ring: "signer"},
		{op: "dl-always"},
		{op: "dl-ifpossible"},
		{op: "dl-ifpossible"},
		{op: "pull-verify"},
		{op: "pull-verify"},
		{op: "pull-verify-prov"},
		{op: "dl-always", serve: "genuine"},
		{op: "pull-verify", serve: "tampered"},
	}},
}

// tamperedVariants: the replacement archives an attacker would serve under the genuine name:
// a loadable re-packed chart (extra template), and raw byte changes.
func (c *checker) tamperedVariants(rng *rand.Rand) map[string][]byte {
	w := c.w
	out := map[string][]byte{}
	flip := append([]byte(nil), w.archive...)
	flip[rng.Intn(len(flip))] ^= 1 << uint(rng.Intn(8))
	out["bit-flipped"] = flip
	// re-packed, loadable chart of the same name and version with one more template
	src := filepath.Join(w.dir, "src", w.name)
	extra := filepath.Join(src, "templates", "zz-injected.yaml")
	if err := os.WriteFile(extra, []byte("apiVersion: v1\nkind: ConfigMap\nmetadata:\n  name: {{ .Release.Name }}-injected\ndata:\n  injected: \"true\"\n"), 0o644); err == nil {
		dst := filepath.Join(w.dir, "repacked")
		os.MkdirAll(dst, 0o755)
		p := action.NewPackage()
		p.Destination = dst
		if ap, err := p.Run(src, nil); err == nil && filepath.Base(ap) == w.base {
			if b, err := os.ReadFile(ap); err == nil && !bytes.Equal(b, w.archive) {
				out["repacked-with-extra-template"] = b
			}
		}
		os.Remove(extra)
		os.RemoveAll(dst)
	}
	return out
}

func (c *checker) reuse(rng *rand.Rand) {
	w, res, s := c.w, c.res, getServer()
	ks := getKeys()
	variants := c.tamperedVariants(rng)
	vnames := make([]string, 0, len(variants))
	for _, n := range []string{"repacked-with-extra-template", "bit-flipped"} {
		if _, ok := variants[n]; ok {
			vnames = append(vnames, n)
		}
	}
	httpOnly := getter.Providers{{Schemes: []string{"http", "https"}, New: getter.NewHTTPGetter}}
	for qi, sq := range reuseSeqs {
		// reference style and tampered variant rotate with the sequence index and the case's rng
		byRef := (qi+rng.Intn(2))%2 == 0
		vname := vnames[(qi+rng.Intn(len(vnames)))%len(vnames)]
		tampered := variants[vname]
		c.count++
		prefix := fmt.Sprintf("/r%d-%d", os.Getpid(), c.count)
		root := filepath.Join(w.dir, fmt.Sprintf("reuse%d", c.count))
		cache := filepath.Join(root, "cache") // repository cache = destination directory of every step
		os.MkdirAll(cache, 0o755)
		ringFile := filepath.Join(root, "ring.gpg")
		cfg := filepath.Join(root, "repositories.yaml")
		repoURL := s.base + prefix
		os.WriteFile(cfg, []byte("apiVersion: \"\"\nrepositories:\n- name: local\n  url: "+repoURL+"\n"), 0o644)
		idx, _ := yaml3.Marshal(map[string]any{"apiVersion": "v1", "generated": "2024-01-02T03:04:05Z",
			"entries": map[string]any{w.name: []any{map[string]any{"name": w.name, "version": w.version, "apiVersion": "v2", "urls": []any{w.base}}}}})
		os.WriteFile(filepath.Join(cache, "local-index.yaml"), idx, 0o644)
		s.set(prefix+"/index.yaml", idx)
		ref, version, style := repoURL+"/"+w.base, "", "url"
		if byRef {
			ref, version, style = "local/"+w.name, w.version, "repo/chart"
		}
		st := *w.settings
		st.RepositoryConfig, st.RepositoryCache = cfg, cache
		cached := filepath.Join(cache, w.base)

		servedGenuine, trusted := false, false
		var hist []string
		for si, step := range sq.steps {
			label := step.op
			switch step.serve {
			case "genuine":
				s.set(prefix+"/"+w.base, w.archive)
				s.set(prefix+"/"+w.base+".prov", w.prov)
				servedGenuine = true
			case "tampered":
				s.set(prefix+"/"+w.base, tampered)
				s.set(prefix+"/"+w.base+".prov", w.prov)
				servedGenuine = false
			case "no-prov":
				s.set(prefix+"/"+w.base, tampered)
				s.set(prefix+"/"+w.base+".prov", nil)
				servedGenuine = false
			case "genuine-prov-removed":
				s.set(prefix+"/"+w.base, w.archive)
				s.set(prefix+"/"+w.base+".prov", nil)
				servedGenuine = false // no provenance available: verification cannot succeed
			}
			if step.serve != "" {
				label += ",upstream=" + step.serve
			}
			switch step.ring {
			case "signer":
				writeRing(ringFile, false, ks.A)
				trusted = true
			case "others":
				writeRing(ringFile, false, ks.B, ks.C)
				trusted = false
			case "signer+others":
				writeRing(ringFile, false, ks.C, ks.A)
				trusted = true
			case "empty":
				os.WriteFile(ringFile, nil, 0o600)
				trusted = false
			}
			if step.ring != "" {
				label += ",keyring=" + step.ring
			}
			switch step.disk {
			case "tamper-cached-archive":
				os.WriteFile(cached, tampered, 0o644)
			case "restore-genuine-pair":
				os.WriteFile(cached, w.archive, 0o644)
				os.WriteFile(cached+".prov", w.prov, 0o644)
			case "plant-tampered-pair":
				os.WriteFile(cached, tampered, 0o644)
				os.WriteFile(cached+".prov", w.prov, 0o644)
			case "remove-prov":
				os.Remove(cached + ".prov")
			}
			if step.disk != "" {
				label += ",cache:" + step.disk
			}

			ep, verifying := "", true
			var path string
			var err error
			dl := func(strat downloader.VerificationStrategy) {
				d := downloader.ChartDownloader{Out: io.Discard, Verify: strat, Keyring: ringFile, Getters: httpOnly, RepositoryConfig: cfg, RepositoryCache: cache}
				path, _, err = d.DownloadTo(ref, version, cache)
			}
			pull := func(verify, later bool) {
				p := action.NewPull(action.WithConfig(&action.Configuration{}))
				ps := st
				p.Settings = &ps
				p.Verify, p.VerifyLater, p.Keyring, p.DestDir, p.Version = verify, later, ringFile, cache, version
				_, err = p.Run(ref)
				path = cached
			}
			locate := func(verify bool) {
				ls := st
				o := action.ChartPathOptions{Verify: verify, Keyring: ringFile, Version: version}
				path, err = o.LocateChart(ref, &ls)
			}
			switch step.op {
			case "locate-verify":
				ep = "LocateChart(" + style + ",verify)"
				core.Guard(res, ep, func() { locate(true) })
			case "locate-noverify":
				ep, verifying = "LocateChart("+style+")", false
				core.Guard(res, ep, func() { locate(false) })
			case "dl-always":
				ep = "DownloadTo(" + style + ",VerifyAlways)"
				core.Guard(res, ep, func() { dl(downloader.VerifyAlways) })
			case "dl-ifpossible":
				ep = "DownloadTo(" + style + ",VerifyIfPossible)"
				core.Guard(res, ep, func() { dl(downloader.VerifyIfPossible) })
			case "dl-later":
				ep, verifying = "DownloadTo("+style+",VerifyLater)", false
				core.Guard(res, ep, func() { dl(downloader.VerifyLater) })
			case "dl-never":
				ep, verifying = "DownloadTo("+style+",VerifyNever)", false
				core.Guard(res, ep, func() { dl(downloader.VerifyNever) })
			case "pull-verify":
				ep = "Pull(" + style + ",--verify)"
				core.Guard(res, ep, func() { pull(true, false) })
			case "pull-verify-prov":
				ep = "Pull(" + style + ",--verify --prov)"
				core.Guard(res, ep, func() { pull(true, true) })
			case "pull-prov":
				ep, verifying = "Pull("+style+",--prov)", false
				core.Guard(res, ep, func() { pull(false, true) })
			default:
				panic(step.op)
			}
			outcome := "ok"
			if err != nil {
				outcome = "error"
			}
			hist = append(hist, fmt.Sprintf("%d:%s[%s]=%s", si+1, ep, strings.TrimPrefix(label, step.op+","), outcome))
			if !verifying {
				res.Stat("reuse_steps_unverified", 1)
				continue
			}
			// VerifyIfPossible without an available provenance file is a don't-care
			if step.op == "dl-ifpossible" && s.get(prefix+"/"+w.base+".prov") == nil {
				continue
			}
			kind := fmt.Sprintf("%s-step%d-%s", sq.name, si+1, strings.ReplaceAll(label, ",", "+"))
			h := strings.Join(hist, " -> ")
			var got []byte
			if err == nil {
				got, _ = os.ReadFile(path)
			}
			sum := w.sum
			var expect bool
			if err == nil {
				// success: what was handed out must be what the trusted key signed, under the signed name
				expect = trusted && bytes.Equal(got, w.archive) && filepath.Base(path) == w.base
				if !bytes.Equal(got, w.archive) {
					sum = digest(got)
				}
			} else {
				expect = trusted && servedGenuine
			}
			det := func() string {
				return fmt.Sprintf("operations sharing one repository cache / destination directory for %s (signed via %s, reference style %s, tampered variant %q): %s | last step: err=%v, handed out %q holding %d bytes sha256 %s (signed digest %s), signer in keyring now: %v, repository serves the genuine pair now: %v",
					w.base, w.via, style, vname, h, err, path, len(got), digest(got), w.sum, trusted, servedGenuine)
			}
			out := "reject"
			if expect {
				out = "accept"
			}
			res.Stat("reuse_steps_"+out, 1)
			vd := verdict{ok: err == nil, err: err, hash: sum}
			c.judge(ep, "shared-cache-sequence", kind, expect, true, vd, sum, det)
		}
		res.Stat("reuse_sequences", 1)
		s.set(prefix+"/index.yaml", nil)
		s.set(prefix+"/"+w.base, nil)
		s.set(prefix+"/"+w.base+".prov", nil)
		os.RemoveAll(root)
	}
}

func (s *fileServer) get(path string) []byte {
	s.mu.Lock()
	defer s.mu.Unlock()
	return s.files[path]
}
