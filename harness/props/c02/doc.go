// Package c02: monitor for property C02 (see DESIGN.md section 3).
package c02
