package c02

// Interrupted histories: the histories the property quantifies over contain operations that never
// came to an end - a helm process killed (or cut off from the API server) after it had recorded its
// new revision as pending-upgrade / pending-rollback. What is left behind is a latest revision that
// is neither deployed nor failed, whose manifest was applied not at all, partly or completely,
// next to an older revision that is still marked deployed. The way out of that state is
// `helm rollback` (upgrade refuses while an operation is "in progress"); when that rollback reports
// success the property's clauses apply to it like to any other successful operation - in
// particular "every resource that was in the previously deployed manifest but is not in the new
// one has been deleted", where the previously deployed manifest is the one of the revision marked
// deployed, not the one of the pending revision.
//
// The process death is simulated with sim.CutAfter: from the J-th request after the storage create
// of the new revision record on, no request of the op's agent reaches the server (cluster and
// storage alike), so the op can neither finish nor mark its revision failed. J ranges from 0 (the
// cluster was never touched) over cuts in the middle of the apply phase to values beyond the op's
// last request (the op completes: an ordinary history).
//
// Nothing new is demanded by the oracle: judgeApply / judgeUninstall judge the ops after the
// interruption exactly like the ops of ordinary histories; the killed op itself is never judged
// (its requests were refused). Resources that only the pending revision names are named by a
// manifest of the release, hence no bystanders, and no clause speaks about them.

import (
	"fmt"
	"math/rand"
	"sort"
	"strings"

	"helm.sh/helm/v4/verifh/core"
	"helm.sh/helm/v4/verifh/env"
	"helm.sh/helm/v4/verifh/gen"
	"helm.sh/helm/v4/verifh/sim"
)

const killPrefix = "kill:"

// killAfter returns J of a step marked "kill:J".
func killAfter(st gen.Step) (int, bool) {
	if !strings.HasPrefix(st.Fail, killPrefix) {
		return 0, false
	}
	var j int
	if _, err := fmt.Sscanf(st.Fail, killPrefix+"%d", &j); err != nil {
		return 0, false
	}
	return j, true
}

// killPlans maps the agent tag of every step marked "kill:J" (gen.RunDriftHistory tags step i "op<i>") to J.
func killPlans(dc gen.DriftCase) map[string]int {
	plans := map[string]int{}
	for i, st := range dc.Steps {
		if j, ok := killAfter(st); ok {
			plans[fmt.Sprintf("op%d", i)] = j
		}
	}
	return plans
}

// armKills chains a gate behind the simulator's current one: when an agent with a kill plan gets
// its revision record created in storage, every request of that agent after the next J ones is cut.
func armKills(w *env.World, plans map[string]int) {
	if len(plans) == 0 {
		return
	}
	prev := w.Sim.Gate
	w.Sim.Gate = func(r *sim.Req) {
		if prev != nil {
			prev(r)
		}
		if j, ok := plans[r.Agent]; ok && r.Class == "storage" && r.Method == "POST" {
			w.Sim.CutAfter(r.Agent, r.N+j)
		}
	}
}

var killPoints = []int{0, 0, 0, 1, 2, 3, 4, 6, 9, 14, 22, 40}

// newInterruptedCase draws: install; 1-3 upgrades (some deliberately failing); an upgrade or
// rollback that is killed J requests after it recorded its pending revision; the rollback that
// recovers from it (to the previous or to any recorded revision, after 0-1 out-of-band edits);
// and 0-2 ordinary follow-up ops.
func newInterruptedCase(rng *rand.Rand, driver string) gen.DriftCase {
	dc := gen.DriftCase{FSeed: rng.Int63(), Driver: driver, Versions: 4 + rng.Intn(2), MaxSlots: 5 + rng.Intn(5), NBystand: 3 + rng.Intn(4)}
	fam := dc.Family()
	pool := map[int]bool{}
	for _, v := range fam.Versions {
		for _, s := range v.Slots {
			pool[s] = true
		}
	}
	var slots []int
	for s := range pool {
		slots = append(slots, s)
	}
	sort.Ints(slots)
	limit := []int{0, 0, 0, 0, 5}[rng.Intn(5)]
	vals := func() map[string]any {
		if rng.Intn(3) == 0 {
			return nil
		}
		return map[string]any{"k": []string{"ua", "ub", "uc"}[rng.Intn(3)]}
	}
	drifts := func(max int) []gen.Drift {
		var out []gen.Drift
		for j, nd := 0, rng.Intn(max+1); j < nd; j++ {
			out = append(out, gen.Drift{Kind: gen.DriftKinds[rng.Intn(len(gen.DriftKinds))], Slot: slots[rng.Intn(len(slots))], Pick: rng.Intn(12)})
		}
		return out
	}
	upgrade := func() env.Op {
		op := env.Op{Kind: "upgrade", Chart: rng.Intn(dc.Versions), Vals: vals(), MaxHistory: limit}
		op.Force = rng.Intn(7) == 0
		op.CleanupOnFail = rng.Intn(5) == 0
		op.Atomic = rng.Intn(10) == 0
		op.NoHooks = rng.Intn(4) == 0
		return op
	}
	rollback := func(revs int) env.Op {
		op := env.Op{Kind: "rollback", MaxHistory: limit}
		if rng.Intn(4) > 0 {
			op.ToRev = 1 + rng.Intn(revs)
		}
		op.Force = rng.Intn(8) == 0
		op.CleanupOnFail = rng.Intn(5) == 0
		op.NoHooks = rng.Intn(4) == 0
		return op
	}
	revs := 0
	dc.Steps = append(dc.Steps, gen.Step{Op: env.Op{Kind: "install", Chart: rng.Intn(dc.Versions), Vals: vals(), NoHooks: rng.Intn(4) == 0}})
	revs++
	for j, n := 0, 1+rng.Intn(3); j < n; j++ {
		st := gen.Step{Op: upgrade(), Drifts: drifts(2)}
		if rng.Intn(100) < 15 {
			st.Fail = []string{"wait", "hook", "fault:1", "fault:2", "fault:3"}[rng.Intn(5)]
		}
		dc.Steps = append(dc.Steps, st)
		revs++
	}
	// the op that never ends
	killed := gen.Step{Drifts: drifts(1), Fail: fmt.Sprintf("%s%d", killPrefix, killPoints[rng.Intn(len(killPoints))])}
	if rng.Intn(4) == 0 {
		killed.Op = rollback(revs)
	} else {
		killed.Op = upgrade()
	}
	dc.Steps = append(dc.Steps, killed)
	revs++
	// the recovery
	dc.Steps = append(dc.Steps, gen.Step{Op: rollback(revs), Drifts: drifts(1)})
	revs++
	for j, n := 0, rng.Intn(3); j < n; j++ {
		switch x := rng.Intn(10); {
		case x < 6:
			dc.Steps = append(dc.Steps, gen.Step{Op: upgrade(), Drifts: drifts(2)})
			revs++
		case x < 8:
			dc.Steps = append(dc.Steps, gen.Step{Op: rollback(revs), Drifts: drifts(2)})
			revs++
		default:
			dc.Steps = append(dc.Steps, gen.Step{Op: env.Op{Kind: "uninstall", KeepHistory: rng.Intn(2) == 0, NoHooks: rng.Intn(4) == 0}, Drifts: drifts(2)})
			return dc
		}
	}
	return dc
}

// noteInterrupted records what an op with a kill plan left behind.
func noteInterrupted(res *core.Result, o *gen.StepObs) {
	cut, touched := false, 0
	for _, e := range o.Events {
		if e.Cut {
			cut = true
		}
		if e.Class == "mutation" && !e.Cut && !e.Injected && e.Code < 300 {
			touched++
		}
	}
	if !cut {
		res.Stat("kill_plans_not_reached_op_ran_to_its_end", 1)
		return
	}
	res.Stat("ops_interrupted", 1)
	if strings.HasPrefix(lastStatus(o.L1), "pending-") {
		res.Stat("ops_interrupted_leaving_a_pending_latest_revision", 1)
		if touched == 0 {
			res.Stat("ops_interrupted_before_touching_the_cluster", 1)
		} else {
			res.Stat("ops_interrupted_after_touching_the_cluster", 1)
		}
	}
}
