// Package c02: after a successful operation the cluster matches the recorded manifest.
//
// Monitor: histories of real action.Install/Upgrade/Rollback/Uninstall (gen.DriftCase) run against
// the simulated API server (another 15% with an upgrade or rollback whose process is killed
// after it recorded its pending revision, followed by the recovering rollback: interrupted.go); between ops an out-of-band actor edits, deletes and (un)protects live
// objects; bystander objects and a second release share the namespace. After every op that
// reported success while the server rejected nothing, the object store is judged against the
// manifest recorded in the raw ledger, parsed here with sigs.k8s.io/yaml (not with helm's code):
//
//	manifest-resource-missing   a resource of the new revision's manifest is not in the store
//	manifest-field-mismatch     the live object does not subsume the manifest document (ref.Subsumes)
//	stale-resource-not-deleted  in the previously deployed manifest, not in the new one, live object
//	                            without "keep", still present
//	kept-resource-deleted       same, but the live object carried "keep" and is gone
//	bystander-created/-changed/-deleted   an object named in no manifest or hook of the release
//	                            differs from the pre-op snapshot (install/upgrade/rollback)
//	uninstall-leftover          a resource of the latest revision's manifest without keep policy is
//	                            still present after a successful uninstall
//	uninstall-keep-touched      a keep-policy resource was deleted or modified by uninstall
//	uninstall-keep-not-listed   a keep-policy resource is not named in UninstallReleaseResponse.Info
//
// Don't-care zones (deliberately not judged):
//   - fields the manifest does not specify (foreign labels/fields added out of band may stay or go);
//   - ops that failed, and ops during which the server rejected a request (injected fault);
//   - custom kinds (example.com Widget/Gadget) receive no out-of-band edits of manifest-specified
//     fields: helm documents a two-way merge (old manifest -> new manifest) for unstructured
//     objects. For the same reason a custom object that existed before the op is only judged when
//     it then carried every field of its document in the deployed revision's manifest; objects
//     left over from an earlier release or changed by an earlier failed op are skipped (counted as
//     custom_objects_skipped_diverged_before_op);
//   - at uninstall, a resource whose manifest has no keep policy but whose live object was given
//     one out of band: either outcome is accepted; for keep-policy resources that were already
//     absent before the uninstall nothing is demanded;
//   - on upgrade/rollback a kept (live keep) stale resource only has to survive, not stay unchanged;
//   - resources of the previously deployed manifest that were already absent before the op;
//   - case/whitespace variants of the policy value (only exactly "keep" and "delete" are generated);
//   - the deletion clause is skipped when no revision was marked deployed before the op;
//   - release records of this release; bystander clause is not applied to uninstall (the property
//     states it for install/upgrade/rollback; C07's DELETE-target monitor covers uninstall);
//   - ownership metadata (C07).
package c02

import (
	"fmt"
	"math/rand"
	"sort"
	"strings"

	"helm.sh/helm/v4/verifh/core"
	"helm.sh/helm/v4/verifh/env"
	"helm.sh/helm/v4/verifh/gen"
	"helm.sh/helm/v4/verifh/ref"
	"helm.sh/helm/v4/verifh/sim"
)

func init() {
	core.Register(&core.Prop{
		ID:    "C02",
		Level: "exploration",
		Rule: "seeded histories of 5-8 real install/upgrade/rollback/uninstall ops (22% deliberately failing: never-ready, hook failure, 500 on the n-th mutation; force/atomic/cleanup-on-fail/max-history on subsets) over 4-5 chart versions drawn from 15 resource slots (typed kinds, two custom kinds, one cluster-scoped; Widget and HorizontalPodAutoscaler move between two served API versions of their group from chart version to chart version; about a third of the namespaced slots get a twin of the same kind and name in a second namespace with its own resource policy) with resource-policy keep/delete/none toggling per version, 0-3 out-of-band edits before each op (field change, field removal, foreign fields, object deletion, keep added/removed), 3-6 bystanders and a second release in the namespace, on memory/secrets/configmaps storage; plus 15% as many interrupted histories on secrets/configmaps storage: install, 1-3 upgrades, an upgrade or rollback whose process dies J requests (J = 0..40) after it recorded its pending-upgrade/pending-rollback revision (cluster untouched, partly or fully updated; the revision can no longer be marked failed), the rollback that recovers from it to the previous or any recorded revision, 0-2 further ops. " +
			"distinct_nontrivial counts distinct (op kind+flags, #created, #patched/replaced, #deleted, #kept, drift kinds applied before the op, last-revision status) shapes among judged successful ops.",
		Assumptions: []string{
			"the simulated API server applies create/get/patch(strategic, JSON-merge)/replace/delete like a real API server and stores objects as sent (no defaulting, no admission, no controllers, synchronous deletion)",
			"readiness and hook completion are scripted at kube.Interface.GetWaiter",
			"the recorded manifest is read from the raw storage records by the harness' own decoder and parsed with sigs.k8s.io/yaml",
			"list elements are matched by the strategic-merge key of the Kubernetes API type (k8s.io/apimachinery patch metadata) when one exists, otherwise lists must be equal in length and element-wise subsumed",
		},
		Gen:            genCases,
		Run:            run,
		Post:           post,
		CaseTimeoutSec: 300,
	})
}

type caseData struct {
	DC gen.DriftCase `json:"dc"`
}

func genCases(seed int64, tier string) []core.Case {
	n := 480
	if tier == "thorough" {
		n = 24000
	}
	rng := rand.New(rand.NewSource(seed*104729 + 2))
	var out []core.Case
	for h := 0; h < n; h++ {
		drv := []string{"memory", "secrets", "configmaps"}[h%3]
		dc := gen.NewDriftCase(rng, 5+rng.Intn(4), drv)
		out = append(out, core.Case{ID: fmt.Sprintf("h%d-%s", h, drv), Data: core.J(caseData{dc})})
	}
	// interrupted histories (interrupted.go); own generator, the list above does not depend on them
	nk := 72
	if tier == "thorough" {
		nk = 3600
	}
	krng := rand.New(rand.NewSource(seed*130003 + 17))
	for h := 0; h < nk; h++ {
		// persistent storage only: the records of the memory driver die with the process (and alias
		// the release objects the killed op goes on mutating)
		drv := []string{"secrets", "configmaps"}[h%2]
		out = append(out, core.Case{ID: fmt.Sprintf("k%d-%s", h, drv), Data: core.J(caseData{newInterruptedCase(krng, drv)})})
	}
	return out
}

func post(a *core.Agg) string {
	var msgs []string
	need := func(stat string, min int64) {
		if a.Stats[stat] < min {
			msgs = append(msgs, fmt.Sprintf("%s=%d < %d", stat, a.Stats[stat], min))
		}
	}
	if len(a.Keys) < 20 {
		msgs = append(msgs, fmt.Sprintf("only %d distinct op shapes judged (< 20)", len(a.Keys)))
	}
	need("ops_judged", 100)
	need("manifest_objects_compared", 300)
	need("drifted_objects_found_corrected", 10)
	need("stale_resources_checked", 20)
	need("stale_kept_by_live_policy", 1)
	need("bystander_objects_compared", 300)
	need("uninstalls_judged", 5)
	need("resources_moved_to_another_api_version", 20)
	need("uninstall_same_name_pairs_with_one_keep", 10)
	need("uninstall_keep_resources_checked", 1)
	need("ops_interrupted_leaving_a_pending_latest_revision", 30)
	need("ops_interrupted_before_touching_the_cluster", 5)
	need("ops_interrupted_after_touching_the_cluster", 5)
	need("ops_judged_latest_revision_pending", 20)
	need("stale_resources_checked_latest_revision_pending", 10)
	if len(msgs) > 0 {
		return "monitors observed too little: " + strings.Join(msgs, "; ")
	}
	return ""
}

// specOf returns the document without its apiVersion line: all served versions of a kind are one
// stored object, which version spelling the store holds is not a field the manifest "specifies".
func specOf(d ref.Doc) map[string]any {
	o := make(map[string]any, len(d.Obj))
	for k, v := range d.Obj {
		if k != "apiVersion" {
			o[k] = v
		}
	}
	return o
}

func kindClass(d ref.Doc) string {
	if d.Typed() {
		return "typed kind"
	}
	return "custom kind"
}

func opClass(op env.Op) string {
	s := op.Kind
	if op.Force {
		s += "+force"
	}
	return s
}

// driftClass reduces the out-of-band edits an object received since the last successful op to
// one of four cause shapes (for violation classes).
func driftClass(kinds []string) string {
	has := map[string]bool{}
	for _, k := range kinds {
		has[k] = true
	}
	switch {
	case has["delete"]:
		return "object deleted out of band"
	case has["field"] || has["field-remove"] || has["keep-add"] || has["keep-remove"]:
		return "manifest-specified field or policy annotation edited out of band"
	case has["foreign"]:
		return "only foreign fields added out of band"
	}
	return "no out-of-band edit"
}

// driftShape lists the distinct drift kinds (for shape keys).
func driftShape(kinds []string) string {
	if len(kinds) == 0 {
		return "no-drift"
	}
	set := map[string]bool{}
	for _, k := range kinds {
		set[k] = true
	}
	var u []string
	for k := range set {
		u = append(u, k)
	}
	sort.Strings(u)
	return strings.Join(u, "+")
}

func lastStatus(recs []env.Rec) string {
	if t := ref.TopRec(recs); t != nil {
		return t.Status
	}
	return "none"
}

func policyClass(d ref.Doc) string {
	switch {
	case !d.HasPolicy:
		return "no resource-policy annotation"
	case d.Policy == "keep":
		return "resource-policy keep"
	}
	return "resource-policy annotation present with a value other than keep"
}

func run(c core.Case, verbose bool) core.Result {
	env.Quiet()
	var d caseData
	core.U(c, &d)
	var res core.Result
	dc := d.DC
	fam := dc.Family()
	if verbose {
		gen.DriftTrace = func(r *sim.Req) {
			if r.Class == "mutation" {
				fmt.Printf("     >> %s %s %s [%s] %s\n", r.Agent, r.Method, r.Path, r.ContentType, string(r.Body))
			}
		}
		fmt.Printf("driver %s, %d bystanders\n", dc.Driver, dc.NBystand)
		for v := range fam.Versions {
			fmt.Println("  chart", fam.Describe(v))
		}
	}
	var sampleOps []string
	kills := killPlans(dc)
	gen.RunDriftHistory(dc, func(w *env.World, o *gen.StepObs) {
		if o.I == 0 {
			armKills(w, kills) // no kill plan is ever on the first op
		}
		if _, planned := kills[o.Agent]; planned {
			noteInterrupted(&res, o)
		}
		res.Evals++
		res.Stat("ops_executed", 1)
		res.Stat("requests_observed", int64(len(o.Events)))
		res.Stat("oob_edits_applied", int64(len(o.DriftsNow)))
		outcome := "ok"
		switch {
		case o.Reject:
			outcome = "server-rejected-a-request"
			res.Stat("ops_skipped_server_rejected", 1)
		case o.Res.Err != nil:
			outcome = "failed"
			res.Stat("ops_skipped_failed", 1)
		}
		sampleOps = append(sampleOps, fmt.Sprintf("%s -> %s [%s]", o.Step, outcome, env.LedgerString(o.L1)))
		if verbose {
			fmt.Printf("op %d: %s -> %s err=%q\n   ledger [%s] -> [%s]\n", o.I, o.Step, outcome, o.Res.ErrString(), env.LedgerString(o.L0), env.LedgerString(o.L1))
			for _, e := range o.Events {
				if e.Class == "mutation" {
					fmt.Printf("     %s %s/%s -> %d\n", e.Method, e.Kind, e.Name, e.Code)
				}
			}
		}
		if !o.Success() {
			return
		}
		detail := func() string {
			return fmt.Sprintf("driver %s | history: %s | op %d %s | ledger before [%s] after [%s]", dc.Driver, dc.String(), o.I, o.Step, env.LedgerString(o.L0), env.LedgerString(o.L1))
		}
		switch o.Step.Op.Kind {
		case "install", "upgrade", "rollback":
			judgeApply(&res, o, detail, verbose)
		case "uninstall":
			judgeUninstall(&res, o, detail, verbose)
		}
	})
	res.Sample = map[string]any{"driver": dc.Driver, "charts": describeAll(fam), "ops": sampleOps}
	return res
}

func describeAll(f gen.PolFamily) []string {
	var out []string
	for v := range f.Versions {
		out = append(out, f.Describe(v))
	}
	return out
}

func mutationCounts(o *gen.StepObs, keys map[string]bool) (created, changed, deleted int) {
	for _, e := range o.Events {
		if e.Class != "mutation" || e.Code >= 300 {
			continue
		}
		switch e.Method {
		case "POST":
			created++
		case "PATCH", "PUT":
			changed++
		case "DELETE":
			deleted++
		}
	}
	return
}

func judgeApply(res *core.Result, o *gen.StepObs, detail func() string, verbose bool) {
	op := o.Step.Op
	top := ref.TopRec(o.L1)
	if top == nil || top.Revision <= ref.MaxRev(o.L0) {
		res.Stat("ops_skipped_no_new_revision", 1) // ledger shape is C01's business
		return
	}
	res.Stat("ops_judged", 1)
	if strings.HasPrefix(lastStatus(o.L0), "pending-") {
		res.Stat("ops_judged_latest_revision_pending", 1)
	}
	newDocs, problems := ref.ParseManifest(top.Manifest, gen.DriftNS)
	for _, p := range problems {
		res.Add("manifest-unparseable", opClass(op), "%s | %s", p, detail())
	}
	newKeys := map[string]bool{}
	last := lastStatus(o.L0)
	// (1) every manifest resource exists with every specified field
	pd := ref.LatestDeployed(o.L0)
	if op.Kind == "install" {
		pd = nil // an install starts from nothing; a stale "deployed" record is C01's business
	}
	deployedDoc := map[string]ref.Doc{}
	if pd != nil {
		oldDocs, _ := ref.ParseManifest(pd.Manifest, gen.DriftNS)
		for _, d := range oldDocs {
			if d.Key != "" {
				deployedDoc[d.Key] = d
			}
		}
	}
	for _, d := range newDocs {
		if d.Key == "" {
			continue
		}
		newKeys[d.Key] = true
		cause := driftClass(o.Drifted[d.Key])
		if last == "failed" {
			cause += ", last revision before the op was failed"
		}
		if dd, ok := deployedDoc[d.Key]; ok && dd.APIVersion != d.APIVersion {
			if _, existed := o.S0[d.Key]; existed {
				res.Stat("resources_moved_to_another_api_version", 1)
			}
		}
		live := ref.DecodeObj(o.S1[d.Key])
		if live == nil {
			res.Stat("manifest_objects_compared", 1)
			res.Add("manifest-resource-missing", fmt.Sprintf("%s · %s · %s", opClass(op), kindClass(d), cause), "%s is in the manifest of revision %d but not in the cluster | %s", d, top.Revision, detail())
			continue
		}
		if !d.Typed() {
			// helm documents a two-way merge (old manifest -> new manifest) for unstructured kinds:
			// nothing is promised for a custom object whose live state had diverged from the deployed
			// manifest before the op (left over from an earlier release, changed by a failed op, ...)
			if before := ref.DecodeObj(o.S0[d.Key]); before != nil {
				dd, ok := deployedDoc[d.Key]
				if !ok || len(ref.Subsumes(before, specOf(dd), dd.Res)) > 0 {
					res.Stat("custom_objects_skipped_diverged_before_op", 1)
					continue
				}
			}
		}
		res.Stat("manifest_objects_compared", 1)
		diffs := ref.Subsumes(live, specOf(d), d.Res)
		if len(diffs) > 0 {
			class := fmt.Sprintf("%s · %s · %s", opClass(op), kindClass(d), cause)
			if op.Kind == "rollback" && last != "deployed" && !d.Typed() {
				// same cause as the stale-resource finding: Rollback computes the (two-way, for custom
				// kinds) patch against Releases.Last although the live object matches the deployed revision
				class = "rollback while the latest revision is not the deployed one · custom kind"
			}
			res.Add("manifest-field-mismatch", class, "%s after revision %d: %s | %s", d, top.Revision, strings.Join(diffs, "; "), detail())
		} else if len(o.Drifted[d.Key]) > 0 {
			for _, k := range o.Drifted[d.Key] {
				if k == "field" || k == "field-remove" || k == "delete" || k == "keep-remove" {
					res.Stat("drifted_objects_found_corrected", 1)
					break
				}
			}
		}
	}
	// (2) resources of the previously deployed manifest that left the manifest
	kept, staleGone := 0, 0
	if pd != nil {
		for _, d := range deployedDoc {
			if newKeys[d.Key] {
				continue
			}
			before := ref.DecodeObj(o.S0[d.Key])
			if before == nil {
				res.Stat("stale_resources_already_absent", 1)
				continue
			}
			res.Stat("stale_resources_checked", 1)
			if strings.HasPrefix(last, "pending-") {
				res.Stat("stale_resources_checked_latest_revision_pending", 1)
			}
			pol, _ := ref.LiveAnnotation(before, ref.PolicyAnno)
			_, present := o.S1[d.Key]
			cause := "latest revision before the op was the deployed one"
			if last != "deployed" {
				cause = "latest revision before the op was not the deployed one"
			}
			if pol == "keep" {
				kept++
				res.Stat("stale_kept_by_live_policy", 1)
				if !present {
					res.Add("kept-resource-deleted", fmt.Sprintf("%s · %s · %s", opClass(op), kindClass(d), cause), "%s left the manifest (deployed revision %d -> new revision %d), its live object carried resource-policy keep, and it was deleted | %s", d, pd.Revision, top.Revision, detail())
				}
			} else {
				staleGone++
				if present {
					class := fmt.Sprintf("%s · %s · %s", opClass(op), kindClass(d), cause)
					if op.Kind == "rollback" && last != "deployed" {
						// one cause: Rollback diffs against Releases.Last, not against the deployed revision
						class = "rollback while the latest revision is not the deployed one"
					}
					res.Add("stale-resource-not-deleted", class, "%s is in the manifest of deployed revision %d, not in new revision %d, its live object has no keep policy (annotation %q), and it still exists | %s", d, pd.Revision, top.Revision, pol, detail())
				}
			}
		}
	} else if op.Kind != "install" {
		res.Stat("ops_without_previously_deployed_revision", 1)
	}
	// (3) bystanders
	bystanders(res, o, opClass(op), detail)
	cr, ch, del := mutationCounts(o, nil)
	res.Key("%s%s|last=%s|created=%d changed=%d deleted=%d kept=%d|%s", opClass(op), flags(op), last, cr, ch, del, kept, driftShape(o.DriftsNow))
}

func flags(op env.Op) string {
	s := ""
	if op.Atomic {
		s += "+atomic"
	}
	if op.NoHooks {
		s += "+nohooks"
	}
	if op.Replace {
		s += "+replace"
	}
	return s
}

func bystanders(res *core.Result, o *gen.StepObs, opc string, detail func() string) {
	keys := map[string]bool{}
	for k := range o.S0 {
		keys[k] = true
	}
	for k := range o.S1 {
		keys[k] = true
	}
	for k := range keys {
		if o.Named[k] || ref.IsReleaseRecordKey(k, gen.DriftNS, gen.DriftRel) {
			continue
		}
		res.Stat("bystander_objects_compared", 1)
		b, inB := o.S0[k]
		a, inA := o.S1[k]
		switch {
		case !inB:
			res.Add("bystander-created", opc, "object %s is named in no manifest or hook of the release and was created during the op | %s", k, detail())
		case !inA:
			res.Add("bystander-deleted", opc, "object %s is named in no manifest or hook of the release and was deleted during the op | %s", k, detail())
		case a != b:
			res.Add("bystander-changed", opc, "object %s is named in no manifest or hook of the release and changed during the op: before %s after %s | %s", k, b, a, detail())
		}
	}
}

func judgeUninstall(res *core.Result, o *gen.StepObs, detail func() string, verbose bool) {
	top := ref.TopRec(o.L0)
	if top == nil {
		return
	}
	if top.Status == "uninstalled" {
		res.Stat("uninstalls_of_already_uninstalled_release", 1) // only purges history
		return
	}
	res.Stat("uninstalls_judged", 1)
	info := ""
	if o.Res.Resp != nil {
		info = o.Res.Resp.Info
	}
	docs, _ := ref.ParseManifest(top.Manifest, gen.DriftNS)
	nKeep, nGone := 0, 0
	// pairs of the same kind and name in different namespaces of which exactly one is kept
	byName := map[string][]ref.Doc{}
	for _, d := range docs {
		if d.Key != "" {
			byName[d.Kind+"/"+d.Name] = append(byName[d.Kind+"/"+d.Name], d)
		}
	}
	for _, g := range byName {
		if len(g) == 2 && g[0].NS != g[1].NS && (g[0].Policy == "keep") != (g[1].Policy == "keep") {
			res.Stat("uninstall_same_name_pairs_with_one_keep", 1)
		}
	}
	for _, d := range docs {
		if d.Key == "" {
			continue
		}
		res.Stat("uninstall_manifest_resources_checked", 1)
		before, wasThere := o.S0[d.Key]
		after, isThere := o.S1[d.Key]
		cause := driftClass(o.Drifted[d.Key])
		if d.HasPolicy && d.Policy == "keep" {
			if !wasThere {
				res.Stat("uninstall_keep_resources_already_absent", 1)
				continue
			}
			nKeep++
			res.Stat("uninstall_keep_resources_checked", 1)
			if !isThere {
				res.Add("uninstall-keep-touched", "deleted · "+kindClass(d), "%s has resource-policy keep in the manifest of revision %d and was deleted by uninstall | %s", d, top.Revision, detail())
			} else if after != before {
				res.Add("uninstall-keep-touched", "modified · "+kindClass(d), "%s has resource-policy keep and was modified by uninstall: before %s after %s | %s", d, before, after, detail())
			}
			if !strings.Contains(info, "["+d.Kind+"] "+d.Name) {
				res.Add("uninstall-keep-not-listed", kindClass(d), "%s was kept but is not listed in the response info %q | %s", d, info, detail())
			}
			continue
		}
		if wasThere {
			if pol, _ := ref.LiveAnnotation(ref.DecodeObj(before), ref.PolicyAnno); pol == "keep" {
				res.Stat("uninstall_live_only_keep_dont_care", 1)
				continue
			}
		}
		nGone++
		if isThere {
			class := policyClass(d)
			if !d.HasPolicy {
				class += " · " + kindClass(d) + " · " + cause
			}
			res.Add("uninstall-leftover", class, "%s is in the manifest of the latest revision %d (status %s) without keep policy (annotation present=%v value=%q) and still exists after a successful uninstall; response info %q | %s", d, top.Revision, top.Status, d.HasPolicy, d.Policy, info, detail())
		}
	}
	_, _, del := mutationCounts(o, nil)
	res.Key("%s%s|last=%s|deleted=%d kept=%d expected-gone=%d|%s", "uninstall", flags(o.Step.Op), top.Status, del, nKeep, nGone, driftShape(o.DriftsNow))
}
