package c20

import (
	"fmt"
	"math/rand"
	"strings"
)

// Template grammar: hostile but BOUNDED actions (repeat <= 1e6, until <= 1e5, nested ranges
// <= 1e4 iterations: templates that legitimately loop for long are a don't-care zone).

var tmplActions = []string{
	`{{ include "no.such.template" . }}`,
	`{{ template "no.such.template" . }}`,
	`{{ include "fz.rec" (dict "n" 5) }}`,
	`{{ include "fz.rec" (dict "n" 900) }}`,
	`{{ include "fz.rec" (dict "n" 1500) }}`,
	`{{ include "fz.self" . }}`,
	`{{ template "fz.tself" . }}`,
	`{{ include "fz.mutual.a" . }}`,
	`{{ tpl .Values.fzTpl . }}`,
	`{{ tpl "{{ .Values.replicas }}" . }}`,
	`{{ tpl "{{ include \"fz.self\" . }}" . }}`,
	`{{ tpl "{{ define \"x\" }}d{{ end }}{{ include \"x\" . }}" . }}`,
	`{{ tpl "{{" . }}`,
	`{{ tpl .Values.nosuch . }}`,
	`{{ tpl (toYaml .Values) . }}`,
	`{{ required "a value is required" .Values.nosuch }}`,
	`{{ required "" "" }}`,
	`{{ fail "boom" }}`,
	`{{ fail (repeat 1000 "boom") }}`,
	`{{ repeat 1000000 "x" | len }}`,
	`{{ repeat -1 "x" }}`,
	`{{ range $i := until 100000 }}{{ end }}`,
	`{{ range until 100 }}{{ range until 100 }}.{{ end }}{{ end }}`,
	`{{ untilStep 0 10 0 }}`,
	`{{ seq 1 100000 | len }}`,
	`{{ lookup "v1" "Pod" "ns" "x" }}`,
	`{{ (lookup "v1" "Pod" "" "").items }}`,
	`{{ .Files.Get "no/such/file" }}`,
	`{{ .Files.Get "../../etc/passwd" }}`,
	`{{ range $p, $_ := .Files.Glob "**" }}{{ $p }}{{ end }}`,
	`{{ .Files.Glob "[" }}`,
	`{{ (.Files.Glob "*").AsConfig }}`,
	`{{ (.Files.Glob "*").AsSecrets }}`,
	`{{ .Files.Lines "values.yaml" }}`,
	`{{ .Capabilities.APIVersions.Has "v1" }}`,
	`{{ .Capabilities.KubeVersion.Version }}`,
	`{{ semverCompare ">=1.x" .Capabilities.KubeVersion.Version }}`,
	`{{ semverCompare "bogus constraint" "1.2.3" }}`,
	`{{ semver "x.y.z" }}`,
	`{{ .Values.a.b.c.d.e }}`,
	`{{ .Values.list.x }}`,
	`{{ index .Values.list 99 }}`,
	`{{ index .Values "nested" "a" "b" "zz" "q" }}`,
	`{{ (index .Values.list 0).x }}`,
	`{{ .Values.list | first | toYaml }}`,
	`{{ toYaml .Values | nindent 2 }}`,
	`{{ toYaml . | len }}`,
	`{{ toJson . | len }}`,
	`{{ toToml .Values }}`,
	`{{ toYamlPretty .Values }}`,
	`{{ fromYaml "a: [" }}`,
	`{{ fromYaml (toYaml .Values) | toJson }}`,
	`{{ fromJson "{" }}`,
	`{{ fromYamlArray "- a\n- [" }}`,
	`{{ fromJsonArray "[1," }}`,
	`{{ fromToml "a = [" }}`,
	`{{ mustToJson .Values }}`,
	`{{ mustFromJson "{" }}`,
	`{{ regexMatch "[" "x" }}`,
	`{{ mustRegexMatch "[" "x" }}`,
	`{{ regexReplaceAll "(a*)*b" (repeat 50 "a") "x" }}`,
	`{{ b64dec "!!!" }}`,
	`{{ dict "a" }}`,
	`{{ dict 1 2 }}`,
	`{{ list | first }}`,
	`{{ mustFirst (list) }}`,
	`{{ slice (list 1 2 3) 2 1 }}`,
	`{{ substr 5 1 "abc" }}`,
	`{{ trunc -100 "abc" }}`,
	`{{ splitList "" "abc" }}`,
	`{{ div 1 0 }}`,
	`{{ mod 1 0 }}`,
	`{{ add1 9223372036854775807 }}`,
	`{{ int "x" }}`,
	`{{ atoi "99999999999999999999" }}`,
	`{{ printf "%d" "x" }}`,
	`{{ printf "%[5]d" 1 }}`,
	`{{ printf "%*d" 100000 1 | len }}`,
	`{{ call .Values }}`,
	`{{ .Values.replicas.x.y }}`,
	`{{ $x := .Values }}{{ $x.a.b }}`,
	`{{ with .Values.nosuch }}{{ .x }}{{ else }}{{ .Release.Name }}{{ end }}`,
	`{{ if and .Values.nosuch .Values.nosuch.x }}a{{ end }}`,
	`{{ range .Values.replicas }}x{{ end }}`,
	`{{ range $k, $v := .Values }}{{ $k }}={{ $v | toString | trunc 5 }} {{ end }}`,
	`{{ len .Values.nosuch }}`,
	`{{ .Release.Name | nosuchfunc }}`,
	`{{ .Chart.Name | upper | lower | title | quote | squote | b64enc | b64dec }}`,
	`{{ .Chart.Maintainers }}`,
	`{{ (index .Chart.Maintainers 0).Name }}`,
	`{{ (index .Chart.Dependencies 0).ImportValues }}`,
	`{{ range .Chart.Dependencies }}{{ .Name }}{{ .Alias }}{{ end }}`,
	`{{ .Subcharts }}`,
	`{{ .Subcharts.sub.Values }}`,
	`{{ .Template.Name }}{{ .Template.BasePath }}`,
	`{{ $d := dict }}{{ $_ := set $d "self" $d }}{{ toJson $d }}{{ toYaml $d }}`,
	`{{ $_ := unset .Values "replicas" }}{{ .Values.replicas }}`,
	`{{ merge .Values (dict "a" (list 1)) | toJson | len }}`,
	`{{ mergeOverwrite (dict "a" (dict "b" 1)) (dict "a" 2) }}`,
	`{{ deepCopy .Values | toJson | len }}`,
	`{{ get .Values "nosuch" }}`,
	`{{ pluck "a" .Values (dict) }}`,
	`{{ dig "a" "b" "c" "default" .Values }}`,
	`{{ dig "list" "x" "default" .Values }}`,
	`{{ ternary "a" "b" .Values.nosuch }}`,
	`{{ now | date "2006" | len }}`,
	`{{ toDate "2006-01-02" "garbage" }}`,
	`{{ mustToDate "2006-01-02" "garbage" }}`,
	`{{ "x" | sha256sum }}`,
	`{{ getHostByName "localhost" }}`,
	`{{ urlParse "::::" }}`,
	`{{ urlJoin (dict "scheme" 1) }}`,
	`{{ kindOf .Values.nosuch }}{{ typeOf .Values }}`,
	`{{ toStrings .Values.list }}`,
	`{{ sortAlpha .Values.list }}`,
	`{{ uniq .Values.replicas }}`,
	`{{ has 1 .Values.replicas }}`,
	`{{ without .Values.nosuch 1 }}`,
	`{{ concat .Values.list .Values.replicas }}`,
	`{{ chunk 0 .Values.list }}`,
	`{{ /* comment */ }}`,
	`{{- /* unterminated`,
	`{{ "unterminated string }}`,
	`{{ if }}{{ end }}`,
	`{{ end }}`,
	`{{ else }}`,
	`{{ range }}`,
	`{{ define "fz.dup" }}a{{ end }}{{ define "fz.dup" }}b{{ end }}`,
	`{{ define "" }}{{ end }}`,
	`{{ block "fz.block" . }}default{{ end }}`,
	`{{ break }}`,
	`{{ continue }}`,
	`{{ . }}`,
	`{{ $ }}`,
	`{{ $.Values.nosuch.x }}`,
	`{{ .Values | keys | sortAlpha | join "," }}`,
	`{{ 0x7fffffffffffffffff }}`,
	`{{ 1e999 }}`,
	`{{ 'a' }}`,
	"{{ `raw` }}",
	`{{ "\xff" }}`,
	`{{ "é\U0001F680" }}`,
}

const tmplDefines = `
{{- define "fz.rec" -}}{{- if gt (int .n) 0 -}}{{ include "fz.rec" (dict "n" (sub .n 1)) }}{{- end -}}x{{- end -}}
{{- define "fz.self" -}}{{ include "fz.self" . }}{{- end -}}
{{- define "fz.tself" -}}{{ template "fz.tself" . }}{{- end -}}
{{- define "fz.mutual.a" -}}{{ include "fz.mutual.b" . }}{{- end -}}
{{- define "fz.mutual.b" -}}{{ include "fz.mutual.a" . }}{{- end -}}
`

// Rare shapes that are expected to exhaust memory/stack if helm has no guard (kept rare because
// each occurrence costs seconds and ends the worker): tpl calling itself, and helm's own
// serializers toToml / toYamlPretty on a cyclic dict (toYaml / toJson are protected by
// encoding/json's cycle detection). Sprig functions on cyclic data (deepCopy, merge) are not
// helm code and are not generated.
var tmplUnbounded = []string{
	`{{ tpl .Values.fzTplSelf . }}`,
	`{{ $_ := set .Values "fzSelf" .Values }}{{ toToml .Values | len }}`,
	`{{ $_ := set .Values "fzSelf" .Values }}{{ toYamlPretty .Values | len }}`,
}

// fzValues are appended to the user values of a chart input so that tpl actions have something to
// expand.
const fzValues = `
fzTpl: "{{ .Release.Name }}-{{ tpl \"{{ .Chart.Name }}\" . }}"
`

// fzValuesUnbounded is added only to the rare inputs that probe unbounded recursion (otherwise
// `tpl (toYaml .Values) .` would find it and every such batch would end early).
const fzValuesUnbounded = `fzTplSelf: "{{ tpl .Values.fzTplSelf . }}"
`

func deepParens(n int) string {
	return "{{ " + strings.Repeat("(", n) + "1" + strings.Repeat(")", n) + " }}"
}

func deepNest(n int) string {
	return strings.Repeat("{{ if true }}", n) + "x" + strings.Repeat("{{ end }}", n)
}

func deepPipeline(n int) string {
	return "{{ 1" + strings.Repeat(" | add 1", n) + " }}"
}

// genTemplate produces a template text from a seed template.
func genTemplate(rng *rand.Rand, seed []byte, unbounded bool) ([]byte, string) {
	lines := strings.Split(string(seed), "\n")
	var desc []string
	n := 1 + rng.Intn(3)
	for i := 0; i < n; i++ {
		var act string
		switch r := rng.Intn(100); {
		case unbounded && i == 0:
			act = tmplUnbounded[rng.Intn(len(tmplUnbounded))]
			desc = append(desc, "tmpl-unbounded")
		case r < 4:
			act = deepParens([]int{10, 1000, 9990, 10010, 25000}[rng.Intn(5)])
			desc = append(desc, "tmpl-deep-parens")
		case r < 8:
			act = deepNest([]int{10, 500, 2000}[rng.Intn(3)])
			desc = append(desc, "tmpl-deep-nest")
		case r < 11:
			act = deepPipeline([]int{10, 1000, 5000}[rng.Intn(3)])
			desc = append(desc, "tmpl-deep-pipeline")
		default:
			act = tmplActions[rng.Intn(len(tmplActions))]
			desc = append(desc, "tmpl-action")
		}
		pos := rng.Intn(len(lines) + 1)
		switch rng.Intn(3) {
		case 0:
			lines = append(lines[:pos:pos], append([]string{act}, lines[pos:]...)...)
		case 1:
			if pos < len(lines) {
				lines[pos] = lines[pos] + " " + act
			} else {
				lines = append(lines, act)
			}
		default:
			if pos < len(lines) {
				lines[pos] = fmt.Sprintf("  fz%d: %s", i, act)
			} else {
				lines = append(lines, act)
			}
		}
	}
	out := []byte(strings.Join(lines, "\n"))
	if rng.Intn(100) < 10 {
		out, _ = havoc(rng, out)
		desc = append(desc, "havoc")
	}
	return clip(out), strings.Join(desc, "+")
}
