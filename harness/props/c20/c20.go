// Package c20: malformed external input produces an error, never a crash.
//
// Every case is a batch of generated inputs for ONE entry-point pipeline. Each input is written to
// a file named after the case BEFORE it is executed (a process crash leaves it behind), then every
// stage of the pipeline runs inside core.Guard: a panic is a violation (clause "panic", class =
// stage + normalized panic + top helm frame, detail carries the input). A worker that dies
// (fatal error, stack overflow, panic in a helm goroutine, the memory guard below) is attributed
// to the case by the runner (clause "crashed"); a case that does not finish under the watchdog is a
// hang violation.
//
// Memory guard: a goroutine watches heap+stack of the worker; above 2 GiB in total or 512 MiB of
// stack (inputs are <= 64 KiB, so this is amplification by > 8000x, i.e. unbounded growth; the
// bounded depth bombs stay below 100 MiB) it prints
// "fatal error: c20 memory guard ..." followed by the top helm frame of the running goroutine and
// exits, so that unbounded recursion is reported as a crash instead of eating the machine.
//
// Don't-care zones: results and error texts (only the storage entry point compares results:
// readable records must still be returned); memory/time proportional to the input below the
// guard; templates that loop for long (bounded in the grammar: repeat <= 1e6, until <= 1e5);
// behaviour of `$ref` to absolute host files (not generated: C05's concern); network access
// (never generated).
package c20

import (
	"encoding/base64"
	"fmt"
	"math/rand"
	"os"
	"path/filepath"
	"regexp"
	"runtime"
	"sort"
	"strings"
	"sync"
	"time"

	"helm.sh/helm/v4/verifh/core"
	"helm.sh/helm/v4/verifh/env"
)

type caseData struct {
	Entry string `json:"entry"`
	Seed  int64  `json:"seed"`
	N     int    `json:"n"`
	Race  bool   `json:"race,omitempty"`
	// Only: replay aid, execute only this input index
	Only int `json:"only,omitempty"`
}

// entry describes one entry-point pipeline.
type entry struct {
	name string
	// per-tier number of inputs and batch size
	quick, thorough, batch int
	run                    func(x *exec, rng *rand.Rand) // generates ONE input from rng, records it, executes it
}

var entries []entry

func init() {
	entries = []entry{
		{"chart", 4800, 40000, 120, runChart},
		{"strvals", 6000, 150000, 1000, runStrvals},
		{"values", 4000, 60000, 500, runValues},
		{"index", 5000, 100000, 500, runIndex},
		{"manifest", 3000, 40000, 250, runManifest},
		{"storage", 3000, 40000, 250, runStorage},
		{"prov", 2400, 30000, 300, runProv},
		{"ignore", 3000, 60000, 1000, runIgnore},
		{"plugin", 3000, 40000, 500, runPlugin},
		{"schema", 4000, 60000, 500, runSchema},
	}
	core.Register(&core.Prop{
		ID:    "C20",
		Level: "exploration",
		Rule: "inputs for ten entry-point pipelines (chart archive+dir -> ProcessDependencies -> CoalesceValues -> ToRenderValuesWithSchemaValidation -> engine.Render -> SortManifests -> lint; strvals parsers; values readers + Options.MergeValues; LoadIndexFile -> SortEntries/Get/Has/Merge; SplitManifests/SortManifests + uninstall of a stored manifest; storage reads over corrupted Secret/ConfigMap records among good ones; provenance Verify; ignore.Parse; plugin.LoadDir/LoadAll; ValidateAgainstSingleSchema/ValidateAgainstSchema) " +
			"generated from the repo's testdata and handcrafted seeds by structure-aware YAML/JSON tree mutators (null/wrong-type/delete/duplicate/null-entries/deepen/lengthen/splice/key-rename/targeted shapes), YAML-level attacks (anchors, merge keys, bounded billion-laughs, BOM, CRLF, multi-doc), a hostile template grammar, tar-level mutations and byte havoc; inputs <= 64 KiB. " +
			"distinct_nontrivial counts distinct (entry point, mutation kinds, per-stage outcome vector) of mutated inputs.",
		Assumptions: []string{
			"the claim covers the executed inputs only (bounded size, the listed generator families); 'no hang' is bounded completion of a batch under the watchdog",
			"the simulated API server returns well-formed Kubernetes objects; only helm's own record encoding (base64/gzip/JSON/field types) is corrupted",
			"a share of the batches runs in the -race build (checkptr, data races in helm frames)",
		},
		Gen:             genCases,
		Run:             run,
		Post:            post,
		CaseTimeoutSec:  900,
		HangIsViolation: true,
	})
}

func genCases(seed int64, tier string) []core.Case {
	rng := rand.New(rand.NewSource(seed*7368787 + 20))
	var out []core.Case
	for _, e := range entries {
		// development aid (monitor validation runs): restrict the list to some entry points. Never
		// set by the check scripts; without it the list is a pure function of (seed, tier).
		if only := os.Getenv("C20_ONLY"); only != "" && !strings.Contains(","+only+",", ","+e.name+",") {
			rng.Int63()
			continue
		}
		total, batch := e.quick, e.batch
		if tier == "thorough" {
			total = e.thorough
		}
		nb := (total + batch - 1) / batch
		for b := 0; b < nb; b++ {
			d := caseData{Entry: e.name, Seed: rng.Int63(), N: batch, Only: -1}
			mode := ""
			// every 8th batch runs in the race build with a quarter of the inputs
			if b%8 == 7 {
				mode = "race"
				d.Race = true
				d.N = (batch + 3) / 4
			}
			out = append(out, core.Case{ID: fmt.Sprintf("%s-s%d-%s-%04d", tier, seed, e.name, b), Mode: mode, Data: core.J(d)})
		}
	}
	return out
}

// ---------------------------------------------------------------- execution context

type exec struct {
	res     *core.Result
	c       core.Case
	d       caseData
	verbose bool
	tmp     string // per-case temp dir (removed at the end of the case)
	inFile  string
	idx     int

	// per-input state
	input   []byte
	mut     string   // mutation description
	extra   string   // further parameters of the call that are part of the witness (flags)
	outcome []string // per-stage outcome vector
	shared  map[string]any
}

func inputDir() string { return filepath.Join(core.VerifDir(), "replays", "c20-inputs") }

// begin records the input (file first, then counters).
func (x *exec) begin(input []byte, mut string) {
	x.input, x.mut, x.outcome = input, mut, x.outcome[:0]
	hdr := fmt.Sprintf("# C20 input: case %s entry %s index %d mutation %s (the bytes after the first newline are the input)\n", x.c.ID, x.d.Entry, x.idx, mut)
	os.WriteFile(x.inFile, append([]byte(hdr), input...), 0o644)
	if x.verbose {
		// replay mode: keep every input of the batch
		p := strings.TrimSuffix(x.inFile, ".bin") + fmt.Sprintf("-%d.bin", x.idx)
		os.WriteFile(p, input, 0o644)
		fmt.Printf("  input #%d written to %s\n", x.idx, p)
	}
	x.res.Stat("inputs/"+x.d.Entry, 1)
	x.res.Evals++
	if len(input) > MaxInput {
		x.res.Inconclusive = fmt.Sprintf("generator produced an input of %d bytes (> %d)", len(input), MaxInput)
	}
}

func (x *exec) inputText() string {
	b := x.input
	pre := ""
	if x.extra != "" {
		pre = x.extra + " | "
	}
	if isBinary(b) {
		return pre + "input(base64)=" + base64.StdEncoding.EncodeToString(b)
	}
	return pre + "input=" + string(b)
}

// stage runs one stage of a pipeline under the guard. It returns true when the stage returned
// normally without error.
func (x *exec) stage(what string, f func() error) bool {
	var err error
	before := len(x.res.Violations)
	panicked := core.Guard(x.res, x.d.Entry+"/"+what, func() { err = f() })
	switch {
	case panicked:
		// signature = entry point + normalized panic + top helm frame (the stage goes to the detail):
		// one cause seen through two stages, or with differently typed offending values, is one signature
		v := &x.res.Violations[before]
		cls := strings.TrimPrefix(v.Class, x.d.Entry+"/"+what+": ")
		cls = ifaceRe.ReplaceAllString(cls, "interface {} is <T>, not")
		v.Class = x.d.Entry + ": " + cls
		v.Detail = fmt.Sprintf("case %s input #%d (mutation %s) stage %s | %s\n%s", x.c.ID, x.idx, x.mut, what, v.Detail, x.inputText())
		x.res.Stat("stage_panic/"+x.d.Entry+"/"+what, 1)
		x.outcome = append(x.outcome, what+":PANIC")
		return false
	case err != nil:
		x.res.Stat("stage_err/"+x.d.Entry+"/"+what, 1)
		x.outcome = append(x.outcome, what+":err")
		if x.verbose {
			e := err.Error()
			if len(e) > 160 {
				e = e[:160] + "..."
			}
			fmt.Printf("      %s -> error: %s\n", what, strings.ReplaceAll(e, "\n", " | "))
		}
		return false
	}
	x.res.Stat("stage_ok/"+x.d.Entry+"/"+what, 1)
	x.outcome = append(x.outcome, what+":ok")
	return true
}

// violate records a non-panic refutation (storage: good records not returned).
func (x *exec) violate(clause, class, format string, a ...any) {
	x.res.Add(clause, x.d.Entry+"/"+class, "case %s input #%d (mutation %s) | %s\n%s", x.c.ID, x.idx, x.mut, fmt.Sprintf(format, a...), x.inputText())
}

func (x *exec) end() {
	defer func() { x.extra = "" }()
	if x.mut != "pristine" {
		x.res.Key("%s|%s|%s", x.d.Entry, opClass(x.mut), strings.Join(x.outcome, ","))
	}
	if x.verbose {
		fmt.Printf("  #%d %s mutation=%s bytes=%d -> %s\n", x.idx, x.d.Entry, x.mut, len(x.input), strings.Join(x.outcome, ","))
	}
}

func (x *exec) mkdir(name string) string {
	p := filepath.Join(x.tmp, name)
	os.RemoveAll(p)
	os.MkdirAll(p, 0o755)
	return p
}

// ---------------------------------------------------------------- memory guard

var guardOnce sync.Once

const (
	memLimit   = 2 << 30
	stackLimit = 512 << 20 // well below the runtime's own 1 GB limit, so that the guard can name the helm frame
)

var ifaceRe = regexp.MustCompile(`interface \{\} is [^,@]+, not`)

var helmFrameRe = regexp.MustCompile(`(?m)^(helm\.sh/helm/v4/(?:pkg|internal|cmd)/[^\s(]+(?:\([^)]*\))?[^\s(]*)\(`)

// attributeGrowth names the recursion site from an all-goroutine dump. The runtime prints only the
// innermost 50 and the outermost 50 frames of a deep stack, so only the innermost part of the
// biggest goroutine is looked at (anything else would depend on how deep the stack happened to
// be): a helm frame there is the site (printed as a frame line for the runner's crash class);
// otherwise the recursion runs inside a library and the message names its package.
func attributeGrowth(dump string) (where, frameLine string) {
	var big string
	for _, blk := range strings.Split(dump, "\n\n") {
		if strings.Contains(blk, "startMemGuard") {
			continue
		}
		if len(blk) > len(big) {
			big = blk
		}
	}
	if i := strings.Index(big, " frames elided..."); i >= 0 { // "...N frames elided..." / "...additional frames elided..."
		big = big[:i]
	}
	if m := helmFrameRe.FindStringSubmatch(big); m != nil {
		return "", m[1] + "(...)"
	}
	count := map[string]int{}
	for _, l := range strings.Split(big, "\n") {
		if l == "" || l[0] == '\t' || strings.HasPrefix(l, "goroutine ") {
			continue
		}
		fn := l
		if i := strings.LastIndex(fn, "("); i > 0 {
			fn = fn[:i]
		}
		pkg := fn
		slash := strings.LastIndex(fn, "/")
		if dot := strings.Index(fn[slash+1:], "."); dot >= 0 {
			pkg = fn[:slash+1+dot]
		}
		if pkg == "runtime" || pkg == "reflect" || strings.HasPrefix(pkg, "internal/") || strings.Contains(pkg, "verifh") {
			continue
		}
		count[pkg]++
	}
	best := ""
	for p, n := range count {
		if n > count[best] || n == count[best] && p < best {
			best = p
		}
	}
	if best == "" {
		best = "unknown code"
	}
	return " inside " + best, "(no helm frame among the innermost frames)"
}

func startMemGuard() {
	guardOnce.Do(func() {
		go func() {
			var ms runtime.MemStats
			for {
				time.Sleep(100 * time.Millisecond)
				runtime.ReadMemStats(&ms)
				if ms.HeapAlloc+ms.StackInuse > memLimit || ms.StackInuse > stackLimit {
					// not-yet-collected garbage does not count (a starved collector on a loaded
					// machine lets HeapAlloc overshoot): collect, then look at what is really live
					first := ms
					runtime.GC()
					runtime.ReadMemStats(&ms)
					if !(ms.HeapAlloc+ms.StackInuse > memLimit || ms.StackInuse > stackLimit) {
						fmt.Fprintf(os.Stderr, "c20 memory guard: transient peak heap=%d stack=%d, after GC heap=%d stack=%d (ignored)\n", first.HeapAlloc, first.StackInuse, ms.HeapAlloc, ms.StackInuse)
						continue
					}
					buf := make([]byte, 4<<20)
					buf = buf[:runtime.Stack(buf, true)]
					where, fr := attributeGrowth(string(buf))
					if len(buf) > 20000 {
						buf = buf[:20000]
					}
					fmt.Fprintf(os.Stderr, "fatal error: c20 memory guard: heap+stack beyond the limit for an input of at most 64 KiB (unbounded growth)%s\n%s\nlive after a forced collection: heap=%d stack=%d bytes\n\n%s\n", where, fr, ms.HeapAlloc, ms.StackInuse, buf)
					os.Exit(3)
				}
			}
		}()
	})
}

// ---------------------------------------------------------------- run / post

func run(c core.Case, verbose bool) core.Result {
	env.Quiet()
	startMemGuard()
	var d caseData
	core.U(c, &d)
	var res core.Result
	var e *entry
	for i := range entries {
		if entries[i].name == d.Entry {
			e = &entries[i]
		}
	}
	if e == nil {
		res.Inconclusive = "unknown entry " + d.Entry
		return res
	}
	tmp, err := os.MkdirTemp("", "c20-"+d.Entry+"-")
	if err != nil {
		res.Inconclusive = err.Error()
		return res
	}
	defer os.RemoveAll(tmp)
	os.MkdirAll(inputDir(), 0o755)
	x := &exec{res: &res, c: c, d: d, verbose: verbose, tmp: tmp, inFile: filepath.Join(inputDir(), c.ID+".bin"), shared: map[string]any{}}
	cp := getCorpus()
	var first map[string]any
	for i := 0; i < d.N; i++ {
		// every input has its own generator: input i does not depend on the outcome of input i-1
		rng := rand.New(rand.NewSource(d.Seed + int64(i)*1000003))
		x.idx = i
		if d.Only >= 0 && d.Only != i {
			continue
		}
		e.run(x, rng)
		x.end()
		if first == nil {
			in := x.input
			if len(in) > 400 {
				in = in[:400]
			}
			s := string(in)
			if isBinary(in) {
				s = "base64:" + base64.StdEncoding.EncodeToString(in)
			}
			first = map[string]any{"case": c.ID, "entry": d.Entry, "mode": c.Mode, "inputs_in_batch": d.N, "first_input_mutation": x.mut, "first_input_prefix": s, "first_input_outcome": strings.Join(x.outcome, ","), "corpus_files": cp.files}
		}
	}
	if cl, ok := x.shared["cleanup"].(func()); ok {
		cl()
	}
	res.Sample = first
	res.Stat("batches/"+d.Entry, 1)
	if d.Race {
		res.Stat("inputs_in_race_build", int64(d.N))
	}
	// the case finished: the input file is no longer a crash witness
	os.Remove(x.inFile)
	return res
}

func post(a *core.Agg) string {
	// left-behind input files of this run are crash witnesses
	left, _ := filepath.Glob(filepath.Join(inputDir(), fmt.Sprintf("%s-s%d-*.bin", a.Tier, a.Seed)))
	a.Stats["crash_witness_files_left"] = int64(len(left))
	var missing []string
	for _, e := range entries {
		if a.Stats["inputs/"+e.name] == 0 {
			missing = append(missing, e.name)
		}
	}
	sort.Strings(missing)
	if len(missing) > 0 {
		return "no inputs executed for entry points: " + strings.Join(missing, ",")
	}
	// positive controls: the pipelines must get past their first stage often enough that the
	// deeper stages were really exercised
	for _, k := range []string{
		"stage_ok/chart/engine.Render", "stage_ok/chart/lint.RunAll", "stage_ok/chart/ProcessDependencies", "stage_ok/index/SortEntries+Get+Has+Merge",
		"stage_ok/storage/List", "stage_ok/manifest/action.Uninstall", "stage_ok/values/Options.MergeValues", "stage_ok/schema/ValidateAgainstSingleSchema",
		"stage_ok/plugin/PrepareCommand", "stage_ok/prov/Verify(re-signed)", "stage_ok/ignore/Ignore", "stage_ok/strvals/ParseInto",
	} {
		if a.Stats[k] < 20 {
			return fmt.Sprintf("positive control: %s succeeded only %d times", k, a.Stats[k])
		}
	}
	if a.Stats["chart_loaded_with_mutated_requirements"] < 20 {
		return fmt.Sprintf("positive control: only %d charts with a mutated requirements.yaml/lock were loaded and sent through dependency processing", a.Stats["chart_loaded_with_mutated_requirements"])
	}
	return ""
}
