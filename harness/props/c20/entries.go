package c20

import (
	"archive/tar"
	"bytes"
	"compress/gzip"
	"crypto"
	"encoding/base64"
	"encoding/json"
	"errors"
	"fmt"
	"helm.sh/helm/v4/pkg/kube"
	"io"
	"math/rand"
	"os"
	"path/filepath"
	"sort"
	"strings"
	"time"

	"golang.org/x/crypto/openpgp/clearsign" //nolint
	"golang.org/x/crypto/openpgp/packet"    //nolint

	"helm.sh/helm/v4/pkg/action"
	chart "helm.sh/helm/v4/pkg/chart/v2"
	"helm.sh/helm/v4/pkg/chart/v2/loader"
	chartutil "helm.sh/helm/v4/pkg/chart/v2/util"
	"helm.sh/helm/v4/pkg/cli/values"
	"helm.sh/helm/v4/pkg/engine"
	"helm.sh/helm/v4/pkg/getter"
	"helm.sh/helm/v4/pkg/ignore"
	"helm.sh/helm/v4/pkg/lint"
	"helm.sh/helm/v4/pkg/lint/support"
	"helm.sh/helm/v4/pkg/plugin"
	"helm.sh/helm/v4/pkg/provenance"
	releaseutil "helm.sh/helm/v4/pkg/release/util"
	release "helm.sh/helm/v4/pkg/release/v1"
	"helm.sh/helm/v4/pkg/repo"
	"helm.sh/helm/v4/pkg/storage"
	"helm.sh/helm/v4/pkg/strvals"
	helmtime "helm.sh/helm/v4/pkg/time"
	"helm.sh/helm/v4/verifh/env"
)

func pick[T any](rng *rand.Rand, xs []T) T { return xs[rng.Intn(len(xs))] }

// ================================================================ 1. chart pipeline

func sortedNames(m map[string][]byte) []string {
	var ns []string
	for n := range m {
		ns = append(ns, n)
	}
	sort.Strings(ns)
	return ns
}

func pickFile(rng *rand.Rand, files map[string][]byte, pred func(string) bool) string {
	var c []string
	for _, n := range sortedNames(files) {
		if pred(n) {
			c = append(c, n)
		}
	}
	if len(c) == 0 {
		return ""
	}
	return c[rng.Intn(len(c))]
}

// mutateChartFiles applies one mutation to the file map and returns its description.
func mutateChartFiles(rng *rand.Rand, files map[string][]byte, unbounded bool) string {
	cp := getCorpus()
	donor := func(xs [][]byte) []byte { return xs[rng.Intn(len(xs))] }
	r := rng.Intn(100)
	if unbounded {
		r = 60
	}
	// the legacy dependency files are mutation targets of their own: always when the chart carries
	// them, sometimes by adding them to a chart that does not (apiVersion v1 or v2)
	_, hasReq := files["requirements.yaml"]
	if !unbounded && (hasReq && rng.Intn(100) < 40 || !hasReq && rng.Intn(100) < 6) {
		how := ""
		if !hasReq {
			files["requirements.yaml"] = []byte(handRequirements)
			how = "(added)"
			if rng.Intn(2) == 0 {
				// make it a Helm 2 style chart: apiVersion v1, no dependencies in Chart.yaml
				if t := parseTree(files["Chart.yaml"]); t != nil && t.kind == kMap {
					t.set("apiVersion", str("v1"))
					if rng.Intn(2) == 0 {
						for i, k := range t.keys {
							if k.raw == "dependencies" {
								t.keys = append(t.keys[:i:i], t.keys[i+1:]...)
								t.vals = append(t.vals[:i:i], t.vals[i+1:]...)
								break
							}
						}
					}
					files["Chart.yaml"] = render(t, styBlock)
					how = "(added,v1)"
				}
			}
		}
		if rng.Intn(5) == 0 {
			if files["requirements.lock"] == nil {
				files["requirements.lock"] = []byte(handRequirementsLock)
			}
			b, d := mutateDoc(rng, files["requirements.lock"], []byte(handRequirements), false)
			files["requirements.lock"] = b
			return "requirements.lock" + how + ":" + d
		}
		b, d := mutateDoc(rng, files["requirements.yaml"], []byte(handChartYAML), false)
		files["requirements.yaml"] = b
		return "requirements.yaml" + how + ":" + d
	}
	switch {
	case r < 28:
		b, d := mutateDoc(rng, files["Chart.yaml"], []byte(handChartYAML), false)
		files["Chart.yaml"] = b
		return "Chart.yaml:" + d
	case r < 42:
		if files["values.yaml"] == nil {
			files["values.yaml"] = donor(cp.values)
		}
		b, d := mutateDoc(rng, files["values.yaml"], donor(cp.values), false)
		files["values.yaml"] = b
		return "values.yaml:" + d
	case r < 54:
		b, d := mutateDoc(rng, files[userValuesFile], donor(cp.values), false)
		files[userValuesFile] = b
		return "uservalues:" + d
	case r < 64 && !unbounded:
		n := pickFile(rng, files, func(n string) bool { return strings.HasSuffix(n, "values.schema.json") })
		if n == "" {
			n = "values.schema.json"
			files[n] = donor(cp.schemas)
		}
		b, d := mutateDoc(rng, files[n], donor(cp.schemas), true)
		files[n] = b
		return "schema:" + d
	case r < 86:
		n := pickFile(rng, files, func(n string) bool { return strings.Contains(n, "templates/") && !strings.Contains(n, "/charts/") })
		if n == "" || rng.Intn(5) == 0 {
			n = "templates/fz-" + pick(rng, []string{"a.yaml", "b.tpl", "NOTES.txt", "_p.tpl", "c.yml", "d.json", ".hidden", "deep/er/e.yaml"})
			files[n] = donor(cp.templates)
		}
		b, d := genTemplate(rng, files[n], unbounded)
		files[n] = b
		if files["templates/_fz.tpl"] == nil {
			files["templates/_fz.tpl"] = []byte(tmplDefines)
		}
		return "template:" + d
	case r < 94:
		n := pickFile(rng, files, func(n string) bool {
			return strings.HasPrefix(n, "charts/") && (strings.HasSuffix(n, "Chart.yaml") || strings.HasSuffix(n, "values.yaml"))
		})
		if n == "" {
			files["charts/sub/Chart.yaml"] = []byte(handSubChartYAML)
			files["charts/sub/values.yaml"] = []byte(handSubValues)
			n = pick(rng, []string{"charts/sub/Chart.yaml", "charts/sub/values.yaml"})
		}
		b, d := mutateDoc(rng, files[n], donor(cp.values), false)
		files[n] = b
		return "subchart:" + d
	}
	// file-level operations
	switch rng.Intn(12) {
	case 0:
		if n := pickFile(rng, files, func(string) bool { return true }); n != "" {
			delete(files, n)
		}
		return "file-delete"
	case 1:
		files["requirements.yaml"] = []byte("dependencies:\n- name: sub\n  version: 0.1.0\n  repository: http://example.com\n  import-values:\n  - child: 1\n    parent: [x]\n  - null\n")
		return "file-requirements"
	case 2:
		files["requirements.lock"], _ = mutateDoc(rng, files["Chart.lock"], nil, false)
		return "file-requirements-lock"
	case 3:
		b, _ := mutateDoc(rng, files["Chart.lock"], nil, false)
		files["Chart.lock"] = b
		return "file-lock"
	case 4:
		files["charts/garbage.tgz"] = []byte("not a tgz")
		return "file-subchart-garbage-tgz"
	case 5:
		files["charts/sub-0.1.0.tgz"] = buildTgz(rng, "sub", map[string][]byte{"Chart.yaml": []byte(handSubChartYAML), "values.yaml": []byte(handSubValues)}, rng.Intn(2) == 0)
		return "file-subchart-tgz"
	case 6:
		files["charts/_ignored/Chart.yaml"] = []byte("x")
		files["charts/README.md"] = []byte("not a chart")
		files["charts/nochart/values.yaml"] = []byte("a: 1")
		return "file-charts-noise"
	case 7:
		files["values.yaml"] = pick(rng, [][]byte{[]byte(""), []byte("- a\n- b\n"), []byte("just a string"), []byte("null"), []byte("a: 1\n---\na: [2]\n---\n- 3\n"), []byte("\t")})
		return "file-values-nonmap"
	case 8:
		b, d := mutateDoc(rng, files[".helmignore"], nil, false)
		files[".helmignore"] = b
		return "file-helmignore:" + d
	case 9:
		files["crds/x.yaml"], _ = havoc(rng, []byte("apiVersion: apiextensions.k8s.io/v1\nkind: CustomResourceDefinition\nmetadata: {name: x}\n"))
		return "file-crd"
	case 10:
		files["chart.yaml"] = files["Chart.yaml"]
		delete(files, "Chart.yaml")
		return "file-chartyaml-case"
	}
	files["templates/"+strings.Repeat("d/", 40)+"x.yaml"] = []byte("a: b\n")
	return "file-deep-path"
}

// buildTgz packs the files under <name>/; tarMut adds tar-level oddities.
func buildTgz(rng *rand.Rand, name string, files map[string][]byte, tarMut bool) []byte {
	var raw bytes.Buffer
	tw := tar.NewWriter(&raw)
	names := sortedNames(files)
	if tarMut && rng.Intn(3) == 0 {
		rng.Shuffle(len(names), func(i, j int) { names[i], names[j] = names[j], names[i] })
	}
	write := func(h *tar.Header, body []byte) {
		h.Mode = 0o644
		h.ModTime = time.Unix(1700000000, 0)
		if h.Typeflag == tar.TypeReg || h.Typeflag == 0 {
			h.Size = int64(len(body))
		}
		if tw.WriteHeader(h) == nil && h.Size > 0 {
			tw.Write(body)
		}
	}
	if tarMut {
		switch rng.Intn(10) {
		case 0:
			write(&tar.Header{Name: "../evil.yaml", Typeflag: tar.TypeReg}, []byte("x"))
		case 1:
			write(&tar.Header{Name: "/abs/Chart.yaml", Typeflag: tar.TypeReg}, files["Chart.yaml"])
		case 2:
			write(&tar.Header{Name: name + "/link", Typeflag: tar.TypeSymlink, Linkname: "/etc/passwd"}, nil)
		case 3:
			write(&tar.Header{Name: name + "/", Typeflag: tar.TypeDir}, nil)
			write(&tar.Header{Name: name + "/templates/", Typeflag: tar.TypeDir}, nil)
		case 4:
			write(&tar.Header{Name: "other/Chart.yaml", Typeflag: tar.TypeReg}, files["Chart.yaml"])
		case 5:
			write(&tar.Header{Name: "pax_global_header", Typeflag: tar.TypeXGlobalHeader, PAXRecords: map[string]string{"comment": "x"}}, nil)
		case 6:
			write(&tar.Header{Name: name + "/" + strings.Repeat("long/", 60) + "x.yaml", Typeflag: tar.TypeReg}, []byte("a: b"))
		case 7:
			write(&tar.Header{Name: name + "\\templates\\win.yaml", Typeflag: tar.TypeReg}, []byte("a: b"))
		case 8:
			write(&tar.Header{Name: "Chart.yaml", Typeflag: tar.TypeReg}, files["Chart.yaml"])
		case 9:
			write(&tar.Header{Name: name + "/./templates/../Chart.yaml", Typeflag: tar.TypeReg}, files["Chart.yaml"])
		}
	}
	for _, n := range names {
		write(&tar.Header{Name: name + "/" + n, Typeflag: tar.TypeReg}, files[n])
		if tarMut && rng.Intn(12) == 0 {
			write(&tar.Header{Name: name + "/" + n, Typeflag: tar.TypeReg}, files[n]) // duplicate entry
		}
	}
	tw.Close()
	tb := raw.Bytes()
	if tarMut {
		switch rng.Intn(8) {
		case 0:
			tb, _ = havoc(rng, tb)
		case 1:
			tb = tb[:rng.Intn(len(tb)+1)]
		case 2:
			return clip(tb) // not gzipped at all
		}
	}
	var gz bytes.Buffer
	zw, _ := gzip.NewWriterLevel(&gz, gzip.BestSpeed)
	if tarMut && rng.Intn(6) == 0 {
		zw.Header.Extra = []byte("extra-field")
		zw.Header.Name = "../../name"
		zw.Header.Comment = "comment"
	}
	zw.Write(tb)
	zw.Close()
	out := gz.Bytes()
	if tarMut && rng.Intn(8) == 0 {
		out = out[:rng.Intn(len(out)+1)]
	}
	return out
}

// untar extracts the archive with the harness' own code (only to give LoadDir / lint a
// directory that is derived from the recorded input). Unsafe or odd names are skipped.
func untar(tgz []byte, dest string) (root string, files map[string][]byte, ok bool) {
	zr, err := gzip.NewReader(bytes.NewReader(tgz))
	if err != nil {
		return "", nil, false
	}
	tr := tar.NewReader(zr)
	files = map[string][]byte{}
	for i := 0; i < 500; i++ {
		h, err := tr.Next()
		if err != nil {
			break
		}
		if h.Typeflag != tar.TypeReg {
			continue
		}
		n := filepath.ToSlash(h.Name)
		if strings.HasPrefix(n, "/") || strings.Contains(n, "..") || strings.Contains(n, "\\") || strings.ContainsRune(n, 0) || len(n) > 200 || !strings.Contains(n, "/") {
			continue
		}
		b, _ := io.ReadAll(io.LimitReader(tr, 1<<20))
		parts := strings.SplitN(n, "/", 2)
		if root == "" {
			root = parts[0]
		}
		if parts[0] != root || parts[1] == "" || strings.HasSuffix(parts[1], "/") {
			continue
		}
		files[parts[1]] = b
	}
	if root == "" || len(files) == 0 {
		return "", nil, false
	}
	for n, b := range files {
		p := filepath.Join(dest, root, filepath.FromSlash(n))
		if os.MkdirAll(filepath.Dir(p), 0o755) != nil {
			continue
		}
		os.WriteFile(p, b, 0o644)
	}
	return root, files, true
}

func runChart(x *exec, rng *rand.Rand) {
	cp := getCorpus()
	seed := cp.charts[rng.Intn(len(cp.charts))]
	switch r := rng.Intn(100); {
	case r < 30:
		seed = cp.charts[len(cp.charts)-1] // the handcrafted parent chart (import-values, subchart schemas)
	case r < 38:
		seed = cp.charts[len(cp.charts)-3] // legacy chart: requirements.yaml is the only dependency source
	case r < 44:
		seed = cp.charts[len(cp.charts)-2] // legacy chart: requirements.yaml combined with Chart.yaml dependencies
	}
	files := map[string][]byte{}
	for n, b := range seed.files {
		files[n] = b
	}
	if files[userValuesFile] == nil {
		files[userValuesFile] = cp.values[rng.Intn(len(cp.values))]
	}
	files[userValuesFile] = append(append([]byte(nil), files[userValuesFile]...), []byte(fzValues)...)
	unbounded := rng.Intn(1000) == 0
	if unbounded {
		files[userValuesFile] = append(files[userValuesFile], []byte(fzValuesUnbounded)...)
	}
	var desc []string
	if rng.Intn(100) < 3 && !unbounded {
		desc = append(desc, "pristine")
	} else {
		nm := 1
		if rng.Intn(3) == 0 {
			nm = 2 + rng.Intn(2)
		}
		for i := 0; i < nm; i++ {
			desc = append(desc, mutateChartFiles(rng, files, unbounded && i == 0))
		}
	}
	tarMut := rng.Intn(100) < 7
	if tarMut {
		desc = append(desc, "tar-level")
	}
	// keep the packed input within the bound: drop the largest non-essential files if necessary
	tgz := buildTgz(rng, seed.name, files, tarMut)
	for tries := 0; len(tgz) > MaxInput && tries < 10; tries++ {
		big := ""
		for _, n := range sortedNames(files) {
			if n != "Chart.yaml" && (big == "" || len(files[n]) > len(files[big])) {
				big = n
			}
		}
		files[big] = files[big][:len(files[big])/4]
		tgz = buildTgz(rng, seed.name, files, false)
	}
	mut := strings.Join(desc, "+")
	if len(desc) == 1 && desc[0] == "pristine" {
		mut = "pristine"
	}
	x.begin(clip(tgz), mut)
	tgz = x.input

	var chA, chD, ch *chart.Chart
	x.stage("loader.LoadArchive", func() (err error) { chA, err = loader.LoadArchive(bytes.NewReader(tgz)); return })
	dir := x.mkdir("chart")
	root, onDisk, ok := untar(tgz, dir)
	var userVals map[string]any
	x.stage("ReadValues(user)", func() error {
		v, err := chartutil.ReadValues(onDisk[userValuesFile])
		userVals = v
		return err
	})
	if userVals == nil {
		userVals = map[string]any{}
	}
	if ok {
		cdir := filepath.Join(dir, root)
		x.stage("loader.LoadDir", func() (err error) { chD, err = loader.LoadDir(cdir); return })
		x.stage("lint.RunAll", func() error {
			l := lint.RunAll(cdir, env.DeepCopyMap(userVals), "ns1")
			if l.HighestSeverity >= support.ErrorSev {
				return errors.New("lint reported errors")
			}
			return nil
		})
	}
	switch {
	case chA != nil && x.lastOK("loader.LoadArchive"):
		ch = chA
	case chD != nil && x.lastOK("loader.LoadDir"):
		ch = chD
	}
	if _, legacy := onDisk["requirements.yaml"]; legacy {
		// evidence that Helm 2 style dependency files really travel through the pipeline
		x.res.Stat("chart_inputs_with_requirements.yaml", 1)
		if strings.Contains(mut, "requirements.") {
			x.res.Stat("chart_inputs_with_mutated_requirements", 1)
		}
		if ch != nil {
			x.res.Stat("chart_loaded_with_requirements.yaml", 1)
			if strings.Contains(mut, "requirements.") {
				x.res.Stat("chart_loaded_with_mutated_requirements", 1)
			}
		}
	}
	if ch == nil {
		return
	}
	var vals chartutil.Values
	var rendered map[string]string
	opts := chartutil.ReleaseOptions{Name: "rel", Namespace: "ns1", Revision: 1, IsInstall: true}
	_ = x.stage("ProcessDependencies", func() error { return chartutil.ProcessDependencies(ch, userVals) }) &&
		x.stage("CoalesceValues", func() error { _, err := chartutil.CoalesceValues(ch, userVals); return err }) &&
		x.stage("ToRenderValuesWithSchemaValidation", func() (err error) {
			vals, err = chartutil.ToRenderValuesWithSchemaValidation(ch, userVals, opts, nil, false)
			return
		}) &&
		x.stage("engine.Render", func() (err error) { rendered, err = engine.Render(ch, vals); return }) &&
		x.stage("SortManifests", func() error {
			_, _, err := releaseutil.SortManifests(rendered, nil, releaseutil.InstallOrder)
			return err
		})
}

func (x *exec) lastOK(what string) bool {
	for _, o := range x.outcome {
		if o == what+":ok" {
			return true
		}
	}
	return false
}

// ================================================================ 2. strvals

var svKeys = []string{"a", "b", "name", "a.b", "a.b.c", "list", "image.tag", "", ".", "..", "a..b", "\\", "a\\.b", "a\\,b", "a\\=b", "é", "🚀", "a b", "\x00", "nil", "null", "true", "0", "-1", "a-b_c", "A"}
var svIdx = []string{"[0]", "[1]", "[2]", "[10]", "[-1]", "[x]", "[]", "[", "]", "[0", "0]", "[65535]", "[65536]", "[65537]", "[1000000000]", "[99999999999999999999]", "[0][0]", "[1][0]", "[0].a", "[ 0 ]", "[0x10]", "[1e3]", "[+1]"}
var svVals = []string{"1", "x", "", "null", "true", "false", "0", "-0", "1.5", "1e3", "0x10", "007", "9223372036854775808", "{a,b,c}", "{}", "{", "}", "{a,{b}}", "{a\\,b}", "a\\,b", "a\\", "\\", "a=b", "a,b", "\"q\"", "'q'", "[1,2]", "{\"a\":1}", "{\"a\":", "é", "\x00", " ", "a b", "@file", "~", "{null,1}", "{a,b"}

var svBenignKeys = []string{"a", "b", "name", "b.c", "a.b.c", "list[0]", "list[1]", "list[0].name", "list[2].a.b", "image.tag", "a\\.b", "svc.ports[0].port", "x-y_z", "nested.list[1][0]"}
var svBenignVals = []string{"1", "x", "true", "null", "{a,b,c}", "a\\,b", "", "1.5", "some string", "{1,2}", "\"q\"", "é"}
var svJSONVals = []string{`{"b":1}`, `[1,2,{"c":null}]`, `"s"`, `null`, `1e3`, `{"a":{"b":[{}]}}`, `[]`, `{"a":`, `[1,`, `{"a":1}x`, `tru`}

func genStrvals(rng *rand.Rand) string {
	if r := rng.Intn(100); r < 45 {
		// mostly well-formed: the parsers must get deep into their state machines
		var pairs []string
		for i := 1 + rng.Intn(4); i > 0; i-- {
			v := pick(rng, svBenignVals)
			if r < 12 {
				v = pick(rng, svJSONVals)
			}
			pairs = append(pairs, pick(rng, svBenignKeys)+"="+v)
		}
		if r >= 12 && r < 20 {
			pairs = append(pairs, pick(rng, svKeys)+pick(rng, svIdx)+"="+pick(rng, svVals)) // one hostile element
		}
		if r < 12 {
			return pairs[0] // ParseJSON takes a single key=json
		}
		return strings.Join(pairs, ",")
	}
	if rng.Intn(25) == 0 {
		// deep nesting around the MaxNestedNameLevel limit
		n := pick(rng, []int{29, 30, 31, 32, 100, 2000})
		sep := pick(rng, []string{".", "[0]", "[0].", ".a[1]"})
		k := "a" + strings.Repeat(sep+"a", n)
		if len(k) > MaxInput/2 {
			k = k[:MaxInput/2]
		}
		return k + "=" + pick(rng, svVals)
	}
	var pairs []string
	np := 1 + rng.Intn(4)
	for i := 0; i < np; i++ {
		k := pick(rng, svKeys)
		for j := rng.Intn(4); j > 0; j-- {
			switch rng.Intn(3) {
			case 0:
				k += pick(rng, svIdx)
			case 1:
				k += "." + pick(rng, svKeys)
			default:
				k += pick(rng, svIdx) + "." + pick(rng, svKeys)
			}
		}
		eq := "="
		switch rng.Intn(20) {
		case 0:
			eq = ""
		case 1:
			eq = "=="
		}
		pairs = append(pairs, k+eq+pick(rng, svVals))
	}
	s := strings.Join(pairs, pick(rng, []string{",", ",", ",", ",,", ", ", "\n"}))
	if rng.Intn(12) == 0 {
		b, _ := havoc(rng, []byte(s))
		s = string(b)
	}
	if rng.Intn(40) == 0 {
		s += "=" + strings.Repeat(pick(rng, []string{"x", "{", "\\", ","}), pick(rng, []int{100, 5000, 60000}))
	}
	if len(s) > MaxInput {
		s = s[:MaxInput]
	}
	return s
}

func svDest(rng *rand.Rand) map[string]any {
	switch rng.Intn(8) {
	case 0:
		return map[string]any{}
	case 1:
		return map[string]any{"a": "str", "b": 1, "list": "notalist", "name": nil}
	case 2:
		return map[string]any{"a": []any{1, "x", nil}, "list": []any{map[string]any{"a": 1}, []any{1}}, "b": []any{}}
	case 3:
		return map[string]any{"a": map[string]any{"b": map[string]any{"c": "leaf"}}, "image": map[string]any{"tag": []any{"x"}}}
	case 4:
		return map[string]any{"a": nil, "b": nil, "list": nil, "image": nil}
	case 5:
		return map[string]any{"a": map[string]any{"b": []any{nil, map[string]any{}}}, "list": []any{nil, nil, nil}}
	case 6:
		return map[string]any{"a": 1.5, "b": true, "list": []any{[]any{[]any{}}}, "": map[string]any{"": 1}}
	}
	return map[string]any{"a": []any{"x"}, "name": map[string]any{}, "b": "x"}
}

func runStrvals(x *exec, rng *rand.Rand) {
	s := genStrvals(rng)
	x.begin([]byte(s), "strvals-grammar")
	dseed := rng.Int63()
	dest := func(i int64) map[string]any { return svDest(rand.New(rand.NewSource(dseed + i))) }
	reader := func(rs []rune) (any, error) {
		if len(rs)%5 == 0 {
			return nil, errors.New("reader failed")
		}
		return "file:" + string(rs), nil
	}
	x.stage("Parse", func() error { _, err := strvals.Parse(s); return err })
	x.stage("ParseString", func() error { _, err := strvals.ParseString(s); return err })
	x.stage("ParseInto", func() error { return strvals.ParseInto(s, dest(1)) })
	x.stage("ParseIntoString", func() error { return strvals.ParseIntoString(s, dest(2)) })
	x.stage("ParseJSON", func() error { return strvals.ParseJSON(s, dest(3)) })
	x.stage("ParseLiteral", func() error { _, err := strvals.ParseLiteral(s); return err })
	x.stage("ParseLiteralInto", func() error { return strvals.ParseLiteralInto(s, dest(4)) })
	x.stage("ParseFile", func() error { _, err := strvals.ParseFile(s, reader); return err })
	x.stage("ParseIntoFile", func() error { return strvals.ParseIntoFile(s, dest(5), reader) })
	x.stage("ToYAML", func() error { _, err := strvals.ToYAML(s); return err })
}

// ================================================================ 3. values

func runValues(x *exec, rng *rand.Rand) {
	cp := getCorpus()
	in, mut := mutateDoc(rng, cp.values[rng.Intn(len(cp.values))], cp.values[rng.Intn(len(cp.values))], false)
	opts := values.Options{}
	benign := func() string {
		if rng.Intn(4) == 0 {
			return genStrvals(rng)
		}
		return pick(rng, svBenignKeys) + "=" + pick(rng, svBenignVals)
	}
	for i := rng.Intn(3); i > 0; i-- {
		opts.Values = append(opts.Values, benign())
	}
	if rng.Intn(2) == 0 {
		opts.StringValues = append(opts.StringValues, benign())
	}
	if rng.Intn(2) == 0 {
		opts.JSONValues = append(opts.JSONValues, pick(rng, []string{`a={"b":1}`, `{"a":{"b":[1,null]}}`, `{"a":`, `a=[1,2`, ` {"x":null}`, `list[0]={"k":"v"}`, `{}`, `a.b=null`, `b={"c":[]}`, `image={"tag":"1"}`, genStrvals(rng)}))
	}
	if rng.Intn(2) == 0 {
		opts.LiteralValues = append(opts.LiteralValues, benign())
	}
	x.extra = fmt.Sprintf("flags: --set %q --set-string %q --set-json %q --set-literal %q", opts.Values, opts.StringValues, opts.JSONValues, opts.LiteralValues)
	x.begin(in, mut)
	var vals chartutil.Values
	if x.stage("ReadValues", func() (err error) { vals, err = chartutil.ReadValues(in); return }) {
		x.stage("Values.accessors", func() error {
			vals.YAML()
			vals.AsMap()
			vals.Encode(io.Discard)
			for _, p := range []string{"a", "a.b", "image.tag", "nested.a.b.c.d", "list", "", ".", "global", "sub.enabled", "nested.a.b.c.d.e.f"} {
				vals.Table(p)
				vals.PathValue(p)
			}
			return nil
		})
	}
	x.stage("LoadValues", func() error { _, err := loader.LoadValues(bytes.NewReader(in)); return err })
	f := filepath.Join(x.tmp, "values-in.yaml")
	os.WriteFile(f, in, 0o644)
	opts.ValueFiles = []string{f}
	if rng.Intn(3) == 0 {
		opts.ValueFiles = append(opts.ValueFiles, f)
	}
	if rng.Intn(2) == 0 {
		opts.FileValues = append(opts.FileValues, pick(rng, svKeys)+pick(rng, []string{"", "[0]", ".x"})+"="+f)
	}
	x.stage("Options.MergeValues", func() error { _, err := opts.MergeValues(getter.Providers{}); return err })
}

// ================================================================ 4. repository index

func runIndex(x *exec, rng *rand.Rand) {
	cp := getCorpus()
	seed := cp.indexes[rng.Intn(len(cp.indexes))]
	if rng.Intn(3) == 0 {
		seed = []byte(handIndex)
	}
	in, mut := mutateDoc(rng, seed, []byte(handChartYAML), rng.Intn(8) == 0)
	x.begin(in, mut)
	f := filepath.Join(x.tmp, "index.yaml")
	os.WriteFile(f, in, 0o644)
	var idx *repo.IndexFile
	if !x.stage("LoadIndexFile", func() (err error) { idx, err = repo.LoadIndexFile(f); return }) || idx == nil {
		return
	}
	x.stage("SortEntries+Get+Has+Merge", func() error {
		idx.SortEntries()
		var names []string
		for n := range idx.Entries {
			names = append(names, n)
		}
		sort.Strings(names)
		if len(names) > 8 {
			names = names[:8]
		}
		names = append(names, "no-such-chart", "")
		for _, n := range names {
			for _, v := range []string{"", "1.2.3", ">=1.0.0", "^1", "bogus", "*", "1.x || >=5", " ", "1.3.0-rc.1", ">0.0.0-0"} {
				idx.Get(n, v)
			}
			idx.Has(n, "1.2.3")
		}
		gf := filepath.Join(x.tmp, "good-index.yaml")
		if _, err := os.Stat(gf); err != nil {
			os.WriteFile(gf, []byte(handIndex), 0o644)
		}
		good, err := repo.LoadIndexFile(gf)
		if err != nil {
			return fmt.Errorf("harness: good index does not load: %v", err)
		}
		good.Merge(idx)
		good.SortEntries()
		idx.Merge(good)
		idx.SortEntries()
		return nil
	})
}

// ================================================================ 5. manifests

func genManifestInput(rng *rand.Rand) ([]byte, string) {
	cp := getCorpus()
	seed := cp.manifests[rng.Intn(len(cp.manifests))]
	if rng.Intn(3) == 0 {
		seed = []byte(handManifest)
	}
	docs := strings.Split(string(seed), "\n---")
	r := rng.Intn(100)
	switch {
	case r < 3:
		return clip(seed), "pristine"
	case r < 55:
		i := rng.Intn(len(docs))
		b, d := mutateDoc(rng, []byte(docs[i]), []byte(handManifest), false)
		docs[i] = "\n" + string(b)
		return clip([]byte(strings.Join(docs, "\n---"))), "doc:" + d
	case r < 65:
		b, d := havoc(rng, seed)
		return clip(b), d
	case r < 75:
		sepv := pick(rng, []string{"\n--- ", "\n---\t\n", "\n--- # comment", "\n----", "\n...\n---", "\n---\n---\n---", "\r\n---\r\n", "\n ---", "\n---\n# only a comment\n---"})
		return clip([]byte(strings.Join(docs, sepv))), "separators"
	case r < 82:
		n := pick(rng, []int{50, 400})
		d := docs[rng.Intn(len(docs))]
		return clip([]byte(strings.Repeat("\n---"+d, n))), "many-docs"
	case r < 92:
		ann := pick(rng, []string{
			`"helm.sh/hook": ""`, `"helm.sh/hook": ",,,"`, `"helm.sh/hook": "pre-install,bogus"`, `"helm.sh/hook": pre-delete` + "\n    " + `"helm.sh/hook-weight": "99999999999999999999"`,
			`"helm.sh/hook": post-delete` + "\n    " + `"helm.sh/hook-delete-policy": ",bogus,,hook-failed"`, `"helm.sh/hook": test-success`, `"helm.sh/hook": PRE-DELETE `, `"helm.sh/resource-policy": KEEP`, `"helm.sh/resource-policy": ""`,
			`"helm.sh/hook": pre-delete` + "\n    " + `"helm.sh/hook-output-log-policy": "x, ,hook-failed"`, `helm.sh/hook: null`, `helm.sh/hook: [pre-delete]`, `helm.sh/hook: {a: b}`, `helm.sh/hook: 5`,
		})
		kind := pick(rng, []string{"ConfigMap", "Job", "Pod", "", "Unknown", "List", "Namespace", "CustomResourceDefinition", "5", "null", "[a]"})
		return []byte(fmt.Sprintf("%s\n---\napiVersion: v1\nkind: %s\nmetadata:\n  name: fz\n  annotations:\n    %s\ndata: {a: b}\n", seed, kind, ann)), "hook-annotations"
	}
	b, d := yamlAttack(rng, seed)
	return clip(b), d
}

func runManifest(x *exec, rng *rand.Rand) {
	in, mut := genManifestInput(rng)
	x.begin(in, mut)
	s := string(in)
	x.stage("SplitManifests", func() error { releaseutil.SplitManifests(s); return nil })
	var hooks []*release.Hook
	filesMap := map[string]string{"chart/templates/a.yaml": s, "chart/templates/_partial.tpl": s, "chart/templates/empty.yaml": " \n"}
	x.stage("SortManifests(InstallOrder)", func() (err error) {
		hooks, _, err = releaseutil.SortManifests(filesMap, nil, releaseutil.InstallOrder)
		return
	})
	x.stage("SortManifests(UninstallOrder)", func() error {
		_, _, err := releaseutil.SortManifests(filesMap, nil, releaseutil.UninstallOrder)
		return err
	})
	w, _ := x.shared["world"].(*env.World)
	if w == nil {
		w = env.NewWorld("memory", "ns1")
		x.shared["world"] = w
	}
	name := fmt.Sprintf("fz%d", x.idx)
	if len(hooks) > 6 {
		hooks = hooks[:6]
	}
	rel := &release.Release{Name: name, Namespace: "ns1", Version: 1, Manifest: s, Hooks: hooks,
		Info:  &release.Info{Status: release.StatusDeployed, FirstDeployed: helmtime.Unix(1700000000, 0), LastDeployed: helmtime.Unix(1700000000, 0)},
		Chart: &chart.Chart{Metadata: &chart.Metadata{Name: "c", Version: "1.0.0", APIVersion: "v2"}}}
	keep := rng.Intn(2) == 0
	nohooks := rng.Intn(4) == 0
	x.stage("action.Uninstall", func() error {
		cfg := w.Config("un")
		if err := cfg.Releases.Create(rel); err != nil {
			return fmt.Errorf("harness: cannot store release: %v", err)
		}
		un := action.NewUninstall(cfg)
		un.KeepHistory, un.DisableHooks, un.Timeout = keep, nohooks, time.Second
		un.WaitStrategy = kube.StatusWatcherStrategy // as the CLI sets one; an empty strategy is refused by GetWaiter
		_, err := un.Run(name)
		return err
	})
}

// ================================================================ 6. storage over corrupted records

type storeWorld struct {
	kind string
	w    *env.World
	st   *storage.Storage
	good map[string]bool // "name.vN"
}

func goodRelease(name string, rev int, st release.Status) *release.Release {
	return &release.Release{Name: name, Namespace: "ns1", Version: rev, Manifest: "apiVersion: v1\nkind: ConfigMap\nmetadata:\n  name: " + name + "\ndata: {a: b}\n",
		Config: map[string]any{"a": 1, "b": map[string]any{"c": []any{1, "x", nil}}},
		Info:   &release.Info{Status: st, Description: "d", FirstDeployed: helmtime.Unix(1700000000, 0), LastDeployed: helmtime.Unix(1700000100, 0)},
		Hooks:  []*release.Hook{{Name: "h", Kind: "Job", Path: "t/h.yaml", Manifest: "kind: Job", Events: []release.HookEvent{release.HookPreInstall}, DeletePolicies: []release.HookDeletePolicy{release.HookSucceeded}}},
		Chart: &chart.Chart{Metadata: &chart.Metadata{Name: "c", Version: "1.0.0", APIVersion: "v2", Dependencies: []*chart.Dependency{{Name: "d", Version: "1.x", ImportValues: []any{"data"}}}, Maintainers: []*chart.Maintainer{{Name: "m"}}},
			Templates: []*chart.File{{Name: "templates/a.yaml", Data: []byte("a: b")}}, Values: map[string]any{"a": 0}, Files: []*chart.File{{Name: "README.md", Data: []byte("x")}},
			Lock: &chart.Lock{Digest: "sha256:0"}, Schema: []byte(`{"type":"object"}`)},
		Labels: map[string]string{"team": "a"}}
}

func newStoreWorld(kind string) (*storeWorld, error) {
	w := env.NewWorld(kind, "ns1")
	sw := &storeWorld{kind: kind, w: w, st: storage.Init(w.Driver("seed")), good: map[string]bool{}}
	for _, g := range []struct {
		n  string
		r  int
		st release.Status
	}{{"good-a", 1, release.StatusSuperseded}, {"good-a", 2, release.StatusDeployed}, {"good-b", 1, release.StatusDeployed}, {"good-c", 4, release.StatusFailed}} {
		if err := sw.st.Create(goodRelease(g.n, g.r, g.st)); err != nil {
			return nil, err
		}
		sw.good[fmt.Sprintf("%s.v%d", g.n, g.r)] = true
	}
	return sw, nil
}

func gz(b []byte) []byte {
	var buf bytes.Buffer
	w, _ := gzip.NewWriterLevel(&buf, gzip.BestSpeed)
	w.Write(b)
	w.Close()
	return buf.Bytes()
}

// corruptBody returns helm's record string (what helm's decodeRelease receives) and the level.
func corruptBody(rng *rand.Rand, name string, rev int, st release.Status) (string, string) {
	goodJSON, _ := json.Marshal(goodRelease(name, rev, st))
	b64 := base64.StdEncoding
	switch r := rng.Intn(100); {
	case r < 6:
		return "", "L0-empty"
	case r < 16:
		s := b64.EncodeToString(gz(goodJSON))
		hb, _ := havoc(rng, []byte(s))
		return string(hb), "L1-base64-havoc"
	case r < 20:
		return pick(rng, []string{"!!!!", "====", "a", "ab=", "\x00\x01", strings.Repeat("A", 4097), "H4sI", " " + b64.EncodeToString(gz(goodJSON))}), "L1-not-base64"
	case r < 30:
		g := gz(goodJSON)
		switch rng.Intn(4) {
		case 0:
			g = g[:rng.Intn(len(g))]
		case 1:
			g, _ = havoc(rng, g)
			g = append([]byte{0x1f, 0x8b, 0x08}, g...)
		case 2:
			g = []byte{0x1f, 0x8b, 0x08, 0, 0, 0, 0, 0}
		case 3:
			g[len(g)-5] ^= 0xff // CRC
		}
		return b64.EncodeToString(g), "L2-gzip-broken"
	case r < 33:
		// bounded decompression bomb: 8 MiB of zeros / of '['
		fill := pick(rng, []byte{0, '[', ' '})
		return b64.EncodeToString(gz(bytes.Repeat([]byte{fill}, 8<<20))), "L2-gzip-bomb"
	case r < 45:
		j := goodJSON
		switch rng.Intn(3) {
		case 0:
			j = j[:rng.Intn(len(j))]
		case 1:
			j, _ = havoc(rng, j)
		case 2:
			j = pick(rng, [][]byte{[]byte("null"), []byte("[]"), []byte("5"), []byte(`"str"`), []byte("{}"), []byte(""), []byte("{\"name\":"), []byte("\xff\xfe"), []byte(strings.Repeat("[", 12000))})
		}
		if rng.Intn(3) == 0 {
			return b64.EncodeToString(j), "L3-json-broken-plain"
		}
		return b64.EncodeToString(gz(j)), "L3-json-broken"
	}
	// L4: well-formed JSON whose fields have the wrong type / are null / are missing
	t := parseTree(goodJSON)
	var descs []string
	for i := 1 + rng.Intn(2); i > 0; i-- {
		var d string
		t, d = mutateTree(rng, t, nil)
		descs = append(descs, d)
	}
	j := render(t, styJSON)
	if len(j) > MaxInput/2 {
		j = goodJSON
		descs = []string{"refit"}
	}
	lvl := "L4-fields(" + opClass(strings.Join(descs, "+")) + ")"
	if rng.Intn(4) == 0 {
		return b64.EncodeToString(j), lvl
	}
	return b64.EncodeToString(gz(j)), lvl
}

// bodyDecodable: does helm's record string decode (base64, optional gzip) to a JSON object?
func bodyDecodable(body string) bool {
	b, err := base64.StdEncoding.DecodeString(body)
	if err != nil {
		return false
	}
	if len(b) > 3 && b[0] == 0x1f && b[1] == 0x8b && b[2] == 0x08 {
		zr, err := gzip.NewReader(bytes.NewReader(b))
		if err != nil {
			return false
		}
		if b, err = io.ReadAll(zr); err != nil {
			return false
		}
	}
	var v any
	if json.Unmarshal(b, &v) != nil {
		return false
	}
	_, isObj := v.(map[string]any)
	return isObj
}

type corruptRecord struct {
	Backend string `json:"backend"`
	Name    string `json:"name"`
	Rev     int    `json:"rev"`
	Status  string `json:"status"`
	Level   string `json:"level"`
	Release string `json:"release"` // the string stored under data.release (helm's encoding layer)
}

func runStorage(x *exec, rng *rand.Rand) {
	kind := pick(rng, []string{"secrets", "configmaps"})
	sw, _ := x.shared["store-"+kind].(*storeWorld)
	if sw == nil {
		var err error
		if sw, err = newStoreWorld(kind); err != nil {
			x.res.Inconclusive = "cannot set up good records: " + err.Error()
			return
		}
		x.shared["store-"+kind] = sw
	}
	place := pick(rng, []struct {
		n string
		r int
	}{{"bad", 1}, {"good-a", 3}, {"good-a", 0}, {"good-b", 2}, {"good-c", 9}, {"zz-last", 7}, {"a-first", 1}})
	st := pick(rng, []release.Status{release.StatusDeployed, release.StatusDeployed, release.StatusSuperseded, release.StatusFailed, release.StatusPendingUpgrade, release.StatusUninstalled})
	body, level := corruptBody(rng, place.n, place.r, st)
	rec := corruptRecord{Backend: kind, Name: place.n, Rev: place.r, Status: string(st), Level: level, Release: body}
	in, _ := json.Marshal(rec)
	if len(in) > MaxInput {
		// the gzip bomb is tiny once compressed; anything else that large is clipped at generation
		rec.Release = rec.Release[:MaxInput/2]
		in, _ = json.Marshal(rec)
	}
	x.begin(in, level)
	key := fmt.Sprintf("sh.helm.release.v1.%s.v%d", place.n, place.r)
	obj := map[string]any{"apiVersion": "v1", "metadata": map[string]any{"name": key, "namespace": "ns1",
		"labels": map[string]any{"name": place.n, "owner": "helm", "status": string(st), "version": fmt.Sprint(place.r), "createdAt": "1700000000"}}}
	data := map[string]any{"release": rec.Release}
	if kind == "secrets" {
		obj["kind"], obj["type"] = "Secret", "helm.sh/release.v1"
		data["release"] = base64.StdEncoding.EncodeToString([]byte(rec.Release)) // the Kubernetes layer stays well-formed
	} else {
		obj["kind"] = "ConfigMap"
	}
	switch rng.Intn(30) {
	case 0:
		data = map[string]any{}
	case 1:
		data = map[string]any{"other": data["release"]}
	}
	obj["data"] = data
	skey, err := sw.w.Sim.Put(obj)
	if err != nil {
		x.res.Inconclusive = "sim.Put: " + err.Error()
		return
	}
	defer sw.w.Sim.Remove(skey)

	stg := storage.Init(sw.w.Driver("rd"))
	// checkGood: every good record matching sel must be in the result
	checkGood := func(what string, got []*release.Release, sel func(name string, rev int) bool) {
		have := map[string]bool{}
		for _, r := range got {
			if r != nil {
				have[fmt.Sprintf("%s.v%d", r.Name, r.Version)] = true
			}
		}
		for g := range sw.good {
			var n string
			var r int
			i := strings.LastIndex(g, ".v")
			n = g[:i]
			fmt.Sscan(g[i+2:], &r)
			if sel(n, r) && !have[g] {
				x.violate("good-record-not-returned", what+" "+kind+" "+strings.SplitN(level, "(", 2)[0], "%s on %s did not return the readable record %s although only %s is corrupt (%d returned)", what, kind, g, key, len(got))
				return
			}
		}
	}
	listLike := func(what string, sel func(string, int) bool, f func() ([]*release.Release, error)) {
		var got []*release.Release
		ok := x.stage(what, func() (err error) { got, err = f(); return })
		if ok {
			checkGood(what, got, sel)
		} else if x.outcome[len(x.outcome)-1] == what+":err" {
			x.violate("list-failed-because-of-corrupt-record", what+" "+kind+" "+strings.SplitN(level, "(", 2)[0], "%s on %s returned an error although readable records exist and only %s is corrupt", what, kind, key)
		}
	}
	all := func(string, int) bool { return true }
	x.stage("Get(corrupt)", func() error { _, err := stg.Get(place.n, place.r); return err })
	x.stage("Get(good)", func() error {
		r, err := stg.Get("good-a", 2)
		if err == nil && (r == nil || r.Name != "good-a") {
			return errors.New("wrong release")
		}
		return err
	})
	listLike("List", all, func() ([]*release.Release, error) { return stg.List(func(*release.Release) bool { return true }) })
	listLike("ListDeployed", func(n string, r int) bool { return n == "good-a" && r == 2 || n == "good-b" }, stg.ListDeployed)
	listLike("Query", all, func() ([]*release.Release, error) { return stg.Query(map[string]string{"owner": "helm"}) })
	listLike("History", func(n string, r int) bool { return n == "good-a" }, func() ([]*release.Release, error) { return stg.History("good-a") })
	if place.n != "good-a" {
		listLike("History(corrupt name)", func(n string, r int) bool { return n == place.n }, func() ([]*release.Release, error) {
			rs, err := stg.History(place.n)
			if !sw.hasName(place.n) {
				return rs, nil // nothing readable under that name: any answer but a crash is fine
			}
			return rs, err
		})
	}
	x.stage("Last", func() error { _, err := stg.Last(place.n); return err })
	x.stage("Deployed", func() error { _, err := stg.Deployed(place.n); return err })
	x.stage("DeployedAll", func() error { _, err := stg.DeployedAll(place.n); return err })

	cfg := sw.w.Config("act")
	x.stage("action.List", func() error {
		l := action.NewList(cfg)
		l.All, l.StateMask = true, action.ListAll
		rs, err := l.Run()
		if err == nil && !bodyDecodable(rec.Release) {
			// action.List shows the latest revision per name. When the corrupt record is undecodable
			// (judged by the harness' own base64/gzip/JSON decoding) every name with a readable
			// record must still appear. A record that still decodes to a JSON object (L4, or a
			// havoc that happened to keep the syntax intact) may legitimately be the latest
			// revision of its name and be filtered by its status: don't-care.
			names := map[string]bool{}
			for _, r := range rs {
				if r != nil {
					names[r.Name] = true
				}
			}
			for _, n := range []string{"good-a", "good-b", "good-c"} {
				if !names[n] {
					x.violate("good-record-not-returned", "action.List "+kind+" "+strings.SplitN(level, "(", 2)[0], "action.List on %s shows no revision of %s although only %s is corrupt (%d returned)", kind, n, key, len(rs))
					break
				}
			}
		}
		return err
	})
	x.stage("action.History", func() error { _, err := action.NewHistory(cfg).Run(place.n); return err })
	x.stage("action.Status", func() error { _, err := action.NewStatus(cfg).Run(place.n); return err })
	x.stage("action.Get", func() error { _, err := action.NewGet(cfg).Run(place.n); return err })
	x.stage("action.GetValues", func() error {
		g := action.NewGetValues(cfg)
		g.AllValues = true
		_, err := g.Run(place.n)
		return err
	})
	x.stage("action.GetMetadata", func() error { _, err := action.NewGetMetadata(cfg).Run(place.n); return err })
}

func (sw *storeWorld) hasName(n string) bool {
	for g := range sw.good {
		if strings.HasPrefix(g, n+".v") {
			return true
		}
	}
	return false
}

// ================================================================ 7. provenance

type provEnv struct {
	signer  *provenance.Signatory
	pubring string
	chart   string
	prov    []byte
	err     error
}

var provOnce *provEnv

func getProvEnv() *provEnv {
	if provOnce != nil {
		return provOnce
	}
	td := filepath.Join(repoRoot(), "pkg", "provenance", "testdata")
	pe := &provEnv{pubring: filepath.Join(td, "helm-test-key.pub"), chart: filepath.Join(td, "hashtest-1.2.3.tgz")}
	pe.signer, pe.err = provenance.NewFromFiles(filepath.Join(td, "helm-test-key.secret"), pe.pubring)
	if pe.err == nil {
		pe.prov, pe.err = os.ReadFile(pe.chart + ".prov")
	}
	provOnce = pe
	return pe
}

func resign(pe *provEnv, msg []byte) ([]byte, error) {
	var out bytes.Buffer
	w, err := clearsign.Encode(&out, pe.signer.Entity.PrivateKey, &packet.Config{DefaultHash: crypto.SHA512})
	if err != nil {
		return nil, err
	}
	w.Write(msg)
	w.Close()
	return out.Bytes(), nil
}

func runProv(x *exec, rng *rand.Rand) {
	pe := getProvEnv()
	if pe.err != nil {
		x.res.Inconclusive = "provenance testdata unusable: " + pe.err.Error()
		return
	}
	block, _ := clearsign.Decode(pe.prov)
	if block == nil {
		x.res.Inconclusive = "seed .prov has no clearsign block"
		return
	}
	sigFile := filepath.Join(x.tmp, "hashtest-1.2.3.tgz.prov")
	ring := pe.pubring
	what := ""
	switch r := rng.Intn(100); {
	case r < 50:
		parts := bytes.SplitN(block.Plaintext, []byte("\n...\n"), 2)
		var desc string
		switch k := rng.Intn(10); {
		case k < 5 && len(parts) == 2:
			parts[0], desc = mutateDoc(rng, parts[0], []byte(handChartYAML), false)
			desc = "metadata:" + desc
		case k < 8 && len(parts) == 2:
			parts[1], desc = mutateDoc(rng, parts[1], nil, false)
			desc = "sums:" + desc
		case k < 9:
			parts, desc = [][]byte{block.Plaintext[:rng.Intn(len(block.Plaintext))]}, "truncate"
		default:
			parts, desc = append(parts, []byte("files: null"), []byte("\xff")), "extra-parts"
		}
		msg := bytes.Join(parts, []byte("\n...\n"))
		signed, err := resign(pe, clip(msg))
		if err != nil {
			x.res.Inconclusive = "cannot re-sign: " + err.Error()
			return
		}
		x.begin(clip(signed), desc)
		what = "Verify(re-signed)"
	case r < 80:
		b, d := havoc(rng, pe.prov)
		if rng.Intn(4) == 0 {
			cp := getCorpus()
			b, d = havoc(rng, cp.provs[rng.Intn(len(cp.provs))])
		}
		x.begin(clip(b), d)
		what = "Verify(havoc)"
	default:
		kb, _ := os.ReadFile(pe.pubring)
		b, d := havoc(rng, kb)
		x.begin(clip(b), "keyring-"+d)
		ring = filepath.Join(x.tmp, "ring.pub")
		os.WriteFile(ring, x.input, 0o644)
		os.WriteFile(sigFile, pe.prov, 0o644)
		var s *provenance.Signatory
		if x.stage("NewFromKeyring", func() (err error) {
			s, err = provenance.NewFromKeyring(ring, pick(rng, []string{"", "helm", "nobody"}))
			return
		}) && s != nil {
			x.stage("Verify(mutated keyring)", func() error { _, err := s.Verify(pe.chart, sigFile); return err })
		}
		return
	}
	os.WriteFile(sigFile, x.input, 0o644)
	var s *provenance.Signatory
	if x.stage("NewFromKeyring", func() (err error) { s, err = provenance.NewFromKeyring(ring, ""); return }) && s != nil {
		x.stage(what, func() error { _, err := s.Verify(pe.chart, sigFile); return err })
	}
}

// ================================================================ 8. ignore files and plugins

type fakeFI struct {
	name string
	dir  bool
}

func (f fakeFI) Name() string       { return f.name }
func (f fakeFI) Size() int64        { return 1 }
func (f fakeFI) Mode() os.FileMode  { return 0o644 }
func (f fakeFI) ModTime() time.Time { return time.Unix(0, 0) }
func (f fakeFI) IsDir() bool        { return f.dir }
func (f fakeFI) Sys() any           { return nil }

var ignoreLines = []string{"**", "**/", "/**", "a/**/b", "**/**", "***", "[", "[]", "[!a-z]", "[a-", "[^x]", "\\", "\\\\", "a\\", "!", "!!x", "!", "! x", "/", "//", "a//b", "*/", "*", "?", "*.txt", "!*.txt", "dir/", "/dir/", "dir//", "#", "# c", "\\#x", " ", "\t", "a b", "é*", "\x00", "{a,b}", "a{", strings.Repeat("*", 300), strings.Repeat("a/", 300), strings.Repeat("[a-z]", 100), "templates/.?*", ".", "..", "../x", "./x", "a/./b", "foo?bar", "*\\*", "[\\]]", "[a-\\]", "[]a]", "[z-a]"}

func runIgnore(x *exec, rng *rand.Rand) {
	cp := getCorpus()
	lines := strings.Split(string(cp.ignores[rng.Intn(len(cp.ignores))]), "\n")
	n := 1 + rng.Intn(4)
	for i := 0; i < n; i++ {
		pos := rng.Intn(len(lines) + 1)
		lines = append(lines[:pos:pos], append([]string{pick(rng, ignoreLines)}, lines[pos:]...)...)
	}
	in := []byte(strings.Join(lines, pick(rng, []string{"\n", "\n", "\r\n"})))
	mut := "ignore-lines"
	switch rng.Intn(10) {
	case 0:
		in, _ = havoc(rng, in)
		mut += "+havoc"
	case 1:
		in = append([]byte("\xef\xbb\xbf"), in...)
		mut += "+bom"
	case 2:
		if n := pick(rng, []int{4096, 65535, 65536}); n < 65535 {
			in = append(in, []byte("\n"+strings.Repeat("x", n))...)
		} else {
			in = []byte(strings.Repeat("x", n)) // one token at bufio.Scanner's limit
		}
		mut += "+long-line"
	}
	x.begin(clip(in), mut)
	var rules *ignore.Rules
	if !x.stage("Parse", func() (err error) { rules, err = ignore.Parse(bytes.NewReader(x.input)); return }) || rules == nil {
		return
	}
	x.stage("Ignore", func() error {
		rules.AddDefaults()
		for _, p := range []string{"a.txt", "dir", "dir/", "dir/sub/deep", "templates/.dotfile", ".git/config", "", "./", ".", "a/b/c/d/e/f", "ünï/x", "[", "foo?bar", "keep.swp", "rooted", "x/rooted", " trailing", "#literal", "\\", strings.Repeat("a/", 100) + "b"} {
			rules.Ignore(p, fakeFI{filepath.Base(p), false})
			rules.Ignore(p, fakeFI{filepath.Base(p), true})
		}
		return nil
	})
}

func clipTo(b []byte, n int) []byte {
	if len(b) > n {
		return b[:n]
	}
	return b
}

func runPlugin(x *exec, rng *rand.Rand) {
	cp := getCorpus()
	seed := cp.plugins[rng.Intn(len(cp.plugins))]
	if rng.Intn(3) == 0 {
		seed = []byte(pick(rng, []string{handPlugin, handPlugin2}))
	}
	in, mut := mutateDoc(rng, seed, []byte(handPlugin2), false)
	x.begin(in, mut)
	base := x.mkdir("plugins")
	dir := filepath.Join(base, "p1")
	os.MkdirAll(dir, 0o755)
	os.WriteFile(filepath.Join(dir, plugin.PluginFileName), in, 0o644)
	if rng.Intn(3) == 0 {
		d2 := filepath.Join(base, "p2")
		os.MkdirAll(d2, 0o755)
		os.WriteFile(filepath.Join(d2, plugin.PluginFileName), pick(rng, [][]byte{in, []byte(handPlugin), []byte("name: hello\n")}), 0o644)
	}
	var p *plugin.Plugin
	loaded := x.stage("LoadDir", func() (err error) { p, err = plugin.LoadDir(dir); return })
	x.stage("LoadAll", func() error { _, err := plugin.LoadAll(base); return err })
	x.stage("FindPlugins", func() error {
		_, err := plugin.FindPlugins(base + string(os.PathListSeparator) + filepath.Join(base, "nosuch") + string(os.PathListSeparator))
		return err
	})
	if loaded && p != nil {
		x.stage("PrepareCommand", func() error {
			_, _, err := p.PrepareCommand([]string{"x", "--flag", "$HOME"})
			if p.Metadata != nil {
				for _, ev := range []string{"install", "delete", "update", "nosuch"} {
					plugin.PrepareCommands(p.Metadata.PlatformHooks[ev], true, []string{"a"})
					plugin.PrepareCommands(p.Metadata.PlatformHooks[ev], false, nil)
					_ = p.Metadata.Hooks[ev]
				}
			}
			return err
		})
	}
}

// ================================================================ 9. JSON schema

const schemaSep = "\n---8<--- values below ---\n"

func runSchema(x *exec, rng *rand.Rand) {
	cp := getCorpus()
	seed := cp.schemas[rng.Intn(len(cp.schemas))]
	if rng.Intn(3) == 0 {
		seed = []byte(pick(rng, []string{handSchema, handSchema2}))
	}
	schema, mut := mutateDoc(rng, seed, cp.schemas[rng.Intn(len(cp.schemas))], true)
	valsDoc := []byte(pick(rng, []string{handValues, handUserValues, handSubValues}))
	vmut := "pristine"
	if rng.Intn(2) == 0 {
		valsDoc, vmut = mutateDoc(rng, valsDoc, nil, false)
	}
	schema = clipTo(schema, MaxInput-len(schemaSep)-8192)
	valsDoc = clipTo(valsDoc, 8192)
	in := append(append(append([]byte(nil), schema...), []byte(schemaSep)...), valsDoc...)
	if vmut != "pristine" {
		if mut == "pristine" {
			mut = "values:" + vmut
		} else {
			mut += "+values:" + vmut
		}
	}
	x.begin(in, mut)
	var vals chartutil.Values
	if !x.stage("ReadValues", func() (err error) { vals, err = chartutil.ReadValues(valsDoc); return }) {
		vals = chartutil.Values{}
	}
	x.stage("ValidateAgainstSingleSchema", func() error { return chartutil.ValidateAgainstSingleSchema(vals, schema) })
	x.stage("ValidateAgainstSchema(chart+subcharts)", func() error {
		parent := &chart.Chart{Metadata: &chart.Metadata{Name: "parent", Version: "1.0.0", APIVersion: "v2"}, Schema: schema}
		sub := &chart.Chart{Metadata: &chart.Metadata{Name: "sub", Version: "0.1.0", APIVersion: "v2"}, Schema: []byte(handSchema2)}
		subsub := &chart.Chart{Metadata: &chart.Metadata{Name: "second", Version: "0.1.0", APIVersion: "v2"}, Schema: schema}
		sub.AddDependency(subsub)
		parent.AddDependency(sub)
		return chartutil.ValidateAgainstSchema(parent, vals)
	})
	// the way helm itself calls it: on coalesced values
	x.stage("CoalesceValues->ValidateAgainstSchema", func() error {
		parent := &chart.Chart{Metadata: &chart.Metadata{Name: "parent", Version: "1.0.0", APIVersion: "v2"}, Schema: schema, Values: map[string]any{"replicas": 1}}
		sub := &chart.Chart{Metadata: &chart.Metadata{Name: "sub", Version: "0.1.0", APIVersion: "v2"}, Schema: []byte(handSchema2), Values: map[string]any{"enabled": true}}
		subsub := &chart.Chart{Metadata: &chart.Metadata{Name: "second", Version: "0.1.0", APIVersion: "v2"}, Schema: schema}
		sub.AddDependency(subsub)
		parent.AddDependency(sub)
		cv, err := chartutil.CoalesceValues(parent, vals)
		if err != nil {
			return err
		}
		return chartutil.ValidateAgainstSchema(parent, cv)
	})
}
