package c20

import (
	"os"
	"path/filepath"
	"sort"
	"strings"
	"sync"
)

// The seed corpus: the repo's own testdata (read once per worker process, sorted, size-bounded)
// plus a few handcrafted seeds that contain every structure the property text names
// (dependencies with import-values in both spellings, subcharts with schemas, index entries,
// plugin manifests with platform commands, ...). The corpus only seeds the mutators; the case
// list itself is a pure function of (seed, tier).

type chartSeed struct {
	name  string
	files map[string][]byte // chart-relative path -> content
}

type corpusT struct {
	charts    []chartSeed
	indexes   [][]byte
	values    [][]byte
	schemas   [][]byte
	plugins   [][]byte
	ignores   [][]byte
	provs     [][]byte
	manifests [][]byte
	templates [][]byte
	keyrings  [][]byte
	files     int
}

var (
	corpusOnce sync.Once
	corpus     *corpusT
)

func repoRoot() string {
	if r := os.Getenv("C20_REPO"); r != "" {
		return r
	}
	return "/repo"
}

func readSmall(p string, max int64) []byte {
	fi, err := os.Stat(p)
	if err != nil || fi.IsDir() || fi.Size() > max {
		return nil
	}
	b, err := os.ReadFile(p)
	if err != nil {
		return nil
	}
	return b
}

func loadChartDir(dir string) (chartSeed, bool) {
	cs := chartSeed{name: filepath.Base(dir), files: map[string][]byte{}}
	total := 0
	ok := true
	filepath.Walk(dir, func(p string, fi os.FileInfo, err error) error {
		if err != nil || fi.IsDir() {
			return nil
		}
		if fi.Mode()&os.ModeSymlink != 0 {
			return nil
		}
		rel, _ := filepath.Rel(dir, p)
		b := readSmall(p, 24<<10)
		if b == nil && fi.Size() > 0 {
			ok = false
			return nil
		}
		total += len(b)
		cs.files[filepath.ToSlash(rel)] = b
		return nil
	})
	if !ok || total > 40<<10 || len(cs.files) > 40 || cs.files["Chart.yaml"] == nil {
		return cs, false
	}
	return cs, true
}

func getCorpus() *corpusT {
	corpusOnce.Do(func() {
		c := &corpusT{}
		root := repoRoot()
		var paths []string
		for _, sub := range []string{"pkg", "internal", "cmd"} {
			filepath.Walk(filepath.Join(root, sub), func(p string, fi os.FileInfo, err error) error {
				if err != nil {
					return nil
				}
				if strings.Contains(p, "/testdata") {
					paths = append(paths, p)
				}
				return nil
			})
		}
		sort.Strings(paths)
		inChart := ""
		for _, p := range paths {
			fi, err := os.Lstat(p)
			if err != nil {
				continue
			}
			if fi.IsDir() {
				if inChart != "" && strings.HasPrefix(p, inChart+"/") {
					continue
				}
				if _, err := os.Stat(filepath.Join(p, "Chart.yaml")); err == nil {
					inChart = p
					if cs, ok := loadChartDir(p); ok {
						c.charts = append(c.charts, cs)
						c.files += len(cs.files)
					}
				}
				continue
			}
			base := filepath.Base(p)
			add := func(dst *[][]byte, max int64) {
				if b := readSmall(p, max); len(b) > 0 {
					*dst = append(*dst, b)
					c.files++
				}
			}
			switch {
			case strings.Contains(base, "index") && strings.HasSuffix(base, ".yaml"):
				add(&c.indexes, 48<<10)
			case strings.HasSuffix(base, ".schema.json"):
				add(&c.schemas, 32<<10)
			case base == "plugin.yaml":
				add(&c.plugins, 16<<10)
			case base == ".helmignore":
				add(&c.ignores, 8<<10)
			case strings.HasSuffix(base, ".prov"):
				add(&c.provs, 16<<10)
			case strings.HasSuffix(base, ".pub") || strings.HasSuffix(base, ".secret") || strings.HasSuffix(base, ".gpg"):
				add(&c.keyrings, 32<<10)
			case strings.HasPrefix(base, "values") && strings.HasSuffix(base, ".yaml"), strings.HasSuffix(base, "values.yaml"):
				add(&c.values, 16<<10)
			case strings.Contains(p, "/testdata/output/") && strings.HasPrefix(base, "template") && strings.HasSuffix(base, ".txt"):
				add(&c.manifests, 32<<10)
			case strings.Contains(p, "/templates/") && (strings.HasSuffix(base, ".yaml") || strings.HasSuffix(base, ".tpl") || strings.HasSuffix(base, ".txt")):
				add(&c.templates, 8<<10)
			}
		}
		// handcrafted seeds
		// the three handcrafted charts are the LAST three entries (runChart picks them by position)
		c.charts = append(c.charts, handLegacyChart(false), handLegacyChart(true), handChart())
		c.indexes = append(c.indexes, []byte(handIndex))
		c.values = append(c.values, []byte(handValues), []byte(handUserValues))
		c.schemas = append(c.schemas, []byte(handSchema), []byte(handSchema2))
		c.plugins = append(c.plugins, []byte(handPlugin), []byte(handPlugin2))
		c.ignores = append(c.ignores, []byte(handIgnore))
		c.manifests = append(c.manifests, []byte(handManifest))
		for _, t := range handTemplates {
			c.templates = append(c.templates, []byte(t))
		}
		corpus = c
	})
	return corpus
}

const handChartYAML = `apiVersion: v2
name: parent
version: 1.2.3
appVersion: "4.5"
description: A parent chart with a subchart
type: application
kubeVersion: ">=1.20.0-0"
home: https://example.com
icon: https://example.com/icon.png
keywords: [a, b]
sources: ["https://example.com/src"]
maintainers:
  - name: someone
    email: someone@example.com
    url: https://example.com
annotations:
  category: test
dependencies:
  - name: sub
    version: ">=0.1.0"
    repository: "https://example.com/charts"
    condition: sub.enabled,global.subEnabled
    tags: [backend, web]
    import-values:
      - data
      - child: exports.nested
        parent: imported
  - name: sub
    alias: second
    version: "0.x"
    repository: "file://../sub"
    import-values: [data]
`

const handValues = `replicas: 2
image: {repository: nginx, tag: "1.25", pullPolicy: IfNotPresent}
nameOverride: ""
service: {type: ClusterIP, port: 80, annotations: {}}
list: [a, 1, true, null, {k: v}]
nested: {a: {b: {c: {d: deep}}}}
nullable: null
tags: {backend: true, web: false}
global: {subEnabled: true, region: eu}
sub:
  enabled: true
  fromParent: 1
second: {enabled: true}
imported: {x: 0}
`

const handUserValues = `replicas: 3
image: {tag: "2.0"}
sub: {enabled: true, exports: {nested: {fromUser: yes}}}
global: {region: us}
extra: [1, 2, 3]
`

const handSchema = `{
  "$schema": "http://json-schema.org/draft-07/schema#",
  "type": "object",
  "required": ["replicas"],
  "properties": {
    "replicas": {"type": "integer", "minimum": 0, "maximum": 100},
    "image": {"type": "object", "properties": {"repository": {"type": "string", "pattern": "^[a-z0-9/.-]+$"}, "tag": {"type": "string"}, "pullPolicy": {"enum": ["Always", "IfNotPresent", "Never"]}}, "additionalProperties": false},
    "service": {"$ref": "#/definitions/service"},
    "list": {"type": "array", "items": {}},
    "nested": {"type": "object", "patternProperties": {"^a": {"type": "object"}}},
    "nullable": {"type": ["null", "string"]},
    "extra": {"type": "array", "items": {"type": "integer"}, "uniqueItems": true, "minItems": 0},
    "global": {"type": "object"}
  },
  "definitions": {
    "service": {"type": "object", "properties": {"type": {"type": "string"}, "port": {"type": "integer", "format": "int32"}, "annotations": {"type": "object", "additionalProperties": {"type": "string"}}}}
  }
}
`

const handSchema2 = `{
  "$schema": "https://json-schema.org/draft/2020-12/schema",
  "$id": "https://example.com/values.schema.json",
  "type": "object",
  "allOf": [{"$ref": "#/$defs/a"}, {"if": {"properties": {"enabled": {"const": true}}}, "then": {"required": ["fromParent"]}, "else": {}}],
  "anyOf": [{"type": "object"}, {"type": "null"}],
  "oneOf": [{"minProperties": 0}],
  "not": {"type": "string"},
  "properties": {"enabled": {"type": "boolean", "default": true}, "fromParent": {"type": "number", "multipleOf": 0.5, "exclusiveMinimum": -1}, "tree": {"$ref": "#/$defs/tree"},
    "name": {"type": "string", "minLength": 1, "maxLength": 63, "format": "hostname"}, "when": {"type": "string", "format": "date-time"}, "re": {"type": "string", "format": "regex"}},
  "dependentRequired": {"a": ["b"]},
  "unevaluatedProperties": true,
  "$defs": {"a": {"type": "object"}, "tree": {"type": "object", "properties": {"children": {"type": "array", "items": {"$ref": "#/$defs/tree"}}}}}
}
`

const handSubChartYAML = `apiVersion: v2
name: sub
version: 0.1.0
description: A subchart
type: application
`

const handSubValues = `enabled: true
fromParent: 0
exports:
  data:
    exportedA: 1
    exportedMap: {k: v}
  nested:
    fromChild: true
data: {plain: 1}
global: {}
`

var handTemplates = []string{
	`apiVersion: v1
kind: ConfigMap
metadata:
  name: {{ .Release.Name }}-cm
  labels:
    {{- include "parent.labels" . | nindent 4 }}
data:
  replicas: {{ .Values.replicas | quote }}
  image: "{{ .Values.image.repository }}:{{ .Values.image.tag | default .Chart.AppVersion }}"
  list: {{ .Values.list | toJson | quote }}
  nested: {{ .Values.nested.a.b.c.d }}
  {{- range $k, $v := .Values.service }}
  svc-{{ $k }}: {{ $v | toString | quote }}
  {{- end }}
  {{- with .Values.imported }}
  imported: {{ toYaml . | nindent 4 }}
  {{- end }}
`,
	`{{- define "parent.labels" -}}
app.kubernetes.io/name: {{ .Chart.Name | trunc 63 | trimSuffix "-" }}
app.kubernetes.io/instance: {{ .Release.Name }}
app.kubernetes.io/version: {{ .Chart.AppVersion | quote }}
helm.sh/chart: {{ printf "%s-%s" .Chart.Name .Chart.Version | replace "+" "_" }}
{{- end -}}
{{- define "parent.rec" -}}{{- if gt (int .n) 0 -}}{{ include "parent.rec" (dict "n" (sub .n 1)) }}{{- end -}}x{{- end -}}
`,
	`apiVersion: batch/v1
kind: Job
metadata:
  name: {{ .Release.Name }}-hook
  annotations:
    "helm.sh/hook": pre-install,pre-delete
    "helm.sh/hook-weight": "-5"
    "helm.sh/hook-delete-policy": before-hook-creation,hook-succeeded
spec:
  template:
    spec:
      restartPolicy: Never
      containers:
        - name: x
          image: {{ required "image is required" .Values.image.repository }}
---
apiVersion: v1
kind: Service
metadata:
  name: {{ .Release.Name }}-svc
  annotations:
    helm.sh/resource-policy: keep
spec:
  type: {{ .Values.service.type }}
  ports:
    - port: {{ .Values.service.port }}
`,
	`Thank you for installing {{ .Chart.Name }}.
{{ if .Values.sub.enabled }}sub is on{{ end }}
{{ tpl "{{ .Release.Name }}" . }}
`,
}

// Legacy (Helm 2 style) dependency declaration: requirements.yaml / requirements.lock. The loader
// still unmarshals them into the chart's Metadata (for apiVersion v1 and, with a warning, v2).
const handRequirements = `dependencies:
  - name: sub
    version: ">=0.1.0"
    repository: "https://example.com/charts"
    condition: sub.enabled,global.subEnabled
    tags: [backend, web]
    import-values:
      - data
      - child: exports.nested
        parent: imported
  - name: sub
    alias: second
    version: "0.x"
    repository: "file://../sub"
    enabled: true
    import-values: [data]
`

const handRequirementsLock = `dependencies:
- name: sub
  repository: https://example.com/charts
  version: 0.1.0
digest: sha256:0000000000000000000000000000000000000000000000000000000000000000
generated: "2024-01-01T00:00:00Z"
`

const handLegacyChartYAML = `apiVersion: v1
name: legacy
version: 0.9.0
description: A Helm 2 style chart whose dependencies live in requirements.yaml
keywords: [old]
maintainers:
  - name: someone
    email: someone@example.com
`

// handLegacyChart: requirements.yaml is the ONLY dependency source (combined=false) or is combined
// with a dependencies list inside Chart.yaml (combined=true, v1 or v2 Chart.yaml).
func handLegacyChart(combined bool) chartSeed {
	base := handChart()
	cs := chartSeed{name: "legacy", files: map[string][]byte{}}
	for n, b := range base.files {
		cs.files[n] = b
	}
	delete(cs.files, "Chart.lock")
	cs.files["Chart.yaml"] = []byte(handLegacyChartYAML)
	cs.files["requirements.yaml"] = []byte(handRequirements)
	cs.files["requirements.lock"] = []byte(handRequirementsLock)
	if combined {
		cs.name = "legacy-combined"
		cs.files["Chart.yaml"] = []byte(handLegacyChartYAML + "dependencies:\n  - name: sub\n    version: 0.1.0\n    repository: https://example.com/charts\n    alias: fromchartyaml\n")
	}
	return cs
}

func handChart() chartSeed {
	return chartSeed{name: "parent", files: map[string][]byte{
		"Chart.yaml":                    []byte(handChartYAML),
		"values.yaml":                   []byte(handValues),
		"values.schema.json":            []byte(handSchema),
		"templates/cm.yaml":             []byte(handTemplates[0]),
		"templates/_helpers.tpl":        []byte(handTemplates[1]),
		"templates/hook.yaml":           []byte(handTemplates[2]),
		"templates/NOTES.txt":           []byte(handTemplates[3]),
		".helmignore":                   []byte(handIgnore),
		"Chart.lock":                    []byte("dependencies:\n- name: sub\n  repository: https://example.com/charts\n  version: 0.1.0\ndigest: sha256:0000000000000000000000000000000000000000000000000000000000000000\ngenerated: \"2024-01-01T00:00:00Z\"\n"),
		"README.md":                     []byte("# parent\n"),
		"crds/crd.yaml":                 []byte("apiVersion: apiextensions.k8s.io/v1\nkind: CustomResourceDefinition\nmetadata:\n  name: widgets.example.com\nspec:\n  group: example.com\n  names: {kind: Widget, plural: widgets}\n  scope: Namespaced\n  versions: [{name: v1, served: true, storage: true}]\n"),
		"charts/sub/Chart.yaml":         []byte(handSubChartYAML),
		"charts/sub/values.yaml":        []byte(handSubValues),
		"charts/sub/values.schema.json": []byte(handSchema2),
		"charts/sub/templates/cm.yaml":  []byte("apiVersion: v1\nkind: ConfigMap\nmetadata:\n  name: {{ .Release.Name }}-{{ .Chart.Name }}\ndata:\n  region: {{ .Values.global.region | default \"none\" }}\n  fromParent: {{ .Values.fromParent | quote }}\n"),
		userValuesFile:                  []byte(handUserValues),
	}}
}

// userValuesFile is the chart-relative file the harness reads as the USER-supplied values of a
// chart input (so that one archive is the whole witness).
const userValuesFile = "ci/fuzz-values.yaml"

const handIndex = `apiVersion: v1
generated: "2024-01-01T00:00:00Z"
serverInfo: {contextPath: /charts}
publicKeys: ["-----BEGIN PGP PUBLIC KEY BLOCK-----"]
annotations: {a: b}
entries:
  alpine:
    - name: alpine
      version: 1.2.3
      apiVersion: v2
      appVersion: "3.0"
      created: "2024-01-01T00:00:00.000000000Z"
      description: string
      digest: "sha256:1234567890abcdef"
      home: https://example.com
      keywords: [a, b]
      maintainers: [{name: m, email: m@example.com}]
      urls: ["https://example.com/charts/alpine-1.2.3.tgz", "relative/alpine-1.2.3.tgz"]
      dependencies: [{name: dep, version: 1.x, repository: "https://example.com"}]
    - name: alpine
      version: 1.3.0-rc.1
      urls: ["alpine-1.3.0-rc.1.tgz"]
    - name: alpine
      version: 0.9.0+build.1
      urls: []
      removed: true
  nginx:
    - name: nginx
      version: 10.0.0
      type: library
      urls: ["https://example.com/nginx-10.0.0.tgz"]
      checksum: deprecated
      engine: gotpl
      tillerVersion: ">2.0"
      url: deprecated
  empty: []
`

const handPlugin = `name: "hello"
version: "0.1.0"
usage: "usage"
description: |-
  description
command: "$HELM_PLUGIN_DIR/hello.sh"
ignoreFlags: true
useTunnel: true
hooks:
  install: "echo installing..."
  update: "echo updating..."
downloaders:
  - command: "echo"
    protocols: ["myprotocol", "myprotocols"]
`

const handPlugin2 = `name: "plat"
version: "1.2.3"
usage: "u"
description: "d"
platformCommand:
  - os: linux
    arch: amd64
    command: "sh"
    args: ["-c", "${HELM_PLUGIN_DIR}/x.sh", "$HOME"]
  - os: windows
    command: "pwsh"
    args: ["-c", "x.ps1"]
  - command: "echo"
platformHooks:
  install:
    - os: linux
      command: "echo"
      args: ["installing"]
  delete: [{command: "echo", args: ["bye"]}]
`

const handIgnore = `# comment
.git/
*.swp
!keep.swp
/rooted
dir/
**/deep
a/**/b
[a-z]*.txt
\#literal
foo?bar
 trailing
`

const handManifest = `---
# Source: parent/templates/svc.yaml
apiVersion: v1
kind: Service
metadata:
  name: rel-svc
  annotations:
    helm.sh/resource-policy: keep
spec:
  ports: [{port: 80}]
---
# Source: parent/templates/cm.yaml
apiVersion: v1
kind: ConfigMap
metadata:
  name: rel-cm
  namespace: ns1
data:
  k: v
---
# Source: parent/templates/hook.yaml
apiVersion: batch/v1
kind: Job
metadata:
  name: rel-hook
  annotations:
    "helm.sh/hook": pre-delete,post-delete
    "helm.sh/hook-weight": "5"
    "helm.sh/hook-delete-policy": hook-succeeded
    "helm.sh/hook-output-log-policy": hook-failed,hook-succeeded
spec:
  template: {spec: {restartPolicy: Never, containers: [{name: x, image: busybox}]}}
---
apiVersion: example.com/v1
kind: Widget
metadata: {name: rel-widget}
spec: {size: 1}
---
apiVersion: v1
kind: List
items:
  - apiVersion: v1
    kind: ConfigMap
    metadata: {name: in-list}
`
