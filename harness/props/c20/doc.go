// Package c20: monitor for property C20 (see DESIGN.md section 3).
package c20
