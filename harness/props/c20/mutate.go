package c20

import (
	"bytes"
	"encoding/json"
	"fmt"
	"math/rand"
	"sort"
	"strconv"
	"strings"
	"unicode/utf8"

	yaml3 "gopkg.in/yaml.v3"
)

// MaxInput bounds every generated input (property quantifier: bounded inputs).
const MaxInput = 64 << 10

// ---------------------------------------------------------------- tree model
//
// YAML/JSON documents are parsed (with gopkg.in/yaml.v3, which is NOT the parser helm uses) into
// an ordered tree that can represent what helm's parsers may be confronted with: duplicate keys,
// non-string keys, raw unquoted scalars (huge ints, .nan, ~, timestamps, tags, undefined aliases).

const (
	kScalar = iota
	kMap
	kList
)

type node struct {
	kind   int
	keys   []*node // kMap
	vals   []*node // kMap values / kList items
	raw    string  // kScalar
	quoted bool    // kScalar: emit as a quoted string
}

func sc(raw string) *node   { return &node{kind: kScalar, raw: raw} }
func str(s string) *node    { return &node{kind: kScalar, raw: s, quoted: true} }
func list(v ...*node) *node { return &node{kind: kList, vals: v} }
func mp(kv ...any) *node {
	n := &node{kind: kMap}
	for i := 0; i+1 < len(kv); i += 2 {
		n.keys = append(n.keys, str(kv[i].(string)))
		n.vals = append(n.vals, kv[i+1].(*node))
	}
	return n
}

func (n *node) clone() *node {
	if n == nil {
		return nil
	}
	c := &node{kind: n.kind, raw: n.raw, quoted: n.quoted}
	for _, k := range n.keys {
		c.keys = append(c.keys, k.clone())
	}
	for _, v := range n.vals {
		c.vals = append(c.vals, v.clone())
	}
	return c
}

func (n *node) get(key string) *node {
	if n == nil || n.kind != kMap {
		return nil
	}
	for i, k := range n.keys {
		if k.raw == key {
			return n.vals[i]
		}
	}
	return nil
}

func (n *node) set(key string, v *node) {
	for i, k := range n.keys {
		if k.raw == key {
			n.vals[i] = v
			return
		}
	}
	n.keys = append(n.keys, str(key))
	n.vals = append(n.vals, v)
}

func fromYAMLNode(y *yaml3.Node, budget *int) *node {
	*budget--
	if y == nil || *budget < 0 {
		return sc("null")
	}
	switch y.Kind {
	case yaml3.DocumentNode:
		if len(y.Content) == 0 {
			return sc("null")
		}
		return fromYAMLNode(y.Content[0], budget)
	case yaml3.AliasNode:
		return fromYAMLNode(y.Alias, budget)
	case yaml3.MappingNode:
		n := &node{kind: kMap}
		for i := 0; i+1 < len(y.Content); i += 2 {
			n.keys = append(n.keys, fromYAMLNode(y.Content[i], budget))
			n.vals = append(n.vals, fromYAMLNode(y.Content[i+1], budget))
		}
		return n
	case yaml3.SequenceNode:
		n := &node{kind: kList}
		for _, c := range y.Content {
			n.vals = append(n.vals, fromYAMLNode(c, budget))
		}
		return n
	}
	q := y.Style&(yaml3.DoubleQuotedStyle|yaml3.SingleQuotedStyle|yaml3.LiteralStyle|yaml3.FoldedStyle) != 0
	if y.Tag == "!!str" || y.Tag == "" {
		q = true
	}
	return &node{kind: kScalar, raw: y.Value, quoted: q}
}

// parseTree returns nil when the bytes are not parseable.
func parseTree(b []byte) (t *node) {
	defer func() {
		if recover() != nil {
			t = nil
		}
	}()
	var y yaml3.Node
	if err := yaml3.Unmarshal(b, &y); err != nil || y.Kind == 0 {
		return nil
	}
	budget := 20000
	return fromYAMLNode(&y, &budget)
}

// ---------------------------------------------------------------- emitters

func quoteYAML(s string) string {
	var sb strings.Builder
	sb.WriteByte('"')
	for i := 0; i < len(s); i++ {
		c := s[i]
		switch {
		case c == '"' || c == '\\':
			sb.WriteByte('\\')
			sb.WriteByte(c)
		case c == '\n':
			sb.WriteString(`\n`)
		case c == '\r':
			sb.WriteString(`\r`)
		case c == '\t':
			sb.WriteString(`\t`)
		case c < 0x20 || c == 0x7f:
			fmt.Fprintf(&sb, `\x%02x`, c)
		default:
			sb.WriteByte(c) // bytes >= 0x80 verbatim: invalid UTF-8 stays invalid on purpose
		}
	}
	sb.WriteByte('"')
	return sb.String()
}

func quoteJSON(s string) string {
	if utf8.ValidString(s) {
		b, _ := json.Marshal(s)
		return string(b)
	}
	return quoteYAML(s)
}

func plainOK(s string) bool {
	if s == "" || len(s) > 200 {
		return false
	}
	if strings.ContainsAny(s, "\n\r\t\"'#:{}[],&*!|>%@`\\") || s[0] == ' ' || s[0] == '-' || s[0] == '?' || s[len(s)-1] == ' ' {
		return false
	}
	return utf8.ValidString(s)
}

func (n *node) scalarText(jsonMode bool) string {
	if n.quoted {
		if jsonMode {
			return quoteJSON(n.raw)
		}
		return quoteYAML(n.raw)
	}
	if jsonMode {
		// only JSON literals may stay raw
		var v any
		if json.Unmarshal([]byte(n.raw), &v) == nil && n.raw != "" {
			return n.raw
		}
		return quoteJSON(n.raw)
	}
	if n.raw == "" {
		return `""`
	}
	return n.raw
}

// emitFlow writes JSON-like flow syntax (valid YAML; strict JSON when jsonMode).
func (n *node) emitFlow(sb *bytes.Buffer, jsonMode bool) {
	if sb.Len() > 4*MaxInput {
		return
	}
	switch n.kind {
	case kScalar:
		sb.WriteString(n.scalarText(jsonMode))
	case kMap:
		sb.WriteByte('{')
		for i, k := range n.keys {
			if i > 0 {
				sb.WriteByte(',')
			}
			if k.kind == kScalar {
				if jsonMode || k.quoted {
					sb.WriteString(quoteJSON(k.raw))
				} else {
					sb.WriteString(k.scalarText(false))
				}
			} else if jsonMode {
				sb.WriteString(`"complex-key"`)
			} else {
				sb.WriteString("? ")
				k.emitFlow(sb, false)
				sb.WriteByte(' ')
			}
			sb.WriteString(": ")
			n.vals[i].emitFlow(sb, jsonMode)
		}
		sb.WriteByte('}')
	case kList:
		sb.WriteByte('[')
		for i, v := range n.vals {
			if i > 0 {
				sb.WriteByte(',')
			}
			v.emitFlow(sb, jsonMode)
		}
		sb.WriteByte(']')
	}
}

// emitBlock writes block-style YAML; below maxBlockDepth it switches to flow style.
func (n *node) emitBlock(sb *bytes.Buffer, indent int, inList bool) {
	const maxBlockDepth = 12
	if sb.Len() > 4*MaxInput {
		return
	}
	pad := strings.Repeat("  ", indent)
	switch {
	case n.kind == kScalar:
		if n.quoted && plainOK(n.raw) && !looksSpecial(n.raw) {
			sb.WriteString(n.raw)
		} else {
			sb.WriteString(n.scalarText(false))
		}
		sb.WriteByte('\n')
	case indent > maxBlockDepth || len(n.vals) == 0:
		n.emitFlow(sb, false)
		sb.WriteByte('\n')
	case n.kind == kMap:
		for i, k := range n.keys {
			if i > 0 || !inList {
				sb.WriteString(pad)
			}
			if k.kind == kScalar {
				if k.quoted && plainOK(k.raw) && !looksSpecial(k.raw) {
					sb.WriteString(k.raw)
				} else {
					sb.WriteString(k.scalarText(false))
				}
			} else {
				sb.WriteString("? ")
				k.emitFlow(sb, false)
				sb.WriteString("\n" + pad)
			}
			sb.WriteByte(':')
			v := n.vals[i]
			if v.kind == kScalar || len(v.vals) == 0 || indent+1 > maxBlockDepth {
				sb.WriteByte(' ')
				v.emitBlock(sb, indent+1, false)
			} else {
				sb.WriteByte('\n')
				v.emitBlock(sb, indent+1, false)
			}
		}
	case n.kind == kList:
		for i, v := range n.vals {
			if i > 0 || !inList {
				sb.WriteString(pad)
			}
			sb.WriteString("- ")
			if v.kind == kList && len(v.vals) > 0 {
				v.emitFlow(sb, false)
				sb.WriteByte('\n')
			} else {
				v.emitBlock(sb, indent+1, true)
			}
		}
	}
}

// looksSpecial: a string that would change type if written plain.
func looksSpecial(s string) bool {
	switch strings.ToLower(s) {
	case "null", "~", "true", "false", "yes", "no", "on", "off", "y", "n", ".nan", ".inf", "-.inf", "<<":
		return true
	}
	if _, err := strconv.ParseFloat(s, 64); err == nil {
		return true
	}
	if _, err := strconv.ParseInt(s, 0, 64); err == nil {
		return true
	}
	return len(s) > 0 && (s[0] >= '0' && s[0] <= '9' || s[0] == '.' || s[0] == '+')
}

type style int

const (
	styBlock style = iota
	styFlow
	styJSON
)

func render(n *node, st style) []byte {
	var sb bytes.Buffer
	switch st {
	case styBlock:
		n.emitBlock(&sb, 0, false)
	case styFlow:
		n.emitFlow(&sb, false)
		sb.WriteByte('\n')
	case styJSON:
		n.emitFlow(&sb, true)
	}
	return sb.Bytes()
}

// ---------------------------------------------------------------- tree mutators

type slot struct {
	parent *node
	idx    int
	key    string // key under which the node hangs ("" for list items)
	depth  int
}

func walk(n *node, key string, depth int, out *[]slot) {
	if n.kind == kScalar || len(*out) > 4000 {
		return
	}
	for i, v := range n.vals {
		k := key // list items inherit the key of their list: items of dependencies / maintainers / entries are hot too
		if n.kind == kMap {
			k = ""
			if n.keys[i].kind == kScalar {
				k = n.keys[i].raw
			}
		}
		*out = append(*out, slot{n, i, k, depth + 1})
		walk(v, k, depth+1, out)
	}
}

// hotKeys are the field names the property text and helm's struct decoders care about; nodes
// under these keys are chosen with higher probability.
var hotKeys = map[string]bool{
	"dependencies": true, "maintainers": true, "import-values": true, "child": true, "parent": true, "entries": true, "urls": true,
	"annotations": true, "keywords": true, "sources": true, "tags": true, "condition": true, "alias": true, "version": true, "name": true,
	"apiVersion": true, "type": true, "kubeVersion": true, "metadata": true, "hooks": true, "platformCommand": true, "platformHooks": true,
	"command": true, "args": true, "downloaders": true, "protocols": true, "ignoreFlags": true, "exports": true, "global": true,
	"properties": true, "required": true, "items": true, "$ref": true, "enum": true, "pattern": true, "info": true, "chart": true,
	"config": true, "manifest": true, "templates": true, "files": true, "values": true, "lock": true, "status": true, "last_run": true,
	"events": true, "created": true, "generated": true, "digest": true, "enabled": true, "repository": true, "kind": true,
}

var hotKeyList = func() []string {
	var ks []string
	for k := range hotKeys {
		ks = append(ks, k)
	}
	sort.Strings(ks)
	return ks
}()

func pickSlot(rng *rand.Rand, root *node) (slot, bool) {
	var sl []slot
	walk(root, "", 0, &sl)
	if len(sl) == 0 {
		return slot{}, false
	}
	if rng.Intn(100) < 55 {
		var hot []slot
		for _, s := range sl {
			if hotKeys[s.key] {
				hot = append(hot, s)
			}
		}
		if len(hot) > 0 {
			return hot[rng.Intn(len(hot))], true
		}
	}
	return sl[rng.Intn(len(sl))], true
}

var weirdScalars = []*node{
	sc("null"), sc("~"), sc(""), str(""), sc("true"), sc("false"), sc("yes"), sc("0"), sc("-1"), sc("1"), sc("1.5"), sc("1e999"), sc("-1e999"), sc(".nan"), sc(".inf"), sc("-.inf"),
	sc("9223372036854775807"), sc("9223372036854775808"), sc("-9223372036854775809"), sc("123456789012345678901234567890123456789"), sc("0x7fffffffffffffffff"), sc("0o777"), sc("1_000"),
	sc("2001-12-14t21:59:43.10-05:00"), sc("2001-12-14"), sc("0001-01-01T00:00:00Z"), sc("99999-01-01T00:00:00Z"), str("NaN"), str("Infinity"), str("1e400"), str("\x00"), str("a\x00b"),
	str("\xff\xfe\xfd"), str("\xc3\x28"), str("\xed\xa0\x80"), str("日本語"), str("🚀"), str("‮"), str("{{ .Values.x }}"), str("{{"), str("<<"), sc("!!binary aGk="), sc("!!binary %%%"), sc("!!float x"), sc("!!int 1.5"), sc("!!str 5"), sc("!!map x"), sc("!!seq x"),
	sc("*undefined"), sc("&a x"), str("../../etc/passwd"), str("/dev/null"), str("file:///nonexistent"), str("http://127.0.0.1:1/x"), str("oci://x/y"), str("a/b"), str(".."), str("."), str("-"), str(" "), str("a b"), str("A"), str("a.b.c"), str("a,b"),
	str("1.2.3"), str("v1.2.3"), str("1.2.3-"), str("1.2"), str("1"), str("1.2.3.4"), str("^1.x"), str(">=1.0.0 <2.0.0 || 3.x"), str("*"), str("1.0.0+build"), str("01.2.3"), str("1.2.3-alpha..1"), str(">= "), str("~> 1"),
	str("application"), str("library"), str("v1"), str("v2"), str("v3"), str("pre-install,post-install"), str("hook-succeeded"), str("-5"), str("5000000000"),
}

func longString(rng *rand.Rand) *node {
	n := []int{256, 1024, 4096, 20000}[rng.Intn(4)]
	unit := []string{"a", "ab ", "é", "\n", "{{", "9", ".", "/", "x,", "%s"}[rng.Intn(10)]
	return str(strings.Repeat(unit, n/len(unit)))
}

func wrongType(rng *rand.Rand, old *node) *node {
	switch rng.Intn(12) {
	case 0:
		return list()
	case 1:
		return mp()
	case 2:
		return list(sc("null"))
	case 3:
		return list(sc("null"), old.clone(), sc("null"))
	case 4:
		return mp("", sc("null"))
	case 5:
		return list(old.clone())
	case 6:
		return mp("key", old.clone())
	case 7:
		return list(list(list(old.clone())))
	case 8:
		return mp("child", sc("1"), "parent", sc("null"))
	case 9:
		return list(mp("name", sc("null")), sc("5"), str("x"))
	case 10:
		return longString(rng)
	}
	return weirdScalars[rng.Intn(len(weirdScalars))].clone()
}

func deepen(rng *rand.Rand, inner *node, depth int) *node {
	cur := inner
	mode := rng.Intn(3)
	for i := 0; i < depth; i++ {
		switch {
		case mode == 0 || mode == 2 && i%2 == 0:
			cur = list(cur)
		default:
			cur = mp("a", cur)
		}
	}
	return cur
}

// mutateTree applies one random structural mutation in place (root may be replaced) and returns
// the new root and the name of the mutation.
func mutateTree(rng *rand.Rand, root *node, donor *node) (*node, string) {
	s, ok := pickSlot(rng, root)
	if !ok {
		return wrongType(rng, root), "root-replace"
	}
	cur := s.parent.vals[s.idx]
	switch op := rng.Intn(20); op {
	case 0, 1:
		s.parent.vals[s.idx] = sc("null")
		return root, "null"
	case 2, 3, 4:
		s.parent.vals[s.idx] = wrongType(rng, cur)
		return root, "wrong-type"
	case 5:
		s.parent.vals[s.idx] = weirdScalars[rng.Intn(len(weirdScalars))].clone()
		return root, "weird-scalar"
	case 6:
		p := s.parent
		p.vals = append(p.vals[:s.idx:s.idx], p.vals[s.idx+1:]...)
		if p.kind == kMap {
			p.keys = append(p.keys[:s.idx:s.idx], p.keys[s.idx+1:]...)
		}
		return root, "delete"
	case 7:
		p := s.parent
		n := []int{1, 2, 50}[rng.Intn(3)]
		for i := 0; i < n; i++ {
			p.vals = append(p.vals, cur.clone())
			if p.kind == kMap {
				k := p.keys[s.idx].clone()
				if rng.Intn(2) == 0 {
					k.raw += fmt.Sprint(i) // else: a true duplicate key
				}
				p.keys = append(p.keys, k)
			}
		}
		return root, "duplicate"
	case 8:
		// null entries inside a list / null values in a map
		tgt := cur
		if tgt.kind == kScalar {
			tgt = s.parent
		}
		pos := 0
		if len(tgt.vals) > 0 {
			pos = rng.Intn(len(tgt.vals) + 1)
		}
		tgt.vals = append(tgt.vals[:pos:pos], append([]*node{sc("null")}, tgt.vals[pos:]...)...)
		if tgt.kind == kMap {
			k := fmt.Sprintf("nullkey%d", rng.Intn(3))
			if rng.Intn(3) > 0 {
				k = hotKeyList[rng.Intn(len(hotKeyList))] // a field name the strict decoders know
			}
			tgt.keys = append(tgt.keys[:pos:pos], append([]*node{str(k)}, tgt.keys[pos:]...)...)
		}
		return root, "null-entry"
	case 9:
		d := []int{3, 40, 300, 3000, 9990, 10050, 20000}[rng.Intn(7)]
		s.parent.vals[s.idx] = deepen(rng, cur, d)
		return root, fmt.Sprintf("deepen-%d", d)
	case 10:
		tgt := cur
		if tgt.kind != kList || len(tgt.vals) == 0 {
			tgt = list(cur)
			s.parent.vals[s.idx] = tgt
		}
		n := []int{100, 2000, 20000}[rng.Intn(3)]
		el := tgt.vals[rng.Intn(len(tgt.vals))]
		if n > 2000 {
			el = sc("null")
			if rng.Intn(2) == 0 {
				el = sc("1")
			}
		}
		for i := 0; i < n; i++ {
			tgt.vals = append(tgt.vals, el) // shared pointer is fine: emit only reads
		}
		return root, fmt.Sprintf("lengthen-%d", n)
	case 11:
		if len(s.parent.vals) > 1 {
			j := rng.Intn(len(s.parent.vals))
			s.parent.vals[s.idx] = s.parent.vals[j].clone()
			return root, "sibling-swap"
		}
		s.parent.vals[s.idx] = wrongType(rng, cur)
		return root, "wrong-type"
	case 12:
		if donor != nil {
			if ds, ok := pickSlot(rng, donor); ok {
				s.parent.vals[s.idx] = ds.parent.vals[ds.idx].clone()
				return root, "splice"
			}
		}
		s.parent.vals[s.idx] = wrongType(rng, cur)
		return root, "wrong-type"
	case 13:
		if s.parent.kind == kMap {
			ks := []*node{str(""), str("<<"), str("global"), str("child"), str("parent"), str("import-values"), str("exports"), str("."), str("a.b"), str("tags"), sc("null"), sc("1"), sc("true"), sc("~"), list(sc("a")), str(strings.Repeat("k", 3000)), str("\x00"), str("name"), str("version"), str("dependencies"), str("entries")}
			s.parent.keys[s.idx] = ks[rng.Intn(len(ks))].clone()
			return root, "key-rename"
		}
		s.parent.vals[s.idx] = sc("null")
		return root, "null"
	case 14:
		if cur.kind == kScalar {
			switch rng.Intn(4) {
			case 0:
				cur.raw += cur.raw
			case 1:
				cur.quoted = !cur.quoted
			case 2:
				if len(cur.raw) > 0 {
					cur.raw = cur.raw[:rng.Intn(len(cur.raw))]
				}
			case 3:
				cur.raw = strings.ToUpper(cur.raw) + "-"
			}
			return root, "scalar-tweak"
		}
		s.parent.vals[s.idx] = longString(rng)
		return root, "long-string"
	case 15:
		// a map/list becomes its own string rendering, a scalar becomes a one-key map
		if cur.kind == kScalar {
			s.parent.vals[s.idx] = mp(cur.raw, sc("null"))
		} else {
			s.parent.vals[s.idx] = str(string(render(cur, styFlow)))
		}
		return root, "stringify"
	case 16:
		// wrap every element of a list / every value of a map
		for i := range cur.vals {
			cur.vals[i] = wrongType(rng, cur.vals[i])
		}
		if cur.kind == kScalar {
			s.parent.vals[s.idx] = wrongType(rng, cur)
		}
		return root, "children-wrong-type"
	case 17:
		// the targeted shapes named in the property text
		shapes := []*node{
			list(sc("null")),
			list(mp("child", sc("1"), "parent", sc("2"))),
			list(mp("child", list(str("a")), "parent", mp())),
			list(mp("child", str("a"))),
			list(mp("parent", str("a"))),
			list(mp()),
			list(sc("1"), sc("true"), sc("null"), list()),
			list(mp("child", sc("null"), "parent", sc("null"))),
			mp("x", list(sc("null"), sc("null"))),
			list(mp("name", str("sub"), "import-values", list(mp("child", sc("5"), "parent", str("p"))))),
		}
		s.parent.vals[s.idx] = shapes[rng.Intn(len(shapes))].clone()
		return root, "targeted-shape"
	case 18:
		return wrongType(rng, root), "root-replace"
	}
	s.parent.vals[s.idx] = longString(rng)
	return root, "long-string"
}

// ---------------------------------------------------------------- text-level mutators

func havoc(rng *rand.Rand, b []byte) ([]byte, string) {
	b = append([]byte(nil), b...)
	n := 1 + rng.Intn(4)
	if rng.Intn(4) == 0 {
		n = 8 + rng.Intn(24)
	}
	magic := [][]byte{{0}, {0xff}, {0xfe, 0xff}, {0xc3, 0x28}, []byte("\n---\n"), []byte("\n...\n"), []byte("{{"), []byte("}}"), []byte(": "), []byte("- "), []byte("\t"), []byte("\r\n"), []byte("&a "), []byte("*a"), []byte("<<: "), []byte("!!"), []byte("\xef\xbb\xbf"), []byte("[["), []byte("]"), []byte("{"), []byte("\""), []byte("'"), []byte("#"), []byte("|\n"), []byte(">-\n")}
	for i := 0; i < n; i++ {
		if len(b) == 0 {
			b = append(b, magic[rng.Intn(len(magic))]...)
			continue
		}
		p := rng.Intn(len(b))
		switch rng.Intn(8) {
		case 0:
			b[p] ^= 1 << uint(rng.Intn(8))
		case 1:
			b[p] = byte(rng.Intn(256))
		case 2:
			m := magic[rng.Intn(len(magic))]
			b = append(b[:p:p], append(append([]byte(nil), m...), b[p:]...)...)
		case 3:
			q := p + rng.Intn(len(b)-p)
			if q-p > 64 {
				q = p + 64
			}
			b = append(b[:p:p], b[q:]...)
		case 4:
			q := p + rng.Intn(len(b)-p)
			if q-p > 512 {
				q = p + 512
			}
			chunk := append([]byte(nil), b[p:q]...)
			reps := 1 + rng.Intn(3)
			for r := 0; r < reps; r++ {
				b = append(b[:q:q], append(append([]byte(nil), chunk...), b[q:]...)...)
			}
		case 5:
			b = b[:p]
		case 6:
			q := rng.Intn(len(b))
			b[p], b[q] = b[q], b[p]
		case 7:
			// replace a digit run by a huge number
			if b[p] >= '0' && b[p] <= '9' {
				b = append(b[:p:p], append([]byte("99999999999999999999"), b[p+1:]...)...)
			} else {
				b[p] = "\n :-{[\"'#"[rng.Intn(9)]
			}
		}
	}
	return b, "havoc"
}

// yamlAttack prepends/appends YAML-level constructs that a tree cannot express.
func yamlAttack(rng *rand.Rand, b []byte) ([]byte, string) {
	switch rng.Intn(10) {
	case 0:
		return append([]byte("\xef\xbb\xbf"), b...), "bom"
	case 1:
		return bytes.ReplaceAll(b, []byte("\n"), []byte("\r\n")), "crlf"
	case 2:
		return append(append([]byte("---\n"), b...), []byte("\n---\n---\nx: [1\n...\n")...), "multi-doc"
	case 3:
		// billion-laughs shape, bounded: width^levels <= ~80k nodes
		levels, width := 2+rng.Intn(6), 2+rng.Intn(4)
		var sb strings.Builder
		sb.WriteString("lol0: &l0 [lol,lol]\n")
		for i := 1; i <= levels; i++ {
			fmt.Fprintf(&sb, "lol%d: &l%d [", i, i)
			for j := 0; j < width; j++ {
				if j > 0 {
					sb.WriteByte(',')
				}
				fmt.Fprintf(&sb, "*l%d", i-1)
			}
			sb.WriteString("]\n")
		}
		return append([]byte(sb.String()), b...), "billion-laughs"
	case 4:
		return append([]byte("base: &base {name: merged, version: 9.9.9, dependencies: [null], entries: {x: [null]}}\n<<: *base\n"), b...), "merge-key"
	case 5:
		return append(b, []byte("\nselfref: &s [*s]\n")...), "self-alias"
	case 6:
		return bytes.ReplaceAll(b, []byte("  "), []byte("\t")), "tabs"
	case 7:
		if len(b) > 2 {
			return b[:rng.Intn(len(b))], "truncate"
		}
		return b, "truncate"
	case 8:
		return append(b, []byte("\n? [complex, key]\n: value\n? {a: b}\n: 1\n")...), "complex-keys"
	}
	return append(append([]byte("%YAML 1.1\n%TAG ! tag:example.com,2000:\n--- !shape\n"), b...), '\n'), "directives"
}

func clip(b []byte) []byte {
	if len(b) > MaxInput {
		return b[:MaxInput]
	}
	return b
}

// mutateDoc produces a mutant of a YAML/JSON document: usually 1-3 tree mutations, sometimes a
// text-level attack or byte havoc on top. jsonOnly forces strict JSON output of the tree.
func mutateDoc(rng *rand.Rand, seed []byte, donor []byte, jsonOnly bool) ([]byte, string) {
	r := rng.Intn(100)
	if r < 3 {
		return clip(seed), "pristine"
	}
	t := parseTree(seed)
	if t == nil || r < 15 {
		b, d := havoc(rng, seed)
		return clip(b), d
	}
	var dn *node
	if donor != nil && rng.Intn(4) == 0 {
		dn = parseTree(donor)
	}
	var desc []string
	nm := 1
	if rng.Intn(3) == 0 {
		nm = 2 + rng.Intn(2)
	}
	for i := 0; i < nm; i++ {
		var d string
		t, d = mutateTree(rng, t, dn)
		desc = append(desc, d)
	}
	st := style(rng.Intn(3))
	if jsonOnly && rng.Intn(10) != 0 {
		st = styJSON
	}
	out := render(t, st)
	if len(out) > MaxInput {
		// the structural blow-up does not fit the input bound: fall back to a smaller mutant
		t2 := parseTree(seed)
		t2, d := mutateTree(rng, t2, nil)
		out = render(t2, styFlow)
		desc = []string{d + "(refit)"}
	}
	if !jsonOnly && rng.Intn(100) < 12 {
		var d string
		out, d = yamlAttack(rng, out)
		desc = append(desc, d)
	}
	if rng.Intn(100) < 8 {
		var d string
		out, d = havoc(rng, out)
		desc = append(desc, d)
	}
	return clip(out), strings.Join(desc, "+")
}

// opClass reduces a mutation description to its kind names (for shape keys).
func opClass(desc string) string {
	parts := strings.Split(desc, "+")
	for i, p := range parts {
		if j := strings.IndexAny(p, "-("); j > 0 && (strings.HasPrefix(p, "deepen") || strings.HasPrefix(p, "lengthen") || strings.Contains(p, "(")) {
			parts[i] = p[:j]
		}
	}
	return strings.Join(parts, "+")
}

func isBinary(b []byte) bool {
	if !utf8.Valid(b) {
		return true
	}
	for _, c := range b {
		if c == 0 {
			return true
		}
	}
	return false
}
