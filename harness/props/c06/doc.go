// Package c06: monitor for property C06 (see DESIGN.md section 3).
package c06
