package c06

// Shaped histories.
//
// The property quantifies over "empty and populated histories". The five named ledger states of
// c06.go are the histories a sequence of undisturbed operations leaves behind; they all have at
// most one deployed revision and only three kinds of latest revision. A populated history can
// look different: a crash between two status updates, or two helm processes working on the same
// release, leave records such as a pending-* or uninstalling latest revision, or several
// revisions marked deployed (pkg/storage/storage.go:Deployed says so itself: "If executed
// concurrently, Helm's database gets corrupted and multiple releases are DEPLOYED"). Every
// action reads the history BEFORE its dry-run bail-out (Last, Deployed, History, Get) and what it
// reads decides which lookups and which branches run - so the history shape is an input
// dimension of "a dry run writes nothing", exactly like the flags are.
//
// A shaped case starts from a history of three revisions made by real operations (install v0,
// upgrade v1, upgrade v0: the cluster objects, manifests and hooks are real), whose status column
// is then rewritten through the world's own storage driver to a given vector. Shape class =
// (status of the latest revision: one of the nine release statuses) x (number of older revisions
// marked deployed: 0, 1, 2); the older revisions that are not deployed get superseded / failed /
// uninstalled at random.
//
//	quick     upgrade: every class (27); install, rollback, uninstall: every latest status once,
//	          the deployed count rotating with the seed (9 each); one or two flag rows per case
//	thorough  every kind x every latest status x every vector of the older revisions over
//	          {deployed, superseded, failed, uninstalled} (9 x 16), three flag rows per case
//
// The drivers rotate over the cases. The oracle is the one of c06.go, unchanged (no mutation, no
// storage write, snapshot and raw ledger equal before/after); so is the positive control (the
// same operation with dry-run off on an identically shaped world).

import (
	"fmt"
	"math/rand"
	"strings"

	release "helm.sh/helm/v4/pkg/release/v1"
	"helm.sh/helm/v4/pkg/storage"
	"helm.sh/helm/v4/verifh/core"
	"helm.sh/helm/v4/verifh/env"
)

const shapedState = "shaped"

// the nine statuses a release record can carry (pkg/release/v1/status.go)
var allStatuses = []string{"deployed", "failed", "superseded", "uninstalled", "uninstalling",
	"pending-install", "pending-upgrade", "pending-rollback", "unknown"}

// what an older revision that is not deployed may be
var olderFill = []string{"superseded", "failed", "uninstalled"}

// op kinds that read the release history (template with ClientOnly swaps in a private store)
var shapedKinds = []string{"upgrade", "install", "rollback", "uninstall"}

const shapedOlder = 2 // revisions below the latest one

// olderVector returns a status vector for the older revisions with exactly nDep deployed ones.
func olderVector(rng *rand.Rand, nDep int) []string {
	v := make([]string, shapedOlder)
	for i := range v {
		v[i] = olderFill[rng.Intn(len(olderFill))]
	}
	for _, p := range rng.Perm(shapedOlder)[:nDep] {
		v[p] = "deployed"
	}
	return v
}

func flagBit(kind, name string) uint32 {
	for i, n := range flagsOf[kind] {
		if n == name {
			return 1 << uint(i)
		}
	}
	return 0
}

// shapedRows: the flag rows of one shaped case.
func shapedRows(rng *rand.Rand, kind string, tier string) []uint32 {
	all := uint32(1)<<uint(len(flagsOf[kind])) - 1
	var rows []uint32
	switch {
	case tier == "thorough":
		rows = []uint32{0, rng.Uint32() & all, rng.Uint32() & all}
	case kind == "upgrade":
		rows = []uint32{rng.Uint32() & all}
	default:
		rows = []uint32{rng.Uint32() & all, rng.Uint32() & all}
	}
	if kind == "install" {
		// without Replace an install on a populated history stops at the name check; the first
		// row always takes the path that reads (and, outside dry-run, rewrites) the history
		rows[0] |= flagBit(kind, "replace")
	}
	return rows
}

func genShapedCases(seed int64, tier string) []core.Case {
	rng := rand.New(rand.NewSource(seed*7919 + 60606))
	var out []core.Case
	n := 0
	add := func(kind string, shape []string) {
		drv := drivers[(n+int(seed%3)+3)%len(drivers)]
		n++
		out = append(out, core.Case{
			ID: fmt.Sprintf("%s-%s-shaped-%s-%d", kind, drv, strings.Join(shape, "."), n),
			Data: core.J(caseData{Kind: kind, Driver: drv, State: shapedState, Shape: shape, CSeed: rng.Int63(),
				Collide: rng.Intn(2) == 0, Combos: shapedRows(rng, kind, tier)}),
		})
	}
	for ki, kind := range shapedKinds {
		for li, last := range allStatuses {
			switch {
			case tier == "thorough":
				fill := append([]string{"deployed"}, olderFill...)
				for m := 0; m < len(fill)*len(fill); m++ {
					add(kind, []string{fill[m%len(fill)], fill[m/len(fill)], last})
				}
			case kind == "upgrade":
				for nDep := 0; nDep <= shapedOlder; nDep++ {
					add(kind, append(olderVector(rng, nDep), last))
				}
			default:
				nDep := (li + ki + int(seed%3) + 3) % (shapedOlder + 1)
				add(kind, append(olderVector(rng, nDep), last))
			}
		}
	}
	return out
}

// shapeHistory rewrites the status column of relName's history (oldest first) through the world's
// own storage driver. The requests carry the agent tag "shape" and precede every window.
func shapeHistory(w *env.World, shape []string) {
	st := storage.Init(w.Driver("shape"))
	for i, s := range shape {
		r, err := st.Get(relName, i+1)
		if err != nil {
			panic(fmt.Sprintf("shaped history: revision %d of %d cannot be read: %v", i+1, len(shape), err))
		}
		if string(r.Info.Status) == s {
			continue
		}
		r.Info.Status = release.Status(s)
		if err := st.Update(r); err != nil {
			panic(fmt.Sprintf("shaped history: revision %d cannot be rewritten: %v", i+1, err))
		}
	}
}

// shapeClass summarises a status vector: latest status, number of deployed revisions below it.
func shapeClass(shape []string) (last string, olderDeployed int) {
	for _, s := range shape[:len(shape)-1] {
		if s == "deployed" {
			olderDeployed++
		}
	}
	return shape[len(shape)-1], olderDeployed
}

func ledgerStatuses(recs []env.Rec) []string {
	var out []string
	for _, r := range recs {
		out = append(out, r.Status)
	}
	return out
}
