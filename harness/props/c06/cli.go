package c06

// CLI route: the real cobra commands of helm.sh/helm/v4/pkg/cmd (`helm template`, and as a
// cross-check `helm install|upgrade|rollback|uninstall --dry-run...`) run against the simulator.
// The simulator is served on 127.0.0.1 by an httptest server that forwards every request to
// sim.Server.RoundTrip; a kubeconfig in a temp dir points the CLI at it. Storage is the secrets
// driver (HELM_DRIVER), so release-record writes are ordinary requests. Judged by the same clauses
// as the action route. This covers what pkg/cmd itself decides (template.go forcing DryRun,
// ClientOnly = !--validate, upgrade --install copying the dry-run selectors ...).

import (
	"bytes"
	"encoding/json"
	"fmt"
	"io"
	"math/rand"
	"net/http"
	"net/http/httptest"
	"os"
	"path/filepath"
	"sort"
	"strings"

	"k8s.io/apimachinery/pkg/runtime/serializer/protobuf"
	"k8s.io/client-go/kubernetes/scheme"

	helmcmd "helm.sh/helm/v4/pkg/cmd"
	"helm.sh/helm/v4/verifh/core"
	"helm.sh/helm/v4/verifh/env"
	"helm.sh/helm/v4/verifh/gen"
	"helm.sh/helm/v4/verifh/sim"
)

// boolean switches of `helm template` on the CLI route (bit i of a combo)
var cliFlags = []string{"validate", "isUpgrade", "includeCRDs", "createNS", "replace", "skipCRDs", "noHooks", "set", "outputDir", "kubeVersion"}

const cliFullProduct = 6

// --dry-run spellings on the command line ("unset" = flag absent, "bare" = `--dry-run` without value)
var cliSpellings = []string{"unset", "bare", "client", "server", "true", "false", "none"}

type cliCase struct {
	State  string   `json:"state"` // empty | deployed
	CSeed  int64    `json:"cseed"`
	Combos []uint32 `json:"combos"`
}

func genCLICases(rng *rand.Rand, tier string) []core.Case {
	var out []core.Case
	for _, st := range []string{"empty", "deployed"} {
		var rows []uint32
		if tier == "thorough" {
			for m := uint32(0); m < 1<<cliFullProduct; m++ {
				rows = append(rows, m|(rng.Uint32()&(1<<uint(len(cliFlags)-cliFullProduct)-1))<<cliFullProduct)
			}
		} else {
			rows = pairwise(rng, len(cliFlags))
		}
		// the unusual --dry-run values run as a case of their own (no template combinations)
		out = append(out, core.Case{ID: fmt.Sprintf("cli-%s-u", st), Data: core.J(caseData{Kind: "cli", Driver: "secrets", State: st, CSeed: rng.Int63()})})
		chunk := 8
		for i := 0; i < len(rows); i += chunk {
			j := min(i+chunk, len(rows))
			out = append(out, core.Case{ID: fmt.Sprintf("cli-%s-%d", st, i/chunk),
				Data: core.J(caseData{Kind: "cli", Driver: "secrets", State: st, CSeed: rng.Int63(), Combos: rows[i:j]})})
		}
	}
	return out
}

// cliChartFiles: like chartFiles but without hooks (the CLI uses helm's real waiter, whose hook
// watch needs a watch stream the simulator does not serve; hooks are covered by the action route).
func cliChartFiles(v int) gen.Files {
	f := gen.Files{
		"Chart.yaml":          fmt.Sprintf("apiVersion: v2\nname: clichart\nversion: 0.%d.0\ndependencies:\n- name: sub\n  version: 0.1.0\n  condition: sub.enabled\n", v+1),
		"values.yaml":         "k: d0\nsub:\n  enabled: true\n  tag: fromparent\n",
		"templates/NOTES.txt": "Release {{ .Release.Name }} revision {{ .Release.Revision }}\n",
		"crds/gadgets.yaml":   fmt.Sprintf(crdYAML, "gadgets", "Gadget", "gadgets"),
		"templates/cm.yaml":   gen.ResourceYAML("ConfigMap", "{{ .Release.Name }}-cm", fmt.Sprintf("c%d", v), "{{ .Values.k | quote }}", nil),
		"templates/sec.yaml":  gen.ResourceYAML("Secret", "{{ .Release.Name }}-sec", fmt.Sprintf("s%d", v), "{{ .Values.k | quote }}", nil),
		"templates/svc.yaml":  gen.ResourceYAML("Service", "{{ .Release.Name }}-svc", fmt.Sprintf("v%d", v), `"x"`, nil),
		"templates/lookup.yaml": "{{- $b := lookup \"v1\" \"ConfigMap\" .Release.Namespace \"bystander\" }}\n" +
			gen.ResourceYAML("ConfigMap", "{{ .Release.Name }}-lookup", "lk", "{{ if $b }}\"found\"{{ else }}\"absent\"{{ end }}", nil),
		"charts/sub/Chart.yaml":          "apiVersion: v2\nname: sub\nversion: 0.1.0\n",
		"charts/sub/values.yaml":         "tag: subdefault\n",
		"charts/sub/crds/widgets.yaml":   fmt.Sprintf(crdYAML, "widgets", "Widget", "widgets"),
		"charts/sub/templates/cm.yaml":   gen.ResourceYAML("ConfigMap", "{{ .Release.Name }}-sub-cm", fmt.Sprintf("sub%d", v), "{{ .Values.tag | quote }}", nil),
		"charts/sub/templates/NOTES.txt": "sub notes\n",
	}
	return f
}

func writeChartDir(dir string, f gen.Files) error {
	for name, content := range f {
		p := filepath.Join(dir, name)
		if err := os.MkdirAll(filepath.Dir(p), 0o755); err != nil {
			return err
		}
		if err := os.WriteFile(p, []byte(content), 0o644); err != nil {
			return err
		}
	}
	return nil
}

// simHandler serves the simulator over real HTTP. Typed clientsets (the storage drivers) send
// protobuf bodies when no content type is configured; they are transcoded to JSON for the simulator.
func simHandler(s *sim.Server, transcoded *int64) http.Handler {
	proto := protobuf.NewSerializer(scheme.Scheme, scheme.Scheme)
	return http.HandlerFunc(func(rw http.ResponseWriter, r *http.Request) {
		body, _ := io.ReadAll(r.Body)
		r.Body.Close()
		if strings.HasPrefix(r.Header.Get("Content-Type"), "application/vnd.kubernetes.protobuf") && len(body) > 0 {
			if obj, _, err := proto.Decode(body, nil, nil); err == nil {
				if j, err := json.Marshal(obj); err == nil {
					body = j
					r.Header.Set("Content-Type", "application/json")
					*transcoded++
				}
			}
		}
		r.Body = io.NopCloser(bytes.NewReader(body))
		resp, err := s.RoundTrip(r)
		if err != nil {
			http.Error(rw, err.Error(), http.StatusBadGateway)
			return
		}
		defer resp.Body.Close()
		for k, vs := range resp.Header {
			for _, v := range vs {
				rw.Header().Add(k, v)
			}
		}
		rw.WriteHeader(resp.StatusCode)
		io.Copy(rw, resp.Body)
	})
}

// cliEnv is the process environment of the CLI invocations of one case.
type cliEnv struct {
	tmp, kubeconfig string
	saved           map[string]*string
}

func newCLIEnv(tmp, server string) (*cliEnv, error) {
	e := &cliEnv{tmp: tmp, kubeconfig: filepath.Join(tmp, "kubeconfig"), saved: map[string]*string{}}
	kc := fmt.Sprintf("apiVersion: v1\nkind: Config\nclusters:\n- name: sim\n  cluster:\n    server: %s\ncontexts:\n- name: sim\n  context:\n    cluster: sim\n    user: sim\n    namespace: %s\nusers:\n- name: sim\n  user: {}\ncurrent-context: sim\n", server, nsName)
	if err := os.WriteFile(e.kubeconfig, []byte(kc), 0o600); err != nil {
		return nil, err
	}
	for k, v := range map[string]string{
		"HOME": tmp, "KUBECACHEDIR": filepath.Join(tmp, "kubecache"), "KUBECONFIG": e.kubeconfig,
		"HELM_DRIVER": "secrets", "HELM_NAMESPACE": nsName,
		"XDG_CACHE_HOME": filepath.Join(tmp, "xdg-cache"), "XDG_CONFIG_HOME": filepath.Join(tmp, "xdg-config"), "XDG_DATA_HOME": filepath.Join(tmp, "xdg-data"),
		"HELM_CACHE_HOME": filepath.Join(tmp, "helm-cache"), "HELM_CONFIG_HOME": filepath.Join(tmp, "helm-config"), "HELM_DATA_HOME": filepath.Join(tmp, "helm-data"),
	} {
		if old, ok := os.LookupEnv(k); ok {
			o := old
			e.saved[k] = &o
		} else {
			e.saved[k] = nil
		}
		os.Setenv(k, v)
	}
	return e, nil
}

func (e *cliEnv) restore() {
	for k, v := range e.saved {
		if v == nil {
			os.Unsetenv(k)
		} else {
			os.Setenv(k, *v)
		}
	}
}

// helm runs one CLI invocation in-process. pkg/cmd's settings object is created when the package
// is initialised, so everything that matters is also passed as a flag.
func (e *cliEnv) helm(args ...string) (string, error) {
	full := append([]string{}, args...)
	full = append(full, "--kubeconfig", e.kubeconfig, "--namespace", nsName,
		"--registry-config", filepath.Join(e.tmp, "registry.json"), "--repository-config", filepath.Join(e.tmp, "repositories.yaml"), "--repository-cache", filepath.Join(e.tmp, "repocache"))
	var out bytes.Buffer
	cmd, err := helmcmd.NewRootCmd(&out, full)
	if err != nil {
		return "", err
	}
	cmd.SetArgs(full)
	cmd.SetOut(&out)
	cmd.SetErr(&out)
	// helm prints some things straight to os.Stdout
	saved := os.Stdout
	if devnull, e2 := os.OpenFile(os.DevNull, os.O_WRONLY, 0); e2 == nil {
		os.Stdout = devnull
		defer func() { os.Stdout = saved; devnull.Close() }()
	}
	err = cmd.Execute()
	env.Quiet()
	return out.String(), err
}

type cliFlagSet uint32

func (m cliFlagSet) on(name string) bool {
	for i, n := range cliFlags {
		if n == name {
			return m>>uint(i)&1 == 1
		}
	}
	return false
}

func (m cliFlagSet) String() string {
	var p []string
	for i, n := range cliFlags {
		if m>>uint(i)&1 == 1 {
			p = append(p, n)
		}
	}
	if len(p) == 0 {
		return "-"
	}
	return strings.Join(p, "+")
}

func dryArg(sp string) []string {
	switch sp {
	case "unset":
		return nil
	case "bare":
		return []string{"--dry-run"}
	}
	return []string{"--dry-run=" + sp}
}

func runCLI(c core.Case, d caseData, verbose bool) core.Result {
	var res core.Result
	tmp, err := os.MkdirTemp("", "c06cli-")
	if err != nil {
		res.Inconclusive = "cannot create temp dir: " + err.Error()
		return res
	}
	defer os.RemoveAll(tmp)

	mkWorld := func() (*env.World, *httptest.Server, *int64) {
		w := env.NewWorld("secrets", nsName)
		w.Sim.Put(map[string]any{"apiVersion": "v1", "kind": "ConfigMap", "metadata": map[string]any{"name": "bystander", "namespace": nsName}, "data": map[string]any{"x": "y"}})
		if d.State == "deployed" {
			w.Exec("pre-install", relName, env.Op{Kind: "install"}, cliChartFiles(0).Build())
			w.Exec("pre-upgrade", relName, env.Op{Kind: "upgrade"}, cliChartFiles(1).Build())
		}
		n := new(int64)
		return w, httptest.NewServer(simHandler(w.Sim, n)), n
	}
	w, srv, transcoded := mkWorld()
	defer srv.Close()
	ce, err := newCLIEnv(tmp, srv.URL)
	if err != nil {
		res.Inconclusive = "cannot write kubeconfig: " + err.Error()
		return res
	}
	defer ce.restore()
	chartDir := filepath.Join(tmp, "clichart")
	if err := writeChartDir(chartDir, cliChartFiles(2)); err != nil {
		res.Inconclusive = "cannot write chart: " + err.Error()
		return res
	}
	ledger0, _ := w.Ledger(relName)
	if verbose {
		fmt.Printf("case %s: CLI route, state=%s ledger=[%s], server %s, %d flag combinations\n", c.ID, d.State, env.LedgerString(ledger0), srv.URL, len(d.Combos))
	}
	var sampleOps []string

	// judge one dry invocation
	judge := func(what, sp, flagsText string, args []string, clientOnly, strict bool, controlWrote bool) {
		snapBefore := w.Sim.Snapshot()
		ledBefore, _ := w.Ledger(relName)
		from := w.Sim.Tick()
		var out string
		var oerr error
		if core.Guard(&res, "cli "+what, func() { out, oerr = ce.helm(args...) }) {
			return
		}
		o := window(w, from, "")
		snapAfter := w.Sim.Snapshot()
		ledAfter, bad := w.Ledger(relName)
		res.Evals++
		res.Stat("cli_dry_ops_"+what, 1)
		if oerr != nil && (strings.Contains(oerr.Error(), "Invalid dry-run flag") || strings.Contains(oerr.Error(), "invalid argument")) {
			res.Stat("cli_invocations_refused_for_their_dry_run_value", 1)
		}
		for cl, n := range o.byClass {
			res.Stat("dry_requests_inspected_"+cl, int64(n))
		}
		ctx := fmt.Sprintf("cli %s --dry-run=%s", what, sp)
		if clientOnly {
			ctx = "client-only " + ctx
		}
		detail := func() string {
			return fmt.Sprintf("helm %s | ledger before [%s], err=%s, requests in window %v", strings.Join(args, " "), env.LedgerString(ledBefore), errStr(oerr), o.byClass)
		}
		for _, e := range o.mutations {
			res.Add("mutation-in-dry-run", fmt.Sprintf("%s: %s %s", ctx, e.Method, role(e)), "%s %s %s/%s -> %d | %s", e.Method, e.Path, e.Kind, e.Name, e.Code, detail())
		}
		for _, e := range o.stWrites {
			res.Add("storage-write-in-dry-run", fmt.Sprintf("%s: %s %s", ctx, e.Method, role(e)), "%s %s -> %d | %s", e.Method, e.Path, e.Code, detail())
		}
		if ds := diffSnap(snapBefore, snapAfter); len(ds) > 0 {
			for _, x := range uniq(ds, true) {
				res.Add("cluster-changed", ctx+": "+x, "object store differs after the dry run: %s | %s", strings.Join(ds, "; "), detail())
			}
		}
		if dl := diffLedger(ledBefore, ledAfter); len(dl) > 0 || len(bad) > 0 {
			for _, x := range uniq(dl, false) {
				res.Add("ledger-changed", fmt.Sprintf("%s driver=secrets: %s", ctx, x), "raw ledger differs after the dry run: [%s] -> [%s] | %s", env.LedgerString(ledBefore), env.LedgerString(ledAfter), detail())
			}
		}
		if clientOnly {
			res.Stat("client_only_ops", 1)
			if strict {
				res.Stat("client_only_ops_strict", 1)
				if len(o.all) > 0 {
					e := o.all[0]
					res.Add("client-only-request", fmt.Sprintf("%s: %s request", ctx, e.Class), "client-only template sent %d requests, first: %s %s | %s", len(o.all), e.Method, e.Path, detail())
				}
			} else if n := o.byClass["storage"]; n > 0 {
				// --dry-run=server|false|none lets `lookup` read the cluster; the release history is no lookup
				res.Add("client-only-request", ctx+": storage request", "client-only template queried release storage (%d requests) | %s", n, detail())
			}
		}
		if controlWrote {
			res.Stat("dry_ops_nontrivial", 1)
			res.Key("cli|%s|%s|%s|%s", what, d.State, sp, flagsText)
		}
		if verbose {
			fmt.Printf("    helm %-9s --dry-run=%-6s flags[%s] err=%s requests=%v mutations=%d storage-writes=%d output=%dB\n", what, sp, flagsText, errStr(oerr), o.byClass, len(o.mutations), len(o.stWrites), len(out))
		}
		if len(sampleOps) < 4 {
			sampleOps = append(sampleOps, fmt.Sprintf("helm %s -> err=%s requests=%v", strings.Join(args[:min(len(args), 8)], " "), errStr(oerr), o.byClass))
		}
	}

	// ---- positive control: the same CLI route with dry-run off must be seen writing
	controlWrote := false
	{
		cw, csrv, _ := mkWorld()
		ctmp := filepath.Join(tmp, "ctl")
		os.MkdirAll(ctmp, 0o755)
		cce := &cliEnv{tmp: ctmp, kubeconfig: filepath.Join(ctmp, "kubeconfig")}
		kc, _ := os.ReadFile(ce.kubeconfig)
		os.WriteFile(cce.kubeconfig, bytes.ReplaceAll(kc, []byte(srv.URL), []byte(csrv.URL)), 0o600)
		for i, sp := range []string{"unset", "none", "false"} {
			name := fmt.Sprintf("ctl%d", i)
			from := cw.Sim.Tick()
			args := append([]string{"install", name, chartDir, "--timeout", "5s"}, dryArg(sp)...)
			var cerr error
			core.Guard(&res, "cli control install", func() { _, cerr = cce.helm(args...) })
			co := window(cw, from, "")
			res.Evals++
			res.Stat("cli_control_ops", 1)
			res.Stat("cli_control_mutations", int64(len(co.mutations)))
			res.Stat("cli_control_storage_writes", int64(len(co.stWrites)))
			if cerr == nil && len(co.mutations) > 0 && len(co.stWrites) > 0 {
				controlWrote = true
				res.Stat("cli_control_ops_that_wrote", 1)
			}
			if verbose {
				fmt.Printf("  control: helm %s -> err=%s requests=%v mutations=%d storage-writes=%d\n", strings.Join(args, " "), errStr(cerr), co.byClass, len(co.mutations), len(co.stWrites))
			}
		}
		csrv.Close()
	}

	// ---- helm template: flag combinations x --dry-run spellings
	for ci, mask := range d.Combos {
		m := cliFlagSet(mask)
		for _, sp := range cliSpellings {
			if d.Only != "" && d.Only != fmt.Sprintf("%d:%s", ci, sp) {
				continue
			}
			args := []string{"template", relName, chartDir, "--timeout", "5s"}
			args = append(args, dryArg(sp)...)
			for _, fl := range [][2]string{{"validate", "--validate"}, {"isUpgrade", "--is-upgrade"}, {"includeCRDs", "--include-crds"}, {"createNS", "--create-namespace"},
				{"replace", "--replace"}, {"skipCRDs", "--skip-crds"}, {"noHooks", "--no-hooks"}} {
				if m.on(fl[0]) {
					args = append(args, fl[1])
				}
			}
			if m.on("set") {
				args = append(args, "--set", "k=fromcli,sub.tag=clitag")
			}
			if m.on("outputDir") {
				args = append(args, "--output-dir", filepath.Join(tmp, "out"), "--release-name")
			}
			if m.on("kubeVersion") {
				args = append(args, "--kube-version", "v1.29.0", "--api-versions", "example.com/v1")
			}
			clientOnly := !m.on("validate")
			strict := sp == "unset" || sp == "bare" || sp == "client" || sp == "true"
			judge("template", sp, m.String(), args, clientOnly, strict, controlWrote)
		}
	}

	// ---- cross-check: the other commands in their dry-run spellings (first chunk of each state only)
	if strings.HasSuffix(c.ID, "-0") && d.Only == "" {
		for _, sp := range []string{"bare", "client", "server", "true"} {
			for _, extra := range [][]string{nil, {"--create-namespace", "--replace"}, {"--skip-crds", "--no-hooks", "--set", "k=x"}} {
				ft := strings.Join(extra, " ")
				judge("install", sp, ft, append(append([]string{"install", relName, chartDir, "--timeout", "5s"}, dryArg(sp)...), extra...), false, false, controlWrote)
				judge("install-other-name", sp, ft, append(append([]string{"install", "fresh", chartDir, "--timeout", "5s"}, dryArg(sp)...), extra...), false, false, controlWrote)
				judge("upgrade-install", sp, ft, append(append([]string{"upgrade", "--install", "fresh2", chartDir, "--timeout", "5s"}, dryArg(sp)...), extra[:min(len(extra), 1)]...), false, false, controlWrote)
			}
			for _, extra := range [][]string{nil, {"--reuse-values", "--force"}, {"--install", "--history-max", "1"}} {
				judge("upgrade", sp, strings.Join(extra, " "), append(append([]string{"upgrade", relName, chartDir, "--timeout", "5s"}, dryArg(sp)...), extra...), false, false, controlWrote)
			}
		}
		judge("rollback", "bare", "", []string{"rollback", relName, "1", "--dry-run", "--timeout", "5s"}, false, false, controlWrote)
		judge("rollback", "bare", "--no-hooks --force", []string{"rollback", relName, "--dry-run", "--no-hooks", "--force", "--timeout", "5s"}, false, false, controlWrote)
		judge("uninstall", "bare", "", []string{"uninstall", relName, "--dry-run", "--timeout", "5s"}, false, false, controlWrote)
		judge("uninstall", "bare", "--keep-history --no-hooks", []string{"uninstall", relName, "--dry-run", "--keep-history", "--no-hooks", "--timeout", "5s"}, false, false, controlWrote)
	}
	// ---- unusual --dry-run values (mixed case, blanks, other words). Whatever helm does with such a
	// value - refuse it, or take it for a dry run - a command whose value is not one of the
	// documented NON-dry spellings (flag absent, none, false; an explicitly empty value is turned
	// into "none" by install/upgrade) must not write. Refused invocations are trivially silent; they
	// are counted. Case variants of the non-dry words (False, None) and the empty value are run last
	// and only counted: treating them as "not a dry run" is legitimate.
	if strings.HasSuffix(c.ID, "-u") && d.Only == "" {
		nBefore := len(res.Violations)
		unusual := func(what, val string, args []string, clientOnly bool) {
			from := w.Sim.Tick()
			n := len(res.Violations)
			judge(what, val, "unusual value", args, clientOnly, false, controlWrote)
			res.Stat("cli_unusual_value_ops", 1)
			if o := window(w, from, ""); len(o.all) == 0 && len(res.Violations) == n {
				res.Stat("cli_unusual_value_ops_without_any_request", 1)
			}
		}
		for _, val := range []string{"Server", "SERVER", "Client", "True", "TRUE", " server", "yes", "1", "cLiEnT"} {
			dv := "--dry-run=" + val
			unusual("template", val, []string{"template", relName, chartDir, dv, "--timeout", "5s"}, true)
			unusual("template", val, []string{"template", relName, chartDir, dv, "--validate", "--create-namespace", "--timeout", "5s"}, false)
			unusual("install", val, []string{"install", relName, chartDir, dv, "--replace", "--timeout", "5s"}, false)
			unusual("install-other-name", val, []string{"install", "fresh3", chartDir, dv, "--create-namespace", "--timeout", "5s"}, false)
			unusual("upgrade", val, []string{"upgrade", relName, chartDir, dv, "--timeout", "5s"}, false)
			unusual("upgrade", val, []string{"upgrade", relName, chartDir, dv, "--install", "--reuse-values", "--timeout", "5s"}, false)
			unusual("upgrade-install", val, []string{"upgrade", "--install", "fresh4", chartDir, dv, "--create-namespace", "--timeout", "5s"}, false)
		}
		// rollback / uninstall: --dry-run is a boolean flag; every spelling strconv.ParseBool takes for true is a dry run
		for _, val := range []string{"True", "TRUE", "1", "t", "T", "yes", "Server"} {
			dv := "--dry-run=" + val
			unusual("rollback", val, []string{"rollback", relName, "1", dv, "--timeout", "5s"}, false)
			unusual("uninstall", val, []string{"uninstall", relName, dv, "--timeout", "5s"}, false)
		}
		res.Stat("cli_unusual_value_violations", int64(len(res.Violations)-nBefore))
		// not judged, only counted (they may legitimately write); run last because they change the world
		for _, val := range []string{"False", "None", ""} {
			for _, args := range [][]string{
				{"upgrade", relName, chartDir, "--dry-run=" + val, "--timeout", "5s"},
				{"install", "fresh5" + strings.ToLower(val), chartDir, "--dry-run=" + val, "--timeout", "5s"},
			} {
				from := w.Sim.Tick()
				var oerr error
				core.Guard(&res, "cli non-dry-equivalent value", func() { _, oerr = ce.helm(args...) })
				o := window(w, from, "")
				res.Evals++
				res.Stat("cli_nondry_equivalent_value_ops", 1)
				if len(o.mutations)+len(o.stWrites) > 0 {
					res.Stat("cli_nondry_equivalent_value_ops_that_wrote", 1)
				}
				if verbose {
					fmt.Printf("    (not judged) helm %s -> err=%s requests=%v\n", strings.Join(args, " "), errStr(oerr), o.byClass)
				}
			}
		}
	}
	res.Stat("cli_protobuf_bodies_transcoded", *transcoded)
	if strings.HasSuffix(c.ID, "-0") {
		sort.Strings(sampleOps)
		res.Sample = map[string]any{"route": "cli (pkg/cmd NewRootCmd over HTTP to the simulator)", "ledger_before": env.LedgerString(ledger0), "ops": sampleOps}
	}
	return res
}
