// Package c06: dry-run and template never change the cluster or the release history.
//
// What is monitored. Every operation (real action.Install / Upgrade / Rollback / Uninstall and
// the client-only template path = Install with ClientOnly+DryRun, as pkg/cmd/template.go builds
// it) is run in every dry-run spelling under a fresh action.Configuration against the simulated
// API server. While the operation runs nothing else touches the world, so every log event whose
// sequence number lies in the operation's window belongs to it (its own agent tag plus the shared
// discovery client). Refuting observations:
//
//	mutation-in-dry-run        a request of class "mutation" (POST/PUT/PATCH/DELETE on a non-storage object)
//	storage-write-in-dry-run   a request of class "storage" with method != GET (Secret/ConfigMap record
//	                           write, or Create/Update/Delete on the recording memory-driver wrapper)
//	cluster-changed            sim.Snapshot() before != after
//	ledger-changed             World.Ledger (raw records, decoded independently of helm) before != after
//	client-only-request        client-only template: ANY request at all (discovery, read, storage, mutation)
//
// Two routes: the action API (this file) and the real cobra commands of pkg/cmd over HTTP
// (cli.go), which covers what `helm template` / `helm upgrade --install` themselves decide.
//
// Positive controls: for every (ledger state, flag combination) the same operation is run with
// dry-run OFF (spellings "", "none", "false" rotate) on an identically prepared world; the writes
// seen there are counted. A dry case is "non-trivial" when its control wrote something. Post()
// makes the run inconclusive when, for some op kind / driver, no control produced mutations and
// storage writes (the monitor then has not been shown to see what it claims to exclude).
//
// Don't-care zones (deliberately unchecked):
//   - reads and discovery requests of non-client-only dry runs (server-side dry-run may read);
//   - files written below Install.OutputDir (that is what --output-dir is for);
//   - client-only template with DryRunOption server|none|false: that spelling is the explicit
//     request to let `lookup` talk to the cluster, so only the write clauses apply there;
//   - Install{ClientOnly: true} with no dry-run selector at all (not reachable from `helm
//     template`, which always sets DryRun): helm reads the release history before it swaps in the
//     private store; only the write clauses apply (they show that store and client are swapped);
//   - what the dry run returns (manifest text, notes) - C05/C02 judge rendering;
//   - whether the real (control) operation succeeds.
package c06

import (
	"bytes"
	"fmt"
	"math/rand"
	"os"
	"reflect"
	"sort"
	"strings"

	"helm.sh/helm/v4/pkg/action"
	chart "helm.sh/helm/v4/pkg/chart/v2"
	chartutil "helm.sh/helm/v4/pkg/chart/v2/util"
	"helm.sh/helm/v4/pkg/kube"
	release "helm.sh/helm/v4/pkg/release/v1"
	"helm.sh/helm/v4/verifh/core"
	"helm.sh/helm/v4/verifh/env"
	"helm.sh/helm/v4/verifh/gen"
	"helm.sh/helm/v4/verifh/sim"
)

const relName = "rel"
const nsName = "ns1"

var kinds = []string{"install", "upgrade", "rollback", "uninstall", "template"}
var drivers = []string{"memory", "secrets", "configmaps"}

// ledger states the operation starts from
var states = []string{"empty", "deployed", "failed", "failed-install", "uninstalled"}

// flagsOf lists the boolean switches of each op kind. The flags that are read on the code path
// BEFORE the dry-run bail-out come first: the thorough tier takes the full product over the first
// fullProduct[kind] of them and fills the rest at random.
var flagsOf = map[string][]string{
	"install": {"skipCRDs", "includeCRDs", "takeOwnership", "postRender", "hideSecret", "atomic", "replace", "createNS",
		"noHooks", "subNotes", "noOpenAPI", "force", "wait", "labels", "vals"},
	"upgrade": {"maxHistory", "reuse", "takeOwnership", "postRender", "hideSecret", "atomic", "cleanup", "noHooks",
		"reset", "resetThenReuse", "subNotes", "noOpenAPI", "force", "wait", "recreate", "labels", "vals", "installFlag"},
	"rollback":  {"toRev1", "noHooks", "cleanup", "maxHistory", "force", "wait", "recreate"},
	"uninstall": {"keepHistory", "noHooks", "ignoreNotFound", "foreground", "wait"},
	"template": {"validate", "includeCRDs", "skipCRDs", "postRender", "isUpgrade", "hideSecret", "outputDir", "kubeVersion",
		"createNS", "atomic", "takeOwnership", "noHooks", "subNotes", "apiVersions", "vals"},
}
var fullProduct = map[string]int{"install": 8, "upgrade": 8, "rollback": 7, "uninstall": 5, "template": 8}

// dry-run spellings. "flag" = DryRun field only; "flag+x" = DryRun field and DryRunOption x.
var spellingsOf = map[string][]string{
	"install":   {"flag", "client", "server", "true", "flag+server", "flag+none"},
	"upgrade":   {"flag", "client", "server", "true", "flag+server", "flag+none"},
	"rollback":  {"flag"},
	"uninstall": {"flag"},
	// pkg/cmd/template.go always sets DryRun=true and DryRunOption "true" unless the user gave one
	// "clientonly-off" = ClientOnly without any dry-run selector (reachable from the SDK only):
	// judged by the write clauses only, see the don't-care list.
	"template": {"flag+true", "flag+client", "flag", "flag+server", "flag+false", "clientonly-off"},
}

// non-dry spellings used by the positive controls
var controlSpellings = []string{"", "none", "false"}

type caseData struct {
	Kind    string   `json:"kind"`
	Driver  string   `json:"driver"`
	State   string   `json:"state"`
	CSeed   int64    `json:"cseed"`
	Collide bool     `json:"collide"` // an unowned bystander object sits where the chart wants to create one
	Combos  []uint32 `json:"combos"`  // bit i = flagsOf[Kind][i]
	// State "shaped" only: the status of every revision of the starting history, oldest first (shaped.go)
	Shape []string `json:"shape,omitempty"`
	// Only restricts a replay to one "comboIndex:spelling"
	Only string `json:"only,omitempty"`
}

func init() {
	core.Register(&core.Prop{
		ID:    "C06",
		Level: "exploration",
		Rule: "cells = op kind {install, upgrade, rollback, uninstall, client-only/validating template} x storage driver {memory, secrets, configmaps} x starting ledger {empty, [superseded,deployed], [deployed,failed], [failed], [superseded,uninstalled]}; per cell a generated 3-version chart (hooks for every event, crds/ in chart and subchart, NOTES.txt, subchart, lookup template, Secret) and a set of flag combinations (quick: greedy pairwise cover of the kind's boolean flags; thorough: full product over the flags read before the dry-run bail-out, the rest random), each run in every dry-run spelling; " +
			"every combination also runs once with dry-run off on an identically prepared world (positive control). A second route runs the real cobra commands of pkg/cmd (helm template with every --dry-run spelling {unset, bare, client, server, true, false, none} x {--validate, --is-upgrade, --include-crds, --create-namespace, --replace, --skip-crds, --no-hooks, --set, --output-dir, --kube-version}, and helm install/upgrade/upgrade --install/rollback/uninstall --dry-run as cross-check) over an HTTP connection to the simulator with the secrets driver; its positive control is helm install without dry-run; the same commands also run with unusual --dry-run values (Server, SERVER, Client, True, TRUE, blank+server, yes, 1 ...), which must never write whether helm refuses them or takes them for a dry run. distinct_nontrivial counts distinct (kind, driver, state, spelling, flag combination) tuples whose positive control produced cluster mutations or storage writes.",
		Assumptions: []string{
			"the simulated API server sees every request helm sends (all clients are built from the RESTClientGetter / rest.Config whose transport is the simulator); the memory driver is wrapped by a recording driver",
			"request classes: storage = Secret/ConfigMap named sh.helm.release.v1.* (or owner-label list), mutation = any other non-GET, read = other GET, discovery = /version,/api,/apis,/openapi",
			"operations run one at a time per world, so the log window of an operation contains only its own requests",
			"readiness is scripted at kube.Interface.GetWaiter (no wall-clock waits)",
		},
		Exhaustive:  func(tier string) bool { return tier == "thorough" },
		Explanation: "exhaustive (thorough tier) refers to the full product of the boolean flags read before the dry-run bail-out, per op kind x dry-run spelling x ledger state x driver, for one generated chart family per cell",
		Gen:         genCases,
		Run:         run,
		Post:        post,
		// generous: the watchdog only guards against hangs (a case needs a few CPU-seconds)
		CaseTimeoutSec: 900,
	})
}

// ---------------------------------------------------------------- case generation

// pairwise returns a greedy pairwise cover of n boolean flags (plus all-off and all-on rows).
func pairwise(rng *rand.Rand, n int) []uint32 {
	type pv struct{ i, j, vi, vj int }
	unc := map[pv]bool{}
	for i := 0; i < n; i++ {
		for j := i + 1; j < n; j++ {
			for v := 0; v < 4; v++ {
				unc[pv{i, j, v & 1, v >> 1}] = true
			}
		}
	}
	cover := func(row uint32, del bool) int {
		c := 0
		for i := 0; i < n; i++ {
			for j := i + 1; j < n; j++ {
				k := pv{i, j, int(row>>uint(i)) & 1, int(row>>uint(j)) & 1}
				if unc[k] {
					c++
					if del {
						delete(unc, k)
					}
				}
			}
		}
		return c
	}
	all := uint32(1)<<uint(n) - 1
	rows := []uint32{0, all}
	cover(0, true)
	cover(all, true)
	for len(unc) > 0 {
		best, bestC := uint32(0), -1
		for t := 0; t < 40; t++ {
			r := rng.Uint32() & all
			if c := cover(r, false); c > bestC {
				best, bestC = r, c
			}
		}
		cover(best, true)
		rows = append(rows, best)
	}
	return rows
}

func genCases(seed int64, tier string) []core.Case {
	rng := rand.New(rand.NewSource(seed*104729 + 606))
	var out []core.Case
	for _, kind := range kinds {
		n := len(flagsOf[kind])
		for _, drv := range drivers {
			for _, st := range states {
				if kind == "template" && (st == "failed-install" || st == "uninstalled" || st == "failed") {
					continue // template never consults the ledger; two states suffice
				}
				cseed := rng.Int63()
				collide := rng.Intn(2) == 0
				var rows []uint32
				if tier == "thorough" {
					fp := fullProduct[kind]
					for m := uint32(0); m < 1<<uint(fp); m++ {
						rest := uint32(0)
						if n > fp {
							rest = (rng.Uint32() & (1<<uint(n-fp) - 1)) << uint(fp)
						}
						rows = append(rows, m|rest)
					}
				} else {
					rows = pairwise(rng, n)
				}
				chunk := 32
				for i := 0; i < len(rows); i += chunk {
					j := i + chunk
					if j > len(rows) {
						j = len(rows)
					}
					out = append(out, core.Case{
						ID:   fmt.Sprintf("%s-%s-%s-%d", kind, drv, st, i/chunk),
						Data: core.J(caseData{Kind: kind, Driver: drv, State: st, CSeed: cseed, Collide: collide, Combos: rows[i:j]}),
					})
				}
			}
		}
	}
	// the CLI route (pkg/cmd through a real HTTP connection to the simulator), see cli.go
	out = append(out, genCLICases(rng, tier)...)
	// histories as crashes and concurrent operations leave them (own generator, see shaped.go)
	out = append(out, genShapedCases(seed, tier)...)
	return out
}

// ---------------------------------------------------------------- charts

const crdYAML = `apiVersion: apiextensions.k8s.io/v1
kind: CustomResourceDefinition
metadata:
  name: %s.example.com
spec:
  group: example.com
  names:
    kind: %s
    plural: %s
  scope: Namespaced
  versions:
  - name: v1
    served: true
    storage: true
    schema:
      openAPIV3Schema:
        type: object
        x-kubernetes-preserve-unknown-fields: true
`

// chartFiles augments version v of the family with everything the property quantifies over:
// hooks for every event, a crds/ directory (root and subchart), NOTES.txt, a subchart, a Secret,
// and a template that calls lookup (so that "talks to the cluster while rendering" is observable).
func chartFiles(fam gen.Family, v int) gen.Files {
	f := fam.Files(v)
	f["Chart.yaml"] = fmt.Sprintf("apiVersion: v2\nname: %s\nversion: 0.%d.0\ndependencies:\n- name: sub\n  version: 0.1.0\n  condition: sub.enabled\n", fam.Name, v+1)
	f["values.yaml"] += "sub:\n  enabled: true\n  tag: fromparent\n"
	f["templates/NOTES.txt"] = "Release {{ .Release.Name }} revision {{ .Release.Revision }} k={{ .Values.k }}\n"
	f["crds/gadgets.yaml"] = fmt.Sprintf(crdYAML, "gadgets", "Gadget", "gadgets")
	f["templates/xsecret.yaml"] = gen.ResourceYAML("Secret", "{{ .Release.Name }}-xsec", fmt.Sprintf("s%d", v), "{{ .Values.k | quote }}", nil)
	f["templates/xlookup.yaml"] = "{{- $b := lookup \"v1\" \"ConfigMap\" .Release.Namespace \"bystander\" }}\n" +
		gen.ResourceYAML("ConfigMap", "{{ .Release.Name }}-xlookup", "lk", "{{ if $b }}\"found\"{{ else }}\"absent\"{{ end }}", nil)
	// a hook that fires on every event (default delete policy = before-hook-creation, which deletes first)
	f["templates/xhook-all.yaml"] = gen.HookSpec{Name: "xhook-all", Kind: "ConfigMap",
		Events: []string{"pre-install", "post-install", "pre-upgrade", "post-upgrade", "pre-rollback", "post-rollback", "pre-delete", "post-delete"}, Weight: "-1"}.YAML("{{ .Release.Name }}-xhook-all")
	f["templates/xhook-job.yaml"] = gen.HookSpec{Name: "xhook-job", Kind: "Job", Events: []string{"pre-install", "pre-upgrade", "pre-rollback", "pre-delete"},
		Policies: []string{"hook-succeeded"}}.YAML("{{ .Release.Name }}-xhook-job-r{{ .Release.Revision }}")
	// subchart
	f["charts/sub/Chart.yaml"] = "apiVersion: v2\nname: sub\nversion: 0.1.0\n"
	f["charts/sub/values.yaml"] = "tag: subdefault\n"
	f["charts/sub/crds/widgets.yaml"] = fmt.Sprintf(crdYAML, "widgets", "Widget", "widgets")
	f["charts/sub/templates/NOTES.txt"] = "sub notes tag={{ .Values.tag }}\n"
	f["charts/sub/templates/cm.yaml"] = gen.ResourceYAML("ConfigMap", "{{ .Release.Name }}-sub-cm", fmt.Sprintf("sub%d", v), "{{ .Values.tag | quote }}", nil)
	f["charts/sub/templates/subhook.yaml"] = gen.HookSpec{Name: "subhook", Kind: "ServiceAccount", Events: []string{"post-install", "post-upgrade", "post-delete"},
		Policies: []string{"before-hook-creation"}}.YAML("{{ .Release.Name }}-subhook")
	return f
}

// postRenderer is a Go post-renderer that rewrites the stream and appends a document.
type postRenderer struct{}

func (postRenderer) Run(in *bytes.Buffer) (*bytes.Buffer, error) {
	s := strings.ReplaceAll(in.String(), "image: \"img:", "image: \"registry.local/img:")
	s += "\n---\napiVersion: v1\nkind: ConfigMap\nmetadata:\n  name: " + relName + "-postrendered\ndata:\n  added: by-post-renderer\n"
	return bytes.NewBufferString(s), nil
}

// ---------------------------------------------------------------- running one op

type flags struct {
	kind string
	mask uint32
}

func (f flags) on(name string) bool {
	for i, n := range flagsOf[f.kind] {
		if n == name {
			return f.mask>>uint(i)&1 == 1
		}
	}
	return false
}

func (f flags) String() string {
	var p []string
	for i, n := range flagsOf[f.kind] {
		if f.mask>>uint(i)&1 == 1 {
			p = append(p, n)
		}
	}
	if len(p) == 0 {
		return "-"
	}
	return strings.Join(p, "+")
}

func (f flags) without(name string) flags {
	for i, n := range flagsOf[f.kind] {
		if n == name {
			f.mask &^= 1 << uint(i)
		}
	}
	return f
}

// setDry applies a spelling to the DryRun / DryRunOption pair.
func setDry(spelling string, dry *bool, opt *string) {
	switch {
	case spelling == "flag":
		*dry = true
	case strings.HasPrefix(spelling, "flag+"):
		*dry, *opt = true, strings.TrimPrefix(spelling, "flag+")
	case spelling == "clientonly-off":
	default:
		*opt = spelling // "", client, server, true, none, false
	}
}

func isDrySpelling(s string) bool { return !(s == "" || s == "none" || s == "false") }

// execOp runs one operation. outDir is used when the outputDir flag is on.
func execOp(w *env.World, agent string, f flags, spelling string, ch *chart.Chart, outDir string) (err error) {
	cfg := w.Config(agent)
	ws := kube.HookOnlyStrategy
	if f.on("wait") {
		ws = kube.StatusWatcherStrategy
	}
	vals := map[string]any{}
	if f.on("vals") {
		vals = map[string]any{"k": "uservalue", "sub": map[string]any{"tag": "usertag"}}
	}
	var labels map[string]string
	if f.on("labels") {
		labels = map[string]string{"team": "blue"}
	}
	switch f.kind {
	case "install", "template":
		in := action.NewInstall(cfg)
		in.ReleaseName, in.Namespace = relName, w.NS
		setDry(spelling, &in.DryRun, &in.DryRunOption)
		in.WaitStrategy, in.WaitForJobs = ws, f.on("wait")
		in.CreateNamespace, in.Replace, in.Atomic, in.DisableHooks = f.on("createNS"), f.on("replace"), f.on("atomic"), f.on("noHooks")
		in.SkipCRDs, in.IncludeCRDs, in.TakeOwnership, in.Force = f.on("skipCRDs"), f.on("includeCRDs"), f.on("takeOwnership"), f.on("force")
		in.HideSecret, in.SubNotes, in.DisableOpenAPIValidation = f.on("hideSecret"), f.on("subNotes"), f.on("noOpenAPI")
		in.DependencyUpdate = false
		in.Labels = labels
		if f.on("postRender") {
			in.PostRenderer = postRenderer{}
		}
		if f.kind == "template" {
			// exactly what pkg/cmd/template.go sets
			in.Replace = true
			in.ClientOnly = !f.on("validate")
			in.IsUpgrade = f.on("isUpgrade")
			if f.on("kubeVersion") {
				in.KubeVersion = &chartutil.KubeVersion{Version: "v1.29.0", Major: "1", Minor: "29"}
			}
			if f.on("apiVersions") {
				in.APIVersions = chartutil.VersionSet{"example.com/v1", "example.com/v1/Widget"}
			}
			if f.on("outputDir") {
				in.OutputDir, in.UseReleaseName = outDir, true
				// helm prints "wrote <file>" to stdout for every file; keep the worker's output readable
				if devnull, e := os.OpenFile(os.DevNull, os.O_WRONLY, 0); e == nil {
					saved := os.Stdout
					os.Stdout = devnull
					defer func() { os.Stdout = saved; devnull.Close() }()
				}
			}
		}
		_, err = in.Run(ch, vals)
	case "upgrade":
		up := action.NewUpgrade(cfg)
		up.Namespace = w.NS
		setDry(spelling, &up.DryRun, &up.DryRunOption)
		up.WaitStrategy, up.WaitForJobs = ws, f.on("wait")
		up.Atomic, up.CleanupOnFail, up.DisableHooks = f.on("atomic"), f.on("cleanup"), f.on("noHooks")
		if f.on("maxHistory") {
			up.MaxHistory = 1
		}
		up.ReuseValues, up.ResetValues, up.ResetThenReuseValues = f.on("reuse"), f.on("reset"), f.on("resetThenReuse")
		up.TakeOwnership, up.Force, up.Recreate = f.on("takeOwnership"), f.on("force"), f.on("recreate")
		up.HideSecret, up.SubNotes, up.DisableOpenAPIValidation = f.on("hideSecret"), f.on("subNotes"), f.on("noOpenAPI")
		up.Install = f.on("installFlag")
		up.Labels = labels
		if f.on("labels") {
			up.Description = "custom description"
		}
		if f.on("postRender") {
			up.PostRenderer = postRenderer{}
		}
		_, err = up.Run(relName, ch, vals)
	case "rollback":
		rb := action.NewRollback(cfg)
		rb.DryRun = spelling == "flag"
		rb.WaitStrategy, rb.WaitForJobs = ws, f.on("wait")
		if f.on("toRev1") {
			rb.Version = 1
		}
		if f.on("maxHistory") {
			rb.MaxHistory = 1
		}
		rb.DisableHooks, rb.CleanupOnFail, rb.Force, rb.Recreate = f.on("noHooks"), f.on("cleanup"), f.on("force"), f.on("recreate")
		err = rb.Run(relName)
	case "uninstall":
		un := action.NewUninstall(cfg)
		un.DryRun = spelling == "flag"
		un.WaitStrategy = ws
		un.KeepHistory, un.DisableHooks, un.IgnoreNotFound = f.on("keepHistory"), f.on("noHooks"), f.on("ignoreNotFound")
		if f.on("foreground") {
			un.DeletionPropagation = "foreground"
		}
		_, err = un.Run(relName)
	default:
		panic("unknown kind " + f.kind)
	}
	return err
}

// ---------------------------------------------------------------- world preparation

// prepare builds a world whose ledger for relName is in the requested state. Returns the chart
// version the operation under test should use.
func prepare(d caseData, fam gen.Family) (*env.World, int) {
	w := env.NewWorld(d.Driver, nsName)
	w.Sim.Put(map[string]any{"apiVersion": "v1", "kind": "ConfigMap", "metadata": map[string]any{"name": "bystander", "namespace": nsName}, "data": map[string]any{"x": "y"}})
	w.Sim.Put(map[string]any{"apiVersion": "v1", "kind": "Secret", "metadata": map[string]any{"name": "bystander-secret", "namespace": nsName}, "type": "Opaque"})
	inst := func(v int, agent string) {
		w.Exec(agent, relName, env.Op{Kind: "install", Chart: v}, chartFiles(fam, v).Build())
	}
	upg := func(v int, agent string) {
		w.Exec(agent, relName, env.Op{Kind: "upgrade", Chart: v}, chartFiles(fam, v).Build())
	}
	next := 0
	switch d.State {
	case "empty":
	case "deployed":
		inst(0, "pre-install")
		upg(1, "pre-upgrade")
		next = 2
	case "failed":
		inst(0, "pre-install")
		w.Script.Reset()
		w.Script.FailWaitNth, w.Script.FailAgent = 1, "pre-upgrade"
		upg(1, "pre-upgrade")
		w.Script.Reset()
		next = 2
	case "failed-install":
		w.Script.Reset()
		w.Script.FailWaitNth, w.Script.FailAgent = 2, "pre-install" // wait #1 is the CRD wait, #2 the resources
		inst(0, "pre-install")
		w.Script.Reset()
		next = 1
	case "uninstalled":
		inst(0, "pre-install")
		upg(1, "pre-upgrade")
		w.Exec("pre-uninstall", relName, env.Op{Kind: "uninstall", KeepHistory: true}, nil)
		next = 2
	case shapedState:
		inst(0, "pre-install")
		upg(1, "pre-upgrade")
		for i := 2; i < len(d.Shape); i++ {
			upg(i%2, fmt.Sprintf("pre-upgrade%d", i))
		}
		shapeHistory(w, d.Shape)
		next = 2
	default:
		panic("unknown state " + d.State)
	}
	if d.Collide {
		// an unowned object exactly where chart version `next` wants to create its first resource
		vs := fam.Versions[next]
		sl := gen.SlotPool[vs.Slots[0]]
		for _, r := range sim.Resources {
			if r.Kind == sl.Kind {
				key := sim.Key(r.Group, r.Plural, nsName, relName+"-"+sl.Suffix)
				if w.Sim.Get(key) == nil {
					w.Sim.Put(map[string]any{"apiVersion": r.GV(), "kind": r.Kind, "metadata": map[string]any{"name": relName + "-" + sl.Suffix, "namespace": nsName, "labels": map[string]any{"placed": "by-someone-else"}}})
				}
			}
		}
	}
	return w, next
}

// ---------------------------------------------------------------- observation

type obs struct {
	byClass   map[string]int // done-events per class in the window
	mutations []sim.Event
	stWrites  []sim.Event
	all       []sim.Event // done events of the window
	foreign   int         // done events whose agent is neither the op tag nor the shared discovery client
}

func window(w *env.World, from int64, agent string) obs {
	o := obs{byClass: map[string]int{}}
	for _, e := range w.Sim.Log() {
		if e.Seq <= from || e.Phase != "done" {
			continue
		}
		o.all = append(o.all, e)
		o.byClass[e.Class]++
		if e.Agent != agent && e.Agent != "discovery" {
			o.foreign++
		}
		switch {
		case e.Class == "mutation":
			o.mutations = append(o.mutations, e)
		case e.Class == "storage" && e.Method != "GET":
			o.stWrites = append(o.stWrites, e)
		}
	}
	return o
}

// role names what a request addressed (stable cause shape for signatures).
func role(e sim.Event) string {
	switch {
	case e.Class == "storage":
		return "release-record"
	case e.Kind == "Namespace":
		return "namespace"
	case e.Kind == "CustomResourceDefinition":
		return "crd"
	case strings.Contains(e.Name, "hook"):
		return "hook-object"
	case e.Name == relName+"-postrendered":
		return "post-rendered-resource"
	}
	return "manifest-resource"
}

func roleOfKey(k string) string {
	switch {
	case strings.Contains(k, "sh.helm.release.v1."):
		return "release-record"
	case strings.Contains(k, "/namespaces/"):
		return "namespace"
	case strings.Contains(k, "customresourcedefinitions"):
		return "crd"
	case strings.Contains(k, "hook"):
		return "hook-object"
	}
	return "manifest-resource"
}

func diffSnap(a, b map[string]string) []string {
	var d []string
	for k, v := range a {
		if bv, ok := b[k]; !ok {
			d = append(d, "removed "+roleOfKey(k)+" ("+k+")")
		} else if bv != v {
			d = append(d, "changed "+roleOfKey(k)+" ("+k+")")
		}
	}
	for k := range b {
		if _, ok := a[k]; !ok {
			d = append(d, "added "+roleOfKey(k)+" ("+k+")")
		}
	}
	sort.Strings(d)
	return d
}

func diffLedger(a, b []env.Rec) []string {
	var d []string
	am, bm := map[int]env.Rec{}, map[int]env.Rec{}
	for _, r := range a {
		am[r.Revision] = r
	}
	for _, r := range b {
		bm[r.Revision] = r
	}
	for rev, ra := range am {
		rb, ok := bm[rev]
		if !ok {
			d = append(d, "record removed")
			continue
		}
		va, vb := reflect.ValueOf(ra), reflect.ValueOf(rb)
		for i := 0; i < va.NumField(); i++ {
			if !reflect.DeepEqual(va.Field(i).Interface(), vb.Field(i).Interface()) {
				d = append(d, "record field "+va.Type().Field(i).Name+" changed")
			}
		}
	}
	for rev := range bm {
		if _, ok := am[rev]; !ok {
			d = append(d, "record added")
		}
	}
	sort.Strings(d)
	return d
}

func uniq(xs []string, cut bool) []string {
	seen := map[string]bool{}
	var out []string
	for _, x := range xs {
		if cut {
			if i := strings.Index(x, " ("); i >= 0 {
				x = x[:i]
			}
		}
		if !seen[x] {
			seen[x] = true
			out = append(out, x)
		}
	}
	return out
}

func errStr(err error) string {
	if err == nil {
		return "nil"
	}
	s := err.Error()
	if len(s) > 160 {
		s = s[:160] + "..."
	}
	return s
}

// ---------------------------------------------------------------- Run

func run(c core.Case, verbose bool) core.Result {
	env.Quiet()
	var d caseData
	core.U(c, &d)
	if d.Kind == "cli" {
		return runCLI(c, d, verbose)
	}
	var res core.Result
	rng := rand.New(rand.NewSource(d.CSeed))
	fam := gen.NewFamily(rng, gen.FamilyOpts{Versions: 3, MaxSlots: 7, Hooks: true, Keep: true})

	tmp, err := os.MkdirTemp("", "c06-")
	if err != nil {
		res.Inconclusive = "cannot create temp dir: " + err.Error()
		return res
	}
	defer os.RemoveAll(tmp)

	// the world the dry runs share: they must leave it exactly as it is
	w, next := prepare(d, fam)
	ledger0, _ := w.Ledger(relName)
	stateLabel := d.State
	if d.State == shapedState {
		if got := ledgerStatuses(ledger0); !reflect.DeepEqual(got, d.Shape) {
			res.Inconclusive = fmt.Sprintf("shaped history not established: want %v, raw ledger has [%s]", d.Shape, env.LedgerString(ledger0))
			return res
		}
		stateLabel = shapedState + ":" + strings.Join(d.Shape, ",")
		res.Stat("shaped_cases", 1)
	}
	if verbose {
		fmt.Printf("case %s: kind=%s driver=%s state=%s collide=%v ledger=[%s] chart version for the op=%d, %d flag combinations\n",
			c.ID, d.Kind, d.Driver, d.State, d.Collide, env.LedgerString(ledger0), next, len(d.Combos))
	}
	sampleOps := []string{}

	for ci, mask := range d.Combos {
		f := flags{d.Kind, mask}

		// ---- positive control on an identically prepared world, dry-run off
		cw, _ := prepare(d, fam)
		cf := f.without("hideSecret") // HideSecret is refused outside dry-run
		cspell := controlSpellings[ci%len(controlSpellings)]
		cKind := "real"
		if d.Kind == "rollback" || d.Kind == "uninstall" {
			cspell = ""
		}
		if d.Kind == "template" {
			// control for "no request at all": the same template with cluster validation
			// (ClientOnly off) must be seen sending requests; control for writes: see install.
			cf.mask |= 1 // validate
			cspell, cKind = "flag+true", "validating-template"
		}
		cfrom := cw.Sim.Tick()
		var cerr error
		core.Guard(&res, "control "+d.Kind, func() { cerr = execOp(cw, "ctl", cf, cspell, chartFiles(fam, next).Build(), tmp) })
		co := window(cw, cfrom, "ctl")
		res.Evals++
		wrote := len(co.mutations) > 0 || len(co.stWrites) > 0
		if cKind == "real" {
			res.Stat("control_ops_"+d.Kind, 1)
			res.Stat("control_mutations_"+d.Kind, int64(len(co.mutations)))
			res.Stat("control_storage_writes_"+d.Kind, int64(len(co.stWrites)))
			res.Stat("control_storage_writes_driver_"+d.Driver, int64(len(co.stWrites)))
			if wrote {
				res.Stat("control_ops_that_wrote_"+d.Kind, 1)
			}
		} else {
			res.Stat("control_validating_template_ops", 1)
			res.Stat("control_validating_template_requests", int64(len(co.all)))
		}
		if verbose {
			fmt.Printf("  combo %d [%s]: control (%s, dry=%q) err=%s requests=%v mutations=%d storage-writes=%d\n", ci, f, cKind, cspell, errStr(cerr), co.byClass, len(co.mutations), len(co.stWrites))
		}

		// ---- the dry runs
		for _, sp := range spellingsOf[d.Kind] {
			if d.Only != "" && d.Only != fmt.Sprintf("%d:%s", ci, sp) {
				continue
			}
			if sp == "clientonly-off" && f.on("validate") {
				continue // without ClientOnly that is simply a real install
			}
			agent := fmt.Sprintf("dry%d-%s", ci, sp)
			snapBefore := w.Sim.Snapshot()
			ledBefore, _ := w.Ledger(relName)
			from := w.Sim.Tick()
			var oerr error
			core.Guard(&res, d.Kind+" dry="+sp, func() { oerr = execOp(w, agent, f, sp, chartFiles(fam, next).Build(), tmp) })
			o := window(w, from, agent)
			snapAfter := w.Sim.Snapshot()
			ledAfter, bad := w.Ledger(relName)
			res.Evals++
			res.Stat("dry_ops_"+d.Kind, 1)
			if d.State == shapedState {
				last, older := shapeClass(d.Shape)
				res.Stat("shaped_dry_ops_"+d.Kind, 1)
				if older >= 2 || (older == 1 && last == "deployed") {
					res.Stat("shaped_dry_ops_several_deployed", 1)
					if last != "deployed" {
						res.Stat("shaped_dry_ops_several_deployed_below_other_latest_"+d.Kind, 1)
					}
				}
				if release.Status(last).IsPending() || last == "uninstalling" {
					res.Stat("shaped_dry_ops_latest_in_transition", 1)
				}
				if wrote {
					res.Stat("shaped_dry_ops_nontrivial", 1)
				}
			}
			for cl, n := range o.byClass {
				res.Stat("dry_requests_inspected_"+cl, int64(n))
			}
			res.Stat("dry_requests_foreign_agent", int64(o.foreign))
			clientOnly := d.Kind == "template" && !f.on("validate")
			ctx := fmt.Sprintf("%s dry=%s", d.Kind, sp)
			if clientOnly {
				ctx = "client-only " + ctx
			}
			detail := func() string {
				return fmt.Sprintf("driver %s, ledger before [%s], collide=%v, flags [%s], err=%s, requests in window %v", d.Driver, env.LedgerString(ledBefore), d.Collide, f, errStr(oerr), o.byClass)
			}
			for _, e := range o.mutations {
				res.Add("mutation-in-dry-run", fmt.Sprintf("%s: %s %s", ctx, e.Method, role(e)), "%s %s %s/%s -> %d | %s", e.Method, e.Path, e.Kind, e.Name, e.Code, detail())
			}
			for _, e := range o.stWrites {
				res.Add("storage-write-in-dry-run", fmt.Sprintf("%s: %s %s", ctx, e.Method, role(e)), "%s %s -> %d | %s", e.Method, e.Path, e.Code, detail())
			}
			if ds := diffSnap(snapBefore, snapAfter); len(ds) > 0 {
				for _, x := range uniq(ds, true) {
					res.Add("cluster-changed", ctx+": "+x, "object store differs after the dry run: %s | %s", strings.Join(ds, "; "), detail())
				}
			}
			if dl := diffLedger(ledBefore, ledAfter); len(dl) > 0 || len(bad) > 0 {
				for _, x := range uniq(dl, false) {
					res.Add("ledger-changed", fmt.Sprintf("%s driver=%s: %s", ctx, d.Driver, x), "raw ledger differs after the dry run: [%s] -> [%s] (%s) | %s", env.LedgerString(ledBefore), env.LedgerString(ledAfter), strings.Join(dl, "; "), detail())
				}
			}
			if clientOnly {
				res.Stat("client_only_ops", 1)
				strict := sp == "flag" || sp == "flag+true" || sp == "flag+client"
				if strict {
					res.Stat("client_only_ops_strict", 1)
					if len(o.all) > 0 {
						e := o.all[0]
						res.Add("client-only-request", fmt.Sprintf("%s: %s request", ctx, e.Class), "client-only template sent %d requests, first: %s %s (agent %s) | %s", len(o.all), e.Method, e.Path, e.Agent, detail())
					}
				}
			}
			if wrote || (d.Kind == "template" && len(co.all) > 0) {
				res.Stat("dry_ops_nontrivial", 1)
				res.Key("%s|%s|%s|%s|%s", d.Kind, d.Driver, stateLabel, sp, f)
			}
			if verbose {
				fmt.Printf("    dry=%-11s err=%s requests=%v mutations=%d storage-writes=%d snapshot-diff=%d\n", sp, errStr(oerr), o.byClass, len(o.mutations), len(o.stWrites), len(diffSnap(snapBefore, snapAfter)))
			}
			if len(sampleOps) < 4 {
				sampleOps = append(sampleOps, fmt.Sprintf("%s dry=%s flags[%s] err=%s requests=%v | control dry=%q mutations=%d storage-writes=%d", d.Kind, sp, f, errStr(oerr), o.byClass, cspell, len(co.mutations), len(co.stWrites)))
			}
		}
	}
	if strings.HasSuffix(c.ID, "-0") {
		res.Sample = map[string]any{"kind": d.Kind, "state": stateLabel, "driver": d.Driver, "ledger_before": env.LedgerString(ledger0), "collide": d.Collide, "ops": sampleOps}
	}
	return res
}

// ---------------------------------------------------------------- Post

func post(a *core.Agg) string {
	var miss []string
	for _, k := range []string{"install", "upgrade", "rollback", "uninstall"} {
		if a.Stats["control_mutations_"+k] == 0 {
			miss = append(miss, "no cluster mutation seen in any non-dry "+k)
		}
		if a.Stats["control_storage_writes_"+k] == 0 {
			miss = append(miss, "no storage write seen in any non-dry "+k)
		}
		if a.Stats["dry_ops_"+k] == 0 {
			miss = append(miss, "no dry-run "+k+" executed")
		}
	}
	for _, drv := range drivers {
		if a.Stats["control_storage_writes_driver_"+drv] == 0 {
			miss = append(miss, "no storage write seen on driver "+drv)
		}
	}
	if a.Stats["control_validating_template_requests"] == 0 {
		miss = append(miss, "validating template (control for the client-only clause) sent no visible request")
	}
	if a.Stats["cli_control_ops_that_wrote"] == 0 {
		miss = append(miss, "no `helm install` through the CLI route was seen writing (mutations and storage writes)")
	}
	if a.Stats["cli_unusual_value_ops"] == 0 {
		miss = append(miss, "no CLI invocation with an unusual --dry-run value executed")
	}
	if a.Stats["cli_dry_ops_template"] == 0 {
		miss = append(miss, "no `helm template` executed through the CLI route")
	}
	if a.Stats["client_only_ops_strict"] == 0 {
		miss = append(miss, "no client-only template executed")
	}
	for _, k := range shapedKinds {
		if a.Stats["shaped_dry_ops_"+k] == 0 {
			miss = append(miss, "no dry-run "+k+" executed on a shaped history")
		}
		if a.Stats["shaped_dry_ops_several_deployed_below_other_latest_"+k] == 0 {
			miss = append(miss, "no dry-run "+k+" executed on a history with several deployed revisions below a latest revision that is not deployed")
		}
	}
	if a.Stats["shaped_dry_ops_latest_in_transition"] == 0 {
		miss = append(miss, "no dry run executed on a history whose latest revision is pending or uninstalling")
	}
	if a.Stats["shaped_dry_ops_nontrivial"] == 0 {
		miss = append(miss, "no dry run on a shaped history had a writing positive control")
	}
	if a.Stats["dry_ops_nontrivial"] < 100 {
		miss = append(miss, fmt.Sprintf("only %d dry runs had a writing positive control", a.Stats["dry_ops_nontrivial"]))
	}
	if len(miss) > 0 {
		return "positive controls missing: " + strings.Join(miss, "; ")
	}
	return ""
}
