package c16

import (
	"bufio"
	"fmt"
	"os"
	"path/filepath"
	"regexp"
	"strconv"
	"strings"

	"helm.sh/helm/v4/verifh/core"
)

// Secondary monitor of the thorough tier: the strace -f -e trace=%file log of a worker.
//
// Every call into helm is bracketed by two marker syscalls (lstat of a path that does not exist):
//
//	/c16-mark/begin|<caseID>|<idx>|<entry>|<P>|<allowed dir>:<allowed dir>...
//	(allowed = the destination as handed to helm, its resolved target, TMPDIR)
//	/c16-mark/end|...
//
// Between the markers every successful path-taking syscall is located lexically (absolute, or
// relative to the sandbox cwd) and judged:
//   - a creating/modifying call (open with a write/create flag, mkdir, unlink, rename, link,
//     symlink, chmod, chown, truncate, utime, mknod, rmdir, setxattr) anywhere except below an
//     allowed directory is a finding, also outside the sandbox;
//   - an open for reading below the sibling zone or the absolute canary dir is a finding
//     (nothing there is ever named by the caller);
//   - stat-family calls are counted only.
//
// Limits (stated in DESIGN.md): accesses through a symlink whose path string stays inside the
// destination are invisible here (the snapshot diff covers their effects); dirfd-relative paths
// (unlinkat(fd, "name") of os.RemoveAll) are not resolvable and only counted.

var (
	straceLine = regexp.MustCompile(`^(\d+)\s+([a-z0-9_]+)\((.*)\)\s+=\s+(-?\d+|\?)`)
	quoted     = regexp.MustCompile(`"((?:[^"\\]|\\.)*)"`)
	pidPrefix  = regexp.MustCompile(`^(\d+)\s+(.*)$`)
	resumedRe  = regexp.MustCompile(`^<\.\.\. (\w+) resumed>(.*)$`)
)

var modifyingCalls = map[string]bool{"creat": true, "mkdir": true, "mkdirat": true, "unlink": true, "unlinkat": true,
	"rename": true, "renameat": true, "renameat2": true, "link": true, "linkat": true, "symlink": true, "symlinkat": true, "chmod": true, "fchmodat": true, "fchmodat2": true,
	"chown": true, "lchown": true, "fchownat": true, "truncate": true, "utime": true, "utimes": true, "utimensat": true, "futimesat": true, "mknod": true, "mknodat": true,
	"rmdir": true, "setxattr": true, "lsetxattr": true, "removexattr": true, "lremovexattr": true}

var openCalls = map[string]bool{"open": true, "openat": true, "openat2": true}

func (rc *runCtx) markSB(kind, entry string, sb *sandbox) {
	if rc.markers {
		os.Lstat(fmt.Sprintf("/c16-mark/%s|%s|%d|%s|%s|%s", kind, rc.caseID, rc.idx, strings.ReplaceAll(entry, " ", "_"), sb.P, strings.Join(append([]string{sb.Dest}, sb.Allowed...), ":")))
	}
}

func under(p, dir string) bool { return p == dir || strings.HasPrefix(p, dir+"/") }

// scanStrace returns counters and reports findings through report.
func scanStrace(files []string, report func(caseID string, only int, v core.Violation)) map[string]int64 {
	st := map[string]int64{}
	seen := map[string]bool{}
	for _, f := range files {
		fh, err := os.Open(f)
		if err != nil {
			continue
		}
		sc := bufio.NewScanner(fh)
		sc.Buffer(make([]byte, 1<<20), 1<<26)
		var cur []string // caseID, idx, entry, P, allowed   while inside a call into helm
		pending := map[string]string{}
		for sc.Scan() {
			line := sc.Text()
			// an interrupted call is logged as "pid call(args <unfinished ...>" and later
			// "pid <... call resumed>rest) = ret": stitch the halves together
			if pm := pidPrefix.FindStringSubmatch(line); pm != nil {
				pid, rest := pm[1], pm[2]
				if strings.HasSuffix(rest, "<unfinished ...>") {
					pending[pid] = strings.TrimSuffix(rest, "<unfinished ...>")
					continue
				}
				if rm := resumedRe.FindStringSubmatch(rest); rm != nil {
					head, ok := pending[pid]
					if !ok {
						head = rm[1] + "("
					}
					delete(pending, pid)
					line = pid + " " + head + rm[2]
				}
			}
			m := straceLine.FindStringSubmatch(line)
			if m == nil {
				continue
			}
			st["strace_file_syscalls_inspected"]++
			call, args, ret := m[2], m[3], m[4]
			if i := strings.Index(args, "/c16-mark/"); i >= 0 {
				rest := args[i+len("/c16-mark/"):]
				if j := strings.IndexByte(rest, '"'); j >= 0 {
					rest = rest[:j]
				}
				parts := strings.Split(rest, "|")
				if parts[0] == "begin" && len(parts) == 6 {
					cur = parts[1:]
					st["strace_helm_calls_bracketed"]++
				} else {
					cur = nil
				}
				continue
			}
			if cur == nil {
				continue
			}
			st["strace_file_syscalls_inside_helm_calls"]++
			if ret == "?" || strings.HasPrefix(ret, "-") {
				continue
			}
			caseID, entry, P := cur[0], cur[2], cur[3]
			only, _ := strconv.Atoi(cur[1])
			allowed := strings.Split(cur[4], ":")
			S := filepath.Join(P, "l1", "l2", "l3", "l4", "l5", "l6", "S")
			qs := quoted.FindAllStringSubmatch(args, -1)
			var paths []string
			for _, q := range qs {
				paths = append(paths, q[1])
			}
			switch call {
			case "symlink", "symlinkat":
				if len(paths) > 1 {
					paths = paths[len(paths)-1:]
				}
			case "readlink", "readlinkat":
				if len(paths) > 1 {
					paths = paths[:1]
				}
			}
			writeish := modifyingCalls[call]
			readOpen := false
			if openCalls[call] {
				if strings.Contains(args, "O_WRONLY") || strings.Contains(args, "O_RDWR") || strings.Contains(args, "O_CREAT") || strings.Contains(args, "O_TRUNC") || strings.Contains(args, "O_APPEND") {
					writeish = true
				} else {
					readOpen = true
				}
			}
			for _, p := range paths {
				if !filepath.IsAbs(p) {
					if strings.HasSuffix(call, "at") || strings.HasSuffix(call, "at2") {
						if !strings.HasPrefix(args, "AT_FDCWD") {
							st["strace_dirfd_relative_paths_not_resolved"]++
							continue
						}
					}
					p = filepath.Join(S, "cwd", p)
				}
				p = filepath.Clean(p)
				ok := false
				for _, a := range allowed {
					if a != "" && under(p, a) {
						ok = true
					}
				}
				if ok {
					st["strace_accesses_inside_allowed_dirs"]++
					continue
				}
				zone := ""
				switch {
				case under(p, filepath.Join(P, "canary-zone")):
					zone = "absolute canary dir"
				case under(p, filepath.Join(S, "outside-zone")):
					zone = "sibling of dest"
				case under(p, filepath.Join(S, "cwd")):
					zone = "cwd"
				case under(p, filepath.Join(S, "in")):
					zone = "input dir"
				case under(p, filepath.Join(S, "home")):
					zone = "helm home"
				case p == filepath.Join(S, "dest"):
					zone = "dest symlink itself"
				case under(p, S):
					zone = "parent of dest"
				case under(p, P):
					zone = "ancestors of dest"
				default:
					zone = "outside the sandbox"
				}
				what := ""
				switch {
				case writeish && zone == "outside the sandbox" && (strings.HasPrefix(p, "/dev/") || strings.HasPrefix(p, "/proc/")):
					// /dev/null, /proc/self/... of the Go runtime
				case writeish:
					what = "creating/modifying call"
				case readOpen && (zone == "absolute canary dir" || zone == "sibling of dest"):
					what = "open for reading"
				case zone == "absolute canary dir" || zone == "sibling of dest":
					st["strace_stat_family_calls_on_canary_paths"]++
				}
				if what == "" {
					continue
				}
				st["strace_hits"]++
				sig := fmt.Sprintf("%s | %s outside the destination: %s", entry, what, zone)
				if seen[sig] {
					continue
				}
				seen[sig] = true
				report(caseID, only, core.Violation{Clause: "strace-escape", Class: sig, Detail: fmt.Sprintf("during %s #%d %s (sandbox %s, allowed %v): %s", caseID, only, entry, P, allowed, line)})
			}
		}
		fh.Close()
	}
	return st
}
