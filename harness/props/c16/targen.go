package c16

import (
	"bytes"
	"compress/gzip"
	"fmt"
	"io"
	"math/rand"
	"strings"
)

// ent is one tar entry of a hostile archive. Names and link targets may contain the placeholders
// {CANARY} (absolute canary dir), {OUTSIDE} (absolute path of the sibling of dest) which are
// substituted when the sandbox exists. All targets stay inside the sandbox parent.
type ent struct {
	Name  string
	Type  byte
	Link  string
	Data  []byte
	Size  string // "" = len(Data) | "huge" | "over" (len+N) | "under" (len/2) | "neg" | "bin" (base-256 size)
	Enc   string // "" ustar name(+prefix) | "pax" | "gnu" | "trunc" (name cut at 100 bytes)
	Mode  int64
	Shape string // name-shape class (hostile entries only)
}

func pick[T any](rng *rand.Rand, xs []T) T { return xs[rng.Intn(len(xs))] }

func octal(b []byte, v int64) {
	s := fmt.Sprintf("%0*o", len(b)-1, v)
	if len(s) > len(b)-1 {
		s = s[len(s)-(len(b)-1):]
	}
	copy(b, s)
}

// rawHeader builds one 512-byte ustar header block.
func rawHeader(name string, typ byte, link string, sizeField func([]byte), mode int64) []byte {
	h := make([]byte, 512)
	n := []byte(name)
	if len(n) > 100 {
		// try the ustar prefix split at a slash
		cut := -1
		for i := len(n) - 1; i > 0; i-- {
			if n[i] == '/' && i <= 155 && len(n)-i-1 <= 100 {
				cut = i
				break
			}
		}
		if cut > 0 {
			copy(h[345:500], n[:cut])
			n = n[cut+1:]
		} else {
			n = n[:100]
		}
	}
	copy(h[0:100], n)
	octal(h[100:108], mode)
	octal(h[108:116], 0)
	octal(h[116:124], 0)
	sizeField(h[124:136])
	octal(h[136:148], 1700000000)
	h[156] = typ
	l := []byte(link)
	if len(l) > 100 {
		l = l[:100]
	}
	copy(h[157:257], l)
	copy(h[257:265], "ustar\x0000")
	copy(h[265:297], "root")
	copy(h[297:329], "root")
	for i := 148; i < 156; i++ {
		h[i] = ' '
	}
	var sum int64
	for _, c := range h {
		sum += int64(c)
	}
	copy(h[148:156], fmt.Sprintf("%06o\x00 ", sum))
	return h
}

func pad512(b []byte) []byte {
	if r := len(b) % 512; r != 0 {
		b = append(b, make([]byte, 512-r)...)
	}
	return b
}

func paxRecord(k, v string) string {
	rec := fmt.Sprintf(" %s=%s\n", k, v)
	n := len(rec) + 1
	for len(fmt.Sprint(n))+len(rec) != n {
		n = len(fmt.Sprint(n)) + len(rec)
	}
	return fmt.Sprint(n) + rec
}

// writeTar serialises the entries with this package's own encoder so that every field the tar
// format can express (and archive/tar.Writer would refuse to write) is reachable.
func writeTar(ents []ent, sub func(string) string, endBlocks bool) []byte {
	var out []byte
	for _, e := range ents {
		name, link := sub(e.Name), sub(e.Link)
		size := int64(len(e.Data))
		sizeField := func(b []byte) { octal(b, size) }
		switch e.Size {
		case "huge":
			sizeField = func(b []byte) { copy(b, "77777777777") }
		case "over":
			sizeField = func(b []byte) { octal(b, size+5000) }
		case "under":
			sizeField = func(b []byte) { octal(b, size/2) }
		case "neg":
			sizeField = func(b []byte) {
				b[0] = 0xff
				for i := 1; i < len(b); i++ {
					b[i] = 0xff
				}
				b[len(b)-1] = 0xf0
			}
		case "bin":
			sizeField = func(b []byte) {
				b[0] = 0x80
				v := size
				for i := len(b) - 1; i > 0; i-- {
					b[i] = byte(v)
					v >>= 8
				}
			}
		}
		switch e.Enc {
		case "pax":
			rec := paxRecord("path", name)
			if link != "" {
				rec += paxRecord("linkpath", link)
			}
			out = append(out, rawHeader("PaxHeaders.0/entry", 'x', "", func(b []byte) { octal(b, int64(len(rec))) }, 0o644)...)
			out = append(out, pad512([]byte(rec))...)
			out = append(out, rawHeader("pax-placeholder", e.Type, "", sizeField, e.Mode)...)
		case "gnu":
			ln := name + "\x00"
			out = append(out, rawHeader("././@LongLink", 'L', "", func(b []byte) { octal(b, int64(len(ln))) }, 0o644)...)
			out = append(out, pad512([]byte(ln))...)
			if link != "" {
				lk := link + "\x00"
				out = append(out, rawHeader("././@LongLink", 'K', "", func(b []byte) { octal(b, int64(len(lk))) }, 0o644)...)
				out = append(out, pad512([]byte(lk))...)
			}
			out = append(out, rawHeader("gnu-placeholder", e.Type, "", sizeField, e.Mode)...)
		default:
			out = append(out, rawHeader(name, e.Type, link, sizeField, e.Mode)...)
		}
		switch e.Type {
		case '1', '2', '3', '4', '5', '6':
			// header-only types carry no data in well-formed archives; hostile ones may still
			if len(e.Data) > 0 {
				out = append(out, pad512(append([]byte{}, e.Data...))...)
			}
		default:
			out = append(out, pad512(append([]byte{}, e.Data...))...)
		}
	}
	if endBlocks {
		out = append(out, make([]byte, 1024)...)
	}
	return out
}

func gz(b []byte) []byte {
	var buf bytes.Buffer
	zw := gzip.NewWriter(&buf)
	zw.Write(b)
	zw.Close()
	return buf.Bytes()
}

func gunzip(b []byte) []byte {
	zr, err := gzip.NewReader(bytes.NewReader(b))
	if err != nil {
		return nil
	}
	out, _ := io.ReadAll(zr)
	return out
}

// ---------------------------------------------------------------- hostile grammar

// hostileName returns a name (relative to the archive root; pfx is "" or "<chart>/") and its
// shape class. up() never climbs more than 5 levels so that even a fully broken extractor stays
// inside the sandbox parent (dest lies 6 levels below it).
func hostileName(rng *rand.Rand) (string, string) {
	ups := func(sep string) string { return strings.Repeat(".."+sep, 1+rng.Intn(5)) }
	leaf := pick(rng, []string{"pwn", "pwn.yaml", "templates/pwn.yaml", "canary.txt", "Chart.yaml"})
	type g struct {
		shape string
		f     func() string
	}
	gs := []g{
		{"absolute", func() string { return "{CANARY}/" + leaf }},
		{"absolute", func() string { return "{OUTSIDE}/" + leaf }},
		{"absolute-double-slash", func() string { return "/{CANARY}/" + leaf }},
		{"dotdot-leading", func() string { return ups("/") + leaf }},
		{"dotdot-leading-to-sibling", func() string { return ups("/") + "outside-zone/" + leaf }},
		{"dotdot-inner", func() string { return "a/" + ups("/") + "../" + leaf }},
		{"dotdot-inner-deep", func() string { return "a/b/c/../../../" + ups("/") + leaf }},
		{"dotdot-after-dot", func() string { return "./" + ups("/") + leaf }},
		{"dotdot-double-slash", func() string { return "..//" + ups("/") + leaf }},
		{"dotdot-trailing", func() string { return "a/" + ups("/") + ".." }},
		{"backslash-dotdot", func() string { return ups("\\") + leaf }},
		{"backslash-dotdot-to-sibling", func() string { return ups("\\") + "outside-zone\\" + strings.ReplaceAll(leaf, "/", "\\") }},
		{"backslash-inner-dotdot", func() string { return "a\\" + ups("\\") + "..\\" + leaf }},
		{"mixed-separators", func() string { return "a/..\\../" + ups("/") + leaf }},
		{"mixed-separators", func() string { return "..\\/" + ups("/") + leaf }},
		{"mixed-separators", func() string { return "a\\b/../../" + ups("/") + leaf }},
		{"backslash-absolute", func() string { return "{CANARY_BS}\\" + leaf }},
		{"drive-slash", func() string { return "C:/" + leaf }},
		{"drive-backslash", func() string { return "c:\\" + leaf }},
		{"drive-relative-dotdot", func() string { return "C:" + ups("/") + leaf }},
		{"drive-backslash-dotdot", func() string { return "C:\\" + ups("\\") + leaf }},
		{"drive-after-backslash-prefix", func() string { return "x\\C:/" + ups("/") + leaf }},
		{"leading-dot-slash", func() string { return "./" + leaf }},
		{"leading-dot-slash", func() string { return "././" + leaf }},
		{"empty", func() string { return "" }},
		{"dot", func() string { return "." }},
		{"slash-only", func() string { return "/" }},
		{"trailing-slash-regular", func() string { return "sub/" }},
		{"trailing-dot", func() string { return "sub/." }},
		{"very-long-component", func() string { return strings.Repeat("L", 300) + "/" + leaf }},
		{"very-deep", func() string { return strings.Repeat("d/", 60) + leaf }},
		{"long-then-dotdot", func() string { return strings.Repeat("x", 120) + "/../" + ups("/") + leaf }},
		{"nul-in-name", func() string { return "a\x00/" + ups("/") + leaf }},
		{"nul-after-dotdot", func() string { return ups("/") + leaf + "\x00.txt" }},
		{"lookalike-fullwidth-dots", func() string { return "\uff0e\uff0e/" + leaf }},
		{"lookalike-two-dot-leader", func() string { return "\u2025/" + leaf }},
		{"lookalike-division-slash", func() string { return "..\u2215" + leaf }},
		{"percent-encoded", func() string { return "%2e%2e/" + leaf }},
		{"percent-encoded", func() string { return "..%2f" + leaf }},
		{"three-dots", func() string { return ".../" + leaf }},
		{"dotdot-prefix-component", func() string { return "..x/" + leaf }},
		{"top-level-only", func() string { return "pwn" }},
		{"chart-yaml-at-root", func() string { return "Chart.yaml" }},
		{"through-planted-link", func() string { return "link/" + leaf }},
		{"through-planted-link", func() string { return "sub/" + leaf }},
		{"onto-planted-file-link", func() string { return "new.txt" }},
		{"onto-planted-file-link", func() string { return "filelink" }},
	}
	x := pick(rng, gs)
	return x.f(), x.shape
}

var typeFlags = []struct {
	t    byte
	name string
}{
	{'0', "reg"}, {0, "regA"}, {'1', "hardlink"}, {'2', "symlink"}, {'3', "char"}, {'4', "block"}, {'5', "dir"}, {'6', "fifo"}, {'7', "cont"},
	{'S', "gnu-sparse"}, {'Z', "unknown-Z"}, {'V', "gnu-volume"}, {'x', "pax-header-as-entry"}, {'g', "pax-global"}, {'L', "gnu-longname-as-entry"},
}

func typeName(t byte) string {
	for _, f := range typeFlags {
		if f.t == t {
			return f.name
		}
	}
	return fmt.Sprintf("type-%d", t)
}

// archiveSpec is one generated archive: benign base entries + hostile entries.
type archiveSpec struct {
	Kind    string // chart | plugin
	Chart   string // chart directory / name
	Ents    []ent
	Tags    []string // cause-shape tags of the hostile features
	NoEnd   bool     // no end-of-archive blocks
	Mutated bool
}

const chartName = "mychart"

func baseChartEnts(pfx string) []ent {
	return []ent{
		{Name: pfx + "Chart.yaml", Type: '0', Data: []byte("apiVersion: v2\nname: " + chartName + "\nversion: 1.0.0\n"), Mode: 0o644},
		{Name: pfx + "values.yaml", Type: '0', Data: []byte("a: 1\n"), Mode: 0o644},
		{Name: pfx + "templates/cm.yaml", Type: '0', Data: []byte("kind: ConfigMap\n"), Mode: 0o644},
		{Name: pfx + "link/inner.txt", Type: '0', Data: []byte("through link\n"), Mode: 0o644},
		{Name: pfx + "sub/inner.txt", Type: '0', Data: []byte("through sub\n"), Mode: 0o644},
		{Name: pfx + "new.txt", Type: '0', Data: []byte("PWNED-new\n"), Mode: 0o644},
		{Name: pfx + "filelink", Type: '0', Data: []byte("PWNED-filelink\n"), Mode: 0o644},
	}
}

func basePluginEnts() []ent {
	es := []ent{{Name: "plugin.yaml", Type: '0', Data: []byte("name: myplugin\nversion: 0.1.0\ncommand: $HELM_PLUGIN_DIR/run.sh\n"), Mode: 0o644}}
	for _, e := range baseChartEnts("")[1:] {
		es = append(es, e)
	}
	return es
}

func genArchive(rng *rand.Rand, kind string) archiveSpec {
	a := archiveSpec{Kind: kind, Chart: chartName}
	pfx := chartName + "/"
	if kind == "plugin" {
		pfx = ""
		a.Ents = basePluginEnts()
	} else {
		a.Ents = baseChartEnts(pfx)
	}
	// directory entries first, as tar(1) writes them (always for plugin archives: the plugin
	// extractor does not create parent directories, without them it would stop at the first
	// nested benign entry and never reach the hostile ones)
	if kind == "plugin" || rng.Intn(2) == 0 {
		dirs := []ent{{Name: pfx + "templates/", Type: '5', Mode: 0o755}, {Name: pfx + "link/", Type: '5', Mode: 0o755}, {Name: pfx + "sub/", Type: '5', Mode: 0o755}}
		if pfx != "" {
			dirs = append([]ent{{Name: pfx, Type: '5', Mode: 0o755}}, dirs...)
		}
		a.Ents = append(dirs, a.Ents...)
		a.Tags = append(a.Tags, "with-dir-entries")
	}
	nh := 1 + rng.Intn(2)
	var hostile []ent
	for i := 0; i < nh; i++ {
		n, shape := hostileName(rng)
		e := ent{Type: '0', Data: []byte("PWNED by " + shape + "\n"), Mode: 0o644, Shape: shape}
		// with or without the chart directory in front
		switch rng.Intn(4) {
		case 0:
			e.Name = n
			shape = "bare:" + shape
		default:
			e.Name = pfx + n
		}
		tf := typeFlags[0]
		if rng.Intn(3) == 0 {
			tf = pick(rng, typeFlags)
		}
		e.Type = tf.t
		switch tf.name {
		case "symlink", "hardlink":
			e.Link = pick(rng, []string{"{CANARY}", "{OUTSIDE}", "../outside-zone", "../../outside-zone/canary.txt", "{CANARY}/canary.txt", "..", "/", "."})
			e.Data = nil
			// a follow-up entry that tries to write through the link just created
			hostile = append(hostile, e)
			e2 := ent{Name: e.Name + "/" + "pwn-through-archive-link", Type: '0', Data: []byte("PWNED through archive link\n"), Mode: 0o644, Shape: shape}
			if rng.Intn(2) == 0 {
				e2.Name = e.Name // same name again as a regular file: written onto the link?
			}
			a.Tags = append(a.Tags, "type:"+tf.name+"+follow-up", "name:"+shape)
			hostile = append(hostile, e2)
			continue
		case "dir", "char", "block", "fifo":
			e.Data = nil
		}
		switch rng.Intn(12) {
		case 0:
			e.Size = "huge"
		case 1:
			e.Size = "over"
		case 2:
			e.Size = "under"
		case 3:
			e.Size = "neg"
		case 4:
			e.Size = "bin"
		}
		switch rng.Intn(6) {
		case 0:
			e.Enc = "pax"
		case 1:
			e.Enc = "gnu"
		}
		if e.Mode == 0o644 && rng.Intn(6) == 0 {
			e.Mode = pick(rng, []int64{0o4755, 0o777, 0, 0o2777})
		}
		if len(e.Name) > 100 && e.Enc == "" {
			e.Enc = pick(rng, []string{"pax", "gnu"})
		}
		tag := "name:" + shape
		if tf.name != "reg" {
			tag += "+type:" + tf.name
		}
		if e.Size != "" {
			tag += "+size:" + e.Size
		}
		if e.Enc != "" {
			tag += "+enc:" + e.Enc
		}
		a.Tags = append(a.Tags, tag)
		hostile = append(hostile, e)
	}
	// position: hostile entries before, between or after the benign ones; optionally duplicated
	switch rng.Intn(3) {
	case 0:
		a.Ents = append(hostile, a.Ents...)
	case 1:
		a.Ents = append(a.Ents, hostile...)
	default:
		k := rng.Intn(len(a.Ents) + 1)
		a.Ents = append(append(append([]ent{}, a.Ents[:k]...), hostile...), a.Ents[k:]...)
	}
	if rng.Intn(8) == 0 {
		a.Ents = append(a.Ents, hostile[0])
		a.Tags = append(a.Tags, "duplicate-entry")
	}
	if rng.Intn(10) == 0 {
		a.NoEnd = true
	}
	return a
}

func (a archiveSpec) bytes(sub func(string) string) []byte {
	return gz(writeTar(a.Ents, sub, !a.NoEnd))
}

func (a archiveSpec) listing(sub func(string) string) string {
	var b strings.Builder
	for _, e := range a.Ents {
		fmt.Fprintf(&b, "\n    %-12s %q", typeName(e.Type), sub(e.Name))
		if e.Link != "" {
			fmt.Fprintf(&b, " -> %q", sub(e.Link))
		}
		fmt.Fprintf(&b, " %dB", len(e.Data))
		if e.Size != "" {
			fmt.Fprintf(&b, " size-field=%s", e.Size)
		}
		if e.Enc != "" {
			fmt.Fprintf(&b, " enc=%s", e.Enc)
		}
		if e.Shape != "" {
			fmt.Fprintf(&b, "   <== hostile (%s)", e.Shape)
		}
	}
	s := b.String()
	if len(s) > 2500 {
		s = s[:2500] + "..."
	}
	return s
}

// ---------------------------------------------------------------- byte-level mutants

// mutateTar applies structure-aware byte mutations to the raw tar stream of a valid package.
func mutateTar(rng *rand.Rand, tarBytes []byte, canary, outside string) ([]byte, string) {
	t := append([]byte{}, tarBytes...)
	// header offsets: walk the stream
	var hdrs []int
	for off := 0; off+512 <= len(t); {
		if bytes.Equal(t[off:off+512], make([]byte, 512)) {
			break
		}
		hdrs = append(hdrs, off)
		var size int64
		fmt.Sscanf(strings.TrimRight(string(t[off+124:off+135]), "\x00 "), "%o", &size)
		off += 512 + int((size+511)/512*512)
	}
	if len(hdrs) == 0 {
		return t, "mutant:none"
	}
	h := hdrs[rng.Intn(len(hdrs))]
	fix := func() {
		for i := 148; i < 156; i++ {
			t[h+i] = ' '
		}
		var sum int64
		for _, c := range t[h : h+512] {
			sum += int64(c)
		}
		copy(t[h+148:h+156], fmt.Sprintf("%06o\x00 ", sum))
	}
	setName := func(n string) {
		for i := 0; i < 100; i++ {
			t[h+i] = 0
		}
		copy(t[h:h+100], n)
	}
	kind := ""
	switch rng.Intn(10) {
	case 0:
		kind = "name-spliced-dotdot"
		old := strings.TrimRight(string(t[h:h+100]), "\x00")
		i := rng.Intn(len(old) + 1)
		setName(old[:i] + pick(rng, []string{"/../../", "../", "\\..\\..\\", "/..", "//"}) + old[i:])
		fix()
	case 1:
		kind = "name-replaced-absolute"
		setName(pick(rng, []string{canary, outside}) + "/pwn")
		fix()
	case 2:
		kind = "name-replaced-dotdot-to-sibling"
		setName(chartName + "/" + strings.Repeat("../", 1+rng.Intn(4)) + "outside-zone/pwn")
		fix()
	case 3:
		kind = "typeflag-changed"
		t[h+156] = pick(rng, []byte{'1', '2', '3', '5', '6', 'x', 'g', 'L', 'K', 'S', 'Z'})
		copy(t[h+157:h+257], pick(rng, []string{outside, canary, "../outside-zone"}))
		fix()
	case 4:
		kind = "size-field-changed"
		copy(t[h+124:h+136], pick(rng, []string{"77777777777\x00", "00000000000\x00", "00000001000\x00", "\xff\xff\xff\xff\xff\xff\xff\xff\xff\xff\xff\xf0"}))
		fix()
	case 5:
		kind = "prefix-field-set"
		copy(t[h+345:h+500], pick(rng, []string{"..", "../..", strings.TrimPrefix(canary, "/"), canary, chartName + "/../.."}))
		fix()
	case 6:
		kind = "random-header-bytes-checksum-fixed"
		for i := 0; i < 1+rng.Intn(4); i++ {
			t[h+rng.Intn(100)] = byte(rng.Intn(256))
		}
		fix()
	case 7:
		kind = "random-bytes-anywhere"
		for i := 0; i < 1+rng.Intn(8); i++ {
			t[rng.Intn(len(t))] = byte(rng.Intn(256))
		}
	case 8:
		kind = "truncated"
		t = t[:rng.Intn(len(t))]
	case 9:
		kind = "entry-duplicated-with-dotdot-name"
		blk := append([]byte{}, t[h:h+512]...)
		for i := 0; i < 100; i++ {
			blk[i] = 0
		}
		copy(blk, chartName+"/../../outside-zone/pwn")
		for i := 124; i < 136; i++ {
			blk[i] = '0'
		}
		blk[135] = 0
		for i := 148; i < 156; i++ {
			blk[i] = ' '
		}
		var sum int64
		for _, c := range blk {
			sum += int64(c)
		}
		copy(blk[148:156], fmt.Sprintf("%06o\x00 ", sum))
		t = append(append(append([]byte{}, t[:h]...), blk...), t[h:]...)
	}
	return t, "mutant:" + kind
}

// mutateGz flips bytes of the compressed stream.
func mutateGz(rng *rand.Rand, gzBytes []byte) ([]byte, string) {
	g := append([]byte{}, gzBytes...)
	switch rng.Intn(3) {
	case 0:
		for i := 0; i < 1+rng.Intn(4); i++ {
			g[rng.Intn(len(g))] ^= byte(1 << uint(rng.Intn(8)))
		}
		return g, "mutant:gzip-bitflips"
	case 1:
		return g[:rng.Intn(len(g))], "mutant:gzip-truncated"
	default:
		// second gzip member appended (multistream): a complete hostile tar follows the valid one
		extra := gz(writeTar([]ent{{Name: chartName + "/../../outside-zone/pwn", Type: '0', Data: []byte("PWNED multistream\n"), Mode: 0o644}}, func(s string) string { return s }, true))
		return append(g, extra...), "mutant:gzip-second-member"
	}
}
