package c16

import (
	"bytes"
	"fmt"
	"math/rand"
	"os"
	"path/filepath"
	"sort"
	"strings"

	chartutil "helm.sh/helm/v4/pkg/chart/v2/util"
	"helm.sh/helm/v4/pkg/plugin/installer"
)

// Workload "aimed": entry names that LOOK harmless (no '..', not absolute, no drive prefix) but
// name a path whose first (or only) component is a symlink already present in the destination,
// written in every spelling of the component boundary the consumers treat as a separator:
// '/', '\', doubled and mixed separators, '/./' and '\.\', a leading './' or '.\', a trailing
// separator. The statement quantifies over "backslashes ... or symlinks already present in the
// destination" jointly; the random grammar of targen.go pairs backslashes only with '..' chains
// and aims at planted links only with '/'. Here the name is derived from the links that are
// really there: the layout is planted first, the symlinks directly below the archive root (or
// the root itself) are listed, and one of them becomes the aimed component.
//
// Oracle: the generic one of observe (nothing outside the destination changes, whatever the
// call returns). Nothing is demanded about acceptance or rejection.

// joinSpelling is one way to write "<component><boundary><leaf>".
type joinSpelling struct {
	name string
	f    func(c, l string) string
	bs   bool // a backslash is (part of) a boundary next to the aimed component
}

var dirJoinSpellings = []joinSpelling{
	{"C/L (control)", func(c, l string) string { return c + "/" + l }, false},
	{`C\L`, func(c, l string) string { return c + `\` + l }, true},
	{"C//L", func(c, l string) string { return c + "//" + l }, false},
	{`C\\L`, func(c, l string) string { return c + `\\` + l }, true},
	{"C/./L", func(c, l string) string { return c + "/./" + l }, false},
	{`C\.\L`, func(c, l string) string { return c + `\.\` + l }, true},
	{`C\/L`, func(c, l string) string { return c + `\/` + l }, true},
	{`C/\L`, func(c, l string) string { return c + `/\` + l }, true},
	{`./C\L`, func(c, l string) string { return "./" + c + `\` + l }, true},
	{`.\C\L`, func(c, l string) string { return `.\` + c + `\` + l }, true},
	{`.\C/L`, func(c, l string) string { return `.\` + c + "/" + l }, true},
	{`C\L with a nested leaf`, func(c, l string) string { return c + `\deep\` + l }, true},
	{`C\L then '/'`, func(c, l string) string { return c + `\deep/` + l }, true},
}

// fileJoinSpellings: the aimed component is the final one (a symlink planted at a file's path).
var fileJoinSpellings = []joinSpelling{
	{"F (control)", func(c, _ string) string { return c }, false},
	{"./F", func(c, _ string) string { return "./" + c }, false},
	{`.\F`, func(c, _ string) string { return `.\` + c }, true},
	{"F/", func(c, _ string) string { return c + "/" }, false},
	{`F\`, func(c, _ string) string { return c + `\` }, true},
	{`F\.`, func(c, _ string) string { return c + `\.` }, true},
	{`.\.\F`, func(c, _ string) string { return `.\.\` + c }, true},
	{`.//F`, func(c, _ string) string { return ".//" + c }, false},
}

// aimedLayouts are the destination layouts that plant at least one symlink below the archive root
// (or make the root itself one); "empty" is the control.
var aimedLayouts = []string{"chartdir->sibling", "chartdir->abs-canary", "chartdir->dotdot", "chartdir->dotdotdotdot",
	"templates->sibling", "link->abs-canary", "sub->dotdot-chain", "file->canary-files", "dangling-file-link", "manifest->abs-canary",
	"link-chain", "everything", "empty"}

// plantedLinks lists the symlinks directly below dir (sorted), split by what their name stands for
// in the benign archive: a directory (link, sub, templates) or a file.
func plantedLinks(dir string) (dirs, files []string) {
	ds, _ := os.ReadDir(dir)
	for _, d := range ds {
		if d.Type()&os.ModeSymlink == 0 {
			continue
		}
		switch d.Name() {
		case "link", "sub", "templates":
			dirs = append(dirs, d.Name())
		default:
			files = append(files, d.Name())
		}
	}
	sort.Strings(dirs)
	sort.Strings(files)
	return
}

func (rc *runCtx) runAimed(i int, rng *rand.Rand) {
	plugin := i%2 == 0
	layout := aimedLayouts[(i/2)%len(aimedLayouts)]
	sb := newSandbox()
	defer sb.remove()
	chartDir, pfx := chartName, chartName+"/"
	if plugin {
		chartDir, pfx = "", ""
	}
	sb.plant(layout, chartDir)

	// what is really planted decides the aim
	aimKind, comp := "no-link (control)", "link"
	rootIsLink := false
	if fi, err := os.Lstat(sb.Root); err == nil && fi.Mode()&os.ModeSymlink != 0 {
		rootIsLink = true
	}
	dirs, files := plantedLinks(sb.Root)
	switch {
	case rootIsLink:
		// the chart directory itself is the planted link: the boundary after it gets the spelling
		aimKind, comp = "chartdir-link", strings.TrimSuffix(pfx, "/")
	case len(dirs) > 0 && (len(files) == 0 || rng.Intn(4) != 0):
		aimKind, comp = "dir-link", pick(rng, dirs)
	case len(files) > 0:
		aimKind, comp = "file-link", pick(rng, files)
	}
	leaf := pick(rng, []string{"pwn", "pwn.yaml", "canary.txt", "inner.txt"})
	var sp joinSpelling
	if aimKind == "file-link" {
		sp = fileJoinSpellings[(i/(2*len(aimedLayouts))+rng.Intn(2)*3)%len(fileJoinSpellings)]
	} else {
		sp = dirJoinSpellings[(i/(2*len(aimedLayouts))+rng.Intn(2)*5)%len(dirJoinSpellings)]
	}
	name := sp.f(comp, leaf)
	if aimKind != "chartdir-link" {
		// the boundary between the chart directory and the rest: mostly '/', sometimes '\'
		if pfx != "" && rng.Intn(4) == 0 {
			name = strings.TrimSuffix(pfx, "/") + `\` + name
		} else {
			name = pfx + name
		}
	}
	h := ent{Name: name, Type: '0', Data: []byte("PWNED by an aimed name\n"), Mode: 0o644, Shape: "aimed-at-planted-" + aimKind}
	tag := "name:aimed-at-planted-" + aimKind + "+sep:" + sp.name
	switch r := rng.Intn(10); {
	case r < 2 && aimKind != "file-link":
		h.Type, h.Data = '5', nil
		tag += "+type:dir"
	case r == 2:
		h.Type = 0
		tag += "+type:regA"
	}
	switch rng.Intn(5) {
	case 0:
		h.Enc = "pax"
		tag += "+enc:pax"
	case 1:
		h.Enc = "gnu"
		tag += "+enc:gnu"
	}

	// benign part: manifest, directory entries (not for the aimed component: where a link is
	// planted the directory entry itself already stops the plugin extractor), files
	var base []ent
	if plugin {
		base = basePluginEnts()
	} else {
		base = baseChartEnts(pfx)
	}
	var dirEnts []ent
	if pfx != "" {
		dirEnts = append(dirEnts, ent{Name: pfx, Type: '5', Mode: 0o755})
	}
	for _, d := range []string{"templates", "link", "sub"} {
		if d != comp {
			dirEnts = append(dirEnts, ent{Name: pfx + d + "/", Type: '5', Mode: 0o755})
		}
	}
	var ents []ent
	pos := "first"
	switch rng.Intn(3) {
	case 0: // after the manifest and the directory entries
		pos = "after-dirs"
		ents = append(append(append(ents, base[0]), dirEnts...), h)
		ents = append(ents, base[1:]...)
	default: // hostile entry first: nothing can stop the extractor before it
		ents = append(append(append(ents, h), dirEnts...), base...)
	}
	spec := archiveSpec{Kind: "chart", Chart: chartName, Ents: ents, Tags: []string{tag, "hostile-" + pos}}
	if plugin {
		spec.Kind = "plugin"
	}
	data := spec.bytes(sb.sub)
	desc := func() string {
		return fmt.Sprintf("case %s aimed archive #%d layout %s root %s; symlinks planted below the root: dirs %v files %v, root is a link: %v; archive entries:%s",
			rc.caseID, rc.idx, sb.Layout, sb.rel(sb.Root), dirs, files, rootIsLink, spec.listing(sb.sub))
	}
	// witness classes are cause-shaped: which kind of planted link the name is aimed at and
	// whether a backslash takes part in the boundary; layout, exact spelling, type flag, encoding
	// and position are in the detail text and in the coverage key only
	how := "written with '/' and '.' only"
	if sp.bs {
		how = "written with a backslash"
	}
	classTags := []string{"name aimed at a planted " + aimKind + ", component boundary " + how}
	rc.classLayout = "any that plants such a link"
	defer func() { rc.classLayout = "" }()
	entry := "Extract"
	if !plugin {
		entry = []string{"Expand", "ExpandFile"}[rng.Intn(2)]
	}
	var accepted bool
	switch entry {
	case "Extract":
		accepted, _ = rc.observe(sb, entry, classTags, desc, func() ([]string, error) {
			return nil, (&installer.TarGzExtractor{}).Extract(bytes.NewBuffer(data), sb.Dest)
		})
	case "Expand":
		accepted, _ = rc.observe(sb, entry, classTags, desc, func() ([]string, error) {
			return nil, chartutil.Expand(sb.Dest, bytes.NewReader(data))
		})
	case "ExpandFile":
		src := filepath.Join(sb.In, "in-1.0.0.tgz")
		must(os.WriteFile(src, data, 0o644))
		accepted, _ = rc.observe(sb, entry, classTags, desc, func() ([]string, error) {
			return nil, chartutil.ExpandFile(sb.Dest, src)
		})
	}
	rc.res.Stat("aimed_subcases", 1)
	rc.res.Stat("aimed_subcases_"+entry, 1)
	if aimKind != "no-link (control)" {
		rc.res.Stat("aimed_names_whose_component_is_a_planted_symlink", 1)
		if sp.bs {
			rc.res.Stat("aimed_names_with_backslash_boundary_at_a_planted_symlink", 1)
			rc.res.Stat("aimed_names_with_backslash_boundary_at_a_planted_symlink_"+entry, 1)
			if pos == "first" {
				rc.res.Stat("aimed_names_with_backslash_boundary_at_a_planted_symlink_reached_first_"+entry, 1)
			}
		}
	}
	if accepted {
		rc.res.Stat("aimed_accepted", 1)
	}
	out := "rejected"
	if accepted {
		out = "accepted"
	}
	rc.res.Key("aimed|%s|%s|%s|%s|%s", entry, sb.Layout, tag, pos, out)
}
