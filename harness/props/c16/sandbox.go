package c16

import (
	"crypto/sha256"
	"fmt"
	"os"
	"path/filepath"
	"sort"
	"strings"
)

// sandbox is the directory tree one sub-case runs in. Everything lies below P (created with
// os.MkdirTemp); dest lies 8 levels below P so that no generated "../" chain (at most 7 levels)
// can leave P even if the code under test is broken.
//
//	P/canary-zone/                      "absolute canary dir"
//	P/l1/l2/l3/l4/l5/l6/S/dest          destination handed to helm
//	P/l1/l2/l3/l4/l5/l6/S/outside-zone  sibling of dest with canary files
//	P/l1/l2/l3/l4/l5/l6/S/cwd           process working directory during the call
//	P/l1/l2/l3/l4/l5/l6/S/{in,home,tmp} input archives, helm config/cache, TMPDIR
type sandbox struct {
	P, S, Dest, Outside, Cwd, Canary, In, Home, Tmp string
	Allowed                                         []string // directories in which anything goes
	Layout                                          string
	Root                                            string // directory the archive's files land in (dest or dest/<chart>)
}

const canaryText = "canary: true\n# DO NOT MODIFY\n"

func must(err error) {
	if err != nil {
		panic("c16 sandbox: " + err.Error())
	}
}

func newSandbox() *sandbox {
	p, err := os.MkdirTemp("", "c16-")
	must(err)
	p, err = filepath.EvalSymlinks(p)
	must(err)
	sb := &sandbox{P: p}
	sb.S = filepath.Join(p, "l1", "l2", "l3", "l4", "l5", "l6", "S")
	sb.Dest = filepath.Join(sb.S, "dest")
	sb.Outside = filepath.Join(sb.S, "outside-zone")
	sb.Cwd = filepath.Join(sb.S, "cwd")
	sb.In = filepath.Join(sb.S, "in")
	sb.Home = filepath.Join(sb.S, "home")
	sb.Tmp = filepath.Join(sb.S, "tmp")
	sb.Canary = filepath.Join(p, "canary-zone")
	for _, d := range []string{sb.Dest, filepath.Join(sb.Outside, "sub"), sb.Cwd, sb.In, filepath.Join(sb.Home, "cache"), sb.Tmp, sb.Canary} {
		must(os.MkdirAll(d, 0o755))
	}
	for _, f := range []string{
		filepath.Join(sb.Outside, "canary.txt"), filepath.Join(sb.Outside, "sub", "deep.txt"), filepath.Join(sb.Outside, "Chart.yaml"),
		filepath.Join(sb.Canary, "canary.txt"), filepath.Join(sb.Canary, "canary.yaml"), filepath.Join(sb.Cwd, "canary.txt"),
		filepath.Join(sb.S, "canary-at-S.txt"), filepath.Join(p, "canary-at-P.txt"), filepath.Join(p, "l1", "l2", "l3", "canary-mid.txt"),
	} {
		must(os.WriteFile(f, []byte(canaryText), 0o644))
	}
	must(os.WriteFile(filepath.Join(sb.Home, "repositories.yaml"), []byte("apiVersion: \"\"\ngenerated: \"0001-01-01T00:00:00Z\"\nrepositories: []\n"), 0o644))
	sb.Allowed = []string{sb.Dest, sb.Tmp}
	sb.Root = sb.Dest
	sb.Layout = "empty"
	return sb
}

func (sb *sandbox) remove() { os.RemoveAll(sb.P) }

func (sb *sandbox) sub(s string) string {
	s = strings.ReplaceAll(s, "{CANARY_BS}", strings.ReplaceAll(sb.Canary, "/", "\\"))
	s = strings.ReplaceAll(s, "{CANARY}", sb.Canary)
	return strings.ReplaceAll(s, "{OUTSIDE}", sb.Outside)
}

var layouts = []string{"empty", "empty", "empty", "chartdir->sibling", "chartdir->abs-canary", "chartdir->dotdot", "chartdir->dotdotdotdot",
	"templates->sibling", "link->abs-canary", "sub->dotdot-chain", "file->canary-files", "dangling-file-link", "manifest->abs-canary",
	"dest-is-link", "preexisting-files", "link-chain", "everything"}

// plant prepares the destination layout. chart is "" for entry points that write directly into dest.
func (sb *sandbox) plant(layout, chart string) {
	sb.Layout = layout
	root := sb.Dest
	up := "../"
	if chart != "" {
		root = filepath.Join(sb.Dest, chart)
		up = "../../"
	}
	sb.Root = root
	sym := func(target, at string) {
		must(os.MkdirAll(filepath.Dir(at), 0o755))
		must(os.Symlink(target, at))
	}
	manifest := "plugin.yaml"
	if chart != "" {
		manifest = "Chart.yaml"
	}
	switch layout {
	case "empty":
	case "chartdir->sibling":
		if chart == "" {
			sym("../outside-zone", filepath.Join(root, "sub"))
		} else {
			sym("../outside-zone", root)
		}
	case "chartdir->abs-canary":
		if chart == "" {
			sym(sb.Canary, filepath.Join(root, "templates"))
		} else {
			sym(sb.Canary, root)
		}
	case "chartdir->dotdot":
		if chart != "" {
			sym("..", root)
		}
	case "chartdir->dotdotdotdot":
		if chart != "" {
			sym("../..", root)
		} else {
			sym("../..", filepath.Join(root, "link"))
		}
	case "templates->sibling":
		sym(up+"outside-zone", filepath.Join(root, "templates"))
	case "link->abs-canary":
		sym(sb.Canary, filepath.Join(root, "link"))
	case "sub->dotdot-chain":
		sym(up+"..", filepath.Join(root, "sub"))
	case "file->canary-files":
		sym(up+"outside-zone/canary.txt", filepath.Join(root, "values.yaml"))
		sym(filepath.Join(sb.Canary, "canary.txt"), filepath.Join(root, "filelink"))
	case "dangling-file-link":
		sym(filepath.Join(sb.Outside, "created-by-follow"), filepath.Join(root, "new.txt"))
		sym(up+"outside-zone/created-by-follow-rel", filepath.Join(root, "values.yaml"))
	case "manifest->abs-canary":
		sym(filepath.Join(sb.Canary, "canary.yaml"), filepath.Join(root, manifest))
	case "dest-is-link":
		real := filepath.Join(sb.S, "realdest-zone")
		must(os.MkdirAll(real, 0o755))
		must(os.Remove(sb.Dest))
		must(os.Symlink("realdest-zone", sb.Dest))
		sb.Allowed = []string{real, sb.Tmp}
	case "preexisting-files":
		must(os.MkdirAll(filepath.Join(root, "templates"), 0o755))
		must(os.WriteFile(filepath.Join(root, "values.yaml"), []byte("old: true\n"), 0o600))
		must(os.WriteFile(filepath.Join(root, "templates", "cm.yaml"), []byte("old\n"), 0o400))
	case "link-chain":
		sym("sub", filepath.Join(root, "link"))
		sym(sb.Outside, filepath.Join(root, "sub"))
	case "everything":
		sym(up+"outside-zone", filepath.Join(root, "templates"))
		sym(sb.Canary, filepath.Join(root, "link"))
		sym(up+"..", filepath.Join(root, "sub"))
		sym(filepath.Join(sb.Canary, "canary.txt"), filepath.Join(root, "filelink"))
		sym(filepath.Join(sb.Outside, "created-by-follow"), filepath.Join(root, "new.txt"))
		sym(up+"outside-zone/canary.txt", filepath.Join(root, "values.yaml"))
	default:
		panic("unknown layout " + layout)
	}
}

// ---------------------------------------------------------------- snapshots

type fsEntry struct {
	Type  string // dir | file | link | other
	Size  int64
	Sum   string
	Link  string
	Perm  os.FileMode
	MTime int64
}

type snapshot map[string]fsEntry

func (sb *sandbox) allowed(p string) bool {
	for _, a := range sb.Allowed {
		if p == a || strings.HasPrefix(p, a+string(filepath.Separator)) {
			return true
		}
	}
	return false
}

// snap records (path, lstat type, size, sha256, link target, mode, mtime of regular files) of
// everything below P except the allowed directories. Nothing is followed.
func (sb *sandbox) snap() snapshot {
	out := snapshot{}
	var walk func(p string)
	walk = func(p string) {
		if sb.allowed(p) {
			return
		}
		fi, err := os.Lstat(p)
		if err != nil {
			return
		}
		e := fsEntry{Perm: fi.Mode().Perm() | fi.Mode()&(os.ModeSetuid|os.ModeSetgid|os.ModeSticky)}
		switch {
		case fi.Mode()&os.ModeSymlink != 0:
			e.Type = "link"
			e.Link, _ = os.Readlink(p)
		case fi.IsDir():
			e.Type = "dir"
		case fi.Mode().IsRegular():
			e.Type = "file"
			e.Size = fi.Size()
			e.MTime = fi.ModTime().UnixNano()
			if b, err := os.ReadFile(p); err == nil {
				e.Sum = fmt.Sprintf("%x", sha256.Sum256(b))
			} else {
				e.Sum = "unreadable"
			}
		default:
			e.Type = "other:" + fi.Mode().Type().String()
		}
		out[p] = e
		if e.Type == "dir" {
			ds, _ := os.ReadDir(p)
			for _, d := range ds {
				walk(filepath.Join(p, d.Name()))
			}
		}
	}
	walk(sb.P)
	return out
}

type change struct{ Path, What, Zone string }

func (sb *sandbox) zone(p string) string {
	in := func(d string) bool { return p == d || strings.HasPrefix(p, d+"/") }
	switch {
	case in(sb.Outside):
		return "sibling of dest"
	case in(sb.Canary):
		return "absolute canary dir"
	case in(sb.Cwd):
		return "cwd"
	case in(sb.In):
		return "input dir"
	case in(sb.Home):
		return "helm home"
	case p == sb.Dest:
		return "dest symlink itself"
	case in(sb.S):
		return "parent of dest"
	}
	return "ancestors of dest"
}

func (sb *sandbox) diff(a, b snapshot) []change {
	var out []change
	var paths []string
	for p := range a {
		paths = append(paths, p)
	}
	for p := range b {
		if _, ok := a[p]; !ok {
			paths = append(paths, p)
		}
	}
	sort.Strings(paths)
	for _, p := range paths {
		x, okx := a[p]
		y, oky := b[p]
		what := ""
		switch {
		case !okx:
			what = "created " + y.Type
		case !oky:
			what = "removed " + x.Type
		case x.Type != y.Type:
			what = "type changed " + x.Type + "->" + y.Type
		case x.Link != y.Link:
			what = "link target changed"
		case x.Sum != y.Sum || x.Size != y.Size:
			what = "content changed"
		case x.Perm != y.Perm:
			what = "mode changed"
		case x.MTime != y.MTime:
			what = "rewritten (mtime changed)"
		}
		if what != "" {
			out = append(out, change{p, what, sb.zone(p)})
		}
	}
	return out
}

func (sb *sandbox) rel(p string) string {
	if r, err := filepath.Rel(sb.P, p); err == nil {
		return "P/" + r
	}
	return p
}
