package c16

import (
	"bytes"
	"compress/gzip"
	"fmt"
	"io"
	"net/http"
	"net/http/httptest"
	"net/url"
	"os"
	"path"
	"path/filepath"
	"regexp"
	"sort"
	"strings"
	"sync"
	"sync/atomic"

	"helm.sh/helm/v4/pkg/action"
	chart "helm.sh/helm/v4/pkg/chart/v2"
	"helm.sh/helm/v4/pkg/chart/v2/loader"
	chartutil "helm.sh/helm/v4/pkg/chart/v2/util"
	"helm.sh/helm/v4/pkg/cli"
	"helm.sh/helm/v4/pkg/downloader"
	"helm.sh/helm/v4/pkg/getter"
	"helm.sh/helm/v4/pkg/plugin/installer"
	"helm.sh/helm/v4/verifh/core"
)

// runCtx carries the result sink and the identity of the running sub-case.
type runCtx struct {
	res     *core.Result
	caseID  string
	idx     int
	verbose bool
	markers bool // strace mode: bracket every call into helm with marker syscalls
	// classLayout overrides the layout part of witness classes (entry points whose cause shape
	// does not depend on the destination layout)
	classLayout string
}

var driveRe = regexp.MustCompile(`^[a-zA-Z]:([/\\]|$)`)

// badName says why n is not a clean relative path ("" if it is one).
func badName(n string) string {
	switch {
	case n == "":
		return "empty"
	case path.IsAbs(n):
		return "absolute"
	case strings.Contains(n, "\\"):
		return "containing a backslash"
	case driveRe.MatchString(n):
		return "starting with a drive prefix"
	}
	for _, part := range strings.Split(n, "/") {
		if part == ".." {
			return "containing a '..' component"
		}
	}
	if path.Clean(n) != n {
		return "not path.Clean"
	}
	return ""
}

func chartNames(c *chart.Chart, at string, out *[]string) {
	if c == nil {
		return
	}
	for _, fs := range [][]*chart.File{c.Raw, c.Templates, c.Files} {
		for _, f := range fs {
			*out = append(*out, f.Name)
		}
	}
	for _, d := range c.Dependencies() {
		chartNames(d, at+"charts/"+d.Name()+"/", out)
	}
}

// observe runs one call into helm inside the sandbox and judges it: nothing outside the allowed
// directories may change, and every exposed name must be a clean relative path.
func (rc *runCtx) observe(sb *sandbox, entry string, tags []string, desc func() string, call func() ([]string, error)) (accepted bool, err error) {
	before := sb.snap()
	oldTmp, hadTmp := os.LookupEnv("TMPDIR")
	os.Setenv("TMPDIR", sb.Tmp)
	oldWd, _ := os.Getwd()
	os.Chdir(sb.Cwd)
	var names []string
	rc.markSB("begin", entry, sb)
	panicked := core.Guard(rc.res, entry, func() { names, err = call() })
	rc.markSB("end", entry, sb)
	os.Chdir(oldWd)
	if hadTmp {
		os.Setenv("TMPDIR", oldTmp)
	} else {
		os.Unsetenv("TMPDIR")
	}
	after := sb.snap()
	rc.res.Evals++
	rc.res.Stat("subcases_"+entry, 1)
	rc.res.Stat("snapshot_entries_compared", int64(len(before)))
	if sb.Layout != "empty" {
		rc.res.Stat("subcases_on_layouts_with_planted_symlinks_or_files", 1)
	}
	accepted = err == nil && !panicked
	if accepted {
		rc.res.Stat("accepted_"+entry, 1)
	} else {
		rc.res.Stat("rejected_"+entry, 1)
	}
	tagText := strings.Join(tags, " ; ")
	outcome := "rejected"
	if accepted {
		outcome = "accepted"
	}
	seen := map[string]bool{}
	for _, ch := range sb.diff(before, after) {
		k := ch.What + " in " + ch.Zone
		if seen[k] {
			continue
		}
		seen[k] = true
		lay := sb.Layout
		if rc.classLayout != "" {
			lay = rc.classLayout
		}
		rc.res.Add("escape", fmt.Sprintf("%s | %s | layout %s | %s", entry, k, lay, tagText),
			"%s (%s, err=%v): %s %s | all changes outside the destination: %s | %s", entry, outcome, err, ch.What, sb.rel(ch.Path), changesText(sb, sb.diff(before, after)), desc())
	}
	seenBad := map[string]bool{}
	for _, n := range names {
		if why := badName(n); why != "" && !seenBad[why] {
			seenBad[why] = true
			rc.res.Add("unclean-name", fmt.Sprintf("%s | exposed file name %s | %s", entry, why, tagText), "%s exposes file name %q (%s) | %s", entry, n, why, desc())
		}
	}
	rc.res.Stat("exposed_names_checked", int64(len(names)))
	if rc.verbose {
		fmt.Printf("--- #%d %s layout=%s tags=[%s] -> %s err=%v exposed=%d changes=%d\n%s\n", rc.idx, entry, sb.Layout, tagText, outcome, err, len(names), len(sb.diff(before, after)), desc())
		for _, p := range destListing(sb) {
			fmt.Println("      dest:", p)
		}
	}
	return accepted, err
}

func changesText(sb *sandbox, cs []change) string {
	var p []string
	for _, c := range cs {
		p = append(p, c.What+" "+sb.rel(c.Path))
	}
	s := strings.Join(p, ", ")
	if len(s) > 600 {
		s = s[:600] + "..."
	}
	return s
}

func destListing(sb *sandbox) []string {
	var out []string
	for _, a := range sb.Allowed[:1] {
		filepath.Walk(a, func(p string, fi os.FileInfo, err error) error {
			if err == nil {
				r, _ := filepath.Rel(a, p)
				s := r + " " + fi.Mode().String()
				if fi.Mode()&os.ModeSymlink != 0 {
					l, _ := os.Readlink(p)
					s += " -> " + l
				}
				out = append(out, s)
			}
			return nil
		})
	}
	if len(out) > 40 {
		out = out[:40]
	}
	return out
}

// ---------------------------------------------------------------- local HTTP server (127.0.0.1)

var (
	srvOnce   sync.Once
	srv       *httptest.Server
	srvBodies sync.Map // request path -> []byte
	srvHits   atomic.Int64
	goodTgz   []byte
)

func validPackage() []byte {
	return gz(writeTar(baseChartEnts(chartName + "/")[:3], func(s string) string { return s }, true))
}

func server() *httptest.Server {
	srvOnce.Do(func() {
		goodTgz = validPackage()
		srv = httptest.NewServer(http.HandlerFunc(func(w http.ResponseWriter, r *http.Request) {
			srvHits.Add(1)
			if b, ok := srvBodies.Load(r.URL.Path); ok {
				w.Write(b.([]byte))
				return
			}
			if strings.HasSuffix(r.URL.Path, ".prov") {
				w.Write([]byte("-----BEGIN PGP SIGNED MESSAGE-----\nnot really\n"))
				return
			}
			w.Write(goodTgz)
		}))
	})
	return srv
}

func settings(sb *sandbox) *cli.EnvSettings {
	s := &cli.EnvSettings{}
	s.PluginsDirectory = filepath.Join(sb.Home, "plugins")
	s.RepositoryConfig = filepath.Join(sb.Home, "repositories.yaml")
	s.RepositoryCache = filepath.Join(sb.Home, "cache")
	s.RegistryConfig = filepath.Join(sb.Home, "registry.json")
	return s
}

// ---------------------------------------------------------------- archive consumers

type archCase struct {
	spec   archiveSpec
	raw    func(sb *sandbox) []byte // final gzip bytes (placeholders substituted)
	list   func(sb *sandbox) string
	tags   []string
	plugin bool
}

func (rc *runCtx) runArchive(ac archCase, entry, layout string, variant int) {
	sb := newSandbox()
	defer sb.remove()
	chartDir := chartName
	if entry == "Extract" {
		chartDir = ""
	}
	if entry != "LoadArchive" && entry != "LoadArchiveFiles" {
		sb.plant(layout, chartDir)
	}
	data := ac.raw(sb)
	desc := func() string {
		return fmt.Sprintf("case %s archive #%d layout %s root %s; archive entries:%s", rc.caseID, rc.idx, sb.Layout, sb.rel(sb.Root), ac.list(sb))
	}
	var accepted bool
	switch entry {
	case "LoadArchive":
		sb.Allowed = []string{sb.Tmp}
		accepted, _ = rc.observe(sb, entry, ac.tags, desc, func() ([]string, error) {
			c, err := loader.LoadArchive(bytes.NewReader(data))
			var names []string
			if err == nil {
				chartNames(c, "", &names)
			}
			return names, err
		})
	case "LoadArchiveFiles":
		sb.Allowed = []string{sb.Tmp}
		accepted, _ = rc.observe(sb, entry, ac.tags, desc, func() ([]string, error) {
			fs, err := loader.LoadArchiveFiles(bytes.NewReader(data))
			var names []string
			for _, f := range fs {
				names = append(names, f.Name)
			}
			return names, err
		})
	case "Expand":
		accepted, _ = rc.observe(sb, entry, ac.tags, desc, func() ([]string, error) {
			return nil, chartutil.Expand(sb.Dest, bytes.NewReader(data))
		})
	case "ExpandFile":
		src := filepath.Join(sb.In, "in-1.0.0.tgz")
		must(os.WriteFile(src, data, 0o644))
		dest := sb.Dest
		if variant%3 == 1 { // relative destination (cwd is S/cwd)
			dest = "../dest"
		}
		accepted, _ = rc.observe(sb, entry, ac.tags, desc, func() ([]string, error) {
			return nil, chartutil.ExpandFile(dest, src)
		})
	case "Extract":
		target := sb.Dest
		if variant%4 == 1 && sb.Layout == "empty" {
			target = filepath.Join(sb.Dest, "not-yet", "there") // Extract creates the target directory
		}
		accepted, _ = rc.observe(sb, entry, ac.tags, desc, func() ([]string, error) {
			return nil, (&installer.TarGzExtractor{}).Extract(bytes.NewBuffer(data), target)
		})
	case "Pull":
		s := server()
		urlPath := fmt.Sprintf("/p/%s/%d/%s-1.0.0.tgz", rc.caseID, rc.idx, chartName)
		srvBodies.Store(urlPath, data)
		defer srvBodies.Delete(urlPath)
		p := action.NewPull(action.WithConfig(&action.Configuration{}))
		p.Settings = settings(sb)
		p.Untar = true
		p.DestDir = sb.Dest
		p.UntarDir = "."
		switch variant % 4 {
		case 1:
			p.UntarDir = "unt"
		case 2:
			p.UntarDir = filepath.Join(sb.Dest, "abs-unt")
		case 3:
			if sb.Layout == "empty" {
				// the destination is the working directory
				p.DestDir, p.UntarDir = "", "."
				sb.Allowed = []string{sb.Cwd, sb.Tmp}
			}
		}
		if variant%5 == 0 {
			p.VerifyLater = true
		}
		accepted, _ = rc.observe(sb, entry, ac.tags, desc, func() ([]string, error) {
			_, err := p.Run(s.URL + urlPath)
			return nil, err
		})
	default:
		panic("unknown entry " + entry)
	}
	out := "rejected"
	if accepted {
		out = "accepted"
	}
	lay := "plain"
	if sb.Layout != "empty" {
		lay = sb.Layout
	}
	rc.res.Key("%s|%s|%s|%s", entry, lay, strings.Join(ac.tags, ";"), out)
}

// ---------------------------------------------------------------- DownloadTo

var urlShapes = []struct{ path, shape string }{
	{"/charts/good-1.0.0.tgz", "plain (control)"},
	{"/charts/..", "ends in /.."},
	{"/charts/../", "ends in /../"},
	{"/charts/.", "ends in /."},
	{"/", "is /"},
	{"/charts/", "ends in /"},
	{"/charts/%2e%2e", "ends in encoded .."},
	{"/charts/%2E%2E/", "ends in encoded ../"},
	{"/charts/..%2f", "ends in ..%2f"},
	{"/charts/%2e%2e%2fpwn-1.0.0.tgz", "encoded ../ before the base name"},
	{"/charts/..%5cpwn-1.0.0.tgz", "encoded backslash"},
	{"/../outside-zone/pwn-1.0.0.tgz", "path climbs to the sibling of dest"},
	{"/../../canary-at-S.txt", "path climbs to a canary"},
	{"/charts/{CANARYENC}%2Fpwn-1.0.0.tgz", "encoded absolute canary path"},
	{"/charts/x.tgz/../../..", "ends in several /.."},
	{"/charts/%2e", "ends in encoded ."},
	{"/charts/...", "ends in three dots"},
	{"/charts/good-1.0.0.tgz/", "trailing slash after file"},
	{"//", "is //"},
	{"/charts/a%00b.tgz", "encoded NUL"},
	{"/charts/;param/..;x", "path parameter look-alike"},
}

func (rc *runCtx) runDownload(i int) {
	us := urlShapes[i%len(urlShapes)]
	variant := i / len(urlShapes)
	sb := newSandbox()
	defer sb.remove()
	layout := "empty"
	switch variant % 4 {
	case 1:
		layout = "final-name->canary-files"
		must(os.Symlink(filepath.Join(sb.Outside, "canary.txt"), filepath.Join(sb.Dest, "good-1.0.0.tgz")))
		must(os.Symlink(filepath.Join(sb.Canary, "canary.txt"), filepath.Join(sb.Dest, "good-1.0.0.tgz.prov")))
		must(os.Symlink(filepath.Join(sb.Canary, "canary.yaml"), filepath.Join(sb.Dest, "pwn-1.0.0.tgz")))
		must(os.Symlink(filepath.Join(sb.Outside, "created-by-follow"), filepath.Join(sb.Dest, "charts")))
		sb.Layout = layout
	case 2:
		sb.plant("dest-is-link", "")
	}
	s := server()
	p := strings.ReplaceAll(us.path, "{CANARYENC}", strings.ReplaceAll(sb.Canary, "/", "%2F"))
	verify := downloader.VerifyNever
	vname := "VerifyNever"
	if variant%2 == 1 {
		verify, vname = downloader.VerifyLater, "VerifyLater"
	}
	entry := "DownloadTo"
	// cause shape: what filepath.Base makes of the decoded URL path
	baseClass := "url path with a regular base name"
	if u, err := url.Parse("http://h" + p); err == nil {
		switch b := path.Base(u.Path); b {
		case "..", ".", "/":
			baseClass = "url path whose base name is '" + b + "'"
		}
	}
	tags := []string{baseClass}
	rc.classLayout = "any"
	defer func() { rc.classLayout = "" }()
	dl := downloader.ChartDownloader{Out: io.Discard, Verify: verify, Getters: getter.All(settings(sb)),
		RepositoryConfig: filepath.Join(sb.Home, "repositories.yaml"), RepositoryCache: filepath.Join(sb.Home, "cache")}
	var saved string
	desc := func() string {
		return fmt.Sprintf("DownloadTo(%q, \"\", dest) [url path %s] %s layout %s -> saved %q", "http://127.0.0.1:<port>"+p, us.shape, vname, sb.Layout, saved)
	}
	accepted, _ := rc.observe(sb, entry, tags, desc, func() ([]string, error) {
		var err error
		saved, _, err = dl.DownloadTo(s.URL+p, "", sb.Dest)
		return nil, err
	})
	if accepted && saved != "" {
		// the reported location must lie inside the destination
		real, err := filepath.EvalSymlinks(filepath.Dir(saved))
		if err != nil || !sb.allowed(filepath.Join(real, filepath.Base(saved))) {
			rc.res.Add("escape", fmt.Sprintf("%s | reports a saved path outside dest | layout any | %s", entry, tags[0]), "DownloadTo returned %q which is not inside dest | %s", saved, desc())
		}
	}
	rc.res.Key("DownloadTo|%s|%s|%s|%v", us.shape, sb.Layout, vname, accepted)
	rc.res.Stat("download_url_shapes_tried", 1)
}

// ---------------------------------------------------------------- size limits

type limitSpec struct {
	Name    string
	Over    bool // must be rejected
	Entries []int64
	Lazy    bool  // produced lazily through a pipe; producer offset is checked
	Level   int   // gzip level of the lazy producer
	Slack   int64 // tolerated read-ahead beyond the limit
}

const (
	lowChart = 256 << 10
	lowFile  = 64 << 10
)

var limitSpecs = []limitSpec{
	{Name: "under both limits (control)", Entries: []int64{60 << 10, 60 << 10, 60 << 10}},
	{Name: "one file exactly at the file limit (control)", Entries: []int64{lowFile}},
	{Name: "one file over the file limit, total under", Over: true, Entries: []int64{100 << 10}},
	{Name: "one file one byte over the file limit", Over: true, Entries: []int64{lowFile + 1}},
	{Name: "files under the file limit, total over", Over: true, Entries: []int64{60 << 10, 60 << 10, 60 << 10, 60 << 10, 60 << 10, 60 << 10}},
	{Name: "last file crosses the total limit", Over: true, Entries: []int64{64 << 10, 64 << 10, 64 << 10, 63 << 10, 2 << 10}},
	{Name: "lazy: one 64 MiB entry", Over: true, Lazy: true, Level: gzip.NoCompression, Slack: 1 << 20, Entries: []int64{64 << 20}},
	{Name: "lazy: 1100 entries of 60 KiB", Over: true, Lazy: true, Level: gzip.NoCompression, Slack: 1 << 20, Entries: repeat(60<<10, 1100)},
	{Name: "lazy: 1024 entries exactly at the file limit", Over: true, Lazy: true, Level: gzip.NoCompression, Slack: 1 << 20, Entries: repeat(lowFile, 1024)},
	{Name: "lazy: 40000 entries of 1 KiB", Over: true, Lazy: true, Level: gzip.NoCompression, Slack: 1 << 20, Entries: repeat(1<<10, 40000)},
	{Name: "lazy: small files then one 64 MiB entry", Over: true, Lazy: true, Level: gzip.NoCompression, Slack: 1 << 20, Entries: append(repeat(10<<10, 5), 64<<20)},
	{Name: "lazy compressed zeros: one 64 MiB entry", Over: true, Lazy: true, Level: gzip.BestSpeed, Slack: 16 << 20, Entries: []int64{64 << 20}},
	{Name: "lazy compressed zeros: 1100 entries of 60 KiB", Over: true, Lazy: true, Level: gzip.DefaultCompression, Slack: 16 << 20, Entries: repeat(60<<10, 1100)},
}

func repeat(v int64, n int) []int64 {
	out := make([]int64, n)
	for i := range out {
		out[i] = v
	}
	return out
}

type countWriter struct {
	w io.Writer
	n *atomic.Int64
}

func (c countWriter) Write(p []byte) (int, error) {
	n, err := c.w.Write(p)
	c.n.Add(int64(n))
	return n, err
}

// limitStream returns a reader over the gzip stream of the spec and, for lazy specs, the
// counter of tar bytes the producer has handed to the compressor so far.
func limitStream(ls limitSpec) (io.Reader, *atomic.Int64, func()) {
	var produced atomic.Int64
	write := func(w io.Writer) error {
		head := baseChartEnts(chartName + "/")[:2]
		if _, err := w.Write(writeTar(head, func(s string) string { return s }, false)); err != nil {
			return err
		}
		zeros := make([]byte, 64<<10)
		for i, sz := range ls.Entries {
			h := rawHeader(fmt.Sprintf("%s/files/big-%05d.bin", chartName, i), '0', "", func(b []byte) { octal(b, sz) }, 0o644)
			if _, err := w.Write(h); err != nil {
				return err
			}
			for left := (sz + 511) / 512 * 512; left > 0; {
				n := int64(len(zeros))
				if left < n {
					n = left
				}
				if _, err := w.Write(zeros[:n]); err != nil {
					return err
				}
				left -= n
			}
		}
		_, err := w.Write(make([]byte, 1024))
		return err
	}
	if !ls.Lazy {
		var buf bytes.Buffer
		zw := gzip.NewWriter(&buf)
		write(zw)
		zw.Close()
		return &buf, &produced, func() {}
	}
	pr, pw := io.Pipe()
	done := make(chan struct{})
	go func() {
		defer close(done)
		zw, _ := gzip.NewWriterLevel(pw, ls.Level)
		err := write(countWriter{zw, &produced})
		if err == nil {
			err = zw.Close()
		}
		pw.CloseWithError(err)
	}()
	return pr, &produced, func() { pr.CloseWithError(io.ErrClosedPipe); <-done }
}

func (rc *runCtx) runLimit(i int) {
	ls := limitSpecs[i%len(limitSpecs)]
	entry := []string{"LoadArchive", "LoadArchiveFiles", "Expand", "ExpandFile"}[(i/len(limitSpecs))%4]
	if ls.Lazy && entry == "ExpandFile" {
		entry = "Expand" // a lazily produced stream cannot come from a file
	}
	sb := newSandbox()
	defer sb.remove()
	oldC, oldF := loader.MaxDecompressedChartSize, loader.MaxDecompressedFileSize
	loader.MaxDecompressedChartSize, loader.MaxDecompressedFileSize = lowChart, lowFile
	defer func() { loader.MaxDecompressedChartSize, loader.MaxDecompressedFileSize = oldC, oldF }()
	r, produced, stop := limitStream(ls)
	var atReturn int64
	tags := []string{"limits: " + ls.Name}
	desc := func() string {
		var total int64
		for _, e := range ls.Entries {
			total += e
		}
		return fmt.Sprintf("%s with MaxDecompressedChartSize=%d MaxDecompressedFileSize=%d on an archive of Chart.yaml, values.yaml and %d zero-filled entries (first %d bytes, total %d bytes), lazy=%v; producer offset at return %d",
			entry, lowChart, lowFile, len(ls.Entries), ls.Entries[0], total, ls.Lazy, atReturn)
	}
	if entry == "LoadArchive" || entry == "LoadArchiveFiles" {
		sb.Allowed = []string{sb.Tmp}
	}
	if entry == "ExpandFile" {
		b, _ := io.ReadAll(r)
		must(os.WriteFile(filepath.Join(sb.In, "big-1.0.0.tgz"), b, 0o644))
	}
	accepted, err := rc.observe(sb, entry, tags, desc, func() ([]string, error) {
		var err error
		switch entry {
		case "LoadArchive":
			_, err = loader.LoadArchive(r)
		case "LoadArchiveFiles":
			_, err = loader.LoadArchiveFiles(r)
		case "Expand":
			err = chartutil.Expand(sb.Dest, r)
		case "ExpandFile":
			err = chartutil.ExpandFile(sb.Dest, filepath.Join(sb.In, "big-1.0.0.tgz"))
		}
		atReturn = produced.Load()
		return nil, err
	})
	stop()
	switch {
	case ls.Over && accepted:
		rc.res.Add("over-limit-accepted", entry+" | "+ls.Name, "%s", desc())
	case !ls.Over && !accepted:
		rc.res.Add("under-limit-rejected", entry+" | "+ls.Name, "control archive within the limits was rejected: %v | %s", err, desc())
	case ls.Over:
		rc.res.Stat("over_limit_archives_rejected", 1)
	default:
		rc.res.Stat("under_limit_controls_accepted", 1)
	}
	if ls.Lazy {
		rc.res.Stat("producer_offset_checks", 1)
		if atReturn > lowChart+ls.Slack {
			rc.res.Add("drained-beyond-limit", entry+" | "+ls.Name, "the producer had been drained to offset %d > limit %d + slack %d when the call returned (err=%v) | %s", atReturn, lowChart, ls.Slack, err, desc())
		}
	}
	rc.res.Key("limits|%s|%s|%v", entry, ls.Name, accepted)
}

// ---------------------------------------------------------------- Manager.Update

type updSpec struct {
	V1     bool
	Lock   string // lock file name the planted name is derived from: Chart.lock | requirements.lock | "" (nothing planted)
	At     string // name pattern of the planted symlink, "<lock>" standing for the lock file name
	Target string // sibling-file | abs-canary | inside-values | inside-file | dangling-outside | sibling-yaml-lock
	Deps   int
	OldReg bool // a regular, outdated lock file exists (control for "rewrites its own lock")
}

// lockSiblings are the names next to the lock file at which a writer that goes through a
// temporary or backup file could plausibly create one: the lock path itself first.
var lockSiblings = []string{"<lock>", "<lock>.tmp", ".<lock>.tmp", "<lock>~", "<lock>.new", "<lock>.bak", "<lock>.tmp123456", ".<lock>.swp",
	"<lock>.3847261", ".<lock>.Xa9Qz1", "tmp-<lock>", "<lock>.lock"}

var updTargets = []string{"sibling-file", "abs-canary", "inside-values", "inside-file", "dangling-outside", "sibling-yaml-lock"}

func updSpecs() []updSpec {
	var out []updSpec
	for _, v1 := range []bool{false, true} {
		own, other := "Chart.lock", "requirements.lock"
		if v1 {
			own, other = other, own
		}
		out = append(out, updSpec{V1: v1, Deps: 1}, updSpec{V1: v1, Deps: 2, OldReg: true})
		for _, at := range lockSiblings {
			for _, tgt := range updTargets {
				out = append(out, updSpec{V1: v1, Lock: own, At: at, Target: tgt, Deps: 1 + len(out)%2, OldReg: at != "<lock>" && len(out)%3 == 0})
			}
		}
		// the other apiVersion's lock name (read by the loader, never written for this chart)
		for _, at := range lockSiblings[:2] {
			for _, tgt := range updTargets[:2] {
				out = append(out, updSpec{V1: v1, Lock: other, At: at, Target: tgt, Deps: 1})
			}
		}
	}
	return out
}

func (rc *runCtx) runUpdate(i int) {
	specs := updSpecs()
	us := specs[i%len(specs)]
	sb := newSandbox()
	defer sb.remove()
	chartDir := sb.Dest // the chart's directory is the allowed zone
	api := "v2"
	if us.V1 {
		api = "v1"
	}
	var deps strings.Builder
	deps.WriteString("dependencies:\n")
	for d := 0; d < us.Deps; d++ {
		dd := filepath.Join(sb.S, "deps", fmt.Sprintf("dep%d", d))
		must(os.MkdirAll(filepath.Join(dd, "templates"), 0o755))
		must(os.WriteFile(filepath.Join(dd, "Chart.yaml"), []byte(fmt.Sprintf("apiVersion: v2\nname: dep%d\nversion: 0.%d.0\n", d, d+1)), 0o644))
		must(os.WriteFile(filepath.Join(dd, "templates", "cm.yaml"), []byte("kind: ConfigMap\n"), 0o644))
		fmt.Fprintf(&deps, "- name: dep%d\n  version: \">=0.1.0\"\n  repository: \"file://../deps/dep%d\"\n", d, d)
	}
	chartYAML := "apiVersion: " + api + "\nname: parent\nversion: 0.1.0\n"
	if us.V1 {
		must(os.WriteFile(filepath.Join(chartDir, "requirements.yaml"), []byte(deps.String()), 0o644))
	} else {
		chartYAML += deps.String()
	}
	must(os.WriteFile(filepath.Join(chartDir, "Chart.yaml"), []byte(chartYAML), 0o644))
	must(os.WriteFile(filepath.Join(chartDir, "values.yaml"), []byte("inside: values\n"), 0o644))
	must(os.MkdirAll(filepath.Join(chartDir, "files"), 0o755))
	must(os.WriteFile(filepath.Join(chartDir, "files", "data.yaml"), []byte("inside: file\n"), 0o644))
	lockName := "Chart.lock"
	if us.V1 {
		lockName = "requirements.lock"
	}
	lockPath := filepath.Join(chartDir, lockName)
	oldLock := "dependencies: []\ndigest: sha256:0000\ngenerated: \"2020-01-01T00:00:00Z\"\n"
	planted := ""
	if us.Lock != "" {
		planted = strings.ReplaceAll(us.At, "<lock>", us.Lock)
	}
	if us.OldReg && planted != lockName {
		must(os.WriteFile(lockPath, []byte(oldLock), 0o644))
	}
	target := ""
	switch us.Target {
	case "sibling-file":
		target = "../outside-zone/canary.txt"
	case "abs-canary":
		target = filepath.Join(sb.Canary, "canary.yaml")
	case "inside-values":
		target = "values.yaml"
	case "inside-file":
		target = "files/../files/data.yaml"
	case "dangling-outside":
		target = filepath.Join(sb.Outside, "created-by-follow.lock")
	case "sibling-yaml-lock":
		must(os.WriteFile(filepath.Join(sb.Outside, "other.lock"), []byte(oldLock), 0o644))
		target = filepath.Join(sb.Outside, "other.lock")
	}
	atShape := us.At
	if us.Lock != "" && us.Lock != lockName {
		atShape = strings.ReplaceAll(us.At, "<lock>", "<other apiVersion's lock>")
	}
	if planted != "" {
		must(os.Symlink(target, filepath.Join(chartDir, planted)))
		sb.Layout = fmt.Sprintf("%s -> %s", atShape, us.Target)
	}
	resolve := func(t string) string {
		if filepath.IsAbs(t) {
			return filepath.Clean(t)
		}
		return filepath.Join(chartDir, t)
	}
	readTarget := func() (string, bool) {
		if target == "" {
			return "", false
		}
		b, err := os.ReadFile(resolve(target))
		return string(b), err == nil
	}
	linkAt := func(p string) (string, bool) {
		fi, err := os.Lstat(p)
		if err != nil || fi.Mode()&os.ModeSymlink == 0 {
			return "", false
		}
		l, _ := os.Readlink(p)
		return l, true
	}
	tBefore, tExisted := readTarget()
	lockLinkBefore, lockWasLink := linkAt(lockPath)
	m := &downloader.Manager{Out: io.Discard, ChartPath: chartDir, SkipUpdate: true, Getters: getter.All(settings(sb)),
		RepositoryConfig: filepath.Join(sb.Home, "repositories.yaml"), RepositoryCache: filepath.Join(sb.Home, "cache")}
	if i%3 == 1 {
		m.ChartPath = "../dest" // relative chart path (cwd is S/cwd)
	}
	tags := []string{fmt.Sprintf("apiVersion %s, symlink at %s -> %s", api, atShape, us.Target)}
	desc := func() string {
		return fmt.Sprintf("Manager.Update on chart dir %s (apiVersion %s, %d file:// dependencies, SkipUpdate, empty repositories file, regular old lock %v); planted symlink: %q -> %q; chart dir after: %q", sb.rel(chartDir), api, us.Deps, us.OldReg, planted, target, destListing(sb))
	}
	// A planted target outside the chart directory is judged by the dedicated clause below (one
	// cause-shaped signature); keep it out of the generic diff.
	if target != "" && !sb.allowed(resolve(target)) {
		sb.Allowed = append(sb.Allowed, resolve(target))
	}
	accepted, err := rc.observe(sb, "Manager.Update", tags, desc, func() ([]string, error) { return nil, m.Update() })
	rc.res.Stat("update_scenarios", 1)
	where := "outside the chart directory"
	if strings.HasPrefix(us.Target, "inside") {
		where = "inside the chart directory"
	}
	if planted != "" {
		rc.res.Stat("update_scenarios_with_planted_symlink", 1)
		if planted != lockName {
			rc.res.Stat("update_scenarios_with_symlink_at_sibling_or_temporary_name", 1)
		}
		// (1) nothing may be written through the planted link: its target keeps its content
		// (and a dangling target stays absent), wherever it lies
		tAfter, tExists := readTarget()
		if tExists != tExisted || tAfter != tBefore {
			rc.res.Add("lock-written-through-symlink", fmt.Sprintf("Manager.Update (apiVersion %s): symlink at %s followed, target %s", api, atShape, where),
				"Update (err=%v) wrote through the planted symlink %s -> %q: target existed before %v, content before %q, after %q | %s", err, planted, target, tExisted, clipS(tBefore), clipS(tAfter), desc())
		}
	}
	// (2) whatever temporary-file scheme is used, the lock path must not END UP as a symlink that
	// was not there before (a link we planted exactly there and that was left alone is the
	// caller's state, not helm's doing)
	if l, isLink := linkAt(lockPath); isLink && !(lockWasLink && l == lockLinkBefore) {
		rc.res.Add("lock-path-became-symlink", fmt.Sprintf("Manager.Update (apiVersion %s): %s is a symlink afterwards (planted at %s, target %s)", api, "lock file", atShape, where),
			"after Update (err=%v) %s is a symlink to %q; it was a link before: %v (%q) | %s", err, lockName, l, lockWasLink, lockLinkBefore, desc())
	}
	if planted == "" || planted != lockName {
		// control: without a link at the lock path itself a successful Update leaves a regular lock file
		switch {
		case planted == "" && !accepted:
			rc.res.Add("update-control-failed", "Manager.Update without planted symlinks", "Update failed on a plain chart with file:// dependencies: %v | %s", err, desc())
		case accepted:
			fi, lerr := os.Lstat(lockPath)
			if lerr != nil || !fi.Mode().IsRegular() {
				if planted == "" {
					rc.res.Add("update-control-failed", "Manager.Update wrote no regular lock file", "after a successful Update %s is missing or not regular (%v) | %s", lockName, lerr, desc())
				}
			} else {
				rc.res.Stat("update_wrote_regular_lock", 1)
				if planted == "" {
					rc.res.Stat("update_controls_wrote_regular_lock", 1)
				}
			}
		}
	}
	rc.res.Key("update|%s|%s|%s|%v", api, atShape, us.Target, accepted)
}

func clipS(s string) string {
	if len(s) > 120 {
		return s[:120] + "..."
	}
	return s
}

func sortedCopy(xs []string) []string {
	out := append([]string{}, xs...)
	sort.Strings(out)
	return out
}
