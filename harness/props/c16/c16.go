// Package c16: file-writing operations never escape their directory or exceed size limits.
//
// Runtime monitor: hostile tar/gzip streams (a grammar of entry names x type flags x size fields,
// written with this package's own raw tar encoder, plus byte-level mutants of valid packages) are
// fed to the real loader.LoadArchive / LoadArchiveFiles, chartutil.Expand / ExpandFile,
// action.Pull --untar (served from a httptest server on 127.0.0.1), the plugin installer's
// TarGzExtractor.Extract, downloader.ChartDownloader.DownloadTo and downloader.Manager.Update
// (file:// dependencies, fully offline) inside a scratch sandbox whose destination directory was
// prepared with planted symlinks. Oracle: snapshot diff (path, lstat type, size, sha256, link
// target, mode, mtime of regular files) of everything outside the destination; name predicate
// on every file name a loaded chart exposes; lowered size limits with a counting lazy producer;
// thorough tier: an strace -e trace=%file batch scanned for successful file syscalls on
// canary-zone paths.
//
// Don't-care zones:
//   - inside the destination directory anything goes (what is extracted, overwritten, left half
//     written after an error).
//   - a destination that is itself a symlink chosen by the caller: its target is the destination.
//   - TMPDIR (pointed at a directory of the sandbox) is helm's to use.
//   - whether a hostile archive is rejected or sanitised: either-error-or-confined.
//   - directory mtimes; reads (the strace scan counts stat-family calls but flags only
//     open/create/mkdir/rename/unlink/link/chmod-like calls); symlink-mediated accesses whose path
//     string stays inside dest are invisible to the strace scan (snapshot diff covers them).
//   - Manager.Update: symlinks other than the ones planted at the lock names (charts/, tmpcharts)
//     are not part of the property text and are not planted.
//   - "without reading beyond the limit" is monitored as: producer offset at return <= limit +
//     1 MiB for an uncompressed (stored) gzip stream, limit + 16 MiB for compressed zeros (one
//     deflate block of zeros already spans ~4 MiB of input).
package c16

import (
	"fmt"
	"io"
	"log"
	"math/rand"
	"os"
	"path/filepath"
	"regexp"
	"runtime"
	"sort"
	"strings"

	"helm.sh/helm/v4/pkg/chart/v2/loader"
	chartutil "helm.sh/helm/v4/pkg/chart/v2/util"
	"helm.sh/helm/v4/verifh/core"
)

type caseData struct {
	Kind string `json:"kind"` // archives | plugins | mutants | download | limits | update | aimed
	Seed int64  `json:"seed"`
	N    int    `json:"n"`
	Only int    `json:"only,omitempty"` // replay aid: only the i-th sub-case (1-based)
	Off  int    `json:"off,omitempty"`  // download/limits/update: index of the first enumerated scenario
	File string `json:"file,omitempty"` // kind "scan" (development aid): scan this strace log
}

func init() {
	core.Register(&core.Prop{
		ID:    "C16",
		Level: "exploration",
		Rule: "archives = benign chart/plugin entries + 1-2 hostile entries drawn from a grammar of ~45 name shapes (absolute, ../ chains to depth 5, inner ../, backslash and mixed separators, drive prefixes, empty/./slash, very long/deep, NUL, look-alikes, names aimed at planted links) x 15 type flags x 6 size-field forms x ustar/PAX/GNU long-name encodings x position/duplication, and structure-aware byte mutants (13 kinds) of a valid package; each is fed to LoadArchive, LoadArchiveFiles, Expand, ExpandFile, Extract and (every 4th) Pull --untar over 17 destination layouts with planted symlinks; " +
			"aimed = names without '..', root or drive prefix whose first or only component is a symlink really present below the archive root (listed after planting; 12 layouts + control), the component boundary written in 13 (directory links) / 8 (file links) spellings of '/', '\\', doubled and mixed separators, '/./', '\\.\\', leading './' '.\\', trailing separator x reg/regA/dir x ustar/PAX/GNU x hostile entry first or after the directory entries, fed to Extract (plugin archives) and Expand/ExpandFile (chart archives); " +
			"DownloadTo gets 21 URL-path shapes x verify mode x 3 layouts; Manager.Update gets v1/v2 charts with symlinks planted at Chart.lock/requirements.lock pointing to 6 kinds of targets; 13 size-limit streams x 4 entry points with lowered limits. " +
			"distinct_nontrivial counts distinct (entry point, layout, hostile feature tags, accepted/rejected) tuples.",
		Assumptions: []string{
			"the sandbox file system is POSIX (symlinks, case-sensitive); no other process touches the sandbox",
			"the snapshot (lstat type, size, sha256, link target, mode, file mtime) sees every persistent effect outside the destination",
			"producer offset of an io.Pipe-fed stored gzip stream bounds how far the consumer has read (<= 64 KiB + bufio slack)",
			"strace -f -e trace=%file reports every path-taking syscall of the worker; calls between the begin/end marker syscalls belong to the call into helm (the worker runs cases sequentially)",
		},
		Gen:            genCases,
		Run:            run,
		Post:           post,
		StraceArgs:     []string{"-e", "trace=%file", "-s", "4096"},
		CaseTimeoutSec: 900,
	})
}

func genCases(seed int64, tier string) []core.Case {
	rng := rand.New(rand.NewSource(seed*999983 + 16))
	var out []core.Case
	add := func(kind, mode string, cases, n int) {
		for i := 0; i < cases; i++ {
			id := fmt.Sprintf("%s-%d", kind, i)
			if mode != "" {
				id = mode + "-" + id
			}
			cd := caseData{Kind: kind, Seed: rng.Int63(), N: n}
			if kind == "download" || kind == "limits" || kind == "update" || kind == "aimed" {
				cd.Off = i * n // these kinds enumerate a fixed scenario table: every case continues where the previous one stopped
			}
			out = append(out, core.Case{ID: id, Mode: mode, Data: core.J(cd)})
		}
	}
	if tier == "thorough" {
		add("archives", "", 80, 150)
		add("plugins", "", 24, 150)
		add("mutants", "", 32, 150)
		add("download", "", 8, 63)
		add("limits", "", 8, 26)
		add("update", "", 8, 40)
		add("archives", "strace", 1, 150)
		add("plugins", "strace", 1, 60)
		add("mutants", "strace", 1, 60)
		add("download", "strace", 1, 42)
		add("update", "strace", 1, 160)
		// appended last: the seeds of the cases above stay what they were
		add("aimed", "", 16, 156)
		add("aimed", "strace", 1, 104)
	} else {
		add("archives", "", 20, 75)
		add("plugins", "", 6, 75)
		add("mutants", "", 10, 75)
		add("download", "", 4, 63)
		add("limits", "", 4, 26)
		add("update", "", 4, 40)
		add("aimed", "", 4, 91)
	}
	return out
}

var chartEntries = []string{"LoadArchive", "LoadArchiveFiles", "Expand", "ExpandFile", "Extract"}

func run(c core.Case, verbose bool) core.Result {
	// 16 worker processes run side by side and each is essentially sequential: do not let every one
	// of them spin up a 16-way Go scheduler
	runtime.GOMAXPROCS(4)
	log.SetOutput(io.Discard)
	var d caseData
	core.U(c, &d)
	var res core.Result
	rc := &runCtx{res: &res, caseID: c.ID, verbose: verbose, markers: c.Mode == "strace" || os.Getenv("C16_MARKERS") != ""}
	if d.Kind == "scan" {
		st := scanStrace([]string{d.File}, func(caseID string, only int, v core.Violation) { res.Violations = append(res.Violations, v) })
		for k, v := range st {
			res.Stat(k, v)
		}
		return res
	}
	rng := rand.New(rand.NewSource(d.Seed))
	var valid []byte
	if d.Kind == "mutants" {
		valid = savedPackage()
	}
	for i := 0; i < d.N; i++ {
		rc.idx = i + 1
		// every sub-case draws from its own stream so that "only" replays are exact
		sub := rand.New(rand.NewSource(rng.Int63()))
		if d.Only != 0 && d.Only != i+1 {
			continue
		}
		switch d.Kind {
		case "archives", "plugins":
			kind := "chart"
			if d.Kind == "plugins" {
				kind = "plugin"
			}
			spec := genArchive(sub, kind)
			ac := archCase{spec: spec, tags: spec.Tags,
				raw:  func(sb *sandbox) []byte { return spec.bytes(sb.sub) },
				list: func(sb *sandbox) string { return spec.listing(sb.sub) }}
			entries := chartEntries
			if kind == "plugin" {
				entries = []string{"Extract", "Extract", "LoadArchiveFiles"}
			}
			for _, e := range entries {
				rc.runArchive(ac, e, pick(sub, layouts), sub.Intn(1000))
			}
			if kind == "chart" && i%4 == 0 {
				rc.runArchive(ac, "Pull", pick(sub, layouts), sub.Intn(1000))
			}
			res.Stat("archives_generated", 1)
		case "mutants":
			mseed := sub.Int63()
			layout := pick(sub, layouts)
			// the mutation kind depends only on mseed; spliced absolute names depend on the sandbox
			mutate := func(canary, outside string) ([]byte, string) {
				r := rand.New(rand.NewSource(mseed))
				if r.Intn(5) == 0 {
					return mutateGz(r, valid)
				}
				t, tag := mutateTar(r, gunzip(valid), canary, outside)
				return gz(t), tag
			}
			_, tag := mutate("/C", "/O")
			ac := archCase{tags: []string{tag},
				raw: func(sb *sandbox) []byte { b, _ := mutate(sb.Canary, sb.Outside); return b },
				list: func(sb *sandbox) string {
					b, _ := mutate(sb.Canary, sb.Outside)
					return " " + tag + "; tar headers after mutation:" + rawListing(gunzip(b))
				}}
			for _, e := range chartEntries {
				rc.runArchive(ac, e, layout, int(mseed%1000))
			}
			if i%4 == 0 {
				rc.runArchive(ac, "Pull", layout, int(mseed%1000))
			}
			res.Stat("byte_mutants_generated", 1)
		case "download":
			rc.runDownload(d.Off + i)
		case "limits":
			rc.runLimit(d.Off + i)
		case "update":
			rc.runUpdate(d.Off + i)
		case "aimed":
			rc.runAimed(d.Off+i, sub)
		}
	}
	if res.Sample == nil {
		res.Sample = map[string]any{"case": c.ID, "kind": d.Kind, "subcases": d.N, "evaluations": res.Evals}
		if d.Kind == "archives" || d.Kind == "plugins" {
			spec := genArchive(rand.New(rand.NewSource(d.Seed)), "chart")
			res.Sample.(map[string]any)["example_archive"] = spec.listing(func(s string) string { return s })
			res.Sample.(map[string]any)["example_tags"] = spec.Tags
		}
	}
	return res
}

// savedPackage is a valid `helm package` output: chartutil.Save of a chart loaded from files.
func savedPackage() []byte {
	var bf []*loader.BufferedFile
	for _, e := range baseChartEnts("") {
		bf = append(bf, &loader.BufferedFile{Name: e.Name, Data: e.Data})
	}
	c, err := loader.LoadFiles(bf)
	must(err)
	d, err := os.MkdirTemp("", "c16-pkg-")
	must(err)
	defer os.RemoveAll(d)
	p, err := chartutil.Save(c, d)
	must(err)
	b, err := os.ReadFile(p)
	must(err)
	return gz(normalizeMtime(gunzip(b)))
}

// normalizeMtime overwrites the mtime field of every tar header (chartutil.Save stamps
// time.Now()) and recomputes the checksums, so that the package the byte mutants start from is
// the same in every run and replays reproduce exactly.
func normalizeMtime(t []byte) []byte {
	for off := 0; off+512 <= len(t); {
		h := t[off : off+512]
		zero := true
		for _, c := range h {
			if c != 0 {
				zero = false
				break
			}
		}
		if zero {
			break
		}
		var size int64
		fmt.Sscanf(strings.TrimRight(string(h[124:135]), "\x00 "), "%o", &size)
		copy(h[136:148], "14524432400\x00")
		for i := 148; i < 156; i++ {
			h[i] = ' '
		}
		var sum int64
		for _, c := range h {
			sum += int64(c)
		}
		copy(h[148:156], fmt.Sprintf("%06o\x00 ", sum))
		off += 512 + int((size+511)/512*512)
	}
	return t
}

var nameField = regexp.MustCompile(`[^\x00]*`)

func rawListing(t []byte) string {
	var b strings.Builder
	n := 0
	for off := 0; off+512 <= len(t) && n < 20; n++ {
		h := t[off : off+512]
		allZero := true
		for _, c := range h {
			if c != 0 {
				allZero = false
				break
			}
		}
		if allZero {
			break
		}
		var size int64
		fmt.Sscanf(strings.TrimRight(string(h[124:135]), "\x00 "), "%o", &size)
		fmt.Fprintf(&b, "\n    type %q name %q prefix %q link %q size-field %q", h[156], nameField.Find(h[0:100]), nameField.Find(h[345:500]), nameField.Find(h[157:257]), h[124:136])
		if size < 0 || size > 1<<30 {
			break
		}
		off += 512 + int((size+511)/512*512)
	}
	return b.String()
}

// ---------------------------------------------------------------- post: minimum counts + strace scan

func post(a *core.Agg) string {
	var miss []string
	need := map[string]int64{"subcases_LoadArchive": 500, "subcases_Expand": 500, "subcases_Extract": 500, "subcases_Pull": 100, "subcases_DownloadTo": 60,
		"subcases_Manager.Update": 60, "update_scenarios_with_symlink_at_sibling_or_temporary_name": 60, "producer_offset_checks": 20, "over_limit_archives_rejected": 20, "under_limit_controls_accepted": 8,
		"update_controls_wrote_regular_lock": 4, "accepted_Expand": 20, "accepted_Extract": 5, "accepted_Pull": 5, "accepted_DownloadTo": 10,
		"subcases_on_layouts_with_planted_symlinks_or_files": 500,
		"aimed_names_whose_component_is_a_planted_symlink":   150, "aimed_names_with_backslash_boundary_at_a_planted_symlink_reached_first_Extract": 20,
		"aimed_names_with_backslash_boundary_at_a_planted_symlink_Expand": 15, "aimed_accepted": 20}
	for k, n := range need {
		if a.Stats[k] < n {
			miss = append(miss, fmt.Sprintf("%s=%d (<%d)", k, a.Stats[k], n))
		}
	}
	files, _ := filepath.Glob(filepath.Join(a.Scratch, "strace-*"))
	if a.Tier == "thorough" {
		st := scanStrace(files, func(caseID string, only int, v core.Violation) {
			rcase := core.Case{ID: "strace-scan", Data: core.J(map[string]any{"case": caseID, "only": only})}
			for _, c := range genCases(a.Seed, a.Tier) {
				if c.ID == caseID {
					var d caseData
					core.U(c, &d)
					d.Only = only
					rcase = core.Case{ID: c.ID, Mode: c.Mode, Data: core.J(d)}
				}
			}
			a.ExtraViol = append(a.ExtraViol, core.CaseViolation{Case: rcase, V: v})
		})
		for k, v := range st {
			a.Stats[k] = v
		}
		if st["strace_file_syscalls_inside_helm_calls"] < 1000 {
			miss = append(miss, fmt.Sprintf("strace_file_syscalls_inside_helm_calls=%d (<1000)", st["strace_file_syscalls_inside_helm_calls"]))
		}
	}
	sort.Strings(miss)
	if len(miss) > 0 {
		return "monitors observed too little: " + strings.Join(miss, ", ")
	}
	return ""
}
