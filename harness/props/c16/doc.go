// Package c16: monitor for property C16 (see DESIGN.md section 3).
package c16
