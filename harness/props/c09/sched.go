package c09

import (
	"fmt"
	"math/rand"
	"strings"
	"sync"
	"time"

	"helm.sh/helm/v4/verifh/env"
	"helm.sh/helm/v4/verifh/gen"
	"helm.sh/helm/v4/verifh/sim"
)

// ---------------------------------------------------------------- gate scheduler
//
// Every storage / cluster call of a gated op parks in gate(). run() waits until every live op is
// parked or finished, releases exactly one parked call, and repeats. Between two decisions only
// the released op executes, so an execution is determined by the word of choices.

type scheduler struct {
	mu        sync.Mutex
	cond      *sync.Cond
	idx       map[string]int
	parked    [][]chan struct{}
	done      []bool
	abandoned bool
	timedOut  bool
	multi     int // arrivals while another call of the same op was already parked (should stay 0)
}

func newScheduler(agents []string) *scheduler {
	s := &scheduler{idx: map[string]int{}, parked: make([][]chan struct{}, len(agents)), done: make([]bool, len(agents))}
	s.cond = sync.NewCond(&s.mu)
	for i, a := range agents {
		s.idx[a] = i
	}
	return s
}

func (s *scheduler) gate(r *sim.Req) {
	i, ok := s.idx[r.Agent]
	if !ok {
		return
	}
	ch := make(chan struct{})
	s.mu.Lock()
	if s.abandoned {
		s.mu.Unlock()
		return
	}
	if len(s.parked[i]) > 0 {
		s.multi++
	}
	s.parked[i] = append(s.parked[i], ch)
	s.cond.Broadcast()
	s.mu.Unlock()
	<-ch
}

func (s *scheduler) finish(i int) {
	s.mu.Lock()
	s.done[i] = true
	s.cond.Broadcast()
	s.mu.Unlock()
}

// branch is one decision at which more than one op was enabled.
type branch struct {
	n       int  // number of options
	preempt bool // the op that ran last was still enabled: a non-zero choice is a preemption
	c       int  // choice taken (index into the option list: last-run op first, then by op index)
}

// chooser picks an option. b = number of earlier branching decisions, step = number of earlier
// decisions of any kind, opts = enabled ops (last-run op first if enabled).
type chooser func(b, step int, opts []int, preempt bool) int

// run drives one schedule to completion. ok=false: watchdog fired (scheduler abandoned).
func (s *scheduler) run(choose chooser, watchdog time.Duration) (trace []int, branches []branch, ok bool) {
	t := time.AfterFunc(watchdog, func() {
		s.mu.Lock()
		s.timedOut = true
		s.cond.Broadcast()
		s.mu.Unlock()
	})
	defer t.Stop()
	last := -1
	for {
		s.mu.Lock()
		for {
			if s.timedOut {
				s.abandoned = true
				for i := range s.parked {
					for _, ch := range s.parked[i] {
						close(ch)
					}
					s.parked[i] = nil
				}
				s.mu.Unlock()
				return trace, branches, false
			}
			quiet := true
			for i := range s.done {
				if !s.done[i] && len(s.parked[i]) == 0 {
					quiet = false
				}
			}
			if quiet {
				break
			}
			s.cond.Wait()
		}
		var opts []int
		lastEnabled := last >= 0 && !s.done[last]
		if lastEnabled {
			opts = append(opts, last)
		}
		for i := range s.done {
			if !s.done[i] && i != last {
				opts = append(opts, i)
			}
		}
		if len(opts) == 0 {
			s.mu.Unlock()
			return trace, branches, true
		}
		c := 0
		if len(opts) > 1 {
			c = choose(len(branches), len(trace), opts, lastEnabled)
			if c < 0 || c >= len(opts) {
				c = 0
			}
			branches = append(branches, branch{n: len(opts), preempt: lastEnabled, c: c})
		}
		pick := opts[c]
		ch := s.parked[pick][0]
		s.parked[pick] = s.parked[pick][1:]
		s.mu.Unlock()
		trace = append(trace, pick)
		last = pick
		close(ch)
	}
}

// ---------------------------------------------------------------- scenarios

// scenario: setup ops run sequentially and ungated, then Ops run concurrently under the gate.
type scenario struct {
	Name  string   `json:"name"`
	Setup []env.Op `json:"setup,omitempty"`
	Ops   []env.Op `json:"ops"`
	Big   bool     `json:"big,omitempty"` // schedule tree too large for complete enumeration
	// Variant: flag variant of install‖install with the same tree on the unchanged code; the
	// quick tier explores it preemption-bounded, the thorough tier completely
	Variant bool `json:"variant,omitempty"`
}

const relName = "rel"

func up(max int) env.Op { return env.Op{Kind: "upgrade", MaxHistory: max, NoHooks: true} }
func inst(replace bool) env.Op {
	return env.Op{Kind: "install", Replace: replace, NoHooks: true}
}

// atLimit: a history of exactly n revisions (1..n-1 superseded, n deployed) built with limit n.
func atLimit(n int) []env.Op {
	ops := []env.Op{inst(false)}
	for i := 1; i < n; i++ {
		ops = append(ops, up(n))
	}
	return ops
}

var scenarios2 = []scenario{
	{Name: "empty: install‖install", Ops: []env.Op{inst(false), inst(false)}},
	{Variant: true, Name: "empty: install‖install --replace", Ops: []env.Op{inst(false), inst(true)}},
	{Name: "deployed: upgrade‖upgrade", Setup: atLimit(1), Ops: []env.Op{up(0), up(0)}},
	{Name: "deployed: upgrade‖install", Setup: atLimit(1), Ops: []env.Op{up(0), inst(false)}},
	{Name: "deployed: upgrade‖install --replace", Setup: atLimit(1), Ops: []env.Op{up(0), inst(true)}},
	{Big: true, Name: "at limit 1: upgrade‖upgrade max-history=1", Setup: atLimit(1), Ops: []env.Op{up(1), up(1)}},
	{Big: true, Name: "at limit 2: upgrade‖upgrade max-history=2", Setup: atLimit(2), Ops: []env.Op{up(2), up(2)}},
	{Big: true, Name: "at limit 3: upgrade‖upgrade max-history=3", Setup: atLimit(3), Ops: []env.Op{up(3), up(3)}},
	{Variant: true, Name: "empty: install‖install --atomic", Ops: []env.Op{inst(false), instAtomic()}},
	{Variant: true, Name: "empty: install --atomic‖install --atomic", Ops: []env.Op{instAtomic(), instAtomic()}},
	// an upgrade of a name that is being installed for the first time: refused with "has no
	// deployed releases" (nothing there yet) or operation-in-progress (pending-install), or it
	// runs after the install has finished
	{Name: "empty: install‖upgrade", Ops: []env.Op{inst(false), up(0)}},
}

func instAtomic() env.Op { return env.Op{Kind: "install", Atomic: true, NoHooks: true} }

var scenarios3 = []scenario{
	{Name: "empty: install‖install‖install", Ops: []env.Op{inst(false), inst(false), inst(false)}},
	{Name: "deployed: upgrade‖upgrade‖upgrade", Setup: atLimit(1), Ops: []env.Op{up(0), up(0), up(0)}},
	{Name: "deployed: upgrade‖upgrade‖install", Setup: atLimit(1), Ops: []env.Op{up(0), up(0), inst(false)}},
	{Name: "empty: install‖upgrade‖upgrade", Ops: []env.Op{inst(false), up(0), up(0)}},
	{Name: "at limit 2: upgrade‖upgrade‖upgrade max-history=2", Setup: atLimit(2), Ops: []env.Op{up(2), up(2), up(2)}},
	{Name: "at limit 3: upgrade‖upgrade‖upgrade max-history=3", Setup: atLimit(3), Ops: []env.Op{up(3), up(3), up(3)}},
}

// opLabel names an op by kind and the flags that select a code path (witness classes use it).
func opLabel(o env.Op) string {
	s := o.Kind
	if o.Replace {
		s += " --replace"
	}
	if o.MaxHistory > 0 {
		// the limit is part of the witness class: which record the pruning step of
		// Storage.Create may remove depends on it (a limit <= 2 leaves nothing older than the
		// protected deployed revision to prune)
		s += fmt.Sprintf(" --history-max=%d", o.MaxHistory)
	}
	if o.Atomic {
		s += " --atomic"
	}
	return s
}

func family(cseed int64) gen.Family {
	rng := rand.New(rand.NewSource(cseed))
	slots := 2 + rng.Intn(3)
	return gen.NewFamily(rng, gen.FamilyOpts{Versions: 4, MaxSlots: slots, OnePerKind: true})
}

func agentOf(i int) string { return fmt.Sprintf("op%d", i) }

// ---------------------------------------------------------------- one execution

type execution struct {
	sc       scenario
	driver   string
	w        *env.World
	results  []env.OpResult
	trace    []int
	branches []branch
	ok       bool // false: watchdog
	multi    int
	before   []env.Rec
}

func (x *execution) word() string {
	var b strings.Builder
	for _, t := range x.trace {
		b.WriteByte(byte('0' + t))
	}
	return b.String()
}

const schedWatchdog = 120 * time.Second

// execute runs the scenario once on a fresh world under the given chooser.
func execute(sc scenario, driver string, fam gen.Family, choose chooser) *execution {
	w := env.NewWorld(driver, "ns1")
	for i, op := range sc.Setup {
		op.Vals = map[string]any{"k": fmt.Sprintf("s%d", i)}
		r := w.Exec(fmt.Sprintf("setup%d", i), relName, op, fam.Files(i%len(fam.Versions)).Build())
		if r.Err != nil {
			panic(fmt.Sprintf("c09: setup op %d (%s) of scenario %q failed: %v", i, op, sc.Name, r.Err))
		}
	}
	x := &execution{sc: sc, driver: driver, w: w, results: make([]env.OpResult, len(sc.Ops))}
	x.before, _ = w.Ledger(relName)
	var agents []string
	for i := range sc.Ops {
		agents = append(agents, agentOf(i))
	}
	s := newScheduler(agents)
	w.Sim.Gate = s.gate
	for i := range sc.Ops {
		go func(i int) {
			op := sc.Ops[i]
			op.Vals = map[string]any{"k": fmt.Sprintf("o%d", i)}
			ch := fam.Files((len(sc.Setup) + i) % len(fam.Versions)).Build()
			w.Sim.NoteEvent(sim.Event{Agent: agentOf(i), What: "op-start"})
			r := w.Exec(agentOf(i), relName, op, ch)
			e := sim.Event{Agent: agentOf(i), What: "op-end"}
			if r.Err != nil {
				e.Err = r.Err.Error()
			}
			w.Sim.NoteEvent(e)
			x.results[i] = r
			s.finish(i)
		}(i)
	}
	x.trace, x.branches, x.ok = s.run(choose, schedWatchdog)
	w.Sim.Gate = nil
	s.mu.Lock()
	x.multi = s.multi
	s.mu.Unlock()
	return x
}

// ---------------------------------------------------------------- choosers

// prefixChooser follows choices, then always continues the last-run op (choice 0).
func prefixChooser(choices []int) chooser {
	return func(b, _ int, _ []int, _ bool) int {
		if b < len(choices) {
			return choices[b]
		}
		return 0
	}
}

// uniformChooser picks uniformly among the enabled ops.
func uniformChooser(rng *rand.Rand) chooser {
	return func(_, _ int, opts []int, _ bool) int { return rng.Intn(len(opts)) }
}

// pctChooser: PCT-style — random op priorities, d priority-change points among the first
// `horizon` steps; always runs the enabled op of highest priority; at a change point the op
// that would run is demoted below all others.
func pctChooser(rng *rand.Rand, nops, d, horizon int) chooser {
	prio := rng.Perm(nops) // prio[op]: larger runs first
	for i := range prio {
		prio[i] += d + 1
	}
	change := map[int]int{}
	for j := 0; j < d; j++ {
		change[rng.Intn(horizon)] = d - j // new (low) priority
	}
	return func(_, step int, opts []int, _ bool) int {
		best := func() int {
			bi := 0
			for i, o := range opts {
				if prio[o] > prio[opts[bi]] {
					bi = i
				}
			}
			return bi
		}
		bi := best()
		if np, ok := change[step]; ok {
			prio[opts[bi]] = np
			bi = best()
		}
		return bi
	}
}

// ---------------------------------------------------------------- DFS over choices

// preemptions counts the preempting choices among branches[:n].
func preemptions(br []branch, n int) int {
	c := 0
	for i := 0; i < n && i < len(br); i++ {
		if br[i].preempt && br[i].c != 0 {
			c++
		}
	}
	return c
}

// dfs enumerates the subtree of schedules whose first len(prefix) branching choices equal
// prefix, with at most bound preemptions (bound < 0: unbounded), visiting at most limit
// schedules. visit is called for every schedule. It returns the number of schedules, whether
// the prefix was feasible, whether the subtree was exhausted, and whether a watchdog fired.
func dfs(sc scenario, driver string, fam gen.Family, prefix []int, bound, limit int, visit func(*execution)) (n int, feasible, complete, hung bool) {
	choices := append([]int(nil), prefix...)
	k := len(prefix)
	for {
		x := execute(sc, driver, fam, prefixChooser(choices))
		if !x.ok {
			return n, true, false, true
		}
		if n == 0 {
			// feasibility of the prefix: every prefix choice must have been a real option, the
			// prefix must fit the preemption bound, and prefix entries beyond the last branching
			// decision must be zero (canonical representative).
			for i := 0; i < k; i++ {
				if i < len(x.branches) {
					if prefix[i] >= x.branches[i].n {
						return 0, false, true, false
					}
				} else if prefix[i] != 0 {
					return 0, false, true, false
				}
			}
			if bound >= 0 && preemptions(x.branches, k) > bound {
				return 0, false, true, false
			}
		}
		n++
		visit(x)
		// backtrack: deepest branching decision beyond the prefix with an untried, affordable option
		br := x.branches
		i := len(br) - 1
		for ; i >= k; i-- {
			if br[i].c+1 >= br[i].n {
				continue
			}
			if bound >= 0 && br[i].preempt && preemptions(br, i)+1 > bound {
				continue
			}
			break
		}
		if i < k {
			return n, true, true, false
		}
		if n >= limit {
			return n, true, false, false
		}
		choices = choices[:0]
		for j := 0; j < i; j++ {
			choices = append(choices, br[j].c)
		}
		choices = append(choices, br[i].c+1)
	}
}
