// Package c09: concurrent installs/upgrades of one release cannot both proceed; concurrent use
// of one storage backend is race free.
//
// Three monitors, all observing the real helm code:
//
//  1. schedule exploration (cases "dfs", "rand"): 2 or 3 real action.Install/Upgrade runs on one
//     release name execute in goroutines while sim.Server.Gate parks every storage and cluster
//     call; a scheduler releases one call at a time, so an execution is determined by a word of
//     choices. A stateless DFS over the choices enumerates the schedule tree (sharded over cases
//     by a prefix of choices), optionally bounded by the number of preemptions; seeded uniform
//     and PCT-style random schedules are added. Each schedule runs on a fresh World. Oracle over
//     request log + op results + raw ledger (oracle.go).
//  2. race detection (Mode "race" cases "race-ops", "race-driver"): free-running goroutines,
//     random 0-3 ms delays at the simulator, under the Go race detector; the runner turns race
//     reports with helm frames into violations (clause data-race).
//  3. linearizability (cases "lin"): driver-level histories checked with porcupine against a
//     sequential key-value model (lin.go).
//
// Don't-care zones (deliberately not judged):
//   - which of the concurrent ops wins, and whether a late op that starts after the winner finished
//     succeeds with the next revision (that is a serial execution);
//   - storage-record housekeeping by an op that then loses (pruning of old revisions): the text
//     speaks of release resources; only successful (2xx) cluster mutations of a loser are refuted;
//   - reads (GET/LIST) by losers;
//   - the value returned by driver Delete, and createdAt/modifiedAt labels (C10's business);
//   - races located purely in client-go / the harness (counted as foreign by the runner);
//   - --create-namespace, CRDs, hooks (not generated here).
package c09

import (
	"fmt"
	"math/rand"
	"os"
	"sort"
	"strings"

	"helm.sh/helm/v4/verifh/core"
	"helm.sh/helm/v4/verifh/env"
)

type caseData struct {
	Kind   string   `json:"kind"` // dfs | rand | race-ops | race-driver | lin
	Scen   scenario `json:"scen,omitempty"`
	Driver string   `json:"driver,omitempty"`
	CSeed  int64    `json:"cseed,omitempty"` // chart family seed
	// dfs
	Prefix []int `json:"prefix,omitempty"`
	Bound  int   `json:"bound,omitempty"` // max preemptions, <0 = unbounded
	Limit  int   `json:"limit,omitempty"` // max schedules in this subtree
	// rand / race / lin
	RSeed int64 `json:"rseed,omitempty"`
	N     int   `json:"n,omitempty"` // schedules | repetitions | histories
	G     int   `json:"g,omitempty"` // goroutines / clients
	M     int   `json:"m,omitempty"` // ops per goroutine / client
	Keys  int   `json:"keys,omitempty"`
	Lists bool  `json:"lists,omitempty"` // lin: include List/Query (unpartitioned model)
}

func init() {
	core.Register(&core.Prop{
		ID:    "C09",
		Level: "exploration",
		Rule: "gate-scheduled interleavings (granularity: one storage or cluster call) of 2 and 3 real install/upgrade runs on one release name, from an empty, a deployed and an at-the-history-limit ledger, on memory/secrets/configmaps storage: stateless DFS over scheduler choices sharded by choice prefix (2 ops: unbounded in the thorough tier, preemption bound 2 in quick; 3 ops: preemption bound 2 resp. 1) plus seeded uniform/PCT random schedules; " +
			"free-running mixed ops and pure driver stress under the race detector; driver-level histories (<=4 clients x <=8 ops on 2-3 keys) checked for linearizability with porcupine. " +
			"distinct_nontrivial counts distinct (scenario, storage, chart shape, schedule word) executions in which a record create was attempted while another op had calls both before and after it, plus distinct race-stress and linearizability configurations.",
		Assumptions: []string{
			"the simulated API server applies each request atomically (create-if-absent, update, delete) like a real API server; it is the serialisation point of the Kubernetes-backed drivers",
			"a gated op has at most one outstanding call (charts have one resource per kind; hooks off); the scheduler verifies this (multi_outstanding_calls must stay 0)",
			"schedule granularity is one storage/cluster call; discovery/openapi calls are not scheduled (they commute)",
			"the Go race detector only sees races on executed paths; porcupine v1.3.0 is trusted",
		},
		Gen:             genCases,
		Run:             run,
		Post:            post,
		CaseTimeoutSec:  900,
		RaceClassSuffix: raceSuffix,
	})
}

var drivers = []string{"memory", "secrets", "configmaps"}

func words(n, k int) [][]int {
	out := [][]int{{}}
	for i := 0; i < k; i++ {
		var next [][]int
		for _, w := range out {
			for c := 0; c < n; c++ {
				next = append(next, append(append([]int(nil), w...), c))
			}
		}
		out = next
	}
	return out
}

func genCases(seed int64, tier string) []core.Case {
	rng := rand.New(rand.NewSource(seed*104729 + 9))
	thorough := tier == "thorough"
	var plain, race []core.Case
	add := func(list *[]core.Case, mode string, d caseData, id string) {
		*list = append(*list, core.Case{ID: id, Mode: mode, Data: core.J(d)})
	}
	nfam := 1
	if thorough {
		nfam = 3
	}
	for f := 0; f < nfam; f++ {
		cseed := rng.Int63()
		for si, sc := range scenarios2 {
			for _, drv := range drivers {
				// small trees are enumerated completely in both tiers; the at-the-limit scenarios (in
				// which both ops proceed on the unchanged tree, so the tree has millions of leaves)
				// are preemption-bounded
				bound, k, limit, n := -1, 2, 350, 12
				if sc.Big {
					bound, k, limit = 2, 3, 300
				}
				if sc.Variant {
					bound = 2
				}
				if thorough {
					bound, k, limit, n = -1, 4, 5000, 100
					if sc.Big {
						bound, k, limit = 3, 5, 4000
					}
				}
				for wi, w := range words(2, k) {
					add(&plain, "", caseData{Kind: "dfs", Scen: sc, Driver: drv, CSeed: cseed, Prefix: w, Bound: bound, Limit: limit},
						fmt.Sprintf("dfs2-f%d-s%d-%s-p%d", f, si, drv, wi))
				}
				add(&plain, "", caseData{Kind: "rand", Scen: sc, Driver: drv, CSeed: cseed, RSeed: rng.Int63(), N: n}, fmt.Sprintf("rand2-f%d-s%d-%s", f, si, drv))
			}
		}
		if f >= 2 {
			continue
		}
		for si, sc := range scenarios3 {
			for _, drv := range drivers {
				bound, k, limit, n := 1, 2, 300, 15
				if thorough {
					bound, k, limit, n = 2, 3, 3000, 170
				}
				for wi, w := range words(3, k) {
					add(&plain, "", caseData{Kind: "dfs", Scen: sc, Driver: drv, CSeed: cseed, Prefix: w, Bound: bound, Limit: limit},
						fmt.Sprintf("dfs3-f%d-s%d-%s-p%d", f, si, drv, wi))
				}
				add(&plain, "", caseData{Kind: "rand", Scen: sc, Driver: drv, CSeed: cseed, RSeed: rng.Int63(), N: n}, fmt.Sprintf("rand3-f%d-s%d-%s", f, si, drv))
			}
		}
	}
	// linearizability
	nl := 16
	hist := 12
	if thorough {
		nl, hist = 48, 45
	}
	for i := 0; i < nl; i++ {
		drv := drivers[i%3]
		lists := i%4 == 3
		d := caseData{Kind: "lin", Driver: drv, RSeed: rng.Int63(), N: hist, G: 2 + rng.Intn(3), M: 4 + rng.Intn(5), Keys: 2 + rng.Intn(2), Lists: lists}
		if lists {
			d.G, d.M = 2+rng.Intn(2), 3+rng.Intn(3)
		}
		add(&plain, "", d, fmt.Sprintf("lin-%d-%s", i, drv))
	}
	// race detector runs
	nr := 16
	reps := 3
	if thorough {
		nr, reps = 48, 8
	}
	for i := 0; i < nr; i++ {
		drv := drivers[i%3]
		add(&race, "race", caseData{Kind: "race-ops", Driver: drv, CSeed: rng.Int63(), RSeed: rng.Int63(), N: reps, G: 4 + rng.Intn(13), M: 1 + rng.Intn(2)}, fmt.Sprintf("race-ops-%d-%s", i, drv))
	}
	for i := 0; i < nr; i++ {
		drv := drivers[i%3]
		add(&race, "race", caseData{Kind: "race-driver", Driver: drv, RSeed: rng.Int63(), N: reps, G: 4 + rng.Intn(9), M: 20 + rng.Intn(20), Keys: 2 + rng.Intn(2)}, fmt.Sprintf("race-drv-%d-%s", i, drv))
	}
	// spread heavy and light subtrees over the shards
	rng.Shuffle(len(plain), func(i, j int) { plain[i], plain[j] = plain[j], plain[i] })
	rng.Shuffle(len(race), func(i, j int) { race[i], race[j] = race[j], race[i] })
	return append(plain, race...)
}

func run(c core.Case, verbose bool) core.Result {
	env.Quiet()
	var d caseData
	core.U(c, &d)
	var res core.Result
	switch d.Kind {
	case "dfs", "rand":
		runSchedules(&res, d, verbose)
	case "race-ops":
		runRaceOps(&res, d, verbose)
	case "race-driver":
		runRaceDriver(&res, d, verbose)
	case "lin":
		runLin(&res, d, verbose)
	default:
		panic("c09: unknown case kind " + d.Kind)
	}
	return res
}

// famShape identifies the chart family shape in keys.
func famShape(cseed int64) string { return fmt.Sprintf("%x", uint64(cseed)%0xffff) }

func runSchedules(res *core.Result, d caseData, verbose bool) {
	fam := family(d.CSeed)
	words := map[string]bool{}
	visit := func(x *execution) {
		res.Evals++
		res.Stat("schedules_executed", 1)
		res.Stat(fmt.Sprintf("schedules_%dop", len(d.Scen.Ops)), 1)
		res.Stat("schedules_of["+d.Scen.Name+"]", 1)
		res.Stat("schedules_on_"+d.Driver, 1)
		if x.multi > 0 {
			res.Stat("multi_outstanding_calls", int64(x.multi))
		}
		word := x.word()
		if !words[word] {
			words[word] = true
			res.Stat("distinct_schedule_words_in_case", 1)
		}
		res.Stat("gated_calls_scheduled", int64(len(x.trace)))
		var ops []opRun
		for i, op := range d.Scen.Ops {
			ops = append(ops, opRun{agent: agentOf(i), op: op, err: x.results[i].Err})
		}
		nv := len(res.Violations)
		j := judge(res, x.w, ops, d.Scen.Name, d.Driver, word, len(x.before) == 0)
		for _, c := range j.outcomes {
			res.Stat("op_outcome_"+c, 1)
		}
		oc := append([]string(nil), j.outcomes...)
		sort.Strings(oc)
		res.Stat("schedules_outcome["+strings.Join(oc, ",")+"]", 1)
		res.Stat("record_creates_observed", int64(j.creates))
		if j.alternation {
			res.Stat("schedules_with_alternation_around_create", 1)
			res.Key("%s|%s|%s|%s", d.Scen.Name, d.Driver, famShape(d.CSeed), word)
		}
		if verbose && (len(res.Violations) > nv || os.Getenv("C09_TRACE") != "") {
			fmt.Printf("---- schedule %s of %q on %s: %d new violations\n", word, d.Scen.Name, d.Driver, len(res.Violations)-nv)
			ag := map[string]bool{}
			for _, o := range ops {
				ag[o.agent] = true
				fmt.Printf("  %s %s -> %s\n", o.agent, o.op, outStr(o.err))
			}
			for _, l := range traceLines(x.w.Sim.Log(), ag) {
				fmt.Println(l)
			}
			recs, _ := x.w.Ledger(relName)
			fmt.Printf("  ledger before [%s] after [%s]\n", env.LedgerString(x.before), env.LedgerString(recs))
		}
	}
	switch d.Kind {
	case "dfs":
		n, feasible, complete, hung := dfs(d.Scen, d.Driver, fam, d.Prefix, d.Bound, d.Limit, visit)
		switch {
		case hung:
			res.Inconclusive = fmt.Sprintf("scheduler watchdog fired after %d schedules of %q on %s", n, d.Scen.Name, d.Driver)
		case !feasible:
			res.Stat("dfs_prefixes_infeasible", 1)
		case complete:
			res.Stat("dfs_subtrees_complete", 1)
		default:
			res.Stat("dfs_subtrees_truncated", 1)
		}
		if d.Bound < 0 {
			res.Stat("dfs_subtrees_unbounded", 1)
		}
		if verbose {
			fmt.Printf("dfs %q on %s prefix %v bound %d: %d schedules, feasible=%v complete=%v\n", d.Scen.Name, d.Driver, d.Prefix, d.Bound, n, feasible, complete)
		}
	case "rand":
		for i := 0; i < d.N; i++ {
			rng := rand.New(rand.NewSource(d.RSeed + int64(i)*7919))
			var ch chooser
			if i%2 == 0 {
				ch = uniformChooser(rng)
			} else {
				ch = pctChooser(rng, len(d.Scen.Ops), 1+rng.Intn(3), 30)
			}
			x := execute(d.Scen, d.Driver, fam, ch)
			if !x.ok {
				res.Inconclusive = fmt.Sprintf("scheduler watchdog fired in random schedule %d of %q on %s", i, d.Scen.Name, d.Driver)
				return
			}
			res.Stat("random_schedules", 1)
			visit(x)
		}
	}
	if len(d.Prefix) == 0 || allZero(d.Prefix) {
		res.Sample = map[string]any{"kind": d.Kind, "scenario": d.Scen.Name, "storage": d.Driver, "prefix": d.Prefix, "bound": d.Bound, "schedules": res.Evals}
	}
}

func allZero(p []int) bool {
	for _, x := range p {
		if x != 0 {
			return false
		}
	}
	return true
}

func post(a *core.Agg) string {
	var miss []string
	need := func(k string, min int64) {
		if a.Stats[k] < min {
			miss = append(miss, fmt.Sprintf("%s=%d (<%d)", k, a.Stats[k], min))
		}
	}
	need("schedules_executed", 500)
	need("schedules_with_alternation_around_create", 100)
	need("op_outcome_ok", 1)
	need("op_outcome_exists", 1)
	need("op_outcome_pending", 1)
	need("op_outcome_name-in-use", 1)
	need("op_outcome_no-release", 1)
	need("lin_histories_checked", 10)
	need("race_ops_executed", 10)
	need("race_driver_calls", 100)
	if a.Stats["multi_outstanding_calls"] > 0 {
		miss = append(miss, fmt.Sprintf("multi_outstanding_calls=%d: an op had two calls parked at once, schedules are not fully controlled", a.Stats["multi_outstanding_calls"]))
	}
	if len(miss) > 0 {
		return "monitors observed too little: " + strings.Join(miss, ", ")
	}
	return ""
}

// DevSubset registers a development-only property id that runs the subset of the C09 cases
// selected by keep (used from private dev mains to exercise one monitor in isolation).
func DevSubset(id string, keep func(kind, driver string) bool) {
	core.Register(&core.Prop{ID: id, Level: "exploration", Rule: "development subset of C09",
		Gen: func(seed int64, tier string) []core.Case {
			var out []core.Case
			for _, c := range genCases(seed, tier) {
				var d caseData
				core.U(c, &d)
				if keep(d.Kind, d.Driver) {
					out = append(out, c)
				}
			}
			return out
		},
		Run: run, CaseTimeoutSec: 900, RaceClassSuffix: raceSuffix})
}
