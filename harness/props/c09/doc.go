// Package c09: monitor for property C09 (see DESIGN.md section 3).
package c09
