package c09

import (
	"errors"
	"fmt"
	"math/rand"
	"sort"
	"strings"
	"sync"
	"time"

	"github.com/anishathalye/porcupine"

	release "helm.sh/helm/v4/pkg/release/v1"
	"helm.sh/helm/v4/pkg/storage/driver"
	"helm.sh/helm/v4/verifh/core"
	"helm.sh/helm/v4/verifh/env"
)

// Linearizability of one storage backend at the driver.Driver boundary.
//
// Sequential model (per key): absent | present(id). create: absent -> ok, present(id);
// present -> "exists". update: present -> ok, present(id'); absent -> "notfound". get: present
// -> ok+id; absent -> "notfound". delete: present -> ok, absent; absent -> "notfound" (the
// release returned by Delete is a don't-care). With Lists the model is the whole map and
// query/list return the sorted key=id set.

type kvIn struct {
	Op  string // create | update | get | delete | query | list
	Key string
	ID  string
}

type kvOut struct {
	Status string // ok | exists | notfound | err
	ID     string // get: id seen; query/list: "k=id;k=id"
	Err    string
}

func statusOf(err error) (string, string) {
	switch {
	case err == nil:
		return "ok", ""
	case errors.Is(err, driver.ErrReleaseExists):
		return "exists", ""
	case errors.Is(err, driver.ErrReleaseNotFound) || strings.Contains(err.Error(), "not found"):
		return "notfound", ""
	}
	return "err", err.Error()
}

func stepKey(state string, in kvIn, out kvOut) (bool, string) {
	switch in.Op {
	case "create":
		if state == "" {
			return out.Status == "ok", in.ID
		}
		return out.Status == "exists", state
	case "update":
		if state == "" {
			return out.Status == "notfound", state
		}
		return out.Status == "ok", in.ID
	case "get":
		if state == "" {
			return out.Status == "notfound", state
		}
		return out.Status == "ok" && out.ID == state, state
	case "delete":
		if state == "" {
			return out.Status == "notfound", state
		}
		return out.Status == "ok", ""
	}
	return false, state
}

var crudModel = porcupine.Model{
	Partition: func(h []porcupine.Operation) [][]porcupine.Operation {
		m := map[string][]porcupine.Operation{}
		var ks []string
		for _, op := range h {
			k := op.Input.(kvIn).Key
			if _, ok := m[k]; !ok {
				ks = append(ks, k)
			}
			m[k] = append(m[k], op)
		}
		sort.Strings(ks)
		var out [][]porcupine.Operation
		for _, k := range ks {
			out = append(out, m[k])
		}
		return out
	},
	Init: func() interface{} { return "" },
	Step: func(st, in, out interface{}) (bool, interface{}) {
		ok, ns := stepKey(st.(string), in.(kvIn), out.(kvOut))
		return ok, ns
	},
	DescribeOperation: func(in, out interface{}) string { return fmt.Sprintf("%+v -> %+v", in, out) },
}

// whole-map model: state is "k=id;k=id" (sorted)
func mapGet(state, key string) string {
	for _, kv := range strings.Split(state, ";") {
		if strings.HasPrefix(kv, key+"=") {
			return kv[len(key)+1:]
		}
	}
	return ""
}

func mapSet(state, key, id string) string {
	var kvs []string
	for _, kv := range strings.Split(state, ";") {
		if kv != "" && !strings.HasPrefix(kv, key+"=") {
			kvs = append(kvs, kv)
		}
	}
	if id != "" {
		kvs = append(kvs, key+"="+id)
	}
	sort.Strings(kvs)
	return strings.Join(kvs, ";")
}

var mapModel = porcupine.Model{
	Init: func() interface{} { return "" },
	Step: func(st, in, out interface{}) (bool, interface{}) {
		s, i, o := st.(string), in.(kvIn), out.(kvOut)
		if i.Op == "query" || i.Op == "list" {
			return o.Status == "ok" && o.ID == s, s
		}
		ok, nv := stepKey(mapGet(s, i.Key), i, o)
		return ok, mapSet(s, i.Key, nv)
	},
	DescribeOperation: func(in, out interface{}) string { return fmt.Sprintf("%+v -> %+v", in, out) },
}

func renderSet(rs []*release.Release) string {
	var kvs []string
	for _, r := range rs {
		if r == nil || r.Info == nil {
			continue
		}
		kvs = append(kvs, fmt.Sprintf("sh.helm.release.v1.%s.v%d=%s", r.Name, r.Version, r.Info.Description))
	}
	sort.Strings(kvs)
	return strings.Join(kvs, ";")
}

const linTimeout = 30 * time.Second

func runLin(res *core.Result, d caseData, verbose bool) {
	n := d.N
	if d.Driver == "memory" {
		// memory calls take microseconds: run many more histories, half of them straight on the
		// driver.Memory object (no recording wrapper, no delay) so that calls really overlap
		n *= 20
	}
	for h := 0; h < n; h++ {
		w := env.NewWorld(d.Driver, "ns1")
		w.Sim.Delay = hashDelay(d.RSeed+int64(h), 150)
		shared := w.Driver("lin")
		perClient := h%2 == 1
		if d.Driver == "memory" && h%4 != 0 {
			shared, perClient = driver.Driver(w.Mem), false
		}
		var mu sync.Mutex
		var hist []porcupine.Operation
		var wg sync.WaitGroup
		startGate := make(chan struct{})
		for c := 0; c < d.G; c++ {
			wg.Add(1)
			go func(c int) {
				defer wg.Done()
				rng := rand.New(rand.NewSource(d.RSeed ^ int64(h*100+c+1)*104729))
				drv := shared
				if perClient {
					drv = w.Driver(fmt.Sprintf("lin%d", c))
				}
				<-startGate
				for m := 0; m < d.M; m++ {
					ver := 1 + rng.Intn(d.Keys)
					in := kvIn{Key: fmt.Sprintf("sh.helm.release.v1.%s.v%d", relName, ver), ID: fmt.Sprintf("h%dc%dm%d", h, c, m)}
					nops := 4
					if d.Lists {
						nops = 6
					}
					in.Op = []string{"create", "update", "get", "delete", "query", "list"}[rng.Intn(nops)]
					if in.Op == "query" || in.Op == "list" {
						in.Key, in.ID = "", ""
					}
					var out kvOut
					call := w.Sim.Tick()
					switch in.Op {
					case "create":
						out.Status, out.Err = statusOf(drv.Create(in.Key, mkRelease(relName, ver, release.StatusSuperseded, in.ID)))
					case "update":
						out.Status, out.Err = statusOf(drv.Update(in.Key, mkRelease(relName, ver, release.StatusSuperseded, in.ID)))
					case "get":
						r, err := drv.Get(in.Key)
						out.Status, out.Err = statusOf(err)
						if err == nil && r != nil && r.Info != nil {
							out.ID = r.Info.Description
						}
					case "delete":
						_, err := drv.Delete(in.Key)
						out.Status, out.Err = statusOf(err)
					case "query":
						rs, err := drv.Query(map[string]string{"name": relName, "owner": "helm"})
						out.Status, out.Err = statusOf(err)
						if out.Status == "notfound" { // Query reports an empty result as ErrReleaseNotFound
							out.Status = "ok"
						}
						out.ID = renderSet(rs)
					case "list":
						rs, err := drv.List(func(*release.Release) bool { return true })
						out.Status, out.Err = statusOf(err)
						out.ID = renderSet(rs)
					}
					ret := w.Sim.Tick()
					mu.Lock()
					hist = append(hist, porcupine.Operation{ClientId: c, Input: in, Call: call, Output: out, Return: ret})
					mu.Unlock()
				}
			}(c)
		}
		close(startGate)
		wg.Wait()
		w.Sim.Delay = nil
		model, mname := crudModel, "per-key create/update/get/delete model"
		if d.Lists {
			model, mname = mapModel, "whole-map model with query/list"
		}
		overlaps := 0
		for i := range hist {
			for j := i + 1; j < len(hist); j++ {
				if hist[i].ClientId != hist[j].ClientId && hist[i].Call < hist[j].Return && hist[j].Call < hist[i].Return {
					overlaps++
				}
			}
		}
		for _, op := range hist {
			if o := op.Output.(kvOut); o.Status == "err" {
				i := op.Input.(kvIn)
				res.Add("driver-unexpected-error", fmt.Sprintf("%s driver %s: %s", d.Driver, i.Op, normErr(o.Err)), "%s on %s returned %q in a fault-free concurrent history", i.Op, i.Key, o.Err)
			}
		}
		r := porcupine.CheckOperationsTimeout(model, hist, linTimeout)
		res.Evals++
		res.Stat("lin_histories_checked", 1)
		res.Stat("lin_operations", int64(len(hist)))
		res.Stat("lin_overlapping_pairs", int64(overlaps))
		switch r {
		case porcupine.Illegal:
			res.Add("not-linearizable", fmt.Sprintf("%s driver, %s", d.Driver, mname), "history of %d clients x %d ops on %d keys is not linearizable: %s", d.G, d.M, d.Keys, renderHist(hist))
		case porcupine.Unknown:
			res.Inconclusive = fmt.Sprintf("porcupine timed out on a history of %d operations (%s)", len(hist), d.Driver)
		}
		if overlaps > 0 {
			res.Key("lin|%s|clients%d|ops%d|keys%d|lists=%v|shared=%v", d.Driver, d.G, d.M, d.Keys, d.Lists, !perClient)
		}
		if verbose {
			fmt.Printf("lin history %d on %s (%s): %d ops, %d overlapping pairs -> %v\n%s\n", h, d.Driver, mname, len(hist), overlaps, r, renderHist(hist))
		}
	}
}

func renderHist(h []porcupine.Operation) string {
	s := append([]porcupine.Operation(nil), h...)
	sort.Slice(s, func(i, j int) bool { return s[i].Call < s[j].Call })
	var p []string
	for _, op := range s {
		i, o := op.Input.(kvIn), op.Output.(kvOut)
		k := i.Key
		if x := strings.LastIndex(k, ".v"); x >= 0 {
			k = k[x+1:]
		}
		p = append(p, fmt.Sprintf("c%d[%d,%d] %s(%s,%s)->%s %s", op.ClientId, op.Call, op.Return, i.Op, k, i.ID, o.Status, o.ID))
	}
	out := strings.Join(p, " | ")
	if len(out) > 3000 {
		out = out[:3000] + "..."
	}
	return out
}
