package c09

import (
	"fmt"
	"hash/fnv"
	"math/rand"
	"strings"
	"sync"
	"sync/atomic"
	"time"

	chart "helm.sh/helm/v4/pkg/chart/v2"
	release "helm.sh/helm/v4/pkg/release/v1"
	"helm.sh/helm/v4/pkg/storage"
	"helm.sh/helm/v4/pkg/storage/driver"
	"helm.sh/helm/v4/verifh/core"
	"helm.sh/helm/v4/verifh/env"
	"helm.sh/helm/v4/verifh/gen"
	"helm.sh/helm/v4/verifh/sim"
)

// memoryRaceFlags: mix --replace / --history-max into the free-running ops on memory storage too.
// Off: with them the set of racing frame pairs of the (known) aliasing defect is not closed — e.g.
// releasingUpgrade <-> driver.newRecord showed up once in 8 thorough seeds.
const memoryRaceFlags = false

// onStorage runs a race-mode goroutine body below a frame that names the kind of storage, so
// that race reports can be told apart (Prop.RaceClassSuffix): the memory driver shares release
// objects between callers, the Kubernetes-backed drivers share nothing.
func onStorage(driverKind string, f func()) {
	if driverKind == "memory" {
		onMemoryStorage(f)
	} else {
		onKubernetesStorage(f)
	}
}

//go:noinline
func onMemoryStorage(f func()) { f() }

//go:noinline
func onKubernetesStorage(f func()) { f() }

// raceSuffix tags a race report with the storage kind of the workload it came from.
func raceSuffix(report string) string {
	mem := strings.Contains(report, "c09.onMemoryStorage(")
	kube := strings.Contains(report, "c09.onKubernetesStorage(")
	switch {
	case mem && !kube:
		return " [memory storage]"
	case kube && !mem:
		return " [kubernetes-backed storage]"
	}
	return " [storage unknown]"
}

// hashDelay returns a lock-free, seed-determined delay plan: 0..maxMicros per (agent, call index).
func hashDelay(seed int64, maxMicros int) func(*sim.Req) time.Duration {
	return func(r *sim.Req) time.Duration {
		h := fnv.New64a()
		fmt.Fprintf(h, "%d|%s|%d", seed, r.Agent, r.N)
		return time.Duration(h.Sum64()%uint64(maxMicros+1)) * time.Microsecond
	}
}

// mkRelease builds a fresh release object sharing nothing with any other object.
func mkRelease(name string, ver int, status release.Status, id string) *release.Release {
	return &release.Release{
		Name: name, Namespace: "ns1", Version: ver,
		Info:     &release.Info{Status: status, Description: id},
		Chart:    &chart.Chart{Metadata: &chart.Metadata{APIVersion: "v2", Name: "c", Version: "0.1.0"}},
		Config:   map[string]any{"k": id},
		Manifest: "# " + id + "\n",
	}
}

// runRaceOps: G goroutines x M mixed install/upgrade ops on one release name, free running
// (gate off) with random 0-3 ms delays at the simulator, repeated N times. Runs in the race
// build; the log/ledger oracle of the schedule monitor is applied as well.
func runRaceOps(res *core.Result, d caseData, verbose bool) {
	for rep := 0; rep < d.N; rep++ {
		rng := rand.New(rand.NewSource(d.RSeed + int64(rep)*104729))
		fam := gen.NewFamily(rand.New(rand.NewSource(d.CSeed)), gen.FamilyOpts{Versions: 4, MaxSlots: 5})
		w := env.NewWorld(d.Driver, "ns1")
		start := "empty"
		limit := 0
		if rng.Intn(4) == 0 {
			limit = 1 + rng.Intn(3)
		}
		// The memory driver stores and hands out the callers' release objects, so ops race on
		// Release.Info (genuine, listed in known_findings). With plain installs/upgrades the racing
		// accesses are {prepareUpgrade, availableName} x {SetStatus, releasingUpgrade}: a closed
		// set of signatures. --replace / --history-max add further access sites of the same defect
		// and are therefore only mixed in on the Kubernetes-backed drivers (which share nothing).
		plainOnly := d.Driver == "memory" && !memoryRaceFlags
		if plainOnly {
			limit = 0
		}
		if rng.Intn(3) > 0 {
			start = "deployed"
			if r := w.Exec("setup0", relName, env.Op{Kind: "install", NoHooks: true}, fam.Files(0).Build()); r.Err != nil {
				panic(fmt.Sprintf("c09: race setup failed: %v", r.Err))
			}
		}
		type planned struct {
			agent string
			op    env.Op
			ver   int
		}
		plan := make([][]planned, d.G)
		for g := 0; g < d.G; g++ {
			for m := 0; m < d.M; m++ {
				var op env.Op
				switch x := rng.Intn(10); {
				case start == "empty" && x < 6, start == "deployed" && x < 2:
					op = env.Op{Kind: "install", NoHooks: true, Replace: rng.Intn(4) == 0 && !plainOnly}
				default:
					op = env.Op{Kind: "upgrade", NoHooks: true, MaxHistory: limit}
				}
				op.Vals = map[string]any{"k": fmt.Sprintf("g%dm%d", g, m)}
				plan[g] = append(plan[g], planned{fmt.Sprintf("g%dm%d", g, m), op, rng.Intn(4)})
			}
		}
		w.Sim.Delay = hashDelay(d.RSeed+int64(rep), 3000)
		results := make([][]env.OpResult, d.G)
		var wg sync.WaitGroup
		for g := 0; g < d.G; g++ {
			results[g] = make([]env.OpResult, d.M)
			wg.Add(1)
			go func(g int) {
				defer wg.Done()
				onStorage(d.Driver, func() {
					for m, p := range plan[g] {
						ch := fam.Files(p.ver).Build()
						w.Sim.NoteEvent(sim.Event{Agent: p.agent, What: "op-start"})
						r := w.Exec(p.agent, relName, p.op, ch)
						e := sim.Event{Agent: p.agent, What: "op-end"}
						if r.Err != nil {
							e.Err = r.Err.Error()
						}
						w.Sim.NoteEvent(e)
						results[g][m] = r
					}
				})
			}(g)
		}
		wg.Wait()
		w.Sim.Delay = nil
		var ops []opRun
		for g := range plan {
			for m, p := range plan[g] {
				ops = append(ops, opRun{agent: p.agent, op: p.op, err: results[g][m].Err})
			}
		}
		scen := fmt.Sprintf("free-running %d goroutines x %d ops from %s ledger", d.G, d.M, start)
		nv := len(res.Violations)
		// The log/ledger oracle is not applied to repetitions with --history-max: its
		// prune-before-create defect is schedule dependent and is reported by the gate monitor with
		// stable signatures; those free-running repetitions serve race detection only.
		flagged := limit > 0
		var j judged
		if flagged {
			res.Stat("race_ops_runs_race_detection_only", 1)
			for _, o := range ops {
				j.outcomes = append(j.outcomes, errClass(o.err))
			}
		} else {
			j = judge(res, w, ops, scen, d.Driver, "(free running)", start == "empty")
		}
		res.Evals++
		res.Stat("race_ops_runs", 1)
		res.Stat("race_ops_executed", int64(len(ops)))
		for _, c := range j.outcomes {
			res.Stat("race_op_outcome_"+c, 1)
		}
		if j.alternation {
			res.Stat("race_runs_with_overlap_around_create", 1)
		}
		res.Key("race-ops|%s|%s|g%d|m%d|limit%d", d.Driver, start, d.G, d.M, limit)
		if verbose {
			fmt.Printf("race-ops rep %d on %s: %s, %d ops, %d new violations\n", rep, d.Driver, scen, len(ops), len(res.Violations)-nv)
			for _, o := range ops {
				fmt.Printf("  %s %s -> %s\n", o.agent, o.op, outStr(o.err))
			}
		}
	}
}

// runRaceDriver: G goroutines x M calls of Create/Get/Update/Delete/Query/List (and the
// Storage-level History/Last/Deployed) on a few keys of ONE backend object. Every release handed
// to the driver is freshly built and never touched again; returned releases are only read.
func runRaceDriver(res *core.Result, d caseData, verbose bool) {
	for rep := 0; rep < d.N; rep++ {
		var shared driver.Driver
		var w *env.World
		switch d.Driver {
		case "memory":
			m := driver.NewMemory()
			m.SetNamespace("ns1")
			shared = m
		default:
			w = env.NewWorld(d.Driver, "ns1")
			w.Sim.Delay = hashDelay(d.RSeed+int64(rep), 300)
			shared = w.Driver("shared")
		}
		perGoroutine := rep%2 == 1 && w != nil // odd repetitions: one driver object per goroutine on the same backend
		st := storage.Init(shared)
		var calls, sink atomic.Int64
		var wg sync.WaitGroup
		for g := 0; g < d.G; g++ {
			wg.Add(1)
			go func(g int) {
				defer wg.Done()
				onStorage(d.Driver, func() {
					rng := rand.New(rand.NewSource(d.RSeed ^ int64(rep*1000+g)*7919))
					drv := shared
					if perGoroutine {
						drv = w.Driver(fmt.Sprintf("g%d", g))
					}
					for m := 0; m < d.M; m++ {
						ver := 1 + rng.Intn(d.Keys)
						key := fmt.Sprintf("sh.helm.release.v1.%s.v%d", relName, ver)
						id := fmt.Sprintf("g%d-%d", g, m)
						status := release.StatusSuperseded
						if rng.Intn(3) == 0 {
							status = release.StatusDeployed
						}
						read := func(rs ...*release.Release) {
							for _, r := range rs {
								if r != nil && r.Info != nil {
									sink.Add(int64(len(r.Info.Description) + r.Version + len(r.Labels)))
								}
							}
						}
						switch rng.Intn(10) {
						case 0, 1:
							drv.Create(key, mkRelease(relName, ver, status, id))
						case 2, 3:
							drv.Update(key, mkRelease(relName, ver, status, id))
						case 4:
							r, _ := drv.Delete(key)
							read(r)
						case 5:
							r, _ := drv.Get(key)
							read(r)
						case 6:
							rs, _ := drv.Query(map[string]string{"name": relName, "owner": "helm"})
							read(rs...)
						case 7:
							rs, _ := drv.List(func(r *release.Release) bool { return r.Version >= 1 })
							read(rs...)
						case 8:
							rs, _ := st.History(relName)
							read(rs...)
							r, _ := st.Last(relName)
							read(r)
						case 9:
							r, _ := st.Deployed(relName)
							read(r)
						}
						calls.Add(1)
					}
				})
			}(g)
		}
		wg.Wait()
		res.Evals++
		res.Stat("race_driver_runs", 1)
		res.Stat("race_driver_calls", calls.Load())
		res.Key("race-driver|%s|g%d|keys%d|pergoroutine=%v", d.Driver, d.G, d.Keys, perGoroutine)
		if verbose {
			fmt.Printf("race-driver rep %d on %s: %d goroutines, %d calls (sink %d)\n", rep, d.Driver, d.G, calls.Load(), sink.Load())
		}
	}
}
