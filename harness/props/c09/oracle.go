package c09

import (
	"errors"
	"fmt"
	"regexp"
	"sort"
	"strings"

	"helm.sh/helm/v4/pkg/storage/driver"
	"helm.sh/helm/v4/verifh/core"
	"helm.sh/helm/v4/verifh/env"
	"helm.sh/helm/v4/verifh/ref"
	"helm.sh/helm/v4/verifh/sim"
)

// errClass classifies what an op returned: ok | exists | pending | name-in-use | no-release | other.
// no-release ("has no deployed releases") is what an upgrade answers when there is nothing to
// upgrade; it is a legitimate refusal only in runs that started from an empty ledger.
func errClass(err error) string {
	if err == nil {
		return "ok"
	}
	m := err.Error()
	switch {
	case errors.Is(err, driver.ErrReleaseExists) || strings.Contains(m, driver.ErrReleaseExists.Error()):
		// the release record exists (not: some cluster resource already exists)
		return "exists"
	case strings.Contains(m, "another operation (install/upgrade/rollback) is in progress"):
		return "pending"
	case strings.Contains(m, "a name that is still in use"):
		return "name-in-use"
	case strings.Contains(m, "has no deployed releases"):
		return "no-release"
	}
	return "other"
}

func isLockErr(c string) bool { return c == "exists" || c == "pending" || c == "name-in-use" }

var (
	reQuoted = regexp.MustCompile(`"[^"]*"`)
	reNum    = regexp.MustCompile(`\d+`)
)

// normErr strips names and numbers from an error text.
func normErr(m string) string {
	m = reQuoted.ReplaceAllString(m, `"…"`)
	for _, r := range sim.Resources {
		m = strings.ReplaceAll(m, r.Kind, "<Kind>")
		m = strings.ReplaceAll(m, r.Plural, "<kind>")
	}
	m = reNum.ReplaceAllString(m, "N")
	if len(m) > 140 {
		m = m[:140]
	}
	return m
}

// opRun is what the oracle knows about one concurrent op.
type opRun struct {
	agent      string
	op         env.Op
	err        error
	class      string
	start, end int64 // sequence numbers of the op-start / op-end notes
}

type judged struct {
	outcomes    []string // error class per op
	alternation bool     // some create attempt happened while another op was in flight
	creates     int
}

// judge evaluates the C09 clauses over the request log, the op results and the raw ledger.
// ops[i].agent are the tags of the concurrent ops. scen is only used in witness details.
func judge(res *core.Result, w *env.World, ops []opRun, scen, driverKind, word string, emptyStart bool) judged {
	log := w.Sim.Log()
	byAgent := map[string]*opRun{}
	for i := range ops {
		ops[i].class = errClass(ops[i].err)
		byAgent[ops[i].agent] = &ops[i]
	}
	for _, e := range log {
		if o := byAgent[e.Agent]; o != nil && e.Phase == "note" {
			switch e.What {
			case "op-start":
				o.start = e.Seq
			case "op-end":
				o.end = e.Seq
			}
		}
	}
	var labels []string
	for _, o := range ops {
		labels = append(labels, opLabel(o.op))
	}
	sort.Strings(labels)
	labels = uniq(labels)
	combo := strings.Join(labels, " ‖ ")
	var outs []string
	for _, o := range ops {
		outs = append(outs, fmt.Sprintf("%s %s -> %s", o.agent, o.op, outStr(o.err)))
	}
	detail := func() string {
		recs, _ := w.Ledger(relName)
		return fmt.Sprintf("scenario %q on %s storage | schedule %s | %s | final ledger [%s] | storage calls: %s",
			scen, driverKind, word, strings.Join(outs, " ; "), env.LedgerString(recs), storageTrace(log, byAgent))
	}
	inFlight := func(o *opRun, seq int64) bool { return o != nil && o.start < seq && (o.end == 0 || seq < o.end) }

	firstCall := map[*opRun]int64{}
	for _, e := range log {
		if o := byAgent[e.Agent]; o != nil && e.Phase == "done" && e.Class != "discovery" && firstCall[o] == 0 {
			firstCall[o] = e.Seq
		}
	}
	var j judged
	// ---- per-key write history of revision records
	type write struct {
		e sim.Event
		o *opRun
	}
	creates := map[string][]write{}
	var events []write
	for _, e := range log {
		o := byAgent[e.Agent]
		if o == nil || e.Phase != "done" || e.Injected || e.Cut || e.Class == "discovery" {
			continue
		}
		events = append(events, write{e, o})
		if e.Class == "storage" && e.Method == "POST" {
			for _, p := range ops {
				if p.agent != o.agent && callsAround(log, p.agent, e.Seq) {
					j.alternation = true
				}
			}
			if e.Code == 201 {
				creates[e.Name] = append(creates[e.Name], write{e, o})
				j.creates++
			}
		}
	}
	// clause double-create: a revision key is successfully created more than once
	party := map[*opRun]bool{}
	var keys []string
	for k := range creates {
		keys = append(keys, k)
	}
	sort.Strings(keys)
	for _, k := range keys {
		cs := creates[k]
		for n := 1; n < len(cs); n++ {
			first, second := cs[n-1], cs[n]
			party[first.o], party[second.o] = true, true
			cause := "no delete in between (create-if-absent is not atomic)"
			for _, ev := range events {
				if ev.e.Seq > first.e.Seq && ev.e.Seq < second.e.Seq && ev.e.Class == "storage" && ev.e.Method == "DELETE" && ev.e.Name == k && ev.e.Code == 200 {
					switch {
					case ev.o == second.o && second.o.op.MaxHistory > 0:
						cause = "the second creator's own history pruning deleted the first creator's in-flight record"
					case ev.o == second.o:
						cause = "the second creator deleted the first creator's record"
					case ev.o == first.o:
						cause = "the first creator deleted its own record"
					default:
						cause = "a third op (" + opLabel(ev.o.op) + ") deleted the first creator's record"
					}
				}
			}
			res.Add("double-create", fmt.Sprintf("%s after %s: %s", opLabel(second.o.op), opLabel(first.o.op), cause),
				"revision record %s was successfully created by %s (seq %d) and again by %s (seq %d) | %s", k, first.o.agent, first.e.Seq, second.o.agent, second.e.Seq, detail())
		}
	}
	// per-op clauses
	for i := range ops {
		o := &ops[i]
		j.outcomes = append(j.outcomes, o.class)
		var own []write
		for _, k := range keys {
			for _, c := range creates[k] {
				if c.o == o {
					own = append(own, c)
				}
			}
		}
		switch {
		case o.class == "ok":
			if len(own) != 1 {
				res.Add("success-without-own-revision", fmt.Sprintf("%s returned nil after %d successful record creates", opLabel(o.op), len(own)),
					"%s reported success but created %d revision records | %s", o.agent, len(own), detail())
			}
		case isLockErr(o.class) || (o.class == "no-release" && emptyStart && o.op.Kind == "upgrade"):
			for _, ev := range events {
				if ev.o == o && ev.e.Class == "mutation" && ev.e.Code >= 200 && ev.e.Code < 300 {
					res.Add("loser-changed-release-resource", fmt.Sprintf("%s failed with %s after %s of a %s", opLabel(o.op), o.class, ev.e.Method, ev.e.Kind),
						"%s returned %q but had performed %s %s/%s -> %d (seq %d) | %s", o.agent, o.err, ev.e.Method, ev.e.Kind, ev.e.Name, ev.e.Code, ev.e.Seq, detail())
					break
				}
			}
			// clause loser-wrote-foreign-record: a refused op performed no successful storage write
			// on a revision record it did not itself create (creator = agent of the 201 POST)
			seenFW := map[string]bool{}
			for _, ev := range events {
				if ev.o != o || ev.e.Class != "storage" || ev.e.Name == "" || (ev.e.Method != "PUT" && ev.e.Method != "DELETE") || ev.e.Code < 200 || ev.e.Code >= 300 {
					continue
				}
				var cur *write
				for i := range creates[ev.e.Name] {
					if c := &creates[ev.e.Name][i]; c.e.Seq < ev.e.Seq {
						cur = c
					}
				}
				if cur != nil && cur.o == o {
					continue
				}
				role := "a pre-existing revision record"
				if cur != nil {
					role = "a revision record created by a concurrent " + opLabel(cur.o.op)
				}
				cls := fmt.Sprintf("%s failed with %s after storage %s of %s", opLabel(o.op), o.class, ev.e.Method, role)
				if seenFW[cls] {
					continue
				}
				seenFW[cls] = true
				res.Add("loser-wrote-foreign-record", cls, "%s returned %q but had performed storage %s %s -> %d (seq %d) on a record it did not create | %s", o.agent, o.err, ev.e.Method, ev.e.Name, ev.e.Code, ev.e.Seq, detail())
			}
		default:
			// neither success nor a lock error
			shape := ""
			for _, c := range own {
				// was the op's own record deleted under it by somebody else?
				for _, ev := range events {
					if ev.o != o && ev.e.Seq > c.e.Seq && ev.e.Class == "storage" && ev.e.Method == "DELETE" && ev.e.Name == c.e.Name && ev.e.Code == 200 && inFlight(o, ev.e.Seq) {
						how := "deleted by a concurrent " + opLabel(ev.o.op)
						if ev.o.op.MaxHistory > 0 {
							how = "deleted by the history pruning of a concurrent " + opLabel(ev.o.op)
						}
						shape = "own in-flight revision record was " + how
					}
				}
			}
			if shape == "" && party[o] {
				shape = "it proceeded although a concurrent op had successfully created the same revision (see double-create)"
			}
			if shape == "" {
				// did its lifetime (first call .. return) overlap another op's, and both created records?
				if len(own) > 0 {
					for _, k := range keys {
						for _, c2 := range creates[k] {
							if p := c2.o; p != o && firstCall[p] < o.end && firstCall[o] < p.end {
								shape = "both proceeded: it and an overlapping " + opLabel(p.op) + " each created a revision record"
							}
						}
					}
				}
			}
			if shape == "" {
				// the op's last rejected call
				for i := len(events) - 1; i >= 0; i-- {
					ev := events[i]
					if ev.o != o || ev.e.Code < 400 {
						continue
					}
					what := ev.e.Class + " " + ev.e.Method + " of a " + ev.e.Kind
					if ev.e.Class == "storage" {
						role := "pre-existing revision record"
						if ev.e.Name == "" {
							role = "record list"
						}
						for _, c := range creates[ev.e.Name] {
							if c.o == o {
								role = "revision record it had created"
							} else if role == "pre-existing revision record" {
								role = "revision record created by a concurrent op"
							}
						}
						what = "storage " + ev.e.Method + " of a " + role
					}
					shape = fmt.Sprintf("last rejected call was %s -> %d; error %s", what, ev.e.Code, normErr(o.err.Error()))
					break
				}
			}
			if shape == "" {
				shape = normErr(o.err.Error())
			}
			res.Add("op-failed-with-other-error", fmt.Sprintf("%s: %s", opLabel(o.op), shape),
				"%s failed with %q, which is neither already-exists, operation-in-progress nor name-in-use | %s", o.agent, o.err, detail())
		}
	}
	// quiescence
	recs, bad := w.Ledger(relName)
	ref.LedgerBasic(res, recs, bad, "after concurrent "+combo, detail)
	// clause success-not-in-history: the revision created by an op that returned success is
	// present and deployed, or superseded (or pruned by a history limit) when another successful
	// op created a later revision; never failed / pending / missing otherwise
	ownRev := map[*opRun]int{}
	for _, k := range keys {
		for _, c := range creates[k] {
			if rev, ok := ref.StorageKeyRev(k); ok {
				ownRev[c.o] = rev
			}
		}
	}
	anyLimit := false
	for i := range ops {
		if ops[i].op.MaxHistory > 0 {
			anyLimit = true
		}
	}
	for i := range ops {
		o := &ops[i]
		rev, created := ownRev[o]
		if o.class != "ok" || !created {
			continue
		}
		later := false
		for p, r := range ownRev {
			if p != o && p.class == "ok" && r > rev {
				later = true
			}
		}
		state := "missing"
		if rec := ref.Find(recs, rev); rec != nil {
			state = rec.Status
		}
		okState := state == "deployed" || (state == "superseded" && later) || (state == "missing" && later && anyLimit)
		if !okState {
			what := state
			if state == "superseded" || state == "missing" {
				what += " although no other successful op created a later revision"
			}
			res.Add("success-not-in-history", fmt.Sprintf("%s returned nil but its revision ended %s", opLabel(o.op), what),
				"%s reported success for revision %d, which is %s at quiescence | %s", o.agent, rev, state, detail())
		}
	}
	return j
}

func uniq(xs []string) []string {
	var out []string
	for i, x := range xs {
		if i == 0 || x != xs[i-1] {
			out = append(out, x)
		}
	}
	return out
}

func outStr(err error) string {
	if err == nil {
		return "ok"
	}
	return fmt.Sprintf("%q", err.Error())
}

// callsAround: the agent completed at least one call before seq and at least one after it.
func callsAround(log []sim.Event, agent string, seq int64) bool {
	before, after := false, false
	for _, e := range log {
		if e.Agent == agent && e.Phase == "done" && e.Class != "discovery" {
			if e.Seq < seq {
				before = true
			} else if e.Seq > seq {
				after = true
			}
		}
	}
	return before && after
}

// storageTrace renders the storage calls of the concurrent ops in log order.
func storageTrace(log []sim.Event, byAgent map[string]*opRun) string {
	var p []string
	for _, e := range log {
		if byAgent[e.Agent] == nil || e.Phase != "done" || e.Class != "storage" {
			continue
		}
		n := e.Name
		if i := strings.LastIndex(n, ".v"); i >= 0 {
			n = n[i+1:]
		}
		if n == "" {
			n = "list"
		}
		p = append(p, fmt.Sprintf("%s:%s %s=%d", e.Agent, e.Method, n, e.Code))
	}
	s := strings.Join(p, ", ")
	if len(s) > 1500 {
		s = s[:1500] + "..."
	}
	return s
}

// traceLines renders every call of the concurrent ops (verbose replay).
func traceLines(log []sim.Event, agents map[string]bool) []string {
	var out []string
	for _, e := range log {
		if !agents[e.Agent] {
			continue
		}
		switch e.Phase {
		case "done":
			out = append(out, fmt.Sprintf("  seq %-5d %-4s #%-2d %-8s %-6s %s/%s -> %d", e.Seq, e.Agent, e.N, e.Class, e.Method, e.Kind, e.Name, e.Code))
		case "note":
			out = append(out, fmt.Sprintf("  seq %-5d %-4s note %s %s %s", e.Seq, e.Agent, e.What, e.Note, e.Err))
		}
	}
	return out
}
