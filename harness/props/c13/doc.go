// Package c13: monitor for property C13 (see DESIGN.md section 3).
package c13
