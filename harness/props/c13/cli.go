package c13

// CLI route: the same chains, judged by the same clauses, but every step is a real `helm` command
// line (helmcmd.NewRootCmd: install / upgrade / rollback) instead of a hand-filled action struct.
// The property speaks of "the chosen flag"; which field of the action a command-line flag ends up in
// is decided by pkg/cmd and is invisible to the action route. The simulator is served on 127.0.0.1 by
// an httptest server that forwards every request to the current chain's sim.Server; a kubeconfig in
// a temp dir points the CLI at it and HELM_DRIVER=secrets makes release records ordinary requests,
// so the raw ledger is read exactly as on the action route. (Helper code after props/c06/cli.go.)
//
// Command lines: `helm install rel <chart dir vN> [-f values]`, `helm upgrade rel <chart dir vN>
// [--reset-values] [--reuse-values] [--reset-then-reuse-values] [-f values]` (every combination of
// the three switches, as on the action route), `helm rollback rel <revision>`. The step's value tree
// is written as a values file (JSON is YAML, so nulls, type changes and empty tables arrive as
// generated); an empty tree is passed as no -f at all or as a file holding {}.

import (
	"bytes"
	"encoding/json"
	"fmt"
	"io"
	"math/rand"
	"net/http"
	"net/http/httptest"
	"os"
	"path/filepath"
	"strings"
	"sync/atomic"

	"k8s.io/apimachinery/pkg/runtime/serializer/protobuf"
	"k8s.io/client-go/kubernetes/scheme"
	"k8s.io/klog/v2"

	helmcmd "helm.sh/helm/v4/pkg/cmd"
	"helm.sh/helm/v4/verifh/core"
	"helm.sh/helm/v4/verifh/env"
	"helm.sh/helm/v4/verifh/gen"
	"helm.sh/helm/v4/verifh/sim"
)

func writeChartDir(dir string, f gen.Files) error {
	for name, content := range f {
		p := filepath.Join(dir, name)
		if err := os.MkdirAll(filepath.Dir(p), 0o755); err != nil {
			return err
		}
		if err := os.WriteFile(p, []byte(content), 0o644); err != nil {
			return err
		}
	}
	return nil
}

// simSwitch serves the simulator of the chain that is currently running over real HTTP. Typed
// clientsets (the storage drivers) send protobuf bodies when no content type is configured; they are
// transcoded to JSON for the simulator.
type simSwitch struct {
	cur atomic.Pointer[sim.Server]
}

func (sw *simSwitch) handler() http.Handler {
	proto := protobuf.NewSerializer(scheme.Scheme, scheme.Scheme)
	return http.HandlerFunc(func(rw http.ResponseWriter, r *http.Request) {
		s := sw.cur.Load()
		if s == nil {
			http.Error(rw, "no simulator attached", http.StatusBadGateway)
			return
		}
		body, _ := io.ReadAll(r.Body)
		r.Body.Close()
		if strings.HasPrefix(r.Header.Get("Content-Type"), "application/vnd.kubernetes.protobuf") && len(body) > 0 {
			if obj, _, err := proto.Decode(body, nil, nil); err == nil {
				if j, err := json.Marshal(obj); err == nil {
					body = j
					r.Header.Set("Content-Type", "application/json")
				}
			}
		}
		r.Body = io.NopCloser(bytes.NewReader(body))
		resp, err := s.RoundTrip(r)
		if err != nil {
			http.Error(rw, err.Error(), http.StatusBadGateway)
			return
		}
		defer resp.Body.Close()
		for k, vs := range resp.Header {
			for _, v := range vs {
				rw.Header().Add(k, v)
			}
		}
		rw.WriteHeader(resp.StatusCode)
		io.Copy(rw, resp.Body)
	})
}

// cliEnv is the process environment of the CLI invocations of one case.
type cliEnv struct {
	tmp, kubeconfig string
	saved           map[string]*string
}

func newCLIEnv(tmp, server string) (*cliEnv, error) {
	e := &cliEnv{tmp: tmp, kubeconfig: filepath.Join(tmp, "kubeconfig"), saved: map[string]*string{}}
	kc := fmt.Sprintf("apiVersion: v1\nkind: Config\nclusters:\n- name: sim\n  cluster:\n    server: %s\ncontexts:\n- name: sim\n  context:\n    cluster: sim\n    user: sim\n    namespace: %s\nusers:\n- name: sim\n  user: {}\ncurrent-context: sim\n", server, nsName)
	if err := os.WriteFile(e.kubeconfig, []byte(kc), 0o600); err != nil {
		return nil, err
	}
	for k, v := range map[string]string{
		"HOME": tmp, "KUBECACHEDIR": filepath.Join(tmp, "kubecache"), "KUBECONFIG": e.kubeconfig,
		"HELM_DRIVER": "secrets", "HELM_NAMESPACE": nsName,
		"XDG_CACHE_HOME": filepath.Join(tmp, "xdg-cache"), "XDG_CONFIG_HOME": filepath.Join(tmp, "xdg-config"), "XDG_DATA_HOME": filepath.Join(tmp, "xdg-data"),
		"HELM_CACHE_HOME": filepath.Join(tmp, "helm-cache"), "HELM_CONFIG_HOME": filepath.Join(tmp, "helm-config"), "HELM_DATA_HOME": filepath.Join(tmp, "helm-data"),
	} {
		if old, ok := os.LookupEnv(k); ok {
			o := old
			e.saved[k] = &o
		} else {
			e.saved[k] = nil
		}
		os.Setenv(k, v)
	}
	return e, nil
}

func (e *cliEnv) restore() {
	for k, v := range e.saved {
		if v == nil {
			os.Unsetenv(k)
		} else {
			os.Setenv(k, *v)
		}
	}
}

// helm runs one CLI invocation in-process. pkg/cmd's settings object is created when the package
// is initialised, so everything that matters is also passed as a flag.
func (e *cliEnv) helm(args ...string) (string, error) {
	full := append([]string{}, args...)
	full = append(full, "--kubeconfig", e.kubeconfig, "--namespace", nsName,
		"--registry-config", filepath.Join(e.tmp, "registry.json"), "--repository-config", filepath.Join(e.tmp, "repositories.yaml"), "--repository-cache", filepath.Join(e.tmp, "repocache"))
	var out bytes.Buffer
	cmd, err := helmcmd.NewRootCmd(&out, full)
	if err != nil {
		return "", err
	}
	cmd.SetArgs(full)
	cmd.SetOut(&out)
	cmd.SetErr(&out)
	// helm prints some things straight to os.Stdout
	saved := os.Stdout
	if devnull, e2 := os.OpenFile(os.DevNull, os.O_WRONLY, 0); e2 == nil {
		os.Stdout = devnull
		defer func() { os.Stdout = saved; devnull.Close() }()
	}
	err = cmd.Execute()
	env.Quiet()
	return out.String(), err
}

// cliArgs is the command line of a step (without the global flags). The value tree travels as a
// values file below dir.
func cliArgs(dir string, idx, si int, st step) ([]string, error) {
	chartDir := func(v int) string { return filepath.Join(dir, fmt.Sprintf("fam-v%d", v)) }
	var args []string
	switch st.Kind {
	case "install":
		args = []string{"install", relName, chartDir(st.Chart)}
	case "rollback":
		return []string{"rollback", relName, fmt.Sprint(st.ToRev)}, nil
	case "upgrade":
		args = []string{"upgrade", relName, chartDir(st.Chart)}
		for _, f := range strings.Split(st.Mode, "+") {
			switch f {
			case "reset":
				args = append(args, "--reset-values")
			case "reuse":
				args = append(args, "--reuse-values")
			case "rtr":
				args = append(args, "--reset-then-reuse-values")
			}
		}
	default:
		return nil, fmt.Errorf("no command line for step kind %q", st.Kind)
	}
	if len(st.Vals) > 0 || (idx+si)%2 == 0 {
		js, err := json.Marshal(st.Vals)
		if err != nil {
			return nil, err
		}
		if len(st.Vals) == 0 {
			js = []byte("{}")
		}
		vf := filepath.Join(dir, fmt.Sprintf("values-step%d.yaml", si))
		if err := os.WriteFile(vf, js, 0o644); err != nil {
			return nil, err
		}
		args = append(args, "-f", vf)
	}
	return args, nil
}

// genCLIChain is a covering chain: after the install, the four single-flag modes each occur once (in
// random order) on a chart version other than the previous step's, so that every chain judges every
// flag on a step where "the deployed revision's defaults" and "the new chart's defaults" differ;
// two more upgrades with a random flag choice (combinations included) and a random chart version, and
// in half of the chains a rollback, are mixed in; 15% of the upgrades are made to fail.
func genCLIChain(rng *rand.Rand) []step {
	last := rng.Intn(4)
	steps := []step{{Kind: "install", Chart: last, Vals: genVals(rng)}}
	var ups []step
	for _, i := range rng.Perm(4) {
		ups = append(ups, step{Kind: "upgrade", Mode: []string{"none", "reset", "reuse", "rtr"}[i], Chart: -1})
	}
	for k := 0; k < 2; k++ {
		at := rng.Intn(len(ups) + 1)
		extra := step{Kind: "upgrade", Mode: gen.Pick(rng, upgradeModes), Chart: rng.Intn(4)}
		ups = append(ups[:at], append([]step{extra}, ups[at:]...)...)
	}
	rollbackAt := -1
	if rng.Intn(2) == 0 {
		rollbackAt = 1 + rng.Intn(len(ups))
	}
	for i, u := range ups {
		if i == rollbackAt {
			steps = append(steps, step{Kind: "rollback", ToRev: 1 + rng.Intn(len(steps))})
		}
		if u.Chart < 0 {
			u.Chart = (last + 1 + rng.Intn(3)) % 4
		}
		last = u.Chart
		u.Vals = genVals(rng)
		u.Fail = rng.Intn(100) < 15
		steps = append(steps, u)
	}
	return steps
}

func genCLICases(rng *rand.Rand, tier string) []core.Case {
	// quick: one short case per worker (a command line costs several times an action call)
	nc, per := 16, 1
	if tier == "thorough" {
		nc, per = 64, 12
	}
	var out []core.Case
	for i := 0; i < nc; i++ {
		out = append(out, core.Case{ID: fmt.Sprintf("cli-chains-%d", i), Data: core.J(caseData{Route: "cli", Seed: rng.Int63(), Driver: "secrets", N: per, Only: -1})})
	}
	return out
}

func runCLI(d caseData, verbose bool) core.Result {
	var res core.Result
	// helm invalidates its on-disk discovery cache on every command and rewrites it (dozens of small
	// files per command): keep the scratch directory in memory where possible
	tmp, err := os.MkdirTemp("/dev/shm", "c13cli-")
	if err != nil {
		tmp, err = os.MkdirTemp("", "c13cli-")
	}
	if err != nil {
		res.Inconclusive = "cannot create temp dir: " + err.Error()
		return res
	}
	defer os.RemoveAll(tmp)
	klog.LogToStderr(false)
	klog.SetOutput(io.Discard)
	sw := &simSwitch{}
	srv := httptest.NewServer(sw.handler())
	defer srv.Close()
	ce, err := newCLIEnv(tmp, srv.URL)
	if err != nil {
		res.Inconclusive = "cannot write kubeconfig: " + err.Error()
		return res
	}
	defer ce.restore()
	for i := 0; i < d.N; i++ {
		if d.Only >= 0 && d.Only != i {
			continue
		}
		rng := rand.New(rand.NewSource(d.Seed ^ int64(i+1)*0x9E3779B97F4A7C))
		fam := genFamily(rng)
		chain := genCLIChain(rng)
		dir := filepath.Join(tmp, fmt.Sprintf("chain%d", i))
		for v := range fam.Defaults {
			if err := writeChartDir(filepath.Join(dir, fmt.Sprintf("fam-v%d", v)), fam.files(v)); err != nil {
				res.Inconclusive = "cannot write chart: " + err.Error()
				return res
			}
		}
		idx := i
		rt := route{
			Name:     "helm CLI",
			AnyAgent: true,
			Open:     func(w *env.World) { sw.cur.Store(w.Sim) },
			Do: func(_ *env.World, _ string, si int, st step) (string, error) {
				args, err := cliArgs(dir, idx, si, st)
				if err != nil {
					panic(err)
				}
				shown := make([]string, len(args))
				for k, a := range args {
					shown[k] = strings.TrimPrefix(a, dir+string(filepath.Separator))
				}
				_, err = ce.helm(args...)
				return "helm " + strings.Join(shown, " "), err
			},
		}
		runChain(&res, rt, "secrets", i, fam, chain, verbose)
		sw.cur.Store(nil)
		os.RemoveAll(dir)
	}
	return res
}
