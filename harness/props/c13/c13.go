// Package c13: upgrade carries user values forward exactly as the chosen flag says.
//
// Chains of install / upgrade (no flag, --reset-values, --reuse-values, --reset-then-reuse-values) /
// rollback / occasionally failing upgrades run on env.World (memory and Secret storage) over a chart
// family whose defaults change per version (added, removed, retyped keys). After every step the
// monitor reads the raw ledger (World.Ledger) and Releases.Get and judges the NEW revision:
//
//	stored-config   Config == the 30-line rule below applied to the DEPLOYED revision's stored config
//	                (deployed as identified from the raw ledger before the step) and the step's values
//	probe           the probe template output `{{ toYaml .Values }}` in the revision's manifest ==
//	                ApplyDefaults(stored config, defaults in force), where the defaults in force are the
//	                new chart's, except under --reuse-values (those of the deployed revision stay)
//	flag combos     steps that set several of the three flags are judged by the documented precedence
//	                (--reset-values wins; else --reuse-values; else --reset-then-reuse-values)
//	rollback        config and manifest of the new revision == the target revision's, unchanged
//	history-stable  no earlier revision's stored config changes (aliasing between revisions)
//
// Two routes reach helm: filled-in action structs (env.World.Exec) and, in cli.go, real `helm install /
// upgrade / rollback` command lines (the flag named on the command line is "the chosen flag"; pkg/cmd
// decides which action field it sets). The clauses are the same; classes of the second route carry the
// prefix "helm CLI:".
//
// Don't-care zones: paths where the step's new values carry an explicit null under
// reuse / reset-then-reuse (helm removes the key from the stored config; "overlay of a null" is not
// pinned down): accepted as absent or null in the config, and excluded from the probe comparison of
// that revision and of the reuse-chain that follows it (helm keeps the previous effective value as a
// hidden default there). Numeric representation (int64 / float64 / json.Number unified). An empty
// config may be stored as {} or null.
package c13

import (
	"fmt"
	"math/rand"
	"strings"

	"sigs.k8s.io/yaml"

	"helm.sh/helm/v4/verifh/core"
	"helm.sh/helm/v4/verifh/env"
	"helm.sh/helm/v4/verifh/gen"
	"helm.sh/helm/v4/verifh/ref"
	"helm.sh/helm/v4/verifh/sim"
)

type caseData struct {
	Route  string `json:"route,omitempty"` // "" = action structs | "cli" = real helm command lines (cli.go)
	Seed   int64  `json:"seed"`
	Driver string `json:"driver"`
	N      int    `json:"n"`
	Only   int    `json:"only"`
}

const relName = "rel"
const nsName = "ns1"

// route is the way a step reaches helm: filled-in action structs (env.World.Exec) or a helm command
// line (cli.go). The clauses are the same on both.
type route struct {
	Name     string             // "" for the action route; otherwise shown in classes and inputs
	AnyAgent bool               // the route's requests do not carry the step's agent tag
	Open     func(w *env.World) // called once with the chain's fresh world
	Do       func(w *env.World, agent string, si int, st step) (shown string, err error)
}

var actionRoute = route{}

func init() {
	core.Register(&core.Prop{
		ID:    "C13",
		Level: "exploration",
		Rule: "seeded chains of 3-8 steps (install, upgrades with each of the four flag modes and with every combination of the three flags (judged by the documented precedence reset > reuse > reset-then-reuse), rollbacks to random earlier revisions, upgrades made to fail by a one-shot 500 so that deployed != last) on memory and Secret storage, over a 4-version chart family whose defaults add/remove/retype keys; per step a random value tree (empty, nulls, type changes). " +
			"The same clauses judge covering chains run as real helm command lines (pkg/cmd NewRootCmd over HTTP to the simulator, Secret storage): per chain every one of the four flag modes once on a chart version other than the previous step's, plus two upgrades with a random flag choice (combinations included), rollbacks and failing upgrades; the step's values travel as a -f file; counters cli_*. " +
			"evaluations counts operations. distinct_nontrivial counts distinct chain shapes (sequence of step kinds/modes with outcome and whether values were empty) among chains that contain at least two different flag modes and a rollback.",
		Assumptions: []string{
			"the reference rule (expectedConfig, 30 lines, on top of ref.MergeKeep/ApplyDefaults) states the property's sentences",
			"the simulated API server stores Secrets faithfully (release records go through helm's real Secrets driver)",
			"a failed upgrade is produced by answering its first resource mutation with 500 once",
			"on the CLI route the switches --reset-values / --reuse-values / --reset-then-reuse-values of `helm upgrade` are the property's flag choices and `-f file` carries the step's new values",
		},
		Gen:            genCases,
		Run:            run,
		Post:           post,
		CaseTimeoutSec: 900,
	})
}

func genCases(seed int64, tier string) []core.Case {
	rng := rand.New(rand.NewSource(seed*32452843 + 13))
	nc, per := 32, 25
	if tier == "thorough" {
		nc, per = 1280, 48
	}
	var out []core.Case
	for i := 0; i < nc; i++ {
		drv := []string{"memory", "secrets"}[i%2]
		out = append(out, core.Case{ID: fmt.Sprintf("chains-%s-%d", drv, i), Data: core.J(caseData{Seed: rng.Int63(), Driver: drv, N: per, Only: -1})})
	}
	// the same chains as helm command lines (own generator stream: the cases above stay as they were)
	out = append(out, genCLICases(rand.New(rand.NewSource(seed*32452843+1013)), tier)...)
	return out
}

// ---------------------------------------------------------------- chart family

var keys = []string{"a", "b", "c", "m", "l", "n"}

type family struct {
	Defaults []map[string]any
}

func genFamily(rng *rand.Rand) family {
	var f family
	base := gen.Tree(rng, gen.TreeOpts{Keys: keys, Depth: 3, MaxKeys: 6, Lists: true})
	for v := 0; v < 4; v++ {
		d := ref.CanonMap(base)
		// per version: add, remove and retype keys; change leaf values
		fresh := gen.Tree(rng, gen.TreeOpts{Keys: keys, Depth: 3, MaxKeys: 4, Lists: true})
		for k, x := range fresh {
			d[k] = x
		}
		for _, k := range gen.SortedKeys(d) {
			if rng.Intn(5) == 0 {
				delete(d, k)
			}
		}
		d["ver"] = fmt.Sprintf("default-of-v%d", v)
		f.Defaults = append(f.Defaults, d)
	}
	return f
}

const probeTpl = `apiVersion: v1
kind: ConfigMap
metadata:
  name: {{ .Release.Name }}-probe
data:
  rev: "{{ .Release.Revision }}"
  values: |
{{ toYaml .Values | indent 4 }}
`

func (f family) files(v int) gen.Files {
	y, err := yaml.Marshal(f.Defaults[v])
	if err != nil {
		panic(err)
	}
	return gen.Files{
		"Chart.yaml":           fmt.Sprintf("apiVersion: v2\nname: fam\nversion: 0.%d.0\n", v+1),
		"values.yaml":          string(y),
		"templates/probe.yaml": probeTpl,
	}
}

// ---------------------------------------------------------------- chains

type step struct {
	Kind  string         // install | upgrade | rollback
	Mode  string         // upgrade: none | reset | reuse | rtr, or a combination "reset+reuse", "reuse+rtr", "reset+reuse+rtr" ...
	Chart int            // chart version
	Vals  map[string]any // new values
	ToRev int            // rollback target
	Fail  bool           // upgrade: answer the first mutation with 500
}

func (s step) String() string {
	switch s.Kind {
	case "install":
		return fmt.Sprintf("install(v%d, %s)", s.Chart, ref.J(ref.Canon(s.Vals)))
	case "rollback":
		return fmt.Sprintf("rollback(->%d)", s.ToRev)
	}
	f := ""
	if s.Fail {
		f = ", made to fail"
	}
	return fmt.Sprintf("upgrade[%s](v%d, %s%s)", s.Mode, s.Chart, ref.J(ref.Canon(s.Vals)), f)
}

func genVals(rng *rand.Rand) map[string]any {
	if rng.Intn(100) < 25 {
		return map[string]any{}
	}
	return gen.Tree(rng, gen.TreeOpts{Keys: keys, Depth: 3, MaxKeys: 4, Nulls: true, Lists: true})
}

var upgradeModes = []string{"none", "none", "reset", "reuse", "reuse", "rtr", "rtr", "reset+reuse", "reset+rtr", "reuse+rtr", "reset+reuse+rtr"}

func genChain(rng *rand.Rand) []step {
	n := 3 + rng.Intn(6)
	steps := []step{{Kind: "install", Chart: rng.Intn(4), Vals: genVals(rng)}}
	revs := 1
	for len(steps) < n {
		if revs >= 2 && rng.Intn(100) < 22 {
			steps = append(steps, step{Kind: "rollback", ToRev: 1 + rng.Intn(revs)})
		} else {
			steps = append(steps, step{Kind: "upgrade", Mode: gen.Pick(rng, upgradeModes), Chart: rng.Intn(4), Vals: genVals(rng), Fail: rng.Intn(100) < 15})
		}
		revs++
	}
	return steps
}

// ---------------------------------------------------------------- the rule (reference)

// effMode resolves a combination of flags by the documented precedence (flag help of `helm upgrade`:
// --reuse-values "is ignored if --reset-values is specified"; --reset-then-reuse-values "is ignored if
// --reset-values or --reuse-values is specified"): reset-values, then reuse-values, then reset-then-reuse.
func effMode(mode string) string {
	for _, m := range []string{"reset", "reuse", "rtr"} {
		for _, f := range strings.Split(mode, "+") {
			if f == m {
				return m
			}
		}
	}
	return "none"
}

// expectedConfig is the property's sentence. dep is the stored config of the currently deployed
// revision. An explicit null in newVals under reuse/rtr stays a null here (ref.Diff accepts absent).
func expectedConfig(mode string, dep, newVals map[string]any) map[string]any {
	switch effMode(mode) {
	case "reset":
		return ref.CanonMap(newVals)
	case "reuse", "rtr":
		return ref.MergeKeep(ref.CanonMap(newVals), dep)
	}
	if len(newVals) > 0 {
		return ref.CanonMap(newVals)
	}
	return ref.CanonMap(dep)
}

// nullPaths lists the paths at which a tree carries an explicit null.
func nullPaths(v map[string]any, prefix []string, out *[][]string) {
	for _, k := range gen.SortedKeys(v) {
		p := append(append([]string{}, prefix...), k)
		switch t := v[k].(type) {
		case nil:
			*out = append(*out, p)
		case map[string]any:
			nullPaths(t, p, out)
		}
	}
}

func deletePath(m map[string]any, p []string) {
	for i, k := range p {
		if i == len(p)-1 {
			delete(m, k)
			return
		}
		next, ok := m[k].(map[string]any)
		if !ok {
			return
		}
		m = next
	}
}

func parseConfig(js string) map[string]any {
	var m map[string]any
	if js == "" || js == "null" {
		return map[string]any{}
	}
	if err := yaml.Unmarshal([]byte(js), &m); err != nil || m == nil {
		return map[string]any{}
	}
	return ref.CanonMap(m)
}

// parseProbe extracts (rev, values) from a release manifest.
func parseProbe(manifest string) (string, map[string]any, error) {
	var doc struct {
		Data struct {
			Rev    string `json:"rev"`
			Values string `json:"values"`
		} `json:"data"`
	}
	if err := yaml.Unmarshal([]byte(manifest), &doc); err != nil {
		return "", nil, err
	}
	var v map[string]any
	if err := yaml.Unmarshal([]byte(doc.Data.Values), &v); err != nil {
		return "", nil, err
	}
	return doc.Data.Rev, ref.CanonMap(v), nil
}

func opOf(s step) env.Op {
	op := env.Op{Kind: s.Kind, Chart: s.Chart, Vals: s.Vals, ToRev: s.ToRev}
	for _, f := range strings.Split(s.Mode, "+") {
		switch f {
		case "reset":
			op.ResetValues = true
		case "reuse":
			op.ReuseValues = true
		case "rtr":
			op.ResetThenReuse = true
		}
	}
	return op
}

func run(c core.Case, verbose bool) core.Result {
	env.Quiet()
	var d caseData
	core.U(c, &d)
	if d.Route == "cli" {
		return runCLI(d, verbose)
	}
	var res core.Result
	for i := 0; i < d.N; i++ {
		if d.Only >= 0 && d.Only != i {
			continue
		}
		rng := rand.New(rand.NewSource(d.Seed ^ int64(i+1)*0x9E3779B97F4A7C))
		fam := genFamily(rng)
		chain := genChain(rng)
		runChain(&res, actionRoute, d.Driver, i, fam, chain, verbose)
	}
	return res
}

type revModel struct {
	defaults map[string]any // chart defaults in force
	taint    [][]string     // paths whose effective value is not pinned down (new-value nulls under reuse)
	masked   [][]string     // default tables that a stored non-table value (scalar/list/null) replaced, in this reuse chain
}

// maskedNow lists the paths at which the defaults hold a table but the stored config a non-table.
func maskedNow(cfg, defs map[string]any, prefix []string, out *[][]string) {
	for _, k := range gen.SortedKeys(defs) {
		dm, ok := defs[k].(map[string]any)
		if !ok {
			continue
		}
		cv, has := cfg[k]
		if !has {
			continue
		}
		p := append(append([]string{}, prefix...), k)
		if cm, ok := cv.(map[string]any); ok {
			maskedNow(cm, dm, p, out)
		} else {
			*out = append(*out, p)
		}
	}
}

func hasPrefix(paths [][]string, path string) bool {
	for _, p := range paths {
		q := strings.Join(p, ".")
		if path == q || strings.HasPrefix(path, q+".") {
			return true
		}
	}
	return false
}

const maskedClass = "upgrade[reuse]: a default below a table that an earlier stored value had replaced by a non-table (scalar/list/null) does not come back when the new values make the key a table again"

func runChain(res *core.Result, rt route, driver string, idx int, fam family, chain []step, verbose bool) {
	w := env.NewWorld(driver, nsName)
	if rt.Open != nil {
		rt.Open(w)
	}
	via, pre := "", ""
	if rt.Name != "" {
		via, pre = " via the "+rt.Name, rt.Name+": "
	}
	model := map[int]revModel{}
	var done []string
	stored := map[int]string{} // revision -> config as first observed
	modes := map[string]bool{}
	hasRollback, hasFailed, deployedNotLast := false, false, false
	var shape []string
	input := func() string {
		var fs []string
		for v, dm := range fam.Defaults {
			fs = append(fs, fmt.Sprintf("v%d defaults=%s", v, ref.J(dm)))
		}
		return fmt.Sprintf("chain #%d on %s storage%s: %s | chart family: %s", idx, driver, via, strings.Join(done, " ; "), strings.Join(fs, " ; "))
	}
	for si, st := range chain {
		agent := fmt.Sprintf("op%d", si)
		before, _ := w.Ledger(relName)
		dep := ref.LatestDeployed(before)
		if st.Kind == "rollback" && ref.Find(before, st.ToRev) == nil {
			continue
		}
		if st.Kind != "install" && dep == nil {
			break // nothing deployed (cannot happen: installs never fail here)
		}
		if dep != nil && dep.Revision != ref.MaxRev(before) {
			deployedNotLast = true
		}
		var fl *sim.Fault
		if st.Fail {
			fl = w.Sim.AddFault(&sim.Fault{Match: func(r *sim.Req) bool { return (rt.AnyAgent || r.Agent == agent) && r.Class == "mutation" }, Code: 500, Once: true})
		}
		var r env.OpResult
		shown := ""
		if core.Guard(res, st.String()+" | "+input(), func() {
			if rt.Do != nil {
				shown, r.Err = rt.Do(w, agent, si, st)
				shown = " `" + shown + "`"
			} else {
				r = w.Exec(agent, relName, opOf(st), fam.files(st.Chart).Build())
			}
		}) {
			return
		}
		w.Sim.ClearFaults()
		res.Evals++
		failed := fl != nil && fl.Fired() > 0
		outcome := "ok"
		if r.Err != nil {
			outcome = "failed"
		}
		done = append(done, fmt.Sprintf("%s%s => %s", st, shown, outcome))
		after, bad := w.Ledger(relName)
		if len(bad) > 0 {
			res.Add("ledger-unreadable", driver, "%v | %s", bad, input())
			return
		}
		newRev := ref.MaxRev(after)
		if newRev <= ref.MaxRev(before) {
			if r.Err == nil {
				res.Add("no-new-revision", st.Kind+" "+st.Mode, "op succeeded without a new revision | %s", input())
			}
			if verbose {
				fmt.Printf("step %d %s: error %v, no new revision\n", si, st, r.Err)
			}
			continue
		}
		if r.Err != nil && !failed {
			res.Add("unexpected-op-error", pre+st.Kind+" "+st.Mode+": "+firstWords(r.Err.Error(), 4), "%v | %s", r.Err, input())
		}
		rec := ref.Find(after, newRev)
		got := parseConfig(rec.Config)
		stored[newRev] = rec.Config
		kindMode := st.Kind
		if st.Kind == "upgrade" {
			kindMode += "[" + st.Mode + "]"
			modes[st.Mode] = true
			if strings.Contains(st.Mode, "+") {
				res.Stat("upgrades_with_combined_flags", 1)
				res.Key("combined|%s|%s", driver, st.Mode)
			}
			if failed {
				hasFailed = true
			}
		}
		ctx := pre + kindMode
		if dep != nil && dep.Revision != ref.MaxRev(before) {
			ctx += " while the last revision is not the deployed one"
		}
		ev := ""
		if len(st.Vals) == 0 && st.Kind != "rollback" {
			ev = ",empty"
		}
		shape = append(shape, fmt.Sprintf("%s%s:%s", kindMode, ev, outcome))

		// cross-check the raw ledger with helm's own reader
		if rel, err := w.Config("reader").Releases.Get(relName, newRev); err != nil {
			res.Add("releases-get", driver, "Releases.Get(%d): %v | %s", newRev, err, input())
		} else if !ref.Equal(parseConfig(ref.J(ref.Canon(rel.Config))), got) {
			res.Add("releases-get", driver+": Releases.Get config differs from the raw record", "Get=%s raw=%s | %s", ref.J(ref.Canon(rel.Config)), rec.Config, input())
		}

		var expCfg map[string]any
		var m revModel
		switch st.Kind {
		case "install":
			expCfg = ref.CanonMap(st.Vals)
			m = revModel{defaults: fam.Defaults[st.Chart]}
		case "upgrade":
			depCfg := parseConfig(dep.Config)
			expCfg = expectedConfig(st.Mode, depCfg, st.Vals)
			m = revModel{defaults: fam.Defaults[st.Chart]}
			if effMode(st.Mode) == "reuse" {
				m = revModel{defaults: model[dep.Revision].defaults, taint: model[dep.Revision].taint}
			}
			if em := effMode(st.Mode); em == "reuse" || em == "rtr" {
				var np [][]string
				nullPaths(ref.CanonMap(st.Vals), nil, &np)
				m.taint = append(append([][]string{}, m.taint...), np...)
				res.Stat("new_value_nulls_under_reuse(dont_care_paths)", int64(len(np)))
			}
		case "rollback":
			hasRollback = true
			tr := ref.Find(before, st.ToRev)
			m = model[st.ToRev]
			if tr.Config != rec.Config {
				res.Add("rollback-config", "rollback does not restore the target revision's stored config", "target rev %d config %s, new rev %d config %s | %s", st.ToRev, tr.Config, newRev, rec.Config, input())
			}
			if tr.Manifest != rec.Manifest {
				res.Add("rollback-manifest", "rollback does not restore the target revision's manifest", "target rev %d manifest %q, new rev %d manifest %q | %s", st.ToRev, tr.Manifest, newRev, rec.Manifest, input())
			}
			res.Stat("rollbacks_compared", 1)
			expCfg = parseConfig(tr.Config)
		}
		if st.Kind != "rollback" {
			var mk [][]string
			maskedNow(got, ref.CanonMap(m.defaults), nil, &mk)
			if effMode(st.Mode) == "reuse" {
				mk = append(append([][]string{}, model[dep.Revision].masked...), mk...)
			}
			m.masked = mk
		}
		model[newRev] = m

		var diffs []ref.Difference
		var n int64
		ref.Diff(expCfg, got, "", &diffs, &n)
		res.Stat("config_paths_compared", n)
		res.Stat("revisions_judged", 1)
		if rt.Name != "" {
			res.Stat("cli_revisions_judged", 1)
			res.Stat("cli_commands:"+kindMode, 1)
		}
		if verbose {
			fmt.Printf("step %d %s => %s: rev %d status %s\n  deployed before: rev %v\n  expected config %s\n  stored config   %s\n", si, st, outcome, newRev, rec.Status, revOf(dep), ref.J(expCfg), rec.Config)
		}
		if len(diffs) > 0 {
			res.Add("stored-config", fmt.Sprintf("%s: %s", ctx, diffs[0].Kind), "%s | deployed rev %v config %s | new values %s | expected %s stored %s | %s", diffs[0], revOf(dep), cfgOf(dep), ref.J(ref.Canon(st.Vals)), ref.J(expCfg), rec.Config, input())
			continue // the probe follows the stored config; one cause per revision
		}

		if st.Kind == "rollback" {
			continue // the manifest is the target's, byte for byte (checked above); it was judged at the target revision
		}
		// probe: effective values the templates saw
		prev, pv, err := parseProbe(rec.Manifest)
		if err != nil {
			res.Add("probe-unparsable", kindMode, "%v | manifest %q | %s", err, rec.Manifest, input())
			continue
		}
		if st.Kind != "rollback" && prev != fmt.Sprint(newRev) {
			res.Add("probe-revision", kindMode, "manifest rendered for revision %s, stored as %d | %s", prev, newRev, input())
		}
		expEff := ref.ApplyDefaults(got, ref.CanonMap(m.defaults), nil)
		for _, p := range m.taint {
			deletePath(expEff, p)
			deletePath(pv, p)
		}
		diffs = nil
		n = 0
		ref.Diff(expEff, pv, "", &diffs, &n)
		res.Stat("probe_paths_compared", n)
		res.Stat("probes_parsed", 1)
		if rt.Name != "" {
			res.Stat("cli_probes_parsed", 1)
		}
		if st.Kind == "upgrade" && !ref.Equal(ref.CanonMap(model[dep.Revision].defaults), ref.CanonMap(fam.Defaults[st.Chart])) {
			// the steps on which "whose defaults apply" can be told apart at all
			k := "upgrades_judged_where_deployed_and_new_chart_defaults_differ:" + effMode(st.Mode)
			if rt.Name != "" {
				k = "cli_" + k
			}
			res.Stat(k, 1)
		}
		if verbose {
			fmt.Printf("  expected effective values %s\n  probe printed             %s\n", ref.J(expEff), ref.J(pv))
		}
		// C04 owns the nil-vs-absent distinction of null deletion; here a null printed where the default is gone is fine
		kept := diffs[:0]
		for _, df := range diffs {
			if df.Kind != "null-not-removed" {
				kept = append(kept, df)
			}
		}
		diffs = kept
		if len(diffs) > 0 && effMode(st.Mode) == "reuse" && diffs[0].Kind == "missing" && hasPrefix(model[dep.Revision].masked, diffs[0].Path) {
			res.Add("effective-values", maskedClass, "%s | stored config %s | defaults in force %s | probe %s | %s", diffs[0], rec.Config, ref.J(ref.Canon(m.defaults)), ref.J(pv), input())
		} else if len(diffs) > 0 {
			which := "new chart's defaults"
			if effMode(st.Mode) == "reuse" {
				which = "defaults in force at the deployed revision"
			}
			if st.Kind == "rollback" {
				which = "target revision's defaults"
			}
			res.Add("effective-values", fmt.Sprintf("%s: probe %s relative to stored config over the %s", ctx, diffs[0].Kind, which), "%s | stored config %s | defaults in force %s | probe %s | %s", diffs[0], rec.Config, ref.J(ref.Canon(m.defaults)), ref.J(pv), input())
		}

		// earlier revisions' stored configs never change
		for _, old := range after {
			if was, ok := stored[old.Revision]; ok && was != old.Config {
				res.Add("history-stable", fmt.Sprintf("%s changed the stored config of an earlier revision (%s)", kindMode, driver), "rev %d config was %s now %s | %s", old.Revision, was, old.Config, input())
				stored[old.Revision] = old.Config
			}
		}
	}
	if len(modes) >= 2 {
		res.Stat("chains_with_2plus_flag_modes", 1)
	}
	if hasRollback {
		res.Stat("chains_with_rollback", 1)
	}
	if hasFailed {
		res.Stat("chains_with_failed_upgrade", 1)
	}
	if deployedNotLast {
		res.Stat("chains_with_step_where_deployed_is_not_last", 1)
	}
	res.Stat("chains", 1)
	if len(modes) >= 2 && hasRollback {
		res.Key("%s%s|%s", pre, driver, strings.Join(shape, " "))
		if res.Sample == nil {
			res.Sample = map[string]any{"driver": driver, "chain": done, "defaults_v0": fam.Defaults[0], "defaults_v1": fam.Defaults[1]}
		}
	}
}

func revOf(r *env.Rec) any {
	if r == nil {
		return "none"
	}
	return r.Revision
}

func cfgOf(r *env.Rec) string {
	if r == nil {
		return "-"
	}
	return r.Config
}

func firstWords(s string, n int) string {
	f := strings.Fields(s)
	if len(f) > n {
		f = f[:n]
	}
	return strings.Join(f, " ")
}

func post(a *core.Agg) string {
	need := map[string]int64{
		"revisions_judged":                            1000,
		"probes_parsed":                               900,
		"rollbacks_compared":                          100,
		"chains_with_2plus_flag_modes":                100,
		"chains_with_failed_upgrade":                  50,
		"chains_with_step_where_deployed_is_not_last": 30,
	}
	for k, min := range need {
		if a.Stats[k] < min {
			return fmt.Sprintf("monitor saw too little: %s = %d < %d", k, a.Stats[k], min)
		}
	}
	// CLI route: every flag mode must have been judged on steps where the two candidate default sets differ
	for _, m := range []string{"none", "reset", "reuse", "rtr"} {
		k := "cli_upgrades_judged_where_deployed_and_new_chart_defaults_differ:" + m
		if a.Stats[k] < 8 {
			return fmt.Sprintf("monitor saw too little: %s = %d < 8", k, a.Stats[k])
		}
	}
	if a.Stats["cli_revisions_judged"] < 100 {
		return fmt.Sprintf("monitor saw too little: cli_revisions_judged = %d < 100", a.Stats["cli_revisions_judged"])
	}
	return ""
}
