// Package c12: hooks run in weight order, gate the operation, and honour delete policies.
//
// What is executed: real install / upgrade / rollback / uninstall histories against the simulated
// API server with generated hook sets (0-4 hooks per lifecycle event and chart version, hooks bound
// to several events; pairs of hooks with the same kind and metadata.name in two namespaces (explicit
// metadata.namespace), with equal or different weights and policies; weights negative / equal / non-numeric / absent, and in
// part of the charts weights from the whole range of the platform int (both ends of the range, +-2^62,
// just outside 32 bits), so that hooks of one event lie further apart than the largest int; hook names whose order
// differs from the order of the files that define them, sometimes two hooks per file; kinds
// ConfigMap / Job / Pod / ServiceAccount; every subset of the three delete policies). Every history
// is run once fault-free and then once per SINGLE hook failure: every hook create of every op
// answered 500 once, every hook readiness (WatchUntilReady) failing once; the ops after the failed
// one still run, so leftovers of failed hooks meet before-hook-creation later on.
//
// The oracle is trace-driven: for every op it computes, from the generator's own hook specs
// (never from helm's parsed hook records), which hooks must run for the pre- and the post-event
// and in which order, and walks the merged sequence of request-log and waiter events of that op:
//
//	hook-order / unexpected-hook-run / hook-not-run      creates are exactly the bound hooks in ascending (weight, name)
//	hook-created-before-previous-completed               POST(i+1) received before WatchUntilReady(i) returned
//	hook-completion-not-awaited                          no WatchUntilReady for a created hook
//	leftover-not-deleted-before-hook-creation            same-named object existed, policy before-hook-creation (explicit/default), no DELETE 200 before the POST
//	hook-deleted-without-policy                          a DELETE 200 of a hook object that no policy clause allows
//	hook-survives-despite-policy                         hook-succeeded (hook succeeded) / hook-failed (the failing hook) says delete, object not deleted
//	hook-object-state                                    at the end of the op a hook object of the op exists / is absent contrary to the policies
//	release-mutated-after-failed-pre-hook                any create/patch/delete of a manifest resource by an op whose pre-hook failed
//	hook-run-after-failed-pre-hook                       a later hook create after a failed pre-hook
//	post-hook-failure-not-reported                       a post-hook failed and Run returned nil
//	hook-in-release-manifest                             a recorded manifest names a hook
//	hook-created-with-hooks-disabled                     any hook create by an op run with DisableHooks
//
// Don't-care zones (deliberately unchecked): LastRun bookkeeping and release status after a hook
// failure (C03); output-log policies; what uninstall does to hook objects of other events; the
// relative order of two hooks with equal weight AND equal name (only the namespace twins: both must be
// created, awaited and deleted per policy, in either order); what
// happens to the object of a hook whose create was rejected (incl. a 409 caused by a leftover
// without before-hook-creation: that is a hook failure like any other); whether hooks of the same
// post-event still run after a failed post-hook (the property only forbids it after a pre-hook);
// ops that are refused before doing anything (error, no storage write, no hook or resource request).
// Atomic is only used together with DisableHooks (two history shapes): such an op is run once with
// its readiness wait failing, and the whole op including its compensating rollback / uninstall is
// judged by hook-created-with-hooks-disabled; what atomic restores is C03's business. CRD hooks are
// not generated.
package c12

import (
	"fmt"
	"math"
	"math/rand"
	"regexp"
	"sort"
	"strconv"
	"strings"

	chart "helm.sh/helm/v4/pkg/chart/v2"
	"helm.sh/helm/v4/verifh/core"
	"helm.sh/helm/v4/verifh/env"
	"helm.sh/helm/v4/verifh/gen"
	"helm.sh/helm/v4/verifh/ref"
	"helm.sh/helm/v4/verifh/sim"
)

const relName = "rel"
const ns = "ns1"

type caseData struct {
	Kind   string `json:"kind,omitempty"` // "" = action-level history | cli = command-line route (cli.go)
	HSeed  int64  `json:"hseed"`
	Driver string `json:"driver"`
	Only   string `json:"only,omitempty"` // replay aid: "base" or a fault id "op2:create:1"
}

func init() {
	core.Register(&core.Prop{
		ID:    "C12",
		Level: "fault_enumeration",
		Rule: "per hook-set seed: two chart versions with independently generated hook sets (0-4 hooks per event, multi-event hooks, same-kind same-name hook pairs in two namespaces, weights incl. negative/equal/non-numeric and, in about 40% of the charts, weights from the whole int range (ends of the range, +-2^62, just beyond 32 bits: hooks of one event further apart than MaxInt), all 8 delete-policy subsets, 4 kinds, name order != file order) and one of 7 history shapes over install/upgrade/rollback/uninstall (some ops with hooks disabled, two shapes with atomic+no-hooks ops that are additionally run with a failing readiness wait), on memory and secrets storage; one fault-free run plus one run per single hook failure (each hook create rejected once, each hook readiness failing once) of every op; all ops of every run are judged. Plus a CLI family (cli.go): the real cobra commands install / upgrade / upgrade --install / rollback / uninstall with --no-hooks (and --atomic) against the simulator over HTTP, judged by hook-created-with-hooks-disabled, with the same commands without --no-hooks as positive control. " +
			"distinct_nontrivial counts distinct (op kind, event, number of hooks in the event, failure kind, policy set of the failing hook, leftover-present) tuples among judged events that ran at least one hook.",
		Assumptions: []string{
			"the simulated API server applies requests like a real API server; its request log and the scripted waiter share one logical clock",
			"hook readiness is scripted at kube.Interface.GetWaiter (WatchUntilReady); a hook 'completes' when WatchUntilReady returns",
			"single-failure model: one injected hook failure per history run (natural 409 collisions of leftovers without before-hook-creation are judged as hook failures too)",
			"expected hook sets, weights and policies come from the generator's specs, not from helm's manifest sorter",
		},
		Gen:            genCases,
		Run:            run,
		Post:           post,
		CaseTimeoutSec: 600,
	})
}

func genCases(seed int64, tier string) []core.Case {
	n, drivers := 40, []string{"memory", "secrets"}
	if tier == "thorough" {
		n, drivers = 600, []string{"memory", "secrets", "configmaps"}
	}
	rng := rand.New(rand.NewSource(seed*15485863 + 12))
	var out []core.Case
	for i := 0; i < n; i++ {
		hs := rng.Int63()
		for _, drv := range drivers {
			if tier == "thorough" && drv == "configmaps" && i%3 != 0 {
				continue
			}
			out = append(out, core.Case{ID: fmt.Sprintf("hs%d-%s", i, drv), Data: core.J(caseData{HSeed: hs, Driver: drv})})
		}
	}
	return append(out, genCLICases(rng, tier)...)
}

// ---------------------------------------------------------------- generator

type hookDef struct {
	Stem      string
	Kind      string
	Events    []string
	Weight    string
	Policies  []string
	File      int
	NS        string // explicit metadata.namespace ("" = none: the release namespace)
	RevSuffix bool   // the name carries the revision (set when the hook, or its namespace twin, lacks before-hook-creation)
}

func (h hookDef) bhc() bool {
	if len(h.Policies) == 0 {
		return true
	}
	return h.has("before-hook-creation")
}
func (h hookDef) has(p string) bool {
	for _, x := range h.Policies {
		if x == p {
			return true
		}
	}
	return false
}

var intRe = regexp.MustCompile(`^[+-]?[0-9]+$`)

// weight is the reference reading of the weight annotation: a decimal integer, anything else counts as 0.
func (h hookDef) weight() int {
	if !intRe.MatchString(h.Weight) {
		return 0
	}
	n, _ := strconv.Atoi(h.Weight)
	return n
}

// name is the rendered object name: hooks without before-hook-creation carry the revision they
// were rendered for, so that leftover collisions are exactly the before-hook-creation cases
// (except when a rollback re-runs the hooks of an old revision).
func (h hookDef) name(renderRev int) string {
	n := relName + "-hook-" + h.Stem
	if h.RevSuffix {
		n += fmt.Sprintf("-r%d", renderRev)
	}
	return n
}

type chartSpec struct {
	Hooks []hookDef
	Res   [][3]string // kind, suffix, content
}

var allEvents = []string{"pre-install", "post-install", "pre-upgrade", "post-upgrade", "pre-rollback", "post-rollback", "pre-delete", "post-delete"}
var stems = []string{"alpha", "bravo", "charlie", "delta", "echo", "kilo", "lima", "mike", "oscar", "papa", "quebec", "romeo", "sierra", "tango", "victor", "yankee", "zulu", "a1", "a10", "a2", "b", "ba", "z0"}
var weights = []string{"", "", "-5", "-1", "0", "0", "1", "1", "2", "10", "abc", "1.5", "007", "+3"}
var kinds = []string{"ConfigMap", "Job", "Pod", "ServiceAccount"}
var policySets = [][]string{nil, {"before-hook-creation"}, {"hook-succeeded"}, {"hook-failed"}, {"before-hook-creation", "hook-succeeded"}, {"before-hook-creation", "hook-failed"}, {"hook-succeeded", "hook-failed"}, {"before-hook-creation", "hook-succeeded", "hook-failed"}}

// wideWeights are legal weights from the whole range of the (64-bit) int the annotation is read
// into: both ends of the range, values around +-2^62 (two of them are further apart than MaxInt64
// without either being an end of the range) and values just outside the 32-bit range. "Ascending
// weight" is stated for all of them.
var wideWeights = []string{
	"-9223372036854775808", "-9223372036854775807", "-4611686018427387905", "-4294967297", "-2147483649",
	"2147483648", "4294967297", "4611686018427387904", "9223372036854775806", "9223372036854775807",
}

// widen gives about 40% of the charts weights from the whole int range: every hook of such a chart
// trades its weight for a wide one with probability 1/2, the others keep their ordinary (small /
// absent / non-numeric) weight, so that events mix both. It draws from its own random stream: the
// rest of the setup is the same with and without it.
func (cs *chartSpec) widen(rng *rand.Rand) {
	if rng.Intn(100) >= 40 {
		return
	}
	for i := range cs.Hooks {
		if rng.Intn(2) == 0 {
			cs.Hooks[i].Weight = gen.Pick(rng, wideWeights)
		}
	}
}

// weightSpan classifies the weights of the hooks of one event: beyondInt = two of them differ by
// more than the largest int, beyond32 = one of them does not fit into 32 bits.
func weightSpan(hs []inst) (beyondInt, beyond32 bool) {
	if len(hs) == 0 {
		return
	}
	lo, hi := hs[0].Def.weight(), hs[0].Def.weight()
	for _, h := range hs {
		w := h.Def.weight()
		if w < lo {
			lo = w
		}
		if w > hi {
			hi = w
		}
		beyond32 = beyond32 || int(int32(w)) != w
	}
	return uint64(hi)-uint64(lo) > uint64(math.MaxInt64), beyond32
}

func genChart(rng *rand.Rand, res [][3]string) chartSpec {
	cs := chartSpec{Res: res}
	perm := rng.Perm(len(stems))
	next := 0
	for _, ev := range allEvents {
		n := []int{0, 1, 1, 2, 2, 3, 3, 4}[rng.Intn(8)]
		for i := 0; i < n && next < len(perm); i++ {
			// sometimes bind an existing hook to this event as well
			if len(cs.Hooks) > 0 && rng.Intn(100) < 30 {
				j := rng.Intn(len(cs.Hooks))
				dup := false
				for _, e := range cs.Hooks[j].Events {
					dup = dup || e == ev
				}
				if !dup {
					cs.Hooks[j].Events = append(cs.Hooks[j].Events, ev)
					continue
				}
			}
			h := hookDef{Stem: stems[perm[next]], Kind: gen.Pick(rng, kinds), Events: []string{ev}, Weight: gen.Pick(rng, weights), Policies: gen.Pick(rng, policySets)}
			next++
			cs.Hooks = append(cs.Hooks, h)
		}
	}
	for i := range cs.Hooks {
		cs.Hooks[i].RevSuffix = !cs.Hooks[i].bhc()
	}
	// namespace twins: a second hook object with the same kind and metadata.name in another
	// namespace (explicit metadata.namespace), bound to the same events, with the same or another
	// weight / policy set. They are two distinct hooks.
	if len(cs.Hooks) > 0 && rng.Intn(100) < 45 {
		for k, n := 0, 1+rng.Intn(2); k < n; k++ {
			j := rng.Intn(len(cs.Hooks))
			if cs.Hooks[j].NS != "" {
				continue
			}
			twin := cs.Hooks[j]
			twin.Events = append([]string(nil), cs.Hooks[j].Events...)
			twin.NS = "ns2"
			if rng.Intn(2) == 0 {
				cs.Hooks[j].NS = ns // explicit, equal to the release namespace
			} else {
				cs.Hooks[j].NS = "-" // none
			}
			if rng.Intn(2) == 0 {
				twin.Weight = gen.Pick(rng, weights)
			}
			if rng.Intn(2) == 0 {
				twin.Policies = gen.Pick(rng, policySets)
			}
			rs := !twin.bhc() || !cs.Hooks[j].bhc()
			twin.RevSuffix, cs.Hooks[j].RevSuffix = rs, rs
			cs.Hooks = append(cs.Hooks, twin)
		}
		for i := range cs.Hooks {
			if cs.Hooks[i].NS == "-" {
				cs.Hooks[i].NS = ""
			}
		}
	}
	// file layout: creation order decides the file, sometimes two hooks share a file
	f := 0
	for i := range cs.Hooks {
		cs.Hooks[i].File = f
		if rng.Intn(4) != 0 {
			f++
		}
	}
	return cs
}

func (cs chartSpec) files(version int) gen.Files {
	out := gen.Files{
		"Chart.yaml":  fmt.Sprintf("apiVersion: v2\nname: hk\nversion: 0.%d.0\n", version+1),
		"values.yaml": "k: d\n",
	}
	for _, r := range cs.Res {
		out["templates/"+r[1]+".yaml"] = gen.ResourceYAML(r[0], "{{ .Release.Name }}-"+r[1], r[2], "{{ .Values.k | quote }}", nil)
	}
	byFile := map[int][]string{}
	for _, h := range cs.Hooks {
		expr := "{{ .Release.Name }}-hook-" + h.Stem
		if h.RevSuffix {
			expr += "-r{{ .Release.Revision }}"
		}
		spec := gen.HookSpec{Name: h.Stem, Kind: h.Kind, Events: h.Events, Weight: h.Weight, Policies: h.Policies}
		y := spec.YAML(expr)
		if h.NS != "" {
			y = strings.Replace(y, "metadata:\n", "metadata:\n  namespace: "+h.NS+"\n", 1)
		}
		byFile[h.File] = append(byFile[h.File], y)
	}
	for f, docs := range byFile {
		out[fmt.Sprintf("templates/f%02d.yaml", f)] = strings.Join(docs, "---\n")
	}
	return out
}

type setup struct {
	charts [2]chartSpec
	ops    []env.Op
	shape  string
}

func mkSetup(d caseData) setup {
	rng := rand.New(rand.NewSource(d.HSeed))
	var s setup
	s.charts[0] = genChart(rng, [][3]string{{"ConfigMap", "cm-a", "c0"}, {"Service", "svc", "c0"}})
	s.charts[1] = genChart(rng, [][3]string{{"ConfigMap", "cm-a", "c1"}, {"ConfigMap", "cm-b", "c1"}})
	in := func(c int) env.Op { return env.Op{Kind: "install", Chart: c} }
	up := func(c int) env.Op { return env.Op{Kind: "upgrade", Chart: c} }
	atomicQuiet := func(o env.Op) env.Op { o.Atomic, o.NoHooks = true, true; return o }
	switch x := rng.Intn(7); x {
	case 0:
		s.shape, s.ops = "install-upgrade-rollback-uninstall", []env.Op{in(0), up(1), {Kind: "rollback", ToRev: 1}, {Kind: "uninstall"}}
	case 1:
		s.shape, s.ops = "install-uninstall(keep)-reinstall-uninstall", []env.Op{in(0), {Kind: "uninstall", KeepHistory: true}, {Kind: "install", Chart: 1, Replace: true}, {Kind: "uninstall"}}
	case 2:
		s.shape, s.ops = "install-upgrade-upgrade-rollback-uninstall(keep)", []env.Op{in(1), up(0), up(1), {Kind: "rollback"}, {Kind: "uninstall", KeepHistory: true}}
	case 3:
		s.shape, s.ops = "install-rollback-rollback-uninstall", []env.Op{in(0), up(1), {Kind: "rollback", ToRev: 1}, {Kind: "rollback", ToRev: 2}, {Kind: "uninstall"}}
	case 4:
		s.shape, s.ops = "install-uninstall-install-upgrade", []env.Op{in(1), {Kind: "uninstall"}, in(1), up(0)}
	case 5:
		// the atomic no-hooks upgrade gets a failing readiness wait: its compensating rollback must not run hooks
		s.shape, s.ops = "install-upgrade(atomic,nohooks)-upgrade-uninstall", []env.Op{in(0), atomicQuiet(up(1)), up(0), {Kind: "uninstall"}}
	case 6:
		// likewise the compensating uninstall of a failed atomic no-hooks install must not run delete hooks
		s.shape, s.ops = "install(atomic,nohooks)-install-upgrade(atomic,nohooks)-rollback", []env.Op{atomicQuiet(in(0)), in(0), atomicQuiet(up(1)), {Kind: "rollback", ToRev: 1}}
	}
	// hooks disabled on some ops
	if rng.Intn(3) == 0 {
		for i := range s.ops {
			if rng.Intn(3) == 0 {
				s.ops[i].NoHooks = true
			}
		}
		s.shape += "+some-nohooks"
	}
	wr := rand.New(rand.NewSource(d.HSeed ^ 0x2545F4914F6CDD1D))
	for i := range s.charts {
		s.charts[i].widen(wr)
	}
	return s
}

func (s *setup) chartFor(op env.Op) *chart.Chart {
	if op.Kind == "install" || op.Kind == "upgrade" {
		return s.charts[op.Chart].files(op.Chart).Build()
	}
	return nil
}

// ---------------------------------------------------------------- reference model

// revSrc says which chart's hooks a revision carries and for which revision they were rendered.
type revSrc struct{ Chart, RenderRev int }

type inst struct {
	Def  hookDef
	Name string // identity within the op's trace: the object name, qualified "<namespace>:" outside the release namespace
	Bare string // metadata.name
	Key  string
}

// qualify is the identity used for hook objects in traces: requests outside the release
// namespace carry their namespace.
func qualify(namespace, name string) string {
	if namespace == "" || namespace == ns {
		return name
	}
	return namespace + ":" + name
}

func (s *setup) expected(src revSrc, event string) []inst {
	var out []inst
	for _, h := range s.charts[src.Chart].Hooks {
		for _, e := range h.Events {
			if e == event {
				n := h.name(src.RenderRev)
				r := sim.FindKind(map[string]string{"ConfigMap": "v1", "Pod": "v1", "ServiceAccount": "v1", "Job": "batch/v1"}[h.Kind], h.Kind)
				hns := ns
				if h.NS != "" {
					hns = h.NS
				}
				out = append(out, inst{Def: h, Name: qualify(hns, n), Bare: n, Key: sim.Key(r.Group, r.Plural, hns, n)})
			}
		}
	}
	sort.SliceStable(out, func(i, j int) bool {
		if out[i].Def.weight() != out[j].Def.weight() {
			return out[i].Def.weight() < out[j].Def.weight()
		}
		return out[i].Bare < out[j].Bare
	})
	return out
}

func isHookName(n string) bool { return strings.Contains(n, "-hook-") }

func polString(h hookDef) string {
	if len(h.Policies) == 0 {
		return "none(default)"
	}
	return strings.Join(h.Policies, "+")
}

type req struct {
	recv, done int64
	method     string
	kind, name string
	code       int
	used       bool
}

// opTrace is the merged event stream of one op.
type opTrace struct {
	hookReqs   []*req      // POST/DELETE/... on hook objects, in done order
	relMut     []*req      // mutations of manifest resources
	storageW   int         // storage writes
	notes      []sim.Event // waiter notes
	boundary   int64       // seq of the first event between the pre- and the post-event (first release mutation / Wait / non-hook WaitForDelete); 0 = none
	endSeq     int64
	hookPosts  []*req
	watchCalls int
}

func traceOf(log []sim.Event, agent string) opTrace {
	var t opTrace
	recv := map[int]int64{}
	bound := func(seq int64) {
		if t.boundary == 0 || seq < t.boundary {
			t.boundary = seq
		}
	}
	for _, e := range log {
		if e.Agent != agent {
			continue
		}
		if e.Seq > t.endSeq {
			t.endSeq = e.Seq
		}
		switch e.Phase {
		case "recv":
			recv[e.N] = e.Seq
		case "done":
			if e.Class == "storage" {
				if e.Method != "GET" {
					t.storageW++
				}
				continue
			}
			if e.Class != "mutation" {
				continue
			}
			r := &req{recv: recv[e.N], done: e.Seq, method: e.Method, kind: e.Kind, name: qualify(e.NS, e.Name), code: e.Code}
			if isHookName(e.Name) {
				t.hookReqs = append(t.hookReqs, r)
				if e.Method == "POST" {
					t.hookPosts = append(t.hookPosts, r)
				}
			} else {
				t.relMut = append(t.relMut, r)
				bound(r.recv)
			}
		case "note":
			t.notes = append(t.notes, e)
			if e.Note != "call" {
				continue
			}
			switch e.What {
			case "Wait", "WaitWithJobs":
				bound(e.Seq)
			case "WatchUntilReady":
				t.watchCalls++
			case "WaitForDelete":
				hook := false
				for _, n := range e.Names {
					hook = hook || isHookName(n)
				}
				if !hook {
					bound(e.Seq)
				}
			}
		}
	}
	return t
}

// deletes200 returns (and marks used) the successful DELETEs of name with lo < seq < hi (hi 0 = open).
func (t *opTrace) deletes200(name string, lo, hi int64) int {
	n := 0
	for _, r := range t.hookReqs {
		if !r.used && r.method == "DELETE" && r.name == name && r.code == 200 && r.done > lo && (hi == 0 || r.done < hi) {
			r.used = true
			n++
		}
	}
	return n
}

func (t *opTrace) watchRet(name string, after int64) (sim.Event, bool) {
	// waiter notes carry "Kind/name" without a namespace; hooks run one at a time, so the first
	// return after the hook's own create is its own
	if i := strings.Index(name, ":"); i >= 0 {
		name = name[i+1:]
	}
	for _, e := range t.notes {
		if e.What == "WatchUntilReady" && e.Note == "ret" && e.Seq > after {
			for _, n := range e.Names {
				if strings.HasSuffix(n, "/"+name) {
					return e, true
				}
			}
		}
	}
	return sim.Event{}, false
}

type judgeIn struct {
	op      env.Op
	agent   string
	r       env.OpResult
	src     revSrc
	srcOK   bool
	existed map[string]bool // store keys at op start
	after   []env.Rec
	log     []sim.Event
}

func eventsOf(kind string) (string, string) {
	k := kind
	if kind == "uninstall" {
		k = "delete"
	}
	return "pre-" + k, "post-" + k
}

// judgeOp walks the trace of one op against the expected hook schedule.
func (s *setup) judgeOp(res *core.Result, w *env.World, in judgeIn, detail func() string) {
	op := in.op
	t := traceOf(in.log, in.agent)
	// hook documents never are part of the recorded manifest
	for _, rec := range in.after {
		res.Stat("manifests_checked_for_hooks", 1)
		if strings.Contains(rec.Manifest, "-hook-") || strings.Contains(rec.Manifest, "helm.sh/hook") {
			res.Add("hook-in-release-manifest", op.Kind, "the manifest recorded for revision %d contains a hook document | %s", rec.Revision, detail())
		}
	}
	if in.r.Err != nil && len(t.hookReqs) == 0 && len(t.relMut) == 0 && t.storageW == 0 {
		res.Stat("ops_refused(trivial)", 1)
		return
	}
	if op.NoHooks {
		res.Stat("ops_with_hooks_disabled_checked", 1)
		if len(t.hookPosts) > 0 {
			res.Add("hook-created-with-hooks-disabled", op.Kind, "%d hook object(s) created (first %s/%s) although the op ran with DisableHooks | %s", len(t.hookPosts), t.hookPosts[0].kind, t.hookPosts[0].name, detail())
		}
		return
	}
	if !in.srcOK {
		res.Stat("ops_without_model(trivial)", 1)
		return
	}
	res.Stat("ops_judged", 1)
	pre, post := eventsOf(op.Kind)
	exists := map[string]bool{}
	for k, v := range in.existed {
		exists[k] = v
	}
	involved := map[string]inst{}
	pi := 0
	var prevDone int64
	failedEvent, failedAt := "", ""
	aborted := false
	for ei, ev := range []string{pre, post} {
		if failedEvent != "" || aborted {
			break
		}
		hs := s.expected(in.src, ev)
		if ei == 1 && len(hs) > 0 && pi >= len(t.hookPosts) && in.r.Err != nil {
			// the op failed between the events for a reason that is not a hook failure
			res.Stat("ops_failed_between_events(trivial)", 1)
			break
		}
		// deletion window of this event ends where the next phase starts
		winEnd := int64(0)
		if ei == 0 {
			winEnd = t.boundary
		}
		var succeeded []inst
		var failing *inst
		windowStart := prevDone
		if ei == 1 && t.boundary > windowStart {
			windowStart = t.boundary // deletions before the boundary belong to the pre-event
		}
		leftover := false
		for i := range hs {
			h := hs[i]
			involved[h.Name] = h
			if pi >= len(t.hookPosts) {
				res.Add("hook-not-run", ev, "%s hook %s/%s (weight %q, policies %s) was never created; hooks created by the op: %s | %s", ev, h.Def.Kind, h.Name, h.Def.Weight, polString(h.Def), postNames(t.hookPosts), detail())
				aborted = true
				break
			}
			p := t.hookPosts[pi]
			if p.name != h.Name {
				// namespace twins with equal weight tie on (weight, name): the property fixes no order between them
				for j := i + 1; j < len(hs); j++ {
					if hs[j].Name == p.name && hs[j].Bare == h.Bare && hs[j].Def.weight() == h.Def.weight() {
						hs[i], hs[j] = hs[j], hs[i]
						h = hs[i]
						involved[h.Name] = h
						break
					}
				}
			}
			if p.name != h.Name {
				cls := ev + " | a hook that is not bound to the event"
				for _, o := range hs {
					if o.Name == p.name {
						if o.Def.weight() == h.Def.weight() {
							cls = ev + " | equal weights, names decide"
						} else {
							cls = ev + " | different weights"
						}
					}
				}
				clause := "hook-order"
				later := false
				for _, q := range t.hookPosts[pi:] {
					later = later || q.name == h.Name
				}
				if !later && !strings.HasSuffix(cls, "not bound to the event") {
					// the expected hook is skipped altogether, the op went on with a later one
					res.Add("hook-not-run", ev, "%s hook %s/%s (weight %q, policies %s) was never created; expected order %s, observed creates %s | %s", ev, h.Def.Kind, h.Name, h.Def.Weight, polString(h.Def), instNames(hs), postNames(t.hookPosts), detail())
					aborted = true
					break
				}
				if strings.HasSuffix(cls, "not bound to the event") {
					clause = "unexpected-hook-run"
				}
				res.Add(clause, cls, "%s: expected create #%d to be %s (weight %q) but saw %s; expected order %s, observed creates %s | %s", ev, pi+1, h.Name, h.Def.Weight, p.name, instNames(hs), postNames(t.hookPosts), detail())
				aborted = true
				break
			}
			pi++
			res.Stat("hook_creates_ordered", 1)
			if p.recv < prevDone {
				res.Add("hook-created-before-previous-completed", ev, "%s: create of %s was received at seq %d, before the previous hook completed at seq %d | %s", ev, h.Name, p.recv, prevDone, detail())
			}
			// before-hook-creation
			existed := exists[h.Key]
			n := t.deletes200(h.Name, windowStart, p.recv)
			res.Stat("delete_policy_decisions_checked", 1)
			if h.Def.bhc() {
				if existed {
					leftover = true
					res.Stat("leftovers_met_by_before_hook_creation", 1)
					if n == 0 {
						res.Add("leftover-not-deleted-before-hook-creation", ev, "%s: an object %s/%s left from an earlier run existed and was not deleted before the hook was created (create answered %d) | %s", ev, h.Def.Kind, h.Name, p.code, detail())
					}
				}
				if n > 0 {
					exists[h.Key] = false
				}
			} else if n > 0 {
				exists[h.Key] = false
				res.Add("hook-deleted-without-policy", ev+" | before creation", "%s: %s/%s was deleted before its creation although its policies %s lack before-hook-creation | %s", ev, h.Def.Kind, h.Name, polString(h.Def), detail())
			}
			if p.code != 201 {
				failedEvent, failedAt, failing = ev, "create", &hs[i]
				prevDone = p.done
				if p.code == 409 {
					res.Stat("natural_409_hook_failures", 1)
				}
				break
			}
			exists[h.Key] = true
			wr, ok := t.watchRet(h.Name, p.done)
			if !ok {
				res.Add("hook-completion-not-awaited", ev, "%s: %s was created but WatchUntilReady was never called for it | %s", ev, h.Name, detail())
				prevDone = p.done
				succeeded = append(succeeded, h)
				continue
			}
			res.Stat("hook_completions_observed", 1)
			prevDone = wr.Seq
			windowStart = wr.Seq
			if wr.Err != "" {
				failedEvent, failedAt, failing = ev, "ready", &hs[i]
				break
			}
			succeeded = append(succeeded, h)
		}
		if aborted {
			break
		}
		if len(hs) == 0 {
			continue
		}
		// policy deletions after the event
		outcome := "event succeeded"
		if failedEvent != "" {
			outcome = "a later hook failed at " + failedAt
			winEnd = 0
		}
		for _, h := range succeeded {
			n := t.deletes200(h.Name, prevDone, winEnd)
			res.Stat("delete_policy_decisions_checked", 1)
			cls := ev + " | " + outcome
			if h.Def.has("hook-succeeded") {
				if n == 0 {
					res.Add("hook-survives-despite-policy", cls, "%s: %s/%s succeeded and has hook-succeeded but was not deleted (%s) | %s", ev, h.Def.Kind, h.Name, outcome, detail())
				} else {
					exists[h.Key] = false
				}
			} else if n > 0 {
				exists[h.Key] = false
				res.Add("hook-deleted-without-policy", cls, "%s: %s/%s succeeded and was deleted although its policies %s lack hook-succeeded | %s", ev, h.Def.Kind, h.Name, polString(h.Def), detail())
			}
		}
		if failing != nil && failedAt == "ready" {
			h := *failing
			n := t.deletes200(h.Name, prevDone, 0)
			res.Stat("delete_policy_decisions_checked", 1)
			cls := ev + " | the hook failed at readiness"
			if h.Def.has("hook-failed") {
				if n == 0 {
					res.Add("hook-survives-despite-policy", cls, "%s: %s/%s failed and has hook-failed but was not deleted | %s", ev, h.Def.Kind, h.Name, detail())
				} else {
					exists[h.Key] = false
				}
			} else if n > 0 {
				exists[h.Key] = false
				res.Add("hook-deleted-without-policy", cls, "%s: %s/%s failed and was deleted although its policies %s lack hook-failed | %s", ev, h.Def.Kind, h.Name, polString(h.Def), detail())
			}
		}
		fk, fp := "none", "-"
		if failing != nil {
			fk, fp = failedAt, polString(failing.Def)
		}
		twins := false
		for a := range hs {
			for b := a + 1; b < len(hs); b++ {
				twins = twins || hs[a].Bare == hs[b].Bare
			}
		}
		if twins && failing == nil {
			res.Stat("events_with_namespace_twins_all_run", 1)
		}
		if beyondInt, beyond32 := weightSpan(hs); failing == nil && len(hs) > 1 {
			if beyondInt {
				res.Stat("events_with_weights_further_apart_than_maxint_ordered", 1)
			}
			if beyond32 {
				res.Stat("events_with_weights_beyond_32_bits_ordered", 1)
			}
		}
		res.Key("%s|%s|n=%d|fail=%s|%s|leftover=%v|twins=%v", op.Kind, ev, len(hs), fk, fp, leftover, twins)
		res.Stat("events_with_hooks_judged", 1)
	}
	if aborted {
		return
	}
	// consequences of a failure / leftovers in the trace
	if failedEvent != "" {
		res.Stat("hook_failures_judged:"+failedAt, 1)
	}
	if failedEvent == pre {
		res.Stat("failed_pre_hooks_gate_checked", 1)
		if len(t.relMut) > 0 {
			m := t.relMut[0]
			res.Add("release-mutated-after-failed-pre-hook", pre+" | hook failed at "+failedAt, "a %s hook failed, yet the op issued %d mutation(s) on manifest resources (first: %s %s/%s -> %d) | %s", pre, len(t.relMut), m.method, m.kind, m.name, m.code, detail())
		}
		if pi < len(t.hookPosts) {
			res.Add("hook-run-after-failed-pre-hook", pre+" | hook failed at "+failedAt, "a %s hook failed, yet %s was created afterwards | %s", pre, t.hookPosts[pi].name, detail())
		}
	}
	if failedEvent == post {
		res.Stat("failed_post_hooks_checked", 1)
		if in.r.Err == nil {
			res.Add("post-hook-failure-not-reported", post+" | hook failed at "+failedAt, "a %s hook failed but the op returned nil | %s", post, detail())
		}
	}
	if failedEvent == "" && pi < len(t.hookPosts) {
		res.Add("unexpected-hook-run", pre+"/"+post+" | extra create", "hook %s was created although it is not bound to %s/%s (or ran twice); observed creates %s | %s", t.hookPosts[pi].name, pre, post, postNames(t.hookPosts), detail())
	}
	// deletes that no clause above accounted for
	for _, r := range t.hookReqs {
		if r.method != "DELETE" || r.code != 200 || r.used {
			continue
		}
		h, inv := involved[r.name]
		if op.Kind == "uninstall" && !inv {
			continue // don't-care: what uninstall does to hook objects of other events
		}
		pol := "a hook of another event"
		if inv {
			pol = "a hook of this op"
		}
		if inv {
			exists[h.Key] = false
		}
		res.Add("hook-deleted-without-policy", pre+"/"+post+" | outside any policy window | "+pol, "hook object %s/%s was deleted at seq %d where no delete-policy clause allows it | %s", r.kind, r.name, r.done, detail())
	}
	// final state of the hook objects this op ran
	for _, h := range involved {
		res.Stat("hook_object_end_states_compared", 1)
		live := w.Sim.Get(h.Key) != nil
		if live != exists[h.Key] {
			res.Add("hook-object-state", op.Kind, "at the end of the op hook object %s/%s exists=%v, the delete policies %s imply exists=%v | %s", h.Def.Kind, h.Name, live, polString(h.Def), exists[h.Key], detail())
		}
	}
}

func postNames(ps []*req) string {
	var n []string
	for _, p := range ps {
		n = append(n, fmt.Sprintf("%s(%d)", p.name, p.code))
	}
	return "[" + strings.Join(n, " ") + "]"
}

func instNames(hs []inst) string {
	var n []string
	for _, h := range hs {
		n = append(n, fmt.Sprintf("%s(w=%q)", h.Name, h.Def.Weight))
	}
	return "[" + strings.Join(n, " ") + "]"
}

// ---------------------------------------------------------------- execution

type plan struct {
	Op   int    // index of the op that gets the failure (-1 = none)
	Kind string // create | ready
	J    int    // j-th hook create / j-th WatchUntilReady of that op
}

func (p plan) ID() string {
	if p.Op < 0 {
		return "base"
	}
	return fmt.Sprintf("op%d:%s:%d", p.Op, p.Kind, p.J)
}

// runHistory executes the whole history under one plan, judging every op. It returns per op the
// number of hook creates and hook watches seen (used to enumerate the plans from the base run).
func (s *setup) runHistory(res *core.Result, d caseData, p plan, verbose bool) (creates, watches []int) {
	w := env.NewWorld(d.Driver, ns)
	model := map[int]revSrc{}
	var hist []string
	for _, o := range s.ops {
		hist = append(hist, o.String())
	}
	for i, op := range s.ops {
		agent := fmt.Sprintf("op%d", i)
		w.Script.Reset()
		var fl *sim.Fault
		if p.Op == i {
			switch p.Kind {
			case "create":
				fl = w.Sim.AddFault(&sim.Fault{Match: func(r *sim.Req) bool {
					return r.Agent == agent && r.Method == "POST" && r.Class == "mutation" && isHookName(r.Name)
				}, Nth: p.J, Code: 500, Once: true})
			case "ready":
				w.Script.FailWatchNth, w.Script.FailAgent = p.J, agent
			case "wait":
				w.Script.FailWaitNth, w.Script.FailAgent = 1, agent
			}
		}
		before, _ := w.Ledger(relName)
		existed := map[string]bool{}
		for _, k := range w.Sim.Keys() {
			existed[k] = true
		}
		maxB := ref.MaxRev(before)
		var src revSrc
		srcOK := true
		switch op.Kind {
		case "install":
			// helm renders an install with .Release.Revision = 1, also when --replace stores it as a later revision
			src = revSrc{op.Chart, 1}
		case "upgrade":
			src = revSrc{op.Chart, maxB + 1}
		case "rollback":
			t := op.ToRev
			if t == 0 {
				t = maxB - 1
			}
			src, srcOK = model[t]
		case "uninstall":
			src, srcOK = model[maxB]
		}
		r := w.Exec(agent, relName, op, s.chartFor(op))
		w.Sim.ClearFaults()
		w.Script.Reset()
		res.Evals++
		after, _ := w.Ledger(relName)
		if len(after) == 0 {
			model = map[int]revSrc{}
		}
		for _, rec := range after {
			if _, ok := model[rec.Revision]; !ok && rec.Revision == maxB+1 && srcOK {
				model[rec.Revision] = src
			}
			if _, ok := model[rec.Revision]; !ok && rec.Revision == maxB+2 && op.Kind == "upgrade" && op.Atomic {
				// revision created by the compensating rollback: it carries the hooks of the revision it restored
				var good *env.Rec
				for i := range before {
					if st := before[i].Status; (st == "deployed" || st == "superseded") && (good == nil || before[i].Revision > good.Revision) {
						good = &before[i]
					}
				}
				if good != nil {
					if gs, ok := model[good.Revision]; ok {
						model[rec.Revision] = gs
					}
				}
			}
		}
		log := w.Sim.Log()
		inj := "no injected failure"
		if p.Op == i {
			inj = fmt.Sprintf("injected: hook %s #%d fails", p.Kind, p.J)
			if fl != nil && fl.Fired() == 0 {
				inj += " (not reached)"
			}
		}
		detail := func() string {
			return fmt.Sprintf("driver %s | history %s | plan %s | op %d %s (%s) err=%q | hooks of chart %d rendered for revision %d | ledger [%s] -> [%s]", d.Driver, strings.Join(hist, " ; "), p.ID(), i, op, inj, r.ErrString(), src.Chart, src.RenderRev, env.LedgerString(before), env.LedgerString(after))
		}
		if verbose {
			fmt.Printf("--- plan %s op %d %s err=%q ledger [%s]\n", p.ID(), i, op, r.ErrString(), env.LedgerString(after))
			pre, post := eventsOf(op.Kind)
			if srcOK {
				fmt.Printf("    expected %s: %s\n    expected %s: %s\n", pre, instNames(s.expected(src, pre)), post, instNames(s.expected(src, post)))
			}
			for _, e := range log {
				if e.Agent != agent {
					continue
				}
				if e.Phase == "done" && e.Class == "mutation" {
					fmt.Printf("    seq %d %s %s/%s -> %d\n", e.Seq, e.Method, e.Kind, e.Name, e.Code)
				}
				if e.Phase == "note" && e.What != "WaitForDelete" {
					fmt.Printf("    seq %d %s %s %v %s\n", e.Seq, e.What, e.Note, e.Names, e.Err)
				}
			}
		}
		nv := len(res.Violations)
		s.judgeOp(res, w, judgeIn{op: op, agent: agent, r: r, src: src, srcOK: srcOK, existed: existed, after: after, log: log}, detail)
		if verbose && len(res.Violations) > nv {
			for _, v := range res.Violations[nv:] {
				fmt.Printf("    ALARM [%s] %s\n", v.Signature(), v.Detail)
			}
		}
		t := traceOf(log, agent)
		creates = append(creates, len(t.hookPosts))
		watches = append(watches, t.watchCalls)
		if p.Op == i {
			if p.Kind == "wait" && op.NoHooks && op.Atomic && r.Err != nil {
				res.Stat("failed_atomic_ops_with_hooks_disabled_checked:"+op.Kind, 1)
			}
			if (fl != nil && fl.Fired() > 0) || p.Kind != "create" {
				res.Stat("hook_failures_injected:"+p.Kind, 1)
			}
		}
	}
	return
}

func run(c core.Case, verbose bool) core.Result {
	env.Quiet()
	var d caseData
	core.U(c, &d)
	if d.Kind == "cli" {
		return runCLI(c, d, verbose)
	}
	var res core.Result
	s := mkSetup(d)
	if verbose {
		fmt.Printf("history shape %s\n", s.shape)
		for v, cs := range s.charts {
			fmt.Printf("chart %d hooks:\n", v)
			for _, h := range cs.Hooks {
				fmt.Printf("  file f%02d  %-10s %-14s weight=%-5q policies=%-45s events=%v\n", h.File, h.Stem, h.Kind, h.Weight, polString(h), h.Events)
			}
		}
	}
	var creates, watches []int
	if d.Only == "" || d.Only == "base" {
		creates, watches = s.runHistory(&res, d, plan{Op: -1}, verbose)
		res.Stat("histories_run_fault_free", 1)
	} else {
		var tmp core.Result
		creates, watches = s.runHistory(&tmp, d, plan{Op: -1}, false)
	}
	nplans := 0
	for i := range s.ops {
		for _, k := range []string{"create", "ready"} {
			n := creates[i]
			if k == "ready" {
				n = watches[i]
			}
			for j := 1; j <= n; j++ {
				p := plan{Op: i, Kind: k, J: j}
				if d.Only != "" && d.Only != p.ID() {
					continue
				}
				s.runHistory(&res, d, p, verbose)
				nplans++
			}
		}
	}
	// atomic ops with hooks disabled: one run each with the readiness wait failing, so that the
	// compensating rollback / uninstall runs (it must not create any hook either)
	for i, op := range s.ops {
		if !(op.Atomic && op.NoHooks) {
			continue
		}
		p := plan{Op: i, Kind: "wait", J: 1}
		if d.Only != "" && d.Only != p.ID() {
			continue
		}
		s.runHistory(&res, d, p, verbose)
		nplans++
	}
	res.Stat("single_hook_failure_runs", int64(nplans))
	nh := 0
	for _, cs := range s.charts {
		nh += len(cs.Hooks)
	}
	var hs []string
	for _, h := range s.charts[0].Hooks {
		hs = append(hs, fmt.Sprintf("%s/%s w=%q pol=%s ev=%s file=f%02d", h.Kind, h.Stem, h.Weight, polString(h), strings.Join(h.Events, ","), h.File))
	}
	res.Sample = map[string]any{"driver": d.Driver, "history": s.shape, "hooks_total": nh, "chart0_hooks": hs, "hook_creates_per_op_fault_free": creates, "single_failure_runs": nplans}
	return res
}

func post(a *core.Agg) string {
	var miss []string
	for _, k := range []string{"hook_creates_ordered", "hook_completions_observed", "delete_policy_decisions_checked", "leftovers_met_by_before_hook_creation", "failed_pre_hooks_gate_checked", "failed_post_hooks_checked", "ops_with_hooks_disabled_checked", "failed_atomic_ops_with_hooks_disabled_checked:upgrade", "failed_atomic_ops_with_hooks_disabled_checked:install", "hook_failures_judged:create", "hook_failures_judged:ready", "hook_object_end_states_compared", "events_with_namespace_twins_all_run", "events_with_weights_further_apart_than_maxint_ordered", "events_with_weights_beyond_32_bits_ordered",
		"cli_commands_with_hooks_disabled_that_acted", "cli_failed_atomic_commands_with_hooks_disabled_checked", "cli_control_hook_creates:install-install", "cli_control_hook_creates:upgrade-upgrade", "cli_control_hook_creates:upgrade-install", "cli_control_hook_creates:rollback-rollback", "cli_control_hook_creates:uninstall-delete"} {
		if a.Stats[k] == 0 {
			miss = append(miss, k)
		}
	}
	if len(miss) > 0 {
		return "monitors observed no event of kind: " + strings.Join(miss, ", ")
	}
	return ""
}
