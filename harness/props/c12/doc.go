// Package c12: monitor for property C12 (see DESIGN.md section 3).
package c12
