package c12

// CLI route for the clause "with hooks disabled none is created": what pkg/cmd itself decides
// (e.g. `helm upgrade --install` configuring its fallback Install action from the upgrade flags)
// is invisible to the action-level histories. Here the real cobra commands (helmcmd.NewRootCmd) run
// in-process against the simulator, which is served on 127.0.0.1 by an httptest server that
// forwards every request to sim.Server.RoundTrip; a temp kubeconfig points the CLI at it and
// HELM_DRIVER=secrets makes release records ordinary requests. (Helper code copied from
// props/c06/cli.go.)
//
// Commands: install / upgrade (existing release) / upgrade --install (absent, existing and
// uninstalled-with-history release) / rollback / uninstall, each with --no-hooks, install and upgrade
// also with --atomic (the CLI then uses helm's real status watcher, which cannot watch the simulator:
// the command fails and its compensating uninstall / rollback runs - with hooks disabled, too).
// Clause hook-created-with-hooks-disabled: the request log of the command holds no POST of any hook
// object, whatever the command's outcome. Positive control: the same commands without --no-hooks
// must be seen POSTing a hook (they may then fail at the hook watch: counted, not judged).

import (
	"bytes"
	"encoding/json"
	"fmt"
	"io"
	"math/rand"
	"net/http"
	"net/http/httptest"
	"os"
	"path/filepath"
	"strings"

	"k8s.io/apimachinery/pkg/runtime/serializer/protobuf"
	"k8s.io/client-go/kubernetes/scheme"
	"k8s.io/klog/v2"

	helmcmd "helm.sh/helm/v4/pkg/cmd"
	"helm.sh/helm/v4/verifh/core"
	"helm.sh/helm/v4/verifh/env"
	"helm.sh/helm/v4/verifh/gen"
	"helm.sh/helm/v4/verifh/sim"
)

func writeChartDir(dir string, f gen.Files) error {
	for name, content := range f {
		p := filepath.Join(dir, name)
		if err := os.MkdirAll(filepath.Dir(p), 0o755); err != nil {
			return err
		}
		if err := os.WriteFile(p, []byte(content), 0o644); err != nil {
			return err
		}
	}
	return nil
}

// simHandler serves the simulator over real HTTP. Typed clientsets (the storage drivers) send
// protobuf bodies when no content type is configured; they are transcoded to JSON for the simulator.
func simHandler(s *sim.Server) http.Handler {
	proto := protobuf.NewSerializer(scheme.Scheme, scheme.Scheme)
	return http.HandlerFunc(func(rw http.ResponseWriter, r *http.Request) {
		body, _ := io.ReadAll(r.Body)
		r.Body.Close()
		if strings.HasPrefix(r.Header.Get("Content-Type"), "application/vnd.kubernetes.protobuf") && len(body) > 0 {
			if obj, _, err := proto.Decode(body, nil, nil); err == nil {
				if j, err := json.Marshal(obj); err == nil {
					body = j
					r.Header.Set("Content-Type", "application/json")
				}
			}
		}
		r.Body = io.NopCloser(bytes.NewReader(body))
		resp, err := s.RoundTrip(r)
		if err != nil {
			http.Error(rw, err.Error(), http.StatusBadGateway)
			return
		}
		defer resp.Body.Close()
		for k, vs := range resp.Header {
			for _, v := range vs {
				rw.Header().Add(k, v)
			}
		}
		rw.WriteHeader(resp.StatusCode)
		io.Copy(rw, resp.Body)
	})
}

type cliEnv struct {
	tmp   string
	saved map[string]*string
}

func newCLIEnv(tmp string) *cliEnv {
	e := &cliEnv{tmp: tmp, saved: map[string]*string{}}
	for k, v := range map[string]string{
		"HOME": tmp, "KUBECACHEDIR": filepath.Join(tmp, "kubecache"),
		"HELM_DRIVER": "secrets", "HELM_NAMESPACE": ns,
		"XDG_CACHE_HOME": filepath.Join(tmp, "xdg-cache"), "XDG_CONFIG_HOME": filepath.Join(tmp, "xdg-config"), "XDG_DATA_HOME": filepath.Join(tmp, "xdg-data"),
		"HELM_CACHE_HOME": filepath.Join(tmp, "helm-cache"), "HELM_CONFIG_HOME": filepath.Join(tmp, "helm-config"), "HELM_DATA_HOME": filepath.Join(tmp, "helm-data"),
	} {
		if old, ok := os.LookupEnv(k); ok {
			o := old
			e.saved[k] = &o
		} else {
			e.saved[k] = nil
		}
		os.Setenv(k, v)
	}
	return e
}

func (e *cliEnv) restore() {
	for k, v := range e.saved {
		if v == nil {
			os.Unsetenv(k)
		} else {
			os.Setenv(k, *v)
		}
	}
}

// helm runs one CLI invocation in-process against the given API server URL.
func (e *cliEnv) helm(server string, n int, args ...string) (string, error) {
	kcfg := filepath.Join(e.tmp, fmt.Sprintf("kubeconfig-%d", n))
	kc := fmt.Sprintf("apiVersion: v1\nkind: Config\nclusters:\n- name: sim\n  cluster:\n    server: %s\ncontexts:\n- name: sim\n  context:\n    cluster: sim\n    user: sim\n    namespace: %s\nusers:\n- name: sim\n  user: {}\ncurrent-context: sim\n", server, ns)
	if err := os.WriteFile(kcfg, []byte(kc), 0o600); err != nil {
		return "", err
	}
	os.Setenv("KUBECONFIG", kcfg)
	full := append([]string{}, args...)
	full = append(full, "--kubeconfig", kcfg, "--namespace", ns,
		"--registry-config", filepath.Join(e.tmp, "registry.json"), "--repository-config", filepath.Join(e.tmp, "repositories.yaml"), "--repository-cache", filepath.Join(e.tmp, "repocache"))
	var out bytes.Buffer
	cmd, err := helmcmd.NewRootCmd(&out, full)
	if err != nil {
		return "", err
	}
	cmd.SetArgs(full)
	cmd.SetOut(&out)
	cmd.SetErr(&out)
	saved := os.Stdout
	if devnull, e2 := os.OpenFile(os.DevNull, os.O_WRONLY, 0); e2 == nil {
		os.Stdout = devnull
		defer func() { os.Stdout = saved; devnull.Close() }()
	}
	err = cmd.Execute()
	env.Quiet()
	return out.String(), err
}

// cliChart: a generated hook set in which every lifecycle event has at least one hook.
func cliChart(rng *rand.Rand, res [][3]string) chartSpec {
	cs := genChart(rng, res)
	for i, ev := range allEvents {
		has := false
		for _, h := range cs.Hooks {
			for _, e := range h.Events {
				has = has || e == ev
			}
		}
		if !has {
			h := hookDef{Stem: fmt.Sprintf("cli%d", i), Kind: []string{"ConfigMap", "ServiceAccount"}[i%2], Events: []string{ev}, File: 90 + i}
			h.RevSuffix = !h.bhc()
			cs.Hooks = append(cs.Hooks, h)
		}
	}
	return cs
}

type cliCmd struct {
	Name  string   // shape of the command (class of a violation)
	State string   // empty | installed | two-revisions | uninstalled-kept
	Args  []string // without the hook / atomic switches
	Event string   // first lifecycle event of the command
}

// chart0a / chart1a additionally hold a Deployment, which never becomes ready in the simulator: the
// --atomic commands (status watcher) fail at the readiness wait and run their compensation.
func cliCommands(chart0, chart1, chart0a, chart1a string) []cliCmd {
	t := []string{"--timeout", "1s"}
	with := func(a ...string) []string { return append(a, t...) }
	return []cliCmd{
		{"install", "empty", with("install", relName, chart0), "pre-install"},
		{"install --atomic", "empty", with("install", relName, chart0a, "--atomic"), "pre-install"},
		{"upgrade (existing release)", "installed", with("upgrade", relName, chart1), "pre-upgrade"},
		{"upgrade --atomic (existing release)", "installed", with("upgrade", relName, chart1a, "--atomic"), "pre-upgrade"},
		{"upgrade --install (absent release)", "empty", with("upgrade", "--install", relName, chart0), "pre-install"},
		{"upgrade --install --atomic (absent release)", "empty", with("upgrade", "--install", relName, chart0a, "--atomic"), "pre-install"},
		{"upgrade --install (existing release)", "installed", with("upgrade", "--install", relName, chart1), "pre-upgrade"},
		{"upgrade --install (uninstalled release with history)", "uninstalled-kept", with("upgrade", "--install", relName, chart1), "pre-install"},
		{"rollback", "two-revisions", with("rollback", relName, "1"), "pre-rollback"},
		{"uninstall", "installed", with("uninstall", relName), "pre-delete"},
		{"uninstall --keep-history", "two-revisions", with("uninstall", relName, "--keep-history"), "pre-delete"},
	}
}

func genCLICases(rng *rand.Rand, tier string) []core.Case {
	n := 2
	if tier == "thorough" {
		n = 6
	}
	var out []core.Case
	for i := 0; i < n; i++ {
		out = append(out, core.Case{ID: fmt.Sprintf("cli-%d", i), Data: core.J(caseData{Kind: "cli", HSeed: rng.Int63(), Driver: "secrets"})})
	}
	return out
}

func runCLI(c core.Case, d caseData, verbose bool) core.Result {
	var res core.Result
	tmp, err := os.MkdirTemp("", "c12cli-")
	if err != nil {
		res.Inconclusive = "cannot create temp dir: " + err.Error()
		return res
	}
	defer os.RemoveAll(tmp)
	rng := rand.New(rand.NewSource(d.HSeed))
	var s setup
	s.charts[0] = cliChart(rng, [][3]string{{"ConfigMap", "cm-a", "c0"}, {"Service", "svc", "c0"}})
	s.charts[1] = cliChart(rng, [][3]string{{"ConfigMap", "cm-a", "c1"}, {"ConfigMap", "cm-b", "c1"}})
	dirs := [4]string{filepath.Join(tmp, "hk0"), filepath.Join(tmp, "hk1"), filepath.Join(tmp, "hk0a"), filepath.Join(tmp, "hk1a")}
	for v := range dirs {
		f := s.charts[v%2].files(v % 2)
		if v >= 2 {
			f["templates/dep.yaml"] = gen.ResourceYAML("Deployment", "{{ .Release.Name }}-dep", "d", `"x"`, nil)
		}
		if err := writeChartDir(dirs[v], f); err != nil {
			res.Inconclusive = "cannot write chart: " + err.Error()
			return res
		}
	}
	klog.LogToStderr(false)
	klog.SetOutput(io.Discard)
	ce := newCLIEnv(tmp)
	defer ce.restore()

	// prepare the state with the action route, hooks disabled (no hook object exists beforehand)
	prepare := func(state string) *env.World {
		w := env.NewWorld("secrets", ns)
		q := func(op env.Op) {
			op.NoHooks = true
			w.Exec("prep", relName, op, s.chartFor(op))
		}
		switch state {
		case "installed":
			q(env.Op{Kind: "install", Chart: 0})
		case "two-revisions":
			q(env.Op{Kind: "install", Chart: 0})
			q(env.Op{Kind: "upgrade", Chart: 1})
		case "uninstalled-kept":
			q(env.Op{Kind: "install", Chart: 0})
			q(env.Op{Kind: "uninstall", KeepHistory: true})
		}
		return w
	}
	var samples []string
	n := 0
	for _, cc := range cliCommands(dirs[0], dirs[1], dirs[2], dirs[3]) {
		for _, noHooks := range []bool{true, false} {
			if d.Only != "" && d.Only != fmt.Sprintf("%s|%v", cc.Name, noHooks) {
				continue
			}
			w := prepare(cc.State)
			before, _ := w.Ledger(relName)
			srv := httptest.NewServer(simHandler(w.Sim))
			args := append([]string{}, cc.Args...)
			if noHooks {
				args = append(args, "--no-hooks")
			}
			from := w.Sim.Tick()
			var out string
			var oerr error
			n++
			panicked := core.Guard(&res, "cli "+cc.Name, func() { out, oerr = ce.helm(srv.URL, n, args...) })
			srv.Close()
			if panicked {
				continue
			}
			res.Evals++
			var posts, muts []string
			for _, e := range w.Sim.Log() {
				if e.Seq <= from || e.Phase != "done" || e.Class != "mutation" {
					continue
				}
				muts = append(muts, e.Method+" "+e.Kind+"/"+e.Name)
				if e.Method == "POST" && isHookName(e.Name) {
					posts = append(posts, fmt.Sprintf("%s/%s(%d)", e.Kind, e.Name, e.Code))
				}
			}
			after, _ := w.Ledger(relName)
			es := ""
			if oerr != nil {
				es = oerr.Error()
				if len(es) > 600 {
					es = es[:600]
				}
			}
			if verbose {
				fmt.Printf("helm %s  [state %s]\n   err=%q ledger [%s] -> [%s]\n   mutations %v\n   hook creates %v\n", strings.Join(args, " "), cc.State, es, env.LedgerString(before), env.LedgerString(after), muts, posts)
				if oerr != nil && len(muts) == 0 {
					fmt.Printf("   output: %s\n", out)
				}
			}
			if noHooks {
				res.Stat("cli_commands_with_hooks_disabled_checked", 1)
				if len(muts) > 0 || len(after) != len(before) {
					res.Stat("cli_commands_with_hooks_disabled_that_acted", 1)
					res.Key("cli|%s|no-hooks|err=%v", cc.Name, oerr != nil)
				}
				if oerr != nil && strings.Contains(cc.Name, "--atomic") {
					res.Stat("cli_failed_atomic_commands_with_hooks_disabled_checked", 1)
				}
				if len(posts) > 0 {
					res.Add("hook-created-with-hooks-disabled", "cli: helm "+cc.Name+" --no-hooks", "`helm %s` created hook object(s) %v although hooks are disabled (release state before: %s [%s]; err=%q; ledger after [%s])", strings.Join(args[:len(args)-0], " "), posts, cc.State, env.LedgerString(before), es, env.LedgerString(after))
				}
			} else {
				res.Stat("cli_control_commands", 1)
				if len(posts) > 0 {
					res.Stat("cli_control_commands_that_created_a_hook", 1)
					res.Stat("cli_control_hook_creates:"+strings.Fields(cc.Name)[0]+strings.TrimPrefix(cc.Event, "pre"), 1)
				}
			}
			if len(samples) < 8 {
				samples = append(samples, fmt.Sprintf("helm %s [%s] -> hook creates %d, mutations %d, err=%v", strings.Join(args[:3], " ")+" ... "+strings.Join(args[len(cc.Args):], " "), cc.State, len(posts), len(muts), oerr != nil))
			}
		}
	}
	res.Sample = map[string]any{"route": "cli (pkg/cmd NewRootCmd over HTTP to the simulator)", "commands": samples}
	return res
}
