// Package c08: every rendered document is applied exactly once, in dependency order.
//
// Two monitors (DESIGN.md §3 C08):
//
//	(A) partition/sort ("partition" cases, plain build): charts of literal YAML documents, each with a
//	    unique marker, are rendered through a client-only dry-run action.Install. The oracle counts the
//	    markers in Release.Manifest ∪ Release.Hooks, checks byte containment of every document's trimmed
//	    text, the InstallOrder rank order of the manifest, stability within (kind, file), "unknown kinds
//	    last", and — on releaseutil.SplitManifests(Release.Manifest) fed to SortManifests(UninstallOrder),
//	    exactly what action.Uninstall does — the UninstallOrder rank order and that nothing was lost.
//	(B) barrier ("barrier" cases, race build): real installs and uninstalls against env.World with
//	    sim.Server.Delay returning a pseudo-random 0–3 ms per create/delete. From the request log, for
//	    creates a (kind A), b (kind B) of one install with rank A < rank B: done(a).Seq < recv(b).Seq.
//	    For uninstall: recv order of DELETEs follows UninstallOrder ranks.
//
// Don't-care zones (deliberately NOT checked, the property text does not fix them):
//   - comment-only / blank documents may or may not show up in the manifest;
//   - a literal "---" line inside a block scalar (not generated);
//   - duplicate events inside one hook annotation, empty hook annotation values (not generated);
//   - hook annotations in non-canonical spelling (mixed case, blanks around commas): accepted either as
//     hook (exactly once) or as dropped — never in the manifest, never twice;
//   - the relative order of documents of one kind that come from DIFFERENT files, and the relative order
//     of different unknown kinds (helm: sorted path / alphabetical; the property only says "original
//     order kept within a kind", which is only well-defined inside one file);
//   - the order of the hook list, hook weights and delete policies (C05/C03 territory);
//   - at uninstall: position of unknown kinds and order inside one kind; only recv order across known
//     kinds is demanded (the barrier sentence of the property speaks about creation only);
//   - kind: List wrappers, NOTES-like names other than NOTES.txt.
package c08

import (
	"fmt"
	"math/rand"

	"helm.sh/helm/v4/verifh/core"
	"helm.sh/helm/v4/verifh/env"
)

type caseData struct {
	Kind  string `json:"kind"` // partition | barrier
	Seed  int64  `json:"seed"`
	N     int    `json:"n"`               // charts in this batch
	Large int    `json:"large,omitempty"` // barrier: additional installs with 70-200 resources
	Only  int    `json:"only,omitempty"`  // 1-based index of the single chart to run (replay aid)
}

const minCapablePairs = 500

func init() {
	core.Register(&core.Prop{
		ID:    "C08",
		Level: "exploration",
		Rule: "(A) seeded charts of literal YAML documents (all 38 InstallOrder kinds + unknown kinds; no/other/hook annotations with single, multiple, non-canonical and unknown events, weights, delete policies; blank and comment-only documents; separator variants '---', '--- ', '--- # comment', doubled, leading, trailing; CRLF files; partials, NOTES.txt, nested NOTES.txt, non-.yaml template files) rendered by a client-only dry-run install; " +
			"(B) real install+uninstall of charts with 2-5 resources in each of 3-6 kinds (known and unknown), plus a share of large charts (70-200 resources, one kind with 66-130, an early resource of every kind answering after 250 ms) against the simulated API server with a 0-3 ms pseudo-random delay in front of every create/delete and, in half of the installs, a one-shot 409 Conflict on the first create of 1-3 resources of different kinds, under the race detector. " +
			"distinct_nontrivial counts distinct chart shapes: (A) (#files bucket, #documents bucket, CRLF, number of separator variants used, document classes present, >12 generic documents, partial/NOTES present); (B) (#kinds, #resources, #unknown kinds).",
		Assumptions: []string{
			"server-side [recv,done] of a request lies inside the client-side call interval, so done(a) < recv(b) on the simulator's sequence counter is implied by a client-side barrier",
			"the simulated API server (sim) applies creates/deletes like a real API server; the delay is slept before the request is logged as received",
			"client-only dry-run install is the `helm template` code path (renderResources + SortManifests); the uninstall ordering is checked on the same SplitManifests+SortManifests(UninstallOrder) calls action.Uninstall makes and on real uninstalls in (B)",
		},
		Gen:            genCases,
		Run:            run,
		Post:           post,
		CaseTimeoutSec: 300,
	})
}

func genCases(seed int64, tier string) []core.Case {
	rng := rand.New(rand.NewSource(seed*104729 + 8))
	var out []core.Case
	// (A)
	nPart, perPart := 32, 70 // 2240 charts
	nBar, perBar := 32, 4    // 128 installs
	if tier == "thorough" {
		nPart, perPart = 480, 400 // 192000 charts
		nBar, perBar = 640, 15    // 9600 installs
	}
	for i := 0; i < nPart; i++ {
		out = append(out, core.Case{ID: fmt.Sprintf("part-%d", i), Data: core.J(caseData{Kind: "partition", Seed: rng.Int63(), N: perPart})})
	}
	for i := 0; i < nBar; i++ {
		large := 0
		if i%4 == 0 { // every 4th case adds one large install
			large = 1
		}
		out = append(out, core.Case{ID: fmt.Sprintf("barrier-%d", i), Mode: "race", Data: core.J(caseData{Kind: "barrier", Seed: rng.Int63(), N: perBar, Large: large})})
	}
	return out
}

func run(c core.Case, verbose bool) core.Result {
	env.Quiet()
	var d caseData
	core.U(c, &d)
	var res core.Result
	switch d.Kind {
	case "partition":
		runPartition(&res, d, verbose)
	case "barrier":
		runBarrier(&res, d, verbose)
	default:
		res.Inconclusive = "unknown case kind " + d.Kind
	}
	return res
}

func post(a *core.Agg) string {
	if n := a.Stats["create_pairs_overlap_capable"]; n < minCapablePairs {
		return fmt.Sprintf("barrier monitor saw only %d cross-kind create pairs whose delays could have made a missing barrier visible (minimum %d)", n, minCapablePairs)
	}
	if a.Stats["partition_docs_in_manifest"] == 0 || a.Stats["partition_docs_in_hooks"] == 0 || a.Stats["partition_docs_dropped_unknown_event"] == 0 {
		return "partition monitor saw no manifest / hook / unknown-event documents"
	}
	if a.Stats["barrier_large_installs_over_64_resources"] == 0 {
		return "no install with more than 64 resources in one Create call"
	}
	if a.Stats["creates_answered_409_conflict_and_resent"] == 0 {
		return "no create was answered with the injected 409 Conflict (retry inside the batch unobserved)"
	}
	if a.Stats["unknown_kind_group_pairs_checked"] == 0 {
		return "no install with two different unknown kinds (barrier between custom kinds unobserved)"
	}
	if a.Stats["partition_charts_over_12_generic_docs"] == 0 {
		return "no chart with more than 12 generic documents (an unstable sort would be invisible)"
	}
	return ""
}
