package c08

import (
	"fmt"
	"hash/fnv"
	"math/rand"
	"sort"
	"strings"
	"sync"
	"time"

	releaseutil "helm.sh/helm/v4/pkg/release/util"
	"helm.sh/helm/v4/verifh/core"
	"helm.sh/helm/v4/verifh/env"
	"helm.sh/helm/v4/verifh/gen"
	"helm.sh/helm/v4/verifh/sim"
)

// kinds served by the simulator that helm can create from a minimal body
var barrierKinds = []struct{ kind, apiVersion string }{
	{"PriorityClass", "scheduling.k8s.io/v1"}, {"Namespace", "v1"}, {"NetworkPolicy", "networking.k8s.io/v1"}, {"ResourceQuota", "v1"},
	{"LimitRange", "v1"}, {"PodDisruptionBudget", "policy/v1"}, {"ServiceAccount", "v1"}, {"Secret", "v1"}, {"ConfigMap", "v1"},
	{"StorageClass", "storage.k8s.io/v1"}, {"PersistentVolume", "v1"}, {"PersistentVolumeClaim", "v1"},
	{"ClusterRole", "rbac.authorization.k8s.io/v1"}, {"ClusterRoleBinding", "rbac.authorization.k8s.io/v1"},
	{"Role", "rbac.authorization.k8s.io/v1"}, {"RoleBinding", "rbac.authorization.k8s.io/v1"}, {"Service", "v1"},
	{"DaemonSet", "apps/v1"}, {"Pod", "v1"}, {"ReplicationController", "v1"}, {"ReplicaSet", "apps/v1"}, {"Deployment", "apps/v1"},
	{"HorizontalPodAutoscaler", "autoscaling/v2"}, {"StatefulSet", "apps/v1"}, {"Job", "batch/v1"}, {"CronJob", "batch/v1"},
	{"IngressClass", "networking.k8s.io/v1"}, {"Ingress", "networking.k8s.io/v1"},
	{"Widget", "example.com/v1"}, {"Gadget", "example.com/v1"},
}

type bres struct{ Kind, APIVersion, Name string }

type bchart struct {
	Files gen.Files
	Res   []bres
	Kinds int
	Unk   int
}

// genBarrierChart: small = 2-5 resources in each of 3-6 kinds; large = 70-200 resources, one kind
// with 66-130 of them (so kinds straddle multiples of 64 in the resource list), the second
// resource of every kind answering slowly (name suffix -slow: 250 ms instead of 0-3 ms).
func genBarrierChart(rng *rand.Rand, large bool) *bchart {
	bc := &bchart{Files: gen.Files{"Chart.yaml": "apiVersion: v2\nname: bar\nversion: 0.1.0\n", "values.yaml": "k: v\n"}}
	nk := 3 + rng.Intn(4)
	perm := rng.Perm(len(barrierKinds))[:nk]
	if rng.Intn(3) == 0 { // both custom kinds: consecutive batches of different unknown kinds
		perm = append(perm[:nk-2:nk-2], len(barrierKinds)-2, len(barrierKinds)-1)
		for i, p := range perm[:nk-2] {
			if p >= len(barrierKinds)-2 {
				perm[i] = i // a built-in kind instead (indexes 0..3 are built-in)
			}
		}
		seen := map[int]bool{}
		uniq := perm[:0]
		for _, p := range perm {
			if !seen[p] {
				seen[p] = true
				uniq = append(uniq, p)
			}
		}
		perm = uniq
		nk = len(perm)
	}
	var docs []string
	bigAt := rng.Intn(len(perm))
	for _, ki := range perm {
		k := barrierKinds[ki]
		if k.kind == "Widget" || k.kind == "Gadget" {
			bc.Unk++
		}
		n := 2 + rng.Intn(4)
		if large {
			n = 3 + rng.Intn(28)
			if ki == perm[bigAt] {
				n = 66 + rng.Intn(65)
			}
		}
		for j := 0; j < n; j++ {
			name := fmt.Sprintf("%s-%d", strings.ToLower(k.kind), j)
			if large && j == 1 {
				name += "-slow" // an EARLY resource of its kind (documents of large charts keep this order)
			}
			bc.Res = append(bc.Res, bres{k.kind, k.apiVersion, name})
			docs = append(docs, fmt.Sprintf("apiVersion: %s\nkind: %s\nmetadata:\n  name: %s\n", k.apiVersion, k.kind, name))
		}
	}
	bc.Kinds = nk
	// documents are spread over 1-3 files in shuffled order: ordering is helm's job
	nf := 1 + rng.Intn(3)
	if large {
		nf = 1 // one file, generation order: the slow resource of a kind is among the first of its kind in the resource list
	} else {
		rng.Shuffle(len(docs), func(i, j int) { docs[i], docs[j] = docs[j], docs[i] })
	}
	for f := 0; f < nf; f++ {
		var part []string
		for i, d := range docs {
			if i%nf == f {
				part = append(part, d)
			}
		}
		bc.Files[fmt.Sprintf("templates/f%d.yaml", f)] = strings.Join(part, "---\n")
	}
	return bc
}

// delayMicros is the pseudo-random delay (0..3000 µs) of one create/delete; a pure function so
// that the oracle can tell which pairs could have shown a missing barrier.
func delayMicros(seed int64, method, kind, name string) int64 {
	h := fnv.New64a()
	fmt.Fprintf(h, "%d|%s|%s|%s", seed, method, kind, name)
	if strings.HasSuffix(name, "-slow") {
		return 250000 + int64(h.Sum64()%3001)
	}
	return int64(h.Sum64() % 3001)
}

// span of one resource's requests: recv = first request received, done = last answer sent
// (the successful one when a rejected create was re-sent), n = requests, ok = accepted requests,
// rejected = requests answered by an injected 409 Conflict.
type span struct {
	recv, done int64
	code       int
	n          int
	ok         int
	rejected   int
}

func spans(log []sim.Event, agent, method string) map[string]*span {
	out := map[string]*span{}
	for _, e := range log {
		if e.Agent != agent || e.Class != "mutation" || e.Method != method {
			continue
		}
		k := e.Kind + "/" + e.Name
		s := out[k]
		if s == nil {
			s = &span{}
			out[k] = s
		}
		switch e.Phase {
		case "recv":
			s.n++
			if s.recv == 0 {
				s.recv = e.Seq
			}
		case "done":
			s.done = e.Seq
			s.code = e.Code
			if e.Code == 200 || e.Code == 201 {
				s.ok++
			}
			if e.Injected {
				s.rejected++
			}
		}
	}
	return out
}

func installOne(res *core.Result, mu *sync.Mutex, seed int64, idx int, large, verbose bool) {
	rng := rand.New(rand.NewSource(seed))
	bc := genBarrierChart(rng, large)
	w := env.NewWorld("memory", "ns1")
	w.Sim.Delay = func(r *sim.Req) time.Duration {
		if r.Class != "mutation" || r.Res == nil || (r.Method != "POST" && r.Method != "DELETE") {
			return 0
		}
		return time.Duration(delayMicros(seed, r.Method, r.Res.Kind, r.Name)) * time.Microsecond
	}
	// one-shot 409 Conflict (reason "Conflict", e.g. quota contention) on the first create of 1-3
	// resources of different kinds in about half of the installs: the create has to be re-sent and
	// still must be complete before the next kind starts
	var conflictOn []bres
	if rng.Intn(2) == 0 {
		seenKind := map[string]bool{}
		for _, i := range rng.Perm(len(bc.Res)) {
			r := bc.Res[i]
			if seenKind[r.Kind] {
				continue
			}
			seenKind[r.Kind] = true
			conflictOn = append(conflictOn, r)
			if len(conflictOn) >= 1+rng.Intn(3) {
				break
			}
		}
		for _, r := range conflictOn {
			r := r
			w.Sim.AddFault(&sim.Fault{Code: 409, Once: true, Match: func(q *sim.Req) bool {
				return q.Agent == "op" && q.Method == "POST" && q.Res != nil && q.Res.Kind == r.Kind && q.Name == r.Name
			}})
		}
	}
	var local core.Result
	var ir, ur env.OpResult
	if core.Guard(&local, "install+uninstall against the simulated cluster", func() {
		ir = w.Exec("op", "rel", env.Op{Kind: "install"}, bc.Files.Build())
		ur = w.Exec("un", "rel", env.Op{Kind: "uninstall"}, nil)
	}) {
		mu.Lock()
		res.Violations = append(res.Violations, local.Violations...)
		mu.Unlock()
		return
	}
	log := w.Sim.Log()
	describe := func() string {
		var p []string
		for _, r := range bc.Res {
			p = append(p, r.Kind+"/"+r.Name)
		}
		return fmt.Sprintf("[replay: set \"only\":%d] chart resources: %s", idx, strings.Join(p, " "))
	}
	trace := func(agent, method string) string {
		var p []string
		for _, e := range log {
			if e.Agent == agent && e.Class == "mutation" && e.Method == method {
				p = append(p, fmt.Sprintf("%d:%s %s/%s", e.Seq, e.Phase, e.Kind, e.Name))
			}
		}
		if len(p) > 120 && !verbose {
			p = append(append([]string{}, p[:60]...), append([]string{"..."}, p[len(p)-60:]...)...)
		}
		return strings.Join(p, ", ")
	}
	if verbose {
		fmt.Printf("chart %d: %s\ninstall err=%v uninstall err=%v\ncreates: %s\ndeletes: %s\n", idx, describe(), ir.Err, ur.Err, trace("op", "POST"), trace("un", "DELETE"))
	}
	if ir.Err != nil {
		cls := "install of a plain multi-kind chart failed"
		if len(conflictOn) > 0 {
			cls = "install failed after a one-shot 409 Conflict on a create"
		}
		local.Add("op-error", cls, "err=%v | conflicts on %v | %s", ir.Err, conflictOn, describe())
	}
	if ir.Err == nil && ur.Err != nil {
		local.Add("op-error", "uninstall of a plain multi-kind chart failed", "err=%v | %s", ur.Err, describe())
	}
	// ---- creates
	cs := spans(log, "op", "POST")
	for _, r := range bc.Res {
		s := cs[r.Kind+"/"+r.Name]
		if ir.Err == nil && (s == nil || s.ok != 1 || s.code != 201 || s.n != 1+s.rejected) {
			n, ok, rej, code := 0, 0, 0, 0
			if s != nil {
				n, ok, rej, code = s.n, s.ok, s.rejected, s.code
			}
			cls := "manifest resource not created exactly once by a successful install"
			if rej > 0 {
				cls = "manifest resource whose first create was answered 409 Conflict not created exactly once by a successful install"
			}
			local.Add("create-count", cls, "%s/%s: %d create requests (%d accepted, %d answered with an injected 409), last code %d | %s", r.Kind, r.Name, n, ok, rej, code, describe())
		}
	}
	var pairs, capable, barriers int64
	reported := 0 // at most a few witnesses per install (large installs have ~10^4 pairs)
	for _, a := range bc.Res {
		for _, b := range bc.Res {
			if a.Kind == b.Kind {
				continue
			}
			sa, sb := cs[a.Kind+"/"+a.Name], cs[b.Kind+"/"+b.Name]
			if sa == nil || sb == nil || sa.done == 0 || sb.recv == 0 {
				continue
			}
			ra, rb := rankIn(releaseutil.InstallOrder, a.Kind), rankIn(releaseutil.InstallOrder, b.Kind)
			switch {
			case ra >= 0 && (rb < 0 || ra < rb):
				// a's kind precedes b's kind: a must be complete before b is received
				pairs++
				if delayMicros(seed, "POST", a.Kind, a.Name) > delayMicros(seed, "POST", b.Kind, b.Name)+300 {
					capable++
				}
				if !(sa.done < sb.recv) && reported < 4 {
					reported++
					cls := "create of a later known kind received before an earlier kind completed"
					if rb < 0 {
						cls = "create of an unknown kind received before a known kind completed"
					}
					if sa.rejected > 0 {
						cls += " (the earlier create had been answered 409 Conflict once)"
					}
					local.Add("create-barrier", cls, "%s/%s [recv %d, done %d] (rank %d) vs %s/%s [recv %d, done %d] (rank %d) | creates: %s | %s",
						a.Kind, a.Name, sa.recv, sa.done, ra, b.Kind, b.Name, sb.recv, sb.done, rb, trace("op", "POST"), describe())
				}
			case ra < 0 && rb < 0 && a.Kind < b.Kind:
				// two different unknown kinds: some order, but never overlapping
				pairs++
				barriers++
				if !(sa.done < sb.recv || sb.done < sa.recv) && reported < 6 {
					reported++
					local.Add("create-barrier", "creates of two different unknown kinds overlap", "%s/%s [recv %d, done %d] vs %s/%s [recv %d, done %d] | creates: %s | %s",
						a.Kind, a.Name, sa.recv, sa.done, b.Kind, b.Name, sb.recv, sb.done, trace("op", "POST"), describe())
				}
			}
		}
	}
	// two different unknown kinds: helm may choose the order, but one kind must be complete before
	// the first create of the other is received (interval overlap of single requests is almost
	// never visible because the delay is slept before recv, so the groups are compared)
	type grp struct{ minRecv, maxDone int64 }
	groups := map[string]*grp{}
	for _, r := range bc.Res {
		if rankIn(releaseutil.InstallOrder, r.Kind) >= 0 {
			continue
		}
		s := cs[r.Kind+"/"+r.Name]
		if s == nil || s.recv == 0 || s.done == 0 {
			continue
		}
		g := groups[r.Kind]
		if g == nil {
			g = &grp{minRecv: s.recv, maxDone: s.done}
			groups[r.Kind] = g
		}
		if s.recv < g.minRecv {
			g.minRecv = s.recv
		}
		if s.done > g.maxDone {
			g.maxDone = s.done
		}
	}
	var gk []string
	for k := range groups {
		gk = append(gk, k)
	}
	sort.Strings(gk)
	var groupPairs int64
	for i := 0; i < len(gk); i++ {
		for j := i + 1; j < len(gk); j++ {
			a, b := groups[gk[i]], groups[gk[j]]
			groupPairs++
			if !(a.maxDone < b.minRecv || b.maxDone < a.minRecv) {
				local.Add("create-barrier", "creates of two different unknown kinds interleave", "%s [first recv %d, last done %d] vs %s [first recv %d, last done %d] | creates: %s | %s",
					gk[i], a.minRecv, a.maxDone, gk[j], b.minRecv, b.maxDone, trace("op", "POST"), describe())
			}
		}
	}
	// ---- deletes
	ds := spans(log, "un", "DELETE")
	var dpairs int64
	if ir.Err == nil && ur.Err == nil {
		for _, r := range bc.Res {
			s := ds[r.Kind+"/"+r.Name]
			if s == nil || s.n != 1 || s.code != 200 {
				n, code := 0, 0
				if s != nil {
					n, code = s.n, s.code
				}
				local.Add("delete-count", "manifest resource not deleted exactly once by a successful uninstall", "%s/%s: %d delete requests, last code %d | %s", r.Kind, r.Name, n, code, describe())
			}
		}
	}
	for _, a := range bc.Res {
		for _, b := range bc.Res {
			ra, rb := rankIn(releaseutil.UninstallOrder, a.Kind), rankIn(releaseutil.UninstallOrder, b.Kind)
			if ra < 0 || rb < 0 || ra >= rb {
				continue
			}
			sa, sb := ds[a.Kind+"/"+a.Name], ds[b.Kind+"/"+b.Name]
			if sa == nil || sb == nil || sa.recv == 0 || sb.recv == 0 {
				continue
			}
			dpairs++
			if !(sa.recv < sb.recv) && reported < 8 {
				reported++
				local.Add("delete-order", "DELETE of a later kind (UninstallOrder) received before one of an earlier kind", "%s/%s recv %d (rank %d) vs %s/%s recv %d (rank %d) | deletes: %s | %s",
					a.Kind, a.Name, sa.recv, ra, b.Kind, b.Name, sb.recv, rb, trace("un", "DELETE"), describe())
			}
		}
	}
	mu.Lock()
	defer mu.Unlock()
	res.Violations = append(res.Violations, local.Violations...)
	res.Evals += 2
	res.Stat("barrier_installs", 1)
	if large {
		res.Stat("barrier_large_installs_over_64_resources", 1)
		res.Stat("barrier_large_install_resources", int64(len(bc.Res)))
	}
	var rejected int64
	for _, s := range cs {
		rejected += int64(s.rejected)
	}
	res.Stat("creates_answered_409_conflict_and_resent", rejected)
	res.Stat("create_requests_observed", int64(len(cs)))
	res.Stat("delete_requests_observed", int64(len(ds)))
	res.Stat("create_pairs_cross_kind_checked", pairs)
	res.Stat("create_pairs_overlap_capable", capable)
	res.Stat("create_pairs_unknown_vs_unknown", barriers)
	res.Stat("unknown_kind_group_pairs_checked", groupPairs)
	res.Stat("delete_pairs_cross_kind_checked", dpairs)
	if large {
		res.Key("barrier-large|kinds=%d|windows-of-64=%d|unknown-kinds=%d", bc.Kinds, (len(bc.Res)+63)/64, bc.Unk)
	} else {
		res.Key("barrier|kinds=%d|resources=%d|unknown-kinds=%d", bc.Kinds, len(bc.Res), bc.Unk)
	}
	if res.Sample == nil {
		var ks []string
		seen := map[string]bool{}
		for _, r := range bc.Res {
			if !seen[r.Kind] {
				seen[r.Kind] = true
				ks = append(ks, r.Kind)
			}
		}
		sort.Strings(ks)
		res.Sample = map[string]any{"kind": "barrier", "kinds": ks, "resources": len(bc.Res), "cross_kind_create_pairs": pairs, "overlap_capable": capable}
	}
}

func runBarrier(res *core.Result, d caseData, verbose bool) {
	rng := rand.New(rand.NewSource(d.Seed))
	seeds := make([]int64, d.N+d.Large)
	for i := range seeds {
		seeds[i] = rng.Int63()
	}
	var mu sync.Mutex
	// two worlds at a time: extra scheduling noise and race-detector exposure of shared helm state
	const lanes = 2
	var wg sync.WaitGroup
	for l := 0; l < lanes; l++ {
		wg.Add(1)
		go func(l int) {
			defer wg.Done()
			for i := l; i < d.N+d.Large; i += lanes {
				if d.Only != 0 && d.Only != i+1 {
					continue
				}
				installOne(res, &mu, seeds[i], i+1, i >= d.N, verbose)
			}
		}(l)
	}
	wg.Wait()
}
