// Package c08: monitor for property C08 (see DESIGN.md section 3).
package c08
