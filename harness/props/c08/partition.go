package c08

import (
	"fmt"
	"math/rand"
	"regexp"
	"sort"
	"strconv"
	"strings"

	"helm.sh/helm/v4/pkg/action"
	releaseutil "helm.sh/helm/v4/pkg/release/util"
	release "helm.sh/helm/v4/pkg/release/v1"
	"helm.sh/helm/v4/verifh/core"
	"helm.sh/helm/v4/verifh/gen"
)

// ---------------------------------------------------------------- generator

type doc struct {
	ID     int
	Kind   string
	Class  string // generic | generic-annotated | hook | hook-variant | hook-unknown | comment | blank
	Events []string
	Text   string // as placed into the file
	File   string // template path inside the chart (templates/...)
	Idx    int    // index inside the file
	Role   string // manifest | partial | notes
}

type pchart struct {
	Files gen.Files
	Docs  []*doc
	Shape string
	Over  bool // > 12 generic docs
}

var unknownKinds = []string{"Widget", "Gadget", "Zebra", "Alpha", "configmap", "CustomThing", "VirtualService"}

var knownEvents = []string{"pre-install", "post-install", "pre-delete", "post-delete", "pre-upgrade", "post-upgrade", "pre-rollback", "post-rollback", "test"}

func apiVersionFor(kind string) string {
	switch kind {
	case "Deployment", "StatefulSet", "DaemonSet", "ReplicaSet":
		return "apps/v1"
	case "Job", "CronJob":
		return "batch/v1"
	case "Role", "RoleBinding", "ClusterRole", "ClusterRoleBinding", "RoleList", "RoleBindingList", "ClusterRoleList", "ClusterRoleBindingList":
		return "rbac.authorization.k8s.io/v1"
	case "Ingress", "IngressClass", "NetworkPolicy":
		return "networking.k8s.io/v1"
	case "Widget", "Gadget", "Zebra", "Alpha", "CustomThing":
		return "example.com/v1"
	}
	return "v1"
}

func titleCase(ev string) string {
	parts := strings.Split(ev, "-")
	for i, p := range parts {
		parts[i] = strings.ToUpper(p[:1]) + p[1:]
	}
	return strings.Join(parts, "-")
}

func genDoc(rng *rand.Rand, id int, heavyKind string) *doc {
	d := &doc{ID: id}
	switch r := rng.Intn(100); {
	case r < 4:
		d.Class = "comment"
		d.Text = fmt.Sprintf("# only a comment c%d\n# second line", id)
		return d
	case r < 7:
		d.Class = "blank"
		d.Text = []string{"", "   ", "\n\n", " \n \n"}[rng.Intn(4)]
		return d
	}
	if heavyKind != "" && rng.Intn(100) < 60 {
		d.Kind = heavyKind
	} else if rng.Intn(100) < 22 {
		d.Kind = gen.Pick(rng, unknownKinds)
	} else {
		d.Kind = releaseutil.InstallOrder[rng.Intn(len(releaseutil.InstallOrder))]
	}
	ann := [][2]string{}
	switch r := rng.Intn(100); {
	case r < 45:
		d.Class = "generic"
	case r < 55:
		d.Class = "generic-annotated"
		ann = append(ann, [2]string{gen.Pick(rng, []string{"helm.sh/resource-policy", "example.com/note", "helm.sh/hook-weight", "helm.sh/hook-delete-policy"}), gen.Pick(rng, []string{"keep", "5", "hook-succeeded", "x"})})
	case r < 80:
		d.Class = "hook"
		n := 1 + rng.Intn(3)
		seen := map[string]bool{}
		var spell []string
		for i := 0; i < n; i++ {
			e := gen.Pick(rng, knownEvents)
			if seen[e] {
				continue
			}
			seen[e] = true
			d.Events = append(d.Events, e)
			if e == "test" && rng.Intn(2) == 0 {
				spell = append(spell, "test-success")
			} else {
				spell = append(spell, e)
			}
		}
		ann = append(ann, [2]string{"helm.sh/hook", strings.Join(spell, ",")})
	case r < 88:
		d.Class = "hook-variant"
		n := 1 + rng.Intn(2)
		seen := map[string]bool{}
		var spell []string
		for i := 0; i < n; i++ {
			e := gen.Pick(rng, knownEvents)
			if seen[e] {
				continue
			}
			seen[e] = true
			d.Events = append(d.Events, e)
			switch rng.Intn(3) {
			case 0:
				spell = append(spell, titleCase(e))
			case 1:
				spell = append(spell, " "+e+" ")
			default:
				spell = append(spell, strings.ToUpper(e))
			}
		}
		ann = append(ann, [2]string{"helm.sh/hook", strings.Join(spell, ",")})
	default:
		d.Class = "hook-unknown"
		bogus := gen.Pick(rng, []string{"bogus", "post-instal", "preinstall", "pre_install", "crd-install", "post-test"})
		spell := []string{bogus}
		if rng.Intn(2) == 0 {
			spell = append(spell, gen.Pick(rng, knownEvents))
			if rng.Intn(2) == 0 {
				spell[0], spell[1] = spell[1], spell[0]
			}
		}
		ann = append(ann, [2]string{"helm.sh/hook", strings.Join(spell, ",")})
	}
	if strings.HasPrefix(d.Class, "hook") {
		if rng.Intn(2) == 0 {
			ann = append(ann, [2]string{"helm.sh/hook-weight", gen.Pick(rng, []string{"-5", "0", "3", "10", "abc", "1.5"})})
		}
		if rng.Intn(2) == 0 {
			ann = append(ann, [2]string{"helm.sh/hook-delete-policy", gen.Pick(rng, []string{"hook-succeeded", "before-hook-creation", "hook-failed", "hook-succeeded,hook-failed", "Hook-Succeeded , before-hook-creation", "nonsense"})})
		}
		if rng.Intn(4) == 0 {
			ann = append(ann, [2]string{"example.com/other", "v"})
		}
	}
	var b strings.Builder
	commentFirst := rng.Intn(3) > 0
	if commentFirst {
		fmt.Fprintf(&b, "# vmk%dx\n", id)
	}
	if rng.Intn(2) == 0 { // field order varies
		fmt.Fprintf(&b, "apiVersion: %s\nkind: %s\n", apiVersionFor(d.Kind), d.Kind)
	} else {
		fmt.Fprintf(&b, "kind: %s\napiVersion: %s\n", d.Kind, apiVersionFor(d.Kind))
	}
	fmt.Fprintf(&b, "metadata:\n  name: d-%d\n", id)
	if len(ann) > 0 {
		b.WriteString("  annotations:\n")
		for _, a := range ann {
			fmt.Fprintf(&b, "    %q: %q\n", a[0], a[1])
		}
	}
	if !commentFirst {
		fmt.Fprintf(&b, "  labels:\n    m: vmk%dx\n", id)
	}
	switch rng.Intn(4) {
	case 0:
		fmt.Fprintf(&b, "data:\n  k: \"v%d\"\n  text: |\n    line one\n\n    line three  \n", id)
	case 1:
		fmt.Fprintf(&b, "spec:\n  list:\n  - a\n  - b: c\n  empty: {}\n")
	case 2:
		fmt.Fprintf(&b, "spec: {replicas: %d, tag: 'x--- y', dash: \"a ---\"}\n", id%7)
	}
	d.Text = b.String()
	// trailing blanks / newlines on the document
	d.Text += []string{"", "\n", "  \n", "\n\n"}[rng.Intn(4)]
	return d
}

func genPartitionChart(rng *rand.Rand, idx int) *pchart {
	pc := &pchart{Files: gen.Files{
		"Chart.yaml":  fmt.Sprintf("apiVersion: v2\nname: pc\nversion: 0.1.%d\n", idx%50),
		"values.yaml": "k: v\n",
	}}
	nfiles := 1 + rng.Intn(5)
	paths := []string{"templates/a.yaml", "templates/b.yaml", "templates/sub/c.yaml", "templates/z.yml", "templates/extra.txt", "templates/sub/deep/d.yaml", "templates/0first.yaml"}
	rng.Shuffle(len(paths), func(i, j int) { paths[i], paths[j] = paths[j], paths[i] })
	paths = paths[:nfiles]
	hasPartial, hasNotes := false, false
	type fspec struct {
		path, role string
	}
	var fs []fspec
	for _, p := range paths {
		fs = append(fs, fspec{p, "manifest"})
	}
	if rng.Intn(3) == 0 {
		fs = append(fs, fspec{gen.Pick(rng, []string{"templates/_x.tpl", "templates/sub/_y.yaml", "templates/_helpers.tpl"}), "partial"})
		hasPartial = true
	}
	if rng.Intn(3) == 0 {
		fs = append(fs, fspec{"templates/NOTES.txt", "notes"})
		hasNotes = true
	}
	if rng.Intn(5) == 0 {
		fs = append(fs, fspec{"templates/sub/NOTES.txt", "notes"})
		hasNotes = true
	}
	big := rng.Intn(5) == 0 // many documents of one kind: makes an unstable sort visible
	heavy := ""
	if big {
		heavy = releaseutil.InstallOrder[rng.Intn(len(releaseutil.InstallOrder))]
		if rng.Intn(4) == 0 {
			heavy = gen.Pick(rng, unknownKinds)
		}
	}
	id := 0
	sepsUsed := map[string]bool{}
	anyCRLF := false
	classes := map[string]bool{}
	ngeneric := 0
	for _, f := range fs {
		nd := rng.Intn(7)
		if big && f.role == "manifest" {
			nd = 6 + rng.Intn(12)
		}
		var docs []*doc
		for j := 0; j < nd; j++ {
			id++
			d := genDoc(rng, id, heavy)
			d.File, d.Idx, d.Role = f.path, j, f.role
			docs = append(docs, d)
			pc.Docs = append(pc.Docs, d)
			if f.role == "manifest" {
				classes[d.Class] = true
				if d.Class == "generic" || d.Class == "generic-annotated" {
					ngeneric++
				}
			}
		}
		var b strings.Builder
		switch rng.Intn(4) {
		case 0:
			b.WriteString("---\n")
			sepsUsed["leading"] = true
		case 1:
			b.WriteString("\n\n---\n")
			sepsUsed["leading"] = true
		}
		for j, d := range docs {
			if j > 0 {
				if !strings.HasSuffix(b.String(), "\n") {
					b.WriteString("\n")
				}
				switch rng.Intn(7) {
				case 6:
					b.WriteString(fmt.Sprintf("--- # separator comment %d\n", j))
					sepsUsed["comment-after-marker"] = true
				case 0:
					b.WriteString("---   \n")
					sepsUsed["trailing-space"] = true
				case 1:
					b.WriteString("---\n---\n")
					sepsUsed["doubled"] = true
				case 2:
					b.WriteString("\n\n---\n\n")
					sepsUsed["blank-lines"] = true
				default:
					b.WriteString("---\n")
				}
			}
			b.WriteString(d.Text)
		}
		if rng.Intn(4) == 0 {
			if !strings.HasSuffix(b.String(), "\n") {
				b.WriteString("\n")
			}
			b.WriteString([]string{"---\n", "---", "--- \n\n"}[rng.Intn(3)])
			sepsUsed["trailing"] = true
		}
		content := b.String()
		if rng.Intn(5) == 0 {
			content = strings.ReplaceAll(content, "\n", "\r\n")
			for _, d := range docs {
				d.Text = strings.ReplaceAll(d.Text, "\n", "\r\n")
			}
			anyCRLF = true
		}
		pc.Files[f.path] = content
	}
	pc.Over = ngeneric > 12
	var ss, cs []string
	for s := range sepsUsed {
		ss = append(ss, s)
	}
	sort.Strings(ss)
	for c := range classes {
		cs = append(cs, c)
	}
	sort.Strings(cs)
	bucket := func(n int) string {
		switch {
		case n == 0:
			return "0"
		case n <= 3:
			return "1-3"
		case n <= 12:
			return "4-12"
		}
		return ">12"
	}
	fb := "1"
	if len(fs) > 3 {
		fb = ">3"
	} else if len(fs) > 1 {
		fb = "2-3"
	}
	pc.Shape = fmt.Sprintf("part|files=%s|docs=%s|crlf=%v|sep-variants=%d|classes=%s|partial=%v|notes=%v", fb, bucket(id), anyCRLF, len(ss), strings.Join(cs, "+"), hasPartial, hasNotes)
	return pc
}

// ---------------------------------------------------------------- oracle

var markerRe = regexp.MustCompile(`vmk(\d+)x`)

func markers(s string) []int {
	var out []int
	for _, m := range markerRe.FindAllStringSubmatch(s, -1) {
		n, _ := strconv.Atoi(m[1])
		out = append(out, n)
	}
	return out
}

func rankIn(order releaseutil.KindSortOrder, kind string) int {
	for i, k := range order {
		if k == kind {
			return i
		}
	}
	return -1
}

func kindClass(kind string) string {
	if rankIn(releaseutil.InstallOrder, kind) >= 0 {
		return "known kind"
	}
	return "unknown kind"
}

func templateRender(files gen.Files) (*release.Release, error) {
	in := action.NewInstall(&action.Configuration{})
	in.DryRun, in.ClientOnly, in.Replace = true, true, true
	in.ReleaseName, in.Namespace = "rel", "ns1"
	return in.Run(files.Build(), map[string]any{})
}

func eventsOf(h *release.Hook) []string {
	var out []string
	for _, e := range h.Events {
		out = append(out, string(e))
	}
	return out
}

func sameSet(a, b []string) bool {
	if len(a) != len(b) {
		return false
	}
	x := append([]string(nil), a...)
	y := append([]string(nil), b...)
	sort.Strings(x)
	sort.Strings(y)
	for i := range x {
		if x[i] != y[i] {
			return false
		}
	}
	return true
}

func excerpt(s string) string {
	if len(s) > 700 {
		return s[:700] + "..."
	}
	return s
}

func checkPartition(res *core.Result, pc *pchart, verbose bool) {
	var rel *release.Release
	var err error
	if core.Guard(res, "client-only dry-run install of a literal-YAML chart", func() { rel, err = templateRender(pc.Files) }) {
		return
	}
	witness := func() string {
		var names []string
		for n := range pc.Files {
			names = append(names, n)
		}
		sort.Strings(names)
		var b strings.Builder
		for _, n := range names {
			if strings.HasPrefix(n, "templates/") {
				fmt.Fprintf(&b, "=== %s ===\n%q\n", n, pc.Files[n])
			}
		}
		return excerpt(b.String())
	}
	if err != nil || rel == nil {
		res.Add("render-failed", "literal YAML chart rejected by dry-run install", "err=%v | chart: %s", err, witness())
		return
	}
	if verbose {
		fmt.Printf("---- manifest ----\n%s\n---- %d hooks ----\n", rel.Manifest, len(rel.Hooks))
		for _, h := range rel.Hooks {
			fmt.Printf("hook %s/%s path=%s events=%v\n%s\n", h.Kind, h.Name, h.Path, h.Events, h.Manifest)
		}
	}
	inManifest := map[int]int{}
	var manifestSeq []int
	for _, id := range markers(rel.Manifest) {
		inManifest[id]++
		manifestSeq = append(manifestSeq, id)
	}
	inHooks := map[int]int{}
	hookOf := map[int]*release.Hook{}
	for _, h := range rel.Hooks {
		for _, id := range markers(h.Manifest) {
			inHooks[id]++
			hookOf[id] = h
		}
	}
	// every generated document must be an entry of its own: a manifest chunk ("---\n# Source: ...")
	// or hook manifest carrying two markers means two documents were not separated and the second
	// one is sorted and classified under the head of the first
	chunks := strings.Split("\n"+rel.Manifest, "\n---\n# Source: ")
	for _, h := range rel.Hooks {
		chunks = append(chunks, h.Manifest)
	}
	for _, ch := range chunks {
		if ms := markers(ch); len(ms) > 1 {
			res.Add("documents-merged", "two generated documents end up in one manifest entry", "entry %q holds markers %v | chart: %s", excerpt(ch), ms, witness())
			break
		}
	}
	byID := map[int]*doc{}
	for _, d := range pc.Docs {
		byID[d.ID] = d
		if d.Class == "comment" || d.Class == "blank" {
			continue
		}
		m, h := inManifest[d.ID], inHooks[d.ID]
		sepInfo := ""
		if strings.Contains(d.Text, "\r\n") {
			sepInfo = ", CRLF file"
		}
		where := fmt.Sprintf("doc d-%d (%s, class %s, file %s #%d) occurs %d× in manifest, %d× in hooks | chart: %s", d.ID, d.Kind, d.Class, d.File, d.Idx, m, h, witness())
		trimmed := strings.TrimSpace(d.Text)
		switch {
		case d.Role == "partial" || d.Role == "notes":
			if m+h != 0 {
				res.Add("not-applied-file-leaked", d.Role+" document in output", "%s", where)
			}
			res.Stat("partition_docs_in_partials_or_notes", 1)
		case d.Class == "generic" || d.Class == "generic-annotated":
			res.Stat("partition_docs_in_manifest", 1)
			if m != 1 || h != 0 {
				res.Add("partition-count", fmt.Sprintf("%s document, %s%s: expected once in manifest", d.Class, kindClass(d.Kind), sepInfo), "%s", where)
			} else if !strings.Contains(rel.Manifest, trimmed) {
				res.Add("text-altered", fmt.Sprintf("%s document%s", d.Class, sepInfo), "trimmed text %q not contained in manifest | %s", trimmed, where)
			}
		case d.Class == "hook":
			res.Stat("partition_docs_in_hooks", 1)
			if m != 0 || h != 1 {
				res.Add("partition-count", fmt.Sprintf("hook document with known events%s: expected once in hooks", sepInfo), "%s", where)
			} else {
				hk := hookOf[d.ID]
				if !strings.Contains(hk.Manifest, trimmed) {
					res.Add("text-altered", "hook document"+sepInfo, "trimmed text %q not contained in hook manifest %q | %s", trimmed, hk.Manifest, where)
				}
				if !sameSet(eventsOf(hk), d.Events) {
					res.Add("hook-events-altered", "hook document with known events", "expected events %v got %v | %s", d.Events, eventsOf(hk), where)
				}
				if hk.Name != fmt.Sprintf("d-%d", d.ID) || hk.Kind != d.Kind || hk.Path != "pc/"+d.File {
					res.Add("hook-identity-altered", "hook document with known events", "hook name/kind/path = %s/%s/%s | %s", hk.Name, hk.Kind, hk.Path, where)
				}
			}
		case d.Class == "hook-variant":
			res.Stat("partition_docs_hook_variant_spelling", 1)
			if m != 0 || h > 1 {
				res.Add("partition-count", "hook document with non-canonical event spelling: expected once in hooks or dropped", "%s", where)
			}
		case d.Class == "hook-unknown":
			res.Stat("partition_docs_dropped_unknown_event", 1)
			if m+h != 0 {
				res.Add("partition-count", "hook document naming an unknown event: expected dropped", "%s", where)
			}
		}
	}
	for id := range inManifest {
		if byID[id] == nil {
			res.Add("partition-count", "marker of no generated document", "marker vmk%dx in manifest | %s", id, witness())
		}
	}
	checkOrder(res, "install-order", releaseutil.InstallOrder, manifestSeq, byID, true, func() string {
		return fmt.Sprintf("manifest sequence %s | chart: %s", seqString(manifestSeq, byID), witness())
	})
	res.Stat("partition_manifest_docs_order_checked", int64(len(manifestSeq)))

	// Uninstall path: exactly the two calls action.Uninstall.deleteRelease makes.
	var un []releaseutil.Manifest
	var uerr error
	if core.Guard(res, "SplitManifests+SortManifests(UninstallOrder) on a release manifest", func() {
		_, un, uerr = releaseutil.SortManifests(releaseutil.SplitManifests(rel.Manifest), nil, releaseutil.UninstallOrder)
	}) {
		return
	}
	if uerr != nil {
		res.Add("uninstall-sort-failed", "release manifest produced by helm is rejected by the uninstall sort", "err=%v | manifest %s", uerr, excerpt(rel.Manifest))
		return
	}
	var unSeq []int
	cnt := map[int]int{}
	for _, m := range un {
		for _, id := range markers(m.Content) {
			unSeq = append(unSeq, id)
			cnt[id]++
		}
	}
	for _, id := range manifestSeq {
		if cnt[id] != 1 {
			d := byID[id]
			k := "?"
			if d != nil {
				k = kindClass(d.Kind)
			}
			res.Add("uninstall-partition-count", "manifest document, "+k, "doc d-%d occurs %d× after SplitManifests+SortManifests(UninstallOrder) of the release manifest | manifest %s", id, cnt[id], excerpt(rel.Manifest))
		}
	}
	checkOrder(res, "uninstall-order", releaseutil.UninstallOrder, unSeq, byID, false, func() string {
		return fmt.Sprintf("uninstall sequence %s | manifest %s", seqString(unSeq, byID), excerpt(rel.Manifest))
	})
	res.Stat("partition_uninstall_docs_order_checked", int64(len(unSeq)))
}

func seqString(seq []int, byID map[int]*doc) string {
	var p []string
	for _, id := range seq {
		if d := byID[id]; d != nil {
			p = append(p, fmt.Sprintf("%s:d-%d(%s#%d)", d.Kind, id, d.File, d.Idx))
		}
	}
	return strings.Join(p, " ")
}

// checkOrder: known kinds in non-decreasing table rank; with full=true additionally unknown kinds
// after all known ones and in-file order kept within (kind, file).
func checkOrder(res *core.Result, clause string, order releaseutil.KindSortOrder, seq []int, byID map[int]*doc, full bool, detail func() string) {
	lastRank, lastKind := -1, ""
	seenUnknown := ""
	lastIdx := map[string]int{}
	for _, id := range seq {
		d := byID[id]
		if d == nil {
			continue
		}
		r := rankIn(order, d.Kind)
		if r >= 0 {
			if r < lastRank {
				res.Add(clause+"-rank", "known kinds out of table order", "%s (rank %d) after %s (rank %d) | %s", d.Kind, r, lastKind, lastRank, detail())
				return
			}
			lastRank, lastKind = r, d.Kind
			if full && seenUnknown != "" {
				res.Add(clause+"-unknown-not-last", "known kind after an unknown kind", "%s after %s | %s", d.Kind, seenUnknown, detail())
				return
			}
		} else {
			seenUnknown = d.Kind
		}
		if full {
			k := d.Kind + "\x00" + d.File
			if prev, ok := lastIdx[k]; ok && prev > d.Idx {
				res.Add(clause+"-unstable", kindClass(d.Kind)+": documents of one kind from one file reordered", "d-%d (#%d in %s) comes after #%d | %s", id, d.Idx, d.File, prev, detail())
				return
			}
			lastIdx[k] = d.Idx
		}
	}
}

func runPartition(res *core.Result, d caseData, verbose bool) {
	rng := rand.New(rand.NewSource(d.Seed))
	for i := 1; i <= d.N; i++ {
		pc := genPartitionChart(rand.New(rand.NewSource(rng.Int63())), i)
		if d.Only != 0 && d.Only != i {
			continue
		}
		if verbose {
			fmt.Printf("==== chart %d shape %s\n", i, pc.Shape)
			for n, c := range pc.Files {
				fmt.Printf("--- %s\n%q\n", n, c)
			}
		}
		before := len(res.Violations)
		checkPartition(res, pc, verbose)
		for j := before; j < len(res.Violations); j++ {
			res.Violations[j].Detail = fmt.Sprintf("[replay: set \"only\":%d] ", i) + res.Violations[j].Detail
		}
		res.Evals++
		res.Stat("partition_charts", 1)
		if pc.Over {
			res.Stat("partition_charts_over_12_generic_docs", 1)
		}
		if len(pc.Docs) >= 2 {
			res.Key("%s", pc.Shape)
		}
		if i == 1 {
			res.Sample = map[string]any{"kind": "partition", "shape": pc.Shape, "documents": len(pc.Docs), "files": len(pc.Files)}
		}
	}
}
