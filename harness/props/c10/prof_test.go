package c10

import (
	"testing"

	"helm.sh/helm/v4/verifh/core"
)

func TestProf(t *testing.T) {
	cs := genCases(1, "quick")
	for _, c := range cs[:3] {
		r := run(c, false)
		_ = r
	}
	_ = core.J
}
