package c10

import (
	"fmt"
	"reflect"
	"regexp"
	"sort"
	"time"
)

// norm turns any Go value into a representation-independent tree so that a release that went
// through a backend can be compared with the one that was stored, without using helm's own JSON
// code as the judge:
//
//   - structs -> map[field name]value over exported fields (time.Time -> the instant in UTC,
//     so the comparison is time.Equal, not location-sensitive)
//   - declared slice / map fields: nil == empty (Go representation, not content)
//   - inside interface{} trees (Config, Values, import-values) {} / [] / null stay distinct,
//     all numbers become float64 (JSON round trip turns ints into floats: don't-care)
//   - []byte -> string
//
// skip names struct fields ("Type.Field") that are not part of the stored content.
type normalizer struct {
	skip map[string]bool
}

var stdTime = reflect.TypeOf(time.Time{})

type bytesVal string // distinguishes []byte content from strings in diffs (both compare by value)

func (n normalizer) norm(v reflect.Value, dyn bool) any {
	if !v.IsValid() {
		return nil
	}
	switch v.Kind() {
	case reflect.Ptr:
		if v.IsNil() {
			return nil
		}
		return n.norm(v.Elem(), dyn)
	case reflect.Interface:
		if v.IsNil() {
			return nil
		}
		return n.norm(v.Elem(), true)
	case reflect.Struct:
		if v.Type() == stdTime {
			t := v.Interface().(time.Time)
			if t.IsZero() {
				return "time:zero"
			}
			return "time:" + t.UTC().Format(time.RFC3339Nano)
		}
		out := map[string]any{}
		for i := 0; i < v.NumField(); i++ {
			f := v.Type().Field(i)
			if f.PkgPath != "" && !f.Anonymous {
				continue // unexported
			}
			if n.skip[v.Type().Name()+"."+f.Name] {
				continue
			}
			if f.PkgPath != "" {
				continue
			}
			x := n.norm(v.Field(i), false)
			if x != nil {
				out[f.Name] = x
			}
		}
		if len(out) == 0 && !dyn {
			return nil // a struct of zero values == absent
		}
		return out
	case reflect.Map:
		if v.Len() == 0 {
			if dyn && !v.IsNil() {
				return map[string]any{}
			}
			return nil
		}
		out := map[string]any{}
		it := v.MapRange()
		for it.Next() {
			k := fmt.Sprint(it.Key().Interface())
			x := n.norm(it.Value(), dyn)
			if dyn {
				out[k] = x // null values are content inside dynamic trees
			} else {
				out[k] = x
			}
		}
		return out
	case reflect.Slice, reflect.Array:
		if v.Type().Elem().Kind() == reflect.Uint8 {
			if v.Len() == 0 {
				return nil
			}
			return bytesVal(v.Bytes())
		}
		if v.Len() == 0 {
			if dyn && !(v.Kind() == reflect.Slice && v.IsNil()) {
				return []any{}
			}
			return nil
		}
		out := make([]any, v.Len())
		for i := range out {
			out[i] = n.norm(v.Index(i), dyn)
		}
		return out
	case reflect.Int, reflect.Int8, reflect.Int16, reflect.Int32, reflect.Int64:
		if dyn {
			return float64(v.Int())
		}
		if v.Int() == 0 {
			return nil
		}
		return float64(v.Int())
	case reflect.Uint, reflect.Uint8, reflect.Uint16, reflect.Uint32, reflect.Uint64:
		if dyn {
			return float64(v.Uint())
		}
		if v.Uint() == 0 {
			return nil
		}
		return float64(v.Uint())
	case reflect.Float32, reflect.Float64:
		if !dyn && v.Float() == 0 {
			return nil
		}
		return v.Float()
	case reflect.String:
		if s, ok := v.Interface().(interface{ String() string }); ok && v.Type().Name() == "Number" {
			// json.Number
			var f float64
			fmt.Sscan(s.String(), &f)
			return f
		}
		if !dyn && v.Len() == 0 {
			return nil
		}
		return v.String()
	case reflect.Bool:
		if !dyn && !v.Bool() {
			return nil
		}
		return v.Bool()
	}
	return fmt.Sprintf("unhandled:%s", v.Kind())
}

// diff returns the path of the first difference between two normalized trees ("" = equal) and a
// short description of both sides.
func diff(a, b any, path string) (string, string) {
	switch x := a.(type) {
	case map[string]any:
		y, ok := b.(map[string]any)
		if !ok {
			return path, brief(a, b)
		}
		keys := map[string]bool{}
		for k := range x {
			keys[k] = true
		}
		for k := range y {
			keys[k] = true
		}
		var ks []string
		for k := range keys {
			ks = append(ks, k)
		}
		sort.Strings(ks)
		for _, k := range ks {
			xv, xo := x[k]
			yv, yo := y[k]
			if xo != yo {
				return path + "." + k, fmt.Sprintf("present in stored=%v, in read-back=%v", xo, yo)
			}
			if p, d := diff(xv, yv, path+"."+k); p != "" {
				return p, d
			}
		}
		return "", ""
	case []any:
		y, ok := b.([]any)
		if !ok {
			return path, brief(a, b)
		}
		if len(x) != len(y) {
			return path + "[]", fmt.Sprintf("length %d vs %d", len(x), len(y))
		}
		for i := range x {
			if p, d := diff(x[i], y[i], fmt.Sprintf("%s[%d]", path, i)); p != "" {
				return p, d
			}
		}
		return "", ""
	}
	if !reflect.DeepEqual(a, b) {
		return path, brief(a, b)
	}
	return "", ""
}

func brief(a, b any) string {
	f := func(v any) string {
		s := fmt.Sprintf("%#v", v)
		if len(s) > 120 {
			s = s[:120] + "..."
		}
		return s
	}
	return "stored " + f(a) + " | read back " + f(b)
}

var idxRe = regexp.MustCompile(`\[\d+\]`)

// pathShape strips list positions and dynamic keys below Config/Values so that the path is a
// stable cause-shape.
func pathShape(p string) string {
	p = idxRe.ReplaceAllString(p, "[]")
	for _, dynRoot := range []string{".Config", ".Chart.Values", ".ImportValues"} {
		if i := indexOf(p, dynRoot); i >= 0 {
			return p[:i+len(dynRoot)] + "/*"
		}
	}
	return p
}

func indexOf(s, sub string) int {
	for i := 0; i+len(sub) <= len(s); i++ {
		if s[i:i+len(sub)] == sub {
			return i
		}
	}
	return -1
}
