// Package c10: all storage backends behave as the same faithful key-value store.
//
// Lock-step differential: generated call sequences are executed step by step on
//
//	memory            driver.Memory
//	secrets/fake      driver.Secrets    on client-go's fake clientset
//	configmaps/fake   driver.ConfigMaps on client-go's fake clientset
//	secrets/sim       driver.Secrets    on the simulated API server (env.World)
//	configmaps/sim    driver.ConfigMaps on the simulated API server (env.World)
//
// all wrapped in the real storage.Storage (key scheme, History/Last/Deployed), and on a reference
// Go map (name, revision) -> release. Every result is compared with the reference.
//
// Don't-care zones (the oracle deliberately does not look at them):
//   - createdAt / modifiedAt label values; error message text.
//   - System label keys merged into Labels by List/Query on the Kubernetes backends: the six
//     system keys are removed before user labels are compared.
//   - Number representation inside Config / Values after the JSON round trip (int -> float64):
//     compared numerically; generated ints stay within +-2^53.
//   - nil vs empty for declared slice/map/[]byte fields, zero vs absent for omitempty fields.
//   - Which error a call on a MISSING key returns: the property only says "fails and changes
//     nothing" (Update of a missing key on Kubernetes backends returns a wrapped API error, the
//     memory driver may answer invalid-key): only err != nil and an unchanged store are demanded;
//     the error class is counted in the evidence.
//   - A query without matches may return (nil, ErrReleaseNotFound) or an empty list.
//   - Query on user labels, multi-namespace use of the memory driver, strings that are not valid
//     UTF-8 (not representable in the JSON record), subcharts (json:"-").
//   - Order of List/Query results (sets are compared).
//
// Write-back ops (what helm's actions do with the store): "reupdate" obtains a stored release
// through List / Query / History / Last of the backend under test (labels exactly as returned:
// the Kubernetes backends hand out the system labels merged in), changes its status and Updates it;
// "upgrade" obtains the last revision, creates the next revision with the obtained label map
// carried over (action.Upgrade's mergeCustomLabels), marks the old one superseded and the new one
// deployed/failed via Update, and then queries by status / version / name. The reference treats
// the six system keys in a written release's Labels as not being user labels: they must not
// influence matching. For these two ops the harness deliberately modifies a release it got from
// the driver, as the actions do (everywhere else it never touches a release after handing it over).
//
// Replayed writes (call.Same): the ordinary generator draws a fresh content for every write, so the
// content handed to Create/Update would never coincide with what the key already holds. addReplays
// adds creates/updates whose content is identical to the release stored at their key (the same
// operation issued twice, two identical installers) and creates that put back the content last
// deleted from the key. The oracle is the same map: Create of a stored key fails with
// already-exists WHATEVER the content, Update of a stored key succeeds, a deleted key is free again.
//
// After a backend's answer to a MUTATING call differs from the reference (e.g. a Delete that
// wrongly fails) its state has diverged; the violation is reported once and the backend is no longer
// compared for the rest of that sequence (counted as backend_desynced) so that one cause does not
// produce a cascade of secondary signatures.
package c10

import (
	"errors"
	"fmt"
	"math/rand"
	"reflect"
	"runtime/debug"
	"sort"
	"strings"

	chartutil "helm.sh/helm/v4/pkg/chart/v2/util"
	release "helm.sh/helm/v4/pkg/release/v1"
	"helm.sh/helm/v4/pkg/storage"
	"helm.sh/helm/v4/pkg/storage/driver"
	"helm.sh/helm/v4/verifh/core"
	"helm.sh/helm/v4/verifh/env"
	"k8s.io/client-go/kubernetes/fake"
)

const ns = "ns1"

type caseData struct {
	Seed int64 `json:"seed"` // first sequence seed
	N    int   `json:"n"`    // number of sequences in this case
	Long bool  `json:"long,omitempty"`
}

func init() {
	core.Register(&core.Prop{
		ID:    "C10",
		Level: "exploration",
		Rule: "call sequences of 10-60 calls (Create/Get/Update/Delete/List/Query at driver level through storage.Storage, plus History/Last/Deployed/DeployedAll, plus write-backs of releases OBTAINED from List/Query/History/Last: status change + Update, and upgrade-shaped sequences that carry the obtained label map into a new revision, each followed by status/version/name queries; plus replayed writes: creates and updates whose content is identical to the release stored at their key, and creates that put back the content last deleted from their key) over 2-4 generated release names x revisions 1-5, " +
			"executed in lock-step on memory, secrets+configmaps on client-go's fake clientset, secrets+configmaps on the simulated API server, and a reference map; releases are generated (unicode/multi-MB manifests, nested config, hooks, chart with files/schema/lock/dependencies, user labels, nine statuses, zero/non-UTC timestamps). " +
			"distinct_nontrivial counts distinct (name shapes, kinds of failing calls, kinds of multi-match queries) of sequences that contain at least one failing call and one query with >= 2 matches.",
		Assumptions: []string{
			"client-go's fake clientset and the simulated API server store and select objects like a real API server (create/get/update/delete, label selectors)",
			"one namespace; the harness never shares a release pointer with a driver (each backend gets its own freshly generated, equal copy)",
			"strings are valid UTF-8; ints within +-2^53; no subcharts in stored charts (the record format does not carry them)",
		},
		Gen:            genCases,
		Run:            run,
		Post:           post,
		CaseTimeoutSec: 600,
	})
}

func genCases(seed int64, tier string) []core.Case {
	nseq, per := 320, 10
	if tier == "thorough" {
		nseq, per = 20000, 50
	}
	rng := rand.New(rand.NewSource(seed*1000003 + 10))
	var out []core.Case
	for i := 0; i < nseq/per; i++ {
		out = append(out, core.Case{ID: fmt.Sprintf("%s-s%d-b%04d", tier, seed, i), Data: core.J(caseData{Seed: rng.Int63(), N: per})})
	}
	return out
}

// ---------------------------------------------------------------- sequences

type call struct {
	Op     string // create update get delete list query history last deployed deployedall
	Name   string
	Rev    int
	Status release.Status
	CSeed  int64
	Filter string            // list: all | status=<s> | name=<n> | minrev=<k>
	Labels map[string]string // query
	Via    string            // reupdate: list | query | history | last (how the release is obtained)
	Extra  bool              // upgrade: add one more user label to the carried label map
	// Same (create/update): the release written is content-identical (status, info, chart, config,
	// manifest, hooks, user labels) to the one the reference holds at this key at that moment - a
	// replay of the write that stored it - or, if the key is not stored, to the one last deleted
	// from this key. If the key never held anything, Status/CSeed are used as in an ordinary write.
	Same bool
}

func (c call) String() string {
	switch c.Op {
	case "create", "update":
		if c.Same {
			return fmt.Sprintf("%s(%s.v%d content identical to the release stored at / last deleted from this key; else status=%s content=%d)", c.Op, c.Name, c.Rev, c.Status, c.CSeed)
		}
		return fmt.Sprintf("%s(%s.v%d status=%s content=%d)", c.Op, c.Name, c.Rev, c.Status, c.CSeed)
	case "get", "delete":
		return fmt.Sprintf("%s(%s.v%d)", c.Op, c.Name, c.Rev)
	case "list":
		return "list(" + c.Filter + ")"
	case "query":
		return fmt.Sprintf("query(%v)", c.Labels)
	case "reupdate":
		return fmt.Sprintf("reupdate(%s.v%d obtained via %s, status:=%s)", c.Name, c.Rev, c.Via, c.Status)
	case "upgrade":
		return fmt.Sprintf("upgrade(%s: last -> superseded, next revision content=%d labels carried extra=%v status:=%s)", c.Name, c.CSeed, c.Extra, c.Status)
	}
	return c.Op + "(" + c.Name + ")"
}

func genSeq(seed int64) (names []string, calls []call) {
	rng := rand.New(rand.NewSource(seed))
	nn := 2 + rng.Intn(3)
	seen := map[string]bool{}
	for len(names) < nn {
		n := genName(rng)
		if rng.Intn(6) == 0 && len(names) > 0 {
			// a name that extends another one, to provoke key-prefix confusion
			base := names[rng.Intn(len(names))]
			cand := base + pick(rng, []string{".v1", ".v2", "-v1", ".x", "1"})
			if len(cand) <= 53 {
				n = cand
			}
		}
		if !seen[n] {
			seen[n] = true
			names = append(names, n)
		}
	}
	maxRev := 1 + rng.Intn(5)
	ncalls := 10 + rng.Intn(51)
	type key struct {
		n string
		r int
	}
	present := map[key]bool{} // the generator's own idea of the store, only to balance hits/misses
	anyKey := func() key { return key{pick(rng, names), 1 + rng.Intn(maxRev)} }
	presentKey := func() (key, bool) {
		var ks []key
		for k := range present {
			ks = append(ks, k)
		}
		if len(ks) == 0 {
			return key{}, false
		}
		sort.Slice(ks, func(i, j int) bool { return ks[i].n < ks[j].n || ks[i].n == ks[j].n && ks[i].r < ks[j].r })
		return ks[rng.Intn(len(ks))], true
	}
	hitKey := func(pHit int) key {
		if rng.Intn(100) < pHit {
			if k, ok := presentKey(); ok {
				return k
			}
		}
		return anyKey()
	}
	status := func() release.Status {
		if rng.Intn(3) == 0 {
			return release.StatusDeployed
		}
		return pick(rng, allStatuses)
	}
	for i := 0; i < ncalls; i++ {
		r := rng.Intn(100)
		if i < 6 {
			r = rng.Intn(30) // start by filling the store
		}
		switch {
		case r < 30:
			k := anyKey()
			if rng.Intn(100) < 20 {
				k = hitKey(100) // create of an existing key
			}
			calls = append(calls, call{Op: "create", Name: k.n, Rev: k.r, Status: status(), CSeed: rng.Int63()})
			present[k] = true
		case r < 42:
			k := hitKey(75)
			calls = append(calls, call{Op: "update", Name: k.n, Rev: k.r, Status: status(), CSeed: rng.Int63()})
		case r < 54:
			k := hitKey(75)
			calls = append(calls, call{Op: "get", Name: k.n, Rev: k.r})
		case r < 64:
			k := hitKey(70)
			calls = append(calls, call{Op: "delete", Name: k.n, Rev: k.r})
			delete(present, k)
		case r < 72:
			f := "all"
			switch rng.Intn(4) {
			case 0:
				f = "status=" + string(pick(rng, allStatuses))
			case 1:
				f = "name=" + pick(rng, names)
			case 2:
				f = fmt.Sprintf("minrev=%d", 1+rng.Intn(maxRev))
			}
			calls = append(calls, call{Op: "list", Filter: f})
		case r < 86:
			l := map[string]string{}
			if rng.Intn(100) < 70 {
				l["name"] = pick(rng, names)
				if rng.Intn(12) == 0 {
					l["name"] = "no-such-release"
				}
			}
			if rng.Intn(100) < 60 {
				l["owner"] = "helm"
				if rng.Intn(6) == 0 {
					l["owner"] = pick(rng, []string{"tiller", "Helm", ""})
				}
			}
			if rng.Intn(100) < 45 {
				l["status"] = string(status())
			}
			if rng.Intn(100) < 30 {
				l["version"] = fmt.Sprint(1 + rng.Intn(maxRev))
			}
			calls = append(calls, call{Op: "query", Labels: l})
		case r < 92:
			calls = append(calls, call{Op: pick(rng, []string{"history", "last", "deployed", "deployedall"}), Name: pick(rng, append([]string{"no-such-release"}, names...))})
		case r < 96:
			k := hitKey(90)
			calls = append(calls, call{Op: "reupdate", Name: k.n, Rev: k.r, Via: pick(rng, []string{"list", "query", "history", "last"}), Status: status()})
		default:
			n := pick(rng, names)
			if k, ok := presentKey(); ok && rng.Intn(4) > 0 {
				n = k.n
			}
			st := release.StatusDeployed
			if rng.Intn(4) == 0 {
				st = release.StatusFailed
			}
			calls = append(calls, call{Op: "upgrade", Name: n, Status: st, CSeed: rng.Int63(), Extra: rng.Intn(2) == 0})
		}
	}
	calls = addReplays(seed, calls)
	return
}

// addReplays adds the input class "a write whose content coincides with what its key holds or
// held": the generator above draws a fresh content for every write, so without this pass a Create
// or Update never carries the content that is already stored. It uses its own random stream (the
// sequences drawn above stay as they are) and
//   - turns 40% of the creates of a key the sequence has created before into identical-content creates,
//   - inserts, right after or a few calls after 12% of the writes, a replay of that write on the same
//     key (create 2/3, update 1/3) with Same set: on a still-stored key the create must fail with
//     already-exists and the update must succeed, both leaving the map as it is,
//   - inserts, after 15% of the deletes, a create that puts the deleted content back (must succeed).
func addReplays(seed int64, calls []call) []call {
	rng := rand.New(rand.NewSource(seed ^ 0x2545F4914F6CDD1D))
	type key struct {
		n string
		r int
	}
	type pending struct {
		c     call
		after int // emit when this many more original calls have been emitted
	}
	created := map[key]bool{}
	var out []call
	var queue []pending
	for _, c := range calls {
		k := key{c.Name, c.Rev}
		switch c.Op {
		case "create", "update":
			if c.Op == "create" {
				if created[k] && rng.Intn(100) < 40 {
					c.Same = true
				}
				created[k] = true
			}
			if rng.Intn(100) < 12 {
				r := call{Op: "create", Name: c.Name, Rev: c.Rev, Status: c.Status, CSeed: rng.Int63(), Same: true}
				if rng.Intn(3) == 0 {
					r.Op = "update"
				}
				d := 0
				if rng.Intn(2) == 0 {
					d = 1 + rng.Intn(5)
				}
				queue = append(queue, pending{r, d})
			}
		case "delete":
			if created[k] && rng.Intn(100) < 15 {
				queue = append(queue, pending{call{Op: "create", Name: c.Name, Rev: c.Rev, Status: pick(rng, allStatuses), CSeed: rng.Int63(), Same: true}, rng.Intn(3)})
			}
		}
		out = append(out, c)
		rest := queue[:0]
		for _, p := range queue {
			if p.after <= 0 {
				out = append(out, p.c)
			} else {
				p.after--
				rest = append(rest, p)
			}
		}
		queue = rest
	}
	for _, p := range queue {
		out = append(out, p.c)
	}
	return out
}

// ---------------------------------------------------------------- reference map

type rkey struct {
	name string
	rev  int
}

type refKV map[rkey]*release.Release

func (m refKV) selectBy(f func(*release.Release) bool) map[rkey]*release.Release {
	out := map[rkey]*release.Release{}
	for k, r := range m {
		if f(r) {
			out[k] = r
		}
	}
	return out
}

func labelMatch(r *release.Release, l map[string]string) bool {
	sys := map[string]string{"name": r.Name, "owner": "helm", "status": string(r.Info.Status), "version": fmt.Sprint(r.Version)}
	for k, v := range l {
		if sys[k] != v {
			return false
		}
	}
	return true
}

func listFilter(f string) func(*release.Release) bool {
	switch {
	case strings.HasPrefix(f, "status="):
		s := release.Status(strings.TrimPrefix(f, "status="))
		return func(r *release.Release) bool { return r.Info.Status == s }
	case strings.HasPrefix(f, "name="):
		n := strings.TrimPrefix(f, "name=")
		return func(r *release.Release) bool { return r.Name == n }
	case strings.HasPrefix(f, "minrev="):
		var k int
		fmt.Sscan(strings.TrimPrefix(f, "minrev="), &k)
		return func(r *release.Release) bool { return r.Version >= k }
	}
	return func(*release.Release) bool { return true }
}

// ---------------------------------------------------------------- backends

type backend struct {
	name     string
	st       *storage.Storage
	desynced bool
}

func mkBackends() []*backend {
	mem := driver.NewMemory()
	mem.SetNamespace(ns)
	cs1, cs2 := fake.NewSimpleClientset(), fake.NewSimpleClientset()
	ws, wc := env.NewWorld("secrets", ns), env.NewWorld("configmaps", ns)
	return []*backend{
		{name: "memory", st: storage.Init(mem)},
		{name: "secrets/fake", st: storage.Init(driver.NewSecrets(cs1.CoreV1().Secrets(ns)))},
		{name: "configmaps/fake", st: storage.Init(driver.NewConfigMaps(cs2.CoreV1().ConfigMaps(ns)))},
		{name: "secrets/sim", st: storage.Init(ws.Driver("c10"))},
		{name: "configmaps/sim", st: storage.Init(wc.Driver("c10"))},
	}
}

func backendKind(n string) string {
	if i := strings.IndexByte(n, '/'); i >= 0 {
		return n[:i]
	}
	return n
}

var nz = normalizer{skip: map[string]bool{"Release.Labels": true, "Chart.Raw": true, "Info.Resources": true}}

var systemLabelKeys = []string{"name", "owner", "status", "version", "createdAt", "modifiedAt"}

func userLabels(l map[string]string) map[string]string {
	out := map[string]string{}
	for k, v := range l {
		out[k] = v
	}
	for _, k := range systemLabelKeys {
		delete(out, k)
	}
	return out
}

// relDiff compares a release read back from a backend with the stored one. It returns the shape of
// the first differing field ("" = equal) and a description.
func relDiff(want, got *release.Release) (string, string) {
	if got == nil {
		return "<nil release>", "backend returned a nil release"
	}
	a := nz.norm(reflect.ValueOf(want), false)
	b := nz.norm(reflect.ValueOf(got), false)
	if p, d := diff(a, b, "Release"); p != "" {
		// several top-level sections differ: this is another release content altogether (e.g. a stale
		// or a neighbouring record), not one lossy field
		am, _ := a.(map[string]any)
		bm, _ := b.(map[string]any)
		n := 0
		for _, k := range []string{"Info", "Chart", "Config", "Manifest", "Hooks"} {
			if q, _ := diff(am[k], bm[k], k); q != "" {
				n++
			}
		}
		if n >= 3 {
			return "another release content (stale or neighbouring record)", p + ": " + d
		}
		return pathShape(p), p + ": " + d
	}
	wl, gl := userLabels(want.Labels), userLabels(got.Labels)
	if !reflect.DeepEqual(wl, gl) {
		return "Release.Labels(user)", fmt.Sprintf("user labels stored %v | read back %v", wl, gl)
	}
	return "", ""
}

func errClass(err error) string {
	switch {
	case err == nil:
		return "ok"
	case errors.Is(err, driver.ErrReleaseExists):
		return "exists"
	case errors.Is(err, driver.ErrReleaseNotFound):
		return "not-found"
	case errors.Is(err, driver.ErrNoDeployedReleases):
		return "no-deployed"
	case errors.Is(err, driver.ErrInvalidKey):
		return "invalid-key"
	}
	return "other-error"
}

// ---------------------------------------------------------------- execution

type seqRun struct {
	res     *core.Result
	seed    int64
	names   []string
	calls   []call
	ref     refKV
	bks     []*backend
	verbose bool
	failOps map[string]bool
	multiQ  map[string]bool
	step    int
	cseed   map[rkey]int64   // content seed of every stored reference release (to rebuild it with another status)
	touched []rkey           // keys changed by the current call (read back on every backend afterwards)
	gone    map[rkey]written // content last deleted from a key
	// pristine: the record every backend holds for the key was encoded from a harness-built
	// mkRelease object (Create/Update), not from a release a backend handed out (write-backs): a
	// replay with identical content then also yields the byte-identical record body. Evidence only.
	pristine map[rkey]bool
}

// written is what a create/update call writes.
type written struct {
	st     release.Status
	cseed  int64
	labels map[string]string // nil: the labels mkRelease generates from cseed
	rel    string            // "" fresh content | "stored": identical to the stored release | "deleted": identical to the last deleted one
}

func (s *seqRun) resolve(c call) written {
	if c.Same {
		k := rkey{c.Name, c.Rev}
		if r, ok := s.ref[k]; ok {
			return written{st: r.Info.Status, cseed: s.cseed[k], labels: userLabels(r.Labels), rel: "stored"}
		}
		if w, ok := s.gone[k]; ok {
			w.rel = "deleted"
			return w
		}
	}
	return written{st: c.Status, cseed: c.CSeed}
}

// mk builds a fresh release object for a create/update call (never shared between backends).
func (s *seqRun) mk(c call) *release.Release {
	w := s.resolve(c)
	r := mkRelease(c.Name, ns, c.Rev, w.st, w.cseed)
	if w.labels != nil {
		r.Labels = copyLabels(w.labels)
	}
	return r
}

func (s *seqRun) contentTag(c call) string {
	if s.resolve(c).rel == "stored" {
		return " content=identical-to-stored"
	}
	return ""
}

func (s *seqRun) ctx(b *backend, c call) string {
	lo := s.step - 6
	if lo < 0 {
		lo = 0
	}
	var prev []string
	for i := lo; i < s.step; i++ {
		prev = append(prev, s.calls[i].String())
	}
	return fmt.Sprintf("sequence seed %d, names %q, step %d/%d: %s on backend %s | preceding calls: %s", s.seed, s.names, s.step, len(s.calls), c, b.name, strings.Join(prev, " ; "))
}

func (s *seqRun) add(b *backend, clause, class, format string, a ...any) {
	s.res.Add(clause, backendKind(b.name)+" "+class, "[%s] "+format, append([]any{b.name}, a...)...)
	s.res.Stat("violations_"+b.name, 1)
}

func keyShape(c call) string {
	return "name-shape=" + strings.TrimSuffix(nameShape(c.Name), "+53chars")
}

// compareSet judges a multi-result call.
func (s *seqRun) compareSet(b *backend, c call, what string, want map[rkey]*release.Release, got []*release.Release, err error) {
	if len(want) == 0 {
		if len(got) != 0 {
			s.add(b, "query-result-set", what+": returned releases although none match", "%d releases returned, none expected | %s", len(got), s.ctx(b, c))
		}
		// an error (not-found) or an empty list are both the empty set
		return
	}
	if err != nil {
		s.add(b, "query-failed", what+": "+errClass(err)+" although releases match", "err=%v, %d matches expected | %s", err, len(want), s.ctx(b, c))
		return
	}
	seen := map[rkey]bool{}
	for _, g := range got {
		if g == nil {
			s.add(b, "query-result-set", what+": nil entry in result", "%s", s.ctx(b, c))
			continue
		}
		k := rkey{g.Name, g.Version}
		if seen[k] {
			s.add(b, "query-result-set", what+": duplicate entry in result", "%s.v%d returned twice | %s", g.Name, g.Version, s.ctx(b, c))
			continue
		}
		seen[k] = true
		w, ok := want[k]
		if !ok {
			_, stored := s.ref[k]
			s.add(b, "query-result-set", what+": extra release in result", "%s.v%d (status %s) returned but does not match (stored=%v); expected %d matches | %s", g.Name, g.Version, g.Info.Status, stored, len(want), s.ctx(b, c))
			continue
		}
		if shape, d := relDiff(w, g); shape != "" {
			s.add(b, "read-back-differs", what+": "+shape, "%s.v%d: %s | %s", g.Name, g.Version, d, s.ctx(b, c))
		}
	}
	for k := range want {
		if !seen[k] {
			s.add(b, "query-result-set", what+": matching release missing from result", "%s.v%d (status %s) is stored and matches but was not returned (%d returned, %d expected) | %s", k.name, k.rev, want[k].Info.Status, len(got), len(want), s.ctx(b, c))
			return
		}
	}
}

// audit compares the full content of a backend with the reference through List(all) + Get.
func (s *seqRun) audit(b *backend, c call, why string) {
	var got []*release.Release
	var err error
	if core.Guard(s.res, b.name+" List", func() { got, err = b.st.List(func(*release.Release) bool { return true }) }) {
		return
	}
	before := len(s.res.Violations)
	if len(s.ref) > 0 || len(got) > 0 {
		if err != nil && len(s.ref) > 0 {
			s.add(b, "state-after-"+why, "List(all) failed: "+errClass(err), "err=%v | %s", err, s.ctx(b, c))
		} else {
			s.compareSet(b, c, "state after "+why, s.ref, got, err)
		}
	}
	s.res.Stat("audits", 1)
	if len(s.res.Violations) > before {
		b.desynced = true
	}
}

func (s *seqRun) exec(c call) {
	key := rkey{c.Name, c.Rev}
	stored, has := s.ref[key]
	for _, b := range s.bks {
		if b.desynced {
			s.res.Stat("calls_skipped_after_desync", 1)
			continue
		}
		s.res.Stat("calls_compared_"+b.name, 1)
		switch c.Op {
		case "reupdate", "upgrade":
			s.execWriteBack(b, c)
		case "create":
			var err error
			if core.Guard(s.res, b.name+" Create", func() { err = b.st.Create(s.mk(c)) }) {
				b.desynced = true
				continue
			}
			if has {
				if err == nil {
					s.add(b, "create-existing-succeeded", "Create "+keyShape(c)+s.contentTag(c), "Create of an existing key returned nil | %s", s.ctx(b, c))
					b.desynced = true
				} else if !errors.Is(err, driver.ErrReleaseExists) {
					s.add(b, "create-existing-wrong-error", "Create "+keyShape(c)+s.contentTag(c)+" err="+errClass(err), "Create of an existing key failed with %v, not already-exists | %s", err, s.ctx(b, c))
				}
				s.auditAfterFail(b, c)
			} else if err != nil {
				s.add(b, "create-new-failed", "Create "+keyShape(c)+" err="+errClass(err), "Create of a new key failed: %v | %s", err, s.ctx(b, c))
				b.desynced = true
			}
		case "update":
			var err error
			if core.Guard(s.res, b.name+" Update", func() { err = b.st.Update(s.mk(c)) }) {
				b.desynced = true
				continue
			}
			if has {
				if err != nil {
					s.add(b, "existing-key-failed", "Update "+keyShape(c)+" err="+errClass(err), "Update of an existing key failed: %v | %s", err, s.ctx(b, c))
					b.desynced = true
				}
			} else {
				if err == nil {
					s.add(b, "missing-key-succeeded", "Update "+keyShape(c), "Update of a missing key returned nil | %s", s.ctx(b, c))
					b.desynced = true
				} else {
					s.res.Stat("missing_key_error_class/update/"+backendKind(b.name)+"/"+errClass(err), 1)
				}
				s.auditAfterFail(b, c)
			}
		case "get":
			var got *release.Release
			var err error
			if core.Guard(s.res, b.name+" Get", func() { got, err = b.st.Get(c.Name, c.Rev) }) {
				continue
			}
			if has {
				if err != nil {
					s.add(b, "existing-key-failed", "Get "+keyShape(c)+" err="+errClass(err), "Get of an existing key failed: %v | %s", err, s.ctx(b, c))
				} else if shape, d := relDiff(stored, got); shape != "" {
					s.add(b, "read-back-differs", "Get: "+shape, "%s | %s", d, s.ctx(b, c))
				} else {
					s.res.Stat("round_trips_equal", 1)
				}
			} else if err == nil {
				s.add(b, "missing-key-succeeded", "Get "+keyShape(c), "Get of a missing key returned a release (%v) | %s", got != nil, s.ctx(b, c))
			} else {
				s.res.Stat("missing_key_error_class/get/"+backendKind(b.name)+"/"+errClass(err), 1)
			}
		case "delete":
			var got *release.Release
			var err error
			if core.Guard(s.res, b.name+" Delete", func() { got, err = b.st.Delete(c.Name, c.Rev) }) {
				b.desynced = true
				continue
			}
			if has {
				if err != nil {
					s.add(b, "existing-key-failed", "Delete "+keyShape(c)+" err="+errClass(err), "Delete of an existing key failed: %v | %s", err, s.ctx(b, c))
					b.desynced = true
				} else if shape, d := relDiff(stored, got); shape != "" {
					s.add(b, "delete-returned-other-release", "Delete: "+shape, "%s | %s", d, s.ctx(b, c))
				}
			} else {
				if err == nil {
					s.add(b, "missing-key-succeeded", "Delete "+keyShape(c), "Delete of a missing key returned nil error | %s", s.ctx(b, c))
					b.desynced = true
				} else {
					s.res.Stat("missing_key_error_class/delete/"+backendKind(b.name)+"/"+errClass(err), 1)
				}
				s.auditAfterFail(b, c)
			}
		case "list":
			f := listFilter(c.Filter)
			var got []*release.Release
			var err error
			if core.Guard(s.res, b.name+" List", func() { got, err = b.st.List(f) }) {
				continue
			}
			if err != nil {
				s.add(b, "query-failed", "List: "+errClass(err), "List(%s) failed: %v | %s", c.Filter, err, s.ctx(b, c))
				continue
			}
			s.compareSet(b, c, "List("+strings.SplitN(c.Filter, "=", 2)[0]+")", s.ref.selectBy(f), got, err)
		case "query", "history", "deployedall":
			l := c.Labels
			what := "Query(" + labelKeySet(l) + ")"
			var got []*release.Release
			var err error
			switch c.Op {
			case "history":
				l = map[string]string{"name": c.Name, "owner": "helm"}
				what = "History"
				if core.Guard(s.res, b.name+" History", func() { got, err = b.st.History(c.Name) }) {
					continue
				}
			case "deployedall":
				l = map[string]string{"name": c.Name, "owner": "helm", "status": "deployed"}
				what = "DeployedAll"
				if core.Guard(s.res, b.name+" DeployedAll", func() { got, err = b.st.DeployedAll(c.Name) }) {
					continue
				}
			default:
				if core.Guard(s.res, b.name+" Query", func() { got, err = b.st.Query(l) }) {
					continue
				}
			}
			want := s.ref.selectBy(func(r *release.Release) bool { return labelMatch(r, l) })
			if len(want) == 0 && err != nil && c.Op == "query" {
				s.res.Stat("empty_query_error_class/"+backendKind(b.name)+"/"+errClass(err), 1)
			}
			s.compareSet(b, c, what, want, got, err)
		case "last", "deployed":
			var got *release.Release
			var err error
			var want *release.Release
			for _, r := range s.ref {
				if r.Name != c.Name || (c.Op == "deployed" && r.Info.Status != release.StatusDeployed) {
					continue
				}
				if want == nil || r.Version > want.Version {
					want = r
				}
			}
			opn := map[string]string{"last": "Last", "deployed": "Deployed"}[c.Op]
			if core.Guard(s.res, b.name+" "+opn, func() {
				if c.Op == "last" {
					got, err = b.st.Last(c.Name)
				} else {
					got, err = b.st.Deployed(c.Name)
				}
			}) {
				continue
			}
			switch {
			case want == nil && got != nil:
				s.add(b, "query-result-set", opn+": returned a release although none qualifies", "%s.v%d returned | %s", got.Name, got.Version, s.ctx(b, c))
			case want == nil:
			case err != nil:
				s.add(b, "query-failed", opn+": "+errClass(err)+" although a release qualifies", "err=%v, expected %s.v%d | %s", err, want.Name, want.Version, s.ctx(b, c))
			case got == nil || got.Name != want.Name || got.Version != want.Version:
				s.add(b, "query-result-set", opn+": wrong revision", "expected %s.v%d, got %v | %s", want.Name, want.Version, briefRel(got), s.ctx(b, c))
			default:
				if shape, d := relDiff(want, got); shape != "" {
					s.add(b, "read-back-differs", opn+": "+shape, "%s | %s", d, s.ctx(b, c))
				}
			}
		}
	}
}

func copyLabels(l map[string]string) map[string]string {
	out := map[string]string{}
	for k, v := range l {
		out[k] = v
	}
	return out
}

// refLast is the highest stored revision of name in the reference (nil if none).
func (s *seqRun) refLast(name string) *release.Release {
	var last *release.Release
	for _, r := range s.ref {
		if r.Name == name && (last == nil || r.Version > last.Version) {
			last = r
		}
	}
	return last
}

// rebuild returns a fresh reference release for key with another status and the given user labels.
func (s *seqRun) rebuild(k rkey, st release.Status, labels map[string]string) *release.Release {
	r := mkRelease(k.name, ns, k.rev, st, s.cseed[k])
	r.Labels = userLabels(labels)
	return r
}

// target resolves the key a reupdate call works on (via=last: the highest revision of the name).
func (s *seqRun) target(c call) (rkey, bool) {
	if c.Via == "last" {
		if l := s.refLast(c.Name); l != nil {
			return rkey{l.Name, l.Version}, true
		}
		return rkey{}, false
	}
	k := rkey{c.Name, c.Rev}
	_, ok := s.ref[k]
	return k, ok
}

// obtain fetches the stored release k from the backend the way an action would.
func (s *seqRun) obtain(b *backend, via string, k rkey) (got *release.Release, err error) {
	var rs []*release.Release
	switch via {
	case "list":
		rs, err = b.st.List(func(r *release.Release) bool { return r.Name == k.name })
	case "query":
		rs, err = b.st.Query(map[string]string{"name": k.name, "owner": "helm", "version": fmt.Sprint(k.rev)})
	case "history":
		rs, err = b.st.History(k.name)
	default:
		return b.st.Last(k.name)
	}
	if err != nil {
		return nil, err
	}
	for _, r := range rs {
		if r != nil && r.Name == k.name && r.Version == k.rev {
			return r, nil
		}
	}
	return nil, fmt.Errorf("harness: %s did not return %s.v%d (%d results)", via, k.name, k.rev, len(rs))
}

func (s *seqRun) execWriteBack(b *backend, c call) {
	switch c.Op {
	case "reupdate":
		k, ok := s.target(c)
		if !ok {
			return
		}
		var got *release.Release
		var err error
		if core.Guard(s.res, b.name+" obtain+Update", func() {
			if got, err = s.obtain(b, c.Via, k); err == nil {
				if got.Info == nil {
					err = errors.New("obtained release has no info")
					return
				}
				got.Info.Status = c.Status
				err = b.st.Update(got)
			}
		}) {
			b.desynced = true
			return
		}
		if err != nil {
			s.add(b, "write-back-failed", "Update of a release obtained via "+c.Via+": "+errClass(err), "%v | %s", err, s.ctx(b, c))
			b.desynced = true
		}
	case "upgrade":
		rl := s.refLast(c.Name)
		if rl == nil {
			return
		}
		var err error
		stepName := ""
		if core.Guard(s.res, b.name+" upgrade-shaped write-back", func() {
			var last *release.Release
			stepName = "Last"
			if last, err = b.st.Last(c.Name); err != nil {
				return
			}
			if last == nil || last.Version != rl.Version || last.Info == nil {
				err = fmt.Errorf("Last returned %s, reference has v%d", briefRel(last), rl.Version)
				return
			}
			next := mkRelease(c.Name, ns, rl.Version+1, release.StatusPendingUpgrade, c.CSeed)
			next.Labels = copyLabels(last.Labels) // action.Upgrade: mergeCustomLabels(lastRelease.Labels, u.Labels)
			if c.Extra {
				next.Labels["carried"] = "yes"
			}
			stepName = "Create(next revision)"
			if err = b.st.Create(next); err != nil {
				return
			}
			stepName = "Update(previous revision -> superseded)"
			last.Info.Status = release.StatusSuperseded
			if err = b.st.Update(last); err != nil {
				return
			}
			stepName = "Update(next revision -> final status)"
			next.Info.Status = c.Status
			err = b.st.Update(next)
		}) {
			b.desynced = true
			return
		}
		if err != nil {
			s.add(b, "write-back-failed", "upgrade-shaped sequence, step "+stepName+": "+errClass(err), "%v | %s", err, s.ctx(b, c))
			b.desynced = true
		}
	}
}

func (s *seqRun) auditAfterFail(b *backend, c call) {
	if !b.desynced {
		s.audit(b, c, "failing "+c.Op)
	}
}

func briefRel(r *release.Release) string {
	if r == nil {
		return "<nil>"
	}
	return fmt.Sprintf("%s.v%d", r.Name, r.Version)
}

func labelKeySet(l map[string]string) string {
	var ks []string
	for k := range l {
		ks = append(ks, k)
	}
	sort.Strings(ks)
	return strings.Join(ks, ",")
}

// applyRef applies the call to the reference map and records the evidence counters.
func (s *seqRun) applyRef(c call) {
	key := rkey{c.Name, c.Rev}
	_, has := s.ref[key]
	s.touched = s.touched[:0]
	switch c.Op {
	case "create", "update", "delete":
		s.touched = append(s.touched, key)
	}
	switch c.Op {
	case "reupdate":
		if k, ok := s.target(c); ok {
			s.ref[k] = s.rebuild(k, c.Status, s.ref[k].Labels)
			s.pristine[k] = false
			s.touched = append(s.touched, k)
			s.res.Stat("write_back_updates/"+c.Via, 1)
		} else {
			s.res.Stat("write_back_skipped_nothing_stored", 1)
		}
	case "upgrade":
		if rl := s.refLast(c.Name); rl != nil {
			prev, next := rkey{rl.Name, rl.Version}, rkey{rl.Name, rl.Version + 1}
			carried := copyLabels(userLabels(rl.Labels))
			if c.Extra {
				carried["carried"] = "yes"
			}
			s.ref[prev] = s.rebuild(prev, release.StatusSuperseded, rl.Labels)
			s.cseed[next] = c.CSeed
			s.ref[next] = s.rebuild(next, c.Status, carried)
			s.pristine[prev], s.pristine[next] = false, true
			s.touched = append(s.touched, prev, next)
			s.res.Stat("upgrade_shaped_write_backs", 1)
		} else {
			s.res.Stat("write_back_skipped_nothing_stored", 1)
		}
	case "create":
		w := s.resolve(c)
		if has {
			s.failOps["create-existing"] = true
			s.res.Stat("failing_calls_expected", 1)
			if w.rel == "stored" {
				s.failOps["create-existing-identical-content"] = true
				s.res.Stat("identical_content/create_on_stored_key", 1)
				if s.pristine[key] {
					s.res.Stat("identical_content/create_on_stored_key_byte_identical_record", 1)
				}
			}
		} else {
			s.ref[key] = s.mk(c)
			s.cseed[key] = w.cseed
			s.pristine[key] = true
			if w.rel == "deleted" {
				s.res.Stat("identical_content/create_of_last_deleted_content", 1)
			}
		}
	case "update":
		if has {
			w := s.resolve(c)
			s.ref[key] = s.mk(c)
			s.cseed[key] = w.cseed
			s.pristine[key] = true
			if w.rel == "stored" {
				s.res.Stat("identical_content/update_of_stored_key", 1)
			}
		} else {
			s.failOps["update-missing"] = true
			s.res.Stat("failing_calls_expected", 1)
		}
	case "get":
		if !has {
			s.failOps["get-missing"] = true
			s.res.Stat("failing_calls_expected", 1)
		}
	case "delete":
		if has {
			s.gone[key] = written{st: s.ref[key].Info.Status, cseed: s.cseed[key], labels: userLabels(s.ref[key].Labels)}
			delete(s.ref, key)
			delete(s.cseed, key)
			delete(s.pristine, key)
		} else {
			s.failOps["delete-missing"] = true
			s.res.Stat("failing_calls_expected", 1)
		}
	}
}

func (s *seqRun) countMatches(c call) {
	n := -1
	kind := c.Op
	switch c.Op {
	case "list":
		n = len(s.ref.selectBy(listFilter(c.Filter)))
		kind = "list:" + strings.SplitN(c.Filter, "=", 2)[0]
	case "query":
		n = len(s.ref.selectBy(func(r *release.Release) bool { return labelMatch(r, c.Labels) }))
		kind = "query:" + labelKeySet(c.Labels)
	case "history":
		n = len(s.ref.selectBy(func(r *release.Release) bool { return r.Name == c.Name }))
	case "deployedall":
		n = len(s.ref.selectBy(func(r *release.Release) bool { return r.Name == c.Name && r.Info.Status == release.StatusDeployed }))
	}
	if n >= 2 {
		s.multiQ[kind] = true
		s.res.Stat("multi_match_queries", 1)
	}
	if n == 0 {
		s.res.Stat("empty_result_queries", 1)
	}
}

func runSeq(res *core.Result, seed int64, verbose bool) {
	names, calls := genSeq(seed)
	for _, n := range names {
		if err := chartutil.ValidateReleaseName(n); err != nil {
			res.Inconclusive = fmt.Sprintf("generator produced an invalid release name %q", n)
			return
		}
	}
	s := &seqRun{res: res, seed: seed, names: names, calls: calls, ref: refKV{}, bks: mkBackends(), verbose: verbose, failOps: map[string]bool{}, multiQ: map[string]bool{}, cseed: map[rkey]int64{}, gone: map[rkey]written{}, pristine: map[rkey]bool{}}
	if verbose {
		fmt.Printf("sequence seed %d names %q (%d calls)\n", seed, names, len(calls))
	}
	for i, c := range calls {
		s.step = i
		before := len(res.Violations)
		s.countMatches(c)
		s.exec(c) // judged against the reference state BEFORE the call
		s.applyRef(c)
		// after a mutation every touched key must read back equal on every backend
		if len(s.touched) > 0 {
			s.step = i + 1
			for _, b := range s.bks {
				if b.desynced {
					continue
				}
				for _, k := range s.touched {
					kc := call{Op: c.Op, Name: k.name, Rev: k.rev}
					want, has := s.ref[k]
					var got *release.Release
					var err error
					if core.Guard(res, b.name+" Get", func() { got, err = b.st.Get(k.name, k.rev) }) {
						continue
					}
					switch {
					case has && err != nil:
						s.add(b, "existing-key-failed", "Get "+keyShape(kc)+" err="+errClass(err), "Get of %s.v%d right after %s failed: %v | %s", k.name, k.rev, c, err, s.ctx(b, c))
					case has:
						if shape, d := relDiff(want, got); shape != "" {
							s.add(b, "read-back-differs", "Get: "+shape, "%s.v%d right after %s: %s | %s", k.name, k.rev, c, d, s.ctx(b, c))
						} else {
							res.Stat("round_trips_equal", 1)
						}
					case err == nil:
						s.add(b, "missing-key-succeeded", "Get "+keyShape(kc), "Get right after %s returned a release for a key that is not stored | %s", c, s.ctx(b, c))
					}
				}
			}
			s.step = i
		}
		// after a write-back the selection labels must follow the release: query by status / version / name
		if (c.Op == "reupdate" || c.Op == "upgrade") && len(s.touched) > 0 {
			var follow []call
			for _, k := range s.touched {
				r := s.ref[k]
				follow = append(follow,
					call{Op: "query", Labels: map[string]string{"name": k.name, "owner": "helm", "status": string(r.Info.Status)}},
					call{Op: "query", Labels: map[string]string{"name": k.name, "version": fmt.Sprint(k.rev)}},
					call{Op: "query", Labels: map[string]string{"status": string(r.Info.Status)}})
			}
			follow = append(follow,
				call{Op: "query", Labels: map[string]string{"name": c.Name, "status": "deployed"}},
				call{Op: "query", Labels: map[string]string{"status": "superseded"}},
				call{Op: "query", Labels: map[string]string{"status": "pending-upgrade"}},
				call{Op: "history", Name: c.Name}, call{Op: "deployed", Name: c.Name}, call{Op: "last", Name: c.Name})
			s.step = i + 1
			for _, f := range follow {
				s.countMatches(f)
				s.exec(f)
				res.Stat("write_back_followup_queries", 1)
			}
			s.step = i
		}
		if verbose {
			fmt.Printf("  %2d %-70s ref=%d keys  new violations=%d\n", i, c, len(s.ref), len(res.Violations)-before)
		}
	}
	s.step = len(calls)
	for _, b := range s.bks {
		if b.desynced {
			res.Stat("backend_desynced/"+b.name, 1)
			continue
		}
		s.audit(b, call{Op: "final-audit"}, "the whole sequence")
	}
	res.Evals += int64(len(calls))
	res.Stat("sequences", 1)
	for _, n := range names {
		res.Stat("names/"+nameShape(n), 1)
	}
	if len(s.failOps) > 0 && len(s.multiQ) > 0 {
		var shapes []string
		for _, n := range names {
			shapes = append(shapes, nameShape(n))
		}
		sort.Strings(shapes)
		res.Key("names[%s]|fail[%s]|multi[%s]", strings.Join(uniq(shapes), ","), strings.Join(keys(s.failOps), ","), strings.Join(keys(s.multiQ), ","))
		res.Stat("nontrivial_sequences", 1)
	}
}

func keys(m map[string]bool) []string {
	var ks []string
	for k := range m {
		ks = append(ks, k)
	}
	sort.Strings(ks)
	return ks
}

func uniq(xs []string) []string {
	var out []string
	for i, x := range xs {
		if i == 0 || x != xs[i-1] {
			out = append(out, x)
		}
	}
	return out
}

func run(c core.Case, verbose bool) core.Result {
	env.Quiet()
	// encodeRelease allocates a ~1 MB flate writer per record; with the default GC target the
	// worker spends most of its time in GC cycles over a tiny live heap.
	debug.SetGCPercent(1000)
	var d caseData
	core.U(c, &d)
	var res core.Result
	rng := rand.New(rand.NewSource(d.Seed))
	var seeds []int64
	for i := 0; i < d.N; i++ {
		seeds = append(seeds, rng.Int63())
	}
	for _, sd := range seeds {
		runSeq(&res, sd, verbose)
	}
	names, calls := genSeq(seeds[0])
	var cs []string
	for i, c := range calls {
		if i >= 12 {
			cs = append(cs, "...")
			break
		}
		cs = append(cs, c.String())
	}
	res.Sample = map[string]any{"first_sequence_seed": seeds[0], "names": names, "calls": cs, "sequences_in_case": d.N}
	return res
}

func post(a *core.Agg) string {
	for _, b := range []string{"memory", "secrets/fake", "configmaps/fake", "secrets/sim", "configmaps/sim"} {
		if a.Stats["calls_compared_"+b] < 1000 {
			return fmt.Sprintf("backend %s: only %d calls compared", b, a.Stats["calls_compared_"+b])
		}
	}
	wb := a.Stats["write_back_updates/list"] + a.Stats["write_back_updates/query"] + a.Stats["write_back_updates/history"] + a.Stats["write_back_updates/last"]
	if wb < 50 || a.Stats["upgrade_shaped_write_backs"] < 50 {
		return fmt.Sprintf("too few write-back sequences: %d updates of obtained releases, %d upgrade-shaped sequences", wb, a.Stats["upgrade_shaped_write_backs"])
	}
	if a.Stats["failing_calls_expected"] < 100 || a.Stats["multi_match_queries"] < 100 || a.Stats["round_trips_equal"] < 1000 {
		return fmt.Sprintf("too few relevant events: failing calls %d, multi-match queries %d, equal round trips %d", a.Stats["failing_calls_expected"], a.Stats["multi_match_queries"], a.Stats["round_trips_equal"])
	}
	if a.Stats["identical_content/create_on_stored_key_byte_identical_record"] < 40 || a.Stats["identical_content/update_of_stored_key"] < 15 || a.Stats["identical_content/create_of_last_deleted_content"] < 15 {
		return fmt.Sprintf("too few writes with content identical to what their key holds/held: creates on a stored key %d (byte-identical record %d), updates %d, creates of the last deleted content %d",
			a.Stats["identical_content/create_on_stored_key"], a.Stats["identical_content/create_on_stored_key_byte_identical_record"], a.Stats["identical_content/update_of_stored_key"], a.Stats["identical_content/create_of_last_deleted_content"])
	}
	return ""
}
