package c10

import (
	"fmt"
	"math/rand"
	"strings"
	"time"

	chart "helm.sh/helm/v4/pkg/chart/v2"
	release "helm.sh/helm/v4/pkg/release/v1"
	helmtime "helm.sh/helm/v4/pkg/time"
)

var allStatuses = []release.Status{
	release.StatusUnknown, release.StatusDeployed, release.StatusUninstalled, release.StatusSuperseded,
	release.StatusFailed, release.StatusUninstalling, release.StatusPendingInstall,
	release.StatusPendingUpgrade, release.StatusPendingRollback,
}

var unicodeBits = []string{
	"plain", "käse", "日本語のテキスト", "emoji 🚀🔥", "tab\there", "quote\"s and \\ backslash", "<html>&amp;</html>",
	"line1\nline2\r\nline3", "zero-width​joiner", "rtl ‮abc", "nul-free control \x01\x1f", "  line sep  ",
	"", " leading and trailing ", "{{ .Values.x }}", "---", "null", "~", "0x1f",
}

func pick[T any](rng *rand.Rand, xs []T) T { return xs[rng.Intn(len(xs))] }

func ustr(rng *rand.Rand) string {
	n := 1 + rng.Intn(3)
	var p []string
	for i := 0; i < n; i++ {
		p = append(p, pick(rng, unicodeBits))
	}
	return strings.Join(p, " ")
}

func genTime(rng *rand.Rand) time.Time {
	switch rng.Intn(6) {
	case 0:
		return time.Time{}
	case 1:
		return time.Date(2020+rng.Intn(10), time.Month(1+rng.Intn(12)), 1+rng.Intn(28), rng.Intn(24), rng.Intn(60), rng.Intn(60), 0, time.UTC)
	case 2:
		loc := time.FixedZone("", (rng.Intn(27)-12)*3600+pick(rng, []int{0, 1800, 2700}))
		return time.Date(2019+rng.Intn(10), time.Month(1+rng.Intn(12)), 1+rng.Intn(28), rng.Intn(24), rng.Intn(60), rng.Intn(60), rng.Intn(1e9), loc)
	case 3:
		return time.Unix(rng.Int63n(4e9), rng.Int63n(1e9)).In(time.FixedZone("X", -5*3600))
	case 4:
		return time.Date(1+rng.Intn(9998), 12, 31, 23, 59, 59, 999999999, time.UTC)
	}
	return time.Unix(rng.Int63n(2e9), 0).UTC()
}

func htime(rng *rand.Rand) helmtime.Time { return helmtime.Time{Time: genTime(rng)} }

// genDyn generates a JSON-representable dynamic tree: maps, lists, strings, bools, nulls,
// ints within +-2^53 and finite floats (numbers outside are not exactly representable after a
// JSON round trip into interface{}: don't-care zone).
func genDyn(rng *rand.Rand, depth int) any {
	k := rng.Intn(10)
	if depth <= 0 && k < 4 {
		k = 4 + rng.Intn(6)
	}
	switch k {
	case 0, 1:
		n := rng.Intn(4)
		m := map[string]any{}
		for i := 0; i < n; i++ {
			m[pick(rng, []string{"a", "b", "image", "tag", "enabled", "nested", "käse", "with.dot", "with space", "", "0", "global", "list"})] = genDyn(rng, depth-1)
		}
		return m
	case 2, 3:
		n := rng.Intn(4)
		l := make([]any, n)
		for i := range l {
			l[i] = genDyn(rng, depth-1)
		}
		return l
	case 4:
		return nil
	case 5:
		return rng.Intn(2) == 0
	case 6:
		return pick(rng, []int{0, 1, -1, 80, 8080, 1 << 31, -(1 << 40)})
	case 7:
		return pick(rng, []int64{1<<53 - 1, -(1<<53 - 1), 1234567890123, 0})
	case 8:
		return pick(rng, []float64{0.5, -1.25, 3.141592653589793, 1e21, 1e-7, 2.5e10, 0.1, 1.7976931348623157e308, 5e-324})
	}
	return ustr(rng)
}

func genDynMap(rng *rand.Rand, depth int) map[string]any {
	switch rng.Intn(8) {
	case 0:
		return nil
	case 1:
		return map[string]any{}
	}
	m := map[string]any{}
	n := 1 + rng.Intn(5)
	for i := 0; i < n; i++ {
		m[fmt.Sprintf("%s%d", pick(rng, []string{"k", "svc", "ingress", "résumé", "x.y", "_"}), i)] = genDyn(rng, depth)
	}
	if rng.Intn(4) == 0 {
		// deep chain
		var cur any = "leaf"
		for i := 0; i < 20+rng.Intn(60); i++ {
			if rng.Intn(2) == 0 {
				cur = map[string]any{"d": cur}
			} else {
				cur = []any{cur}
			}
		}
		m["deep"] = cur
	}
	return m
}

func genBytes(rng *rand.Rand) []byte {
	switch rng.Intn(5) {
	case 0:
		return nil
	case 1:
		return []byte{}
	case 2:
		b := make([]byte, 1+rng.Intn(300))
		rng.Read(b)
		return b
	}
	return []byte(ustr(rng) + "\n{{ .Release.Name }}\n" + ustr(rng))
}

func genFiles(rng *rand.Rand, prefix string) []*chart.File {
	switch rng.Intn(5) {
	case 0:
		return nil
	case 1:
		return []*chart.File{}
	}
	n := 1 + rng.Intn(4)
	var fs []*chart.File
	for i := 0; i < n; i++ {
		fs = append(fs, &chart.File{Name: fmt.Sprintf("%s%s%d.yaml", prefix, pick(rng, []string{"deploy", "svc", "_helpers", "ünï", "sub/dir/x"}), i), Data: genBytes(rng)})
	}
	return fs
}

func genDeps(rng *rand.Rand) []*chart.Dependency {
	if rng.Intn(3) == 0 {
		return nil
	}
	n := 1 + rng.Intn(3)
	var ds []*chart.Dependency
	for i := 0; i < n; i++ {
		d := &chart.Dependency{Name: fmt.Sprintf("dep%d", i), Version: pick(rng, []string{"1.2.3", "^1.0.0", ">=1 <2", ""}), Repository: pick(rng, []string{"https://example.com/charts", "file://../x", "@alias", ""}),
			Condition: pick(rng, []string{"", "dep.enabled", "a.b,c.d"}), Enabled: rng.Intn(2) == 0, Alias: pick(rng, []string{"", "al-ias_1"})}
		if rng.Intn(2) == 0 {
			d.Tags = []string{"front", ustr(rng)}
		}
		switch rng.Intn(4) {
		case 0:
			d.ImportValues = []any{"data", "exports2"}
		case 1:
			d.ImportValues = []any{map[string]any{"child": "a.b", "parent": "c"}, "plain"}
		case 2:
			d.ImportValues = []any{}
		}
		ds = append(ds, d)
	}
	return ds
}

func genChart(rng *rand.Rand) *chart.Chart {
	md := &chart.Metadata{
		Name: pick(rng, []string{"mychart", "a", "chart-with-dash", "c123"}), Version: pick(rng, []string{"0.1.0", "1.2.3-rc.1+build.5", "10.20.30"}),
		APIVersion: pick(rng, []string{"v1", "v2"}), Description: ustr(rng), Home: pick(rng, []string{"", "https://example.com"}),
		Icon: pick(rng, []string{"", "https://example.com/i.png"}), AppVersion: pick(rng, []string{"", "1.0", "v2.0.0-beta"}), Deprecated: rng.Intn(4) == 0,
		KubeVersion: pick(rng, []string{"", ">=1.20.0-0"}), Type: pick(rng, []string{"", "application", "library"}),
		Condition: pick(rng, []string{"", "x.enabled"}), Tags: pick(rng, []string{"", "t1,t2"}),
	}
	if rng.Intn(2) == 0 {
		md.Sources = []string{"https://github.com/x/y", ustr(rng)}
		md.Keywords = []string{"kw", ustr(rng)}
	}
	if rng.Intn(2) == 0 {
		md.Maintainers = []*chart.Maintainer{{Name: ustr(rng), Email: "a@b.c"}, {Name: "n2", URL: "https://x"}}
	}
	if rng.Intn(2) == 0 {
		md.Annotations = map[string]string{"category": ustr(rng), "artifacthub.io/changes": "- a\n- b\n", "empty": ""}
	}
	md.Dependencies = genDeps(rng)
	ch := &chart.Chart{Metadata: md, Templates: genFiles(rng, "templates/"), Files: genFiles(rng, ""), Values: genDynMap(rng, 3)}
	if rng.Intn(3) == 0 {
		ch.Lock = &chart.Lock{Generated: genTime(rng), Digest: "sha256:" + fmt.Sprintf("%064x", rng.Int63()), Dependencies: genDeps(rng)}
	}
	switch rng.Intn(4) {
	case 0:
		ch.Schema = []byte(`{"$schema":"http://json-schema.org/draft-07/schema#","type":"object","properties":{"a":{"type":"string","description":"` + "käse" + `"}}}`)
	case 1:
		ch.Schema = genBytes(rng)
	}
	return ch
}

func genHooks(rng *rand.Rand) []*release.Hook {
	if rng.Intn(2) == 0 {
		return nil
	}
	n := 1 + rng.Intn(3)
	var hs []*release.Hook
	evs := []release.HookEvent{release.HookPreInstall, release.HookPostInstall, release.HookPreDelete, release.HookPostDelete, release.HookPreUpgrade, release.HookPostUpgrade, release.HookPreRollback, release.HookPostRollback, release.HookTest}
	for i := 0; i < n; i++ {
		h := &release.Hook{Name: fmt.Sprintf("hook-%d", i), Kind: pick(rng, []string{"Job", "Pod", "ConfigMap"}), Path: "templates/hook.yaml", Manifest: "kind: Job\nmetadata:\n  name: " + ustr(rng) + "\n",
			Weight:  pick(rng, []int{0, -5, 5, 1 << 30}),
			LastRun: release.HookExecution{StartedAt: htime(rng), CompletedAt: htime(rng), Phase: pick(rng, []release.HookPhase{release.HookPhaseUnknown, release.HookPhaseRunning, release.HookPhaseSucceeded, release.HookPhaseFailed, ""})}}
		for j := 0; j < 1+rng.Intn(3); j++ {
			h.Events = append(h.Events, pick(rng, evs))
		}
		if rng.Intn(2) == 0 {
			h.DeletePolicies = []release.HookDeletePolicy{release.HookSucceeded, release.HookBeforeHookCreation}
		}
		if rng.Intn(3) == 0 {
			h.OutputLogPolicies = []release.HookOutputLogPolicy{release.HookOutputOnFailed}
		}
		hs = append(hs, h)
	}
	return hs
}

func genManifest(rng *rand.Rand) string {
	switch rng.Intn(genManifestDie) {
	case 0:
		// multi-MB, highly compressible
		return strings.Repeat("# filler line käse 日本語 ------------------------------------------------\n", 12000+rng.Intn(20000))
	case 1:
		return ""
	case 2, 3:
		var sb strings.Builder
		for i := 0; i < 200; i++ {
			fmt.Fprintf(&sb, "---\n# Source: x/templates/cm%d.yaml\napiVersion: v1\nkind: ConfigMap\nmetadata:\n  name: cm-%d\ndata:\n  k: %q\n", i, i, ustr(rng))
		}
		return sb.String()
	}
	return "---\n# Source: mychart/templates/a.yaml\napiVersion: v1\nkind: ConfigMap\nmetadata:\n  name: x\ndata:\n  text: " + fmt.Sprintf("%q", ustr(rng)) + "\n"
}

var labelKeys = []string{"team", "env", "app.kubernetes.io/part-of", "example.com/tier", "a", "x_y.z-1"}
var labelVals = []string{"", "a", "prod", "blue-green_1.2", "0", "A1", strings.Repeat("v", 63)}

func genLabels(rng *rand.Rand) map[string]string {
	switch rng.Intn(5) {
	case 0:
		return nil
	case 1:
		return map[string]string{}
	}
	m := map[string]string{}
	n := 1 + rng.Intn(4)
	for i := 0; i < n; i++ {
		m[pick(rng, labelKeys)] = pick(rng, labelVals)
	}
	return m
}

// mkRelease is a pure function of its arguments: calling it twice yields two independent but
// equal releases (one is handed to a backend, another to the reference map) so that the harness
// never shares a pointer with a driver.
func mkRelease(name, ns string, rev int, status release.Status, cseed int64) *release.Release {
	rng := rand.New(rand.NewSource(cseed))
	return &release.Release{
		Name: name, Namespace: ns, Version: rev,
		Info:     &release.Info{FirstDeployed: htime(rng), LastDeployed: htime(rng), Deleted: htime(rng), Description: ustr(rng), Status: status, Notes: pick(rng, []string{"", ustr(rng)})},
		Chart:    genChart(rng),
		Config:   genDynMap(rng, 4),
		Manifest: genManifest(rng),
		Hooks:    genHooks(rng),
		Labels:   genLabels(rng),
	}
}

// ---------------------------------------------------------------- names

const alnum = "abcdefghijklmnopqrstuvwxyz0123456789"

func randLabel(rng *rand.Rand, n int) string {
	b := make([]byte, n)
	for i := range b {
		if i > 0 && i < n-1 && rng.Intn(6) == 0 {
			b[i] = '-'
		} else {
			b[i] = alnum[rng.Intn(len(alnum))]
		}
	}
	return string(b)
}

// genName draws from the release-name grammar (DNS-1123 subdomain, <= 53 chars).
func genName(rng *rand.Rand) string {
	switch rng.Intn(14) {
	case 0:
		return pick(rng, []string{"my.v2app", "a.v1.v1", "x.v1", "app.v10", "rel.v0", "a.vb", "my.vault", "svc.v2.backend"})
	case 1:
		return pick(rng, []string{"v1", "v1.v2", "v", "0", "1", "42", "007"})
	case 2:
		// 53 chars
		return randLabel(rng, 53)
	case 3:
		// 53 chars with dots
		return randLabel(rng, 10) + "." + randLabel(rng, 20) + "." + randLabel(rng, 21)
	case 4:
		// digits only, up to 53
		n := pick(rng, []int{1, 5, 53})
		b := make([]byte, n)
		for i := range b {
			b[i] = byte('0' + rng.Intn(10))
		}
		return string(b)
	case 5:
		return pick(rng, []string{"sh.helm.release.v1.x", "sh.helm.release.v1", "helm", "release.v1"})
	case 6:
		// 53 chars ending in .v<digits>
		return randLabel(rng, 49) + ".v" + fmt.Sprint(10+rng.Intn(90))
	case 7:
		return randLabel(rng, 3) + "." + randLabel(rng, 2)
	case 8:
		return "a-b.c-d"
	}
	return pick(rng, []string{"app", "web", "db", "my-release", "app2", "a", "x1", "front-end"})
}

func nameShape(n string) string {
	digits := true
	for _, c := range n {
		if c < '0' || c > '9' {
			digits = false
		}
	}
	s := "plain"
	switch {
	case strings.Contains(n, ".v"):
		s = "contains-.v"
	case strings.Contains(n, "."):
		s = "dotted"
	case digits:
		s = "digits-only"
	}
	if len(n) == 53 {
		s += "+53chars"
	}
	return s
}

var genManifestDie = 60
