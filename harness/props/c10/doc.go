// Package c10: monitor for property C10 (see DESIGN.md section 3).
package c10
