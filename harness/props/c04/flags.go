package c04

import (
	"encoding/json"
	"fmt"
	"math/rand"
	"os"
	"path/filepath"
	"sort"
	"strings"

	"sigs.k8s.io/yaml"

	"helm.sh/helm/v4/pkg/cli/values"
	"helm.sh/helm/v4/pkg/getter"

	"helm.sh/helm/v4/verifh/core"
	"helm.sh/helm/v4/verifh/gen"
	"helm.sh/helm/v4/verifh/ref"
)

// families in ascending precedence, as the property states them
var families = []string{"file", "set-json", "set", "set-string", "set-file", "set-literal"}

// source is one command-line value source in structured form.
type source struct {
	Family string           `json:"family"`
	Docs   []map[string]any `json:"docs,omitempty"` // file: YAML documents in order
	Obj    map[string]any   `json:"obj,omitempty"`  // set-json object form
	Ops    []ref.SetOp      `json:"ops,omitempty"`  // one flag = comma-joined expressions
}

type flagInput struct {
	Sources []source
}

func genFlagInput(rng *rand.Rand) flagInput {
	var in flagInput
	cur := map[string]any{} // expected tree so far; used only to aim later sources at existing paths
	keys := gen.PlainKeys
	conflictPct := 0
	if rng.Intn(10) == 0 {
		conflictPct = 30
	}
	apply := func(s source) {
		in.Sources = append(in.Sources, s)
		applySource(cur, s)
	}
	nfiles := rng.Intn(4)
	for i := 0; i < nfiles; i++ {
		s := source{Family: "file"}
		nd := 1
		if rng.Intn(4) == 0 {
			nd = 2 + rng.Intn(2)
		}
		for j := 0; j < nd; j++ {
			s.Docs = append(s.Docs, gen.Tree(rng, gen.TreeOpts{Keys: keys, Depth: 3, Nulls: true, Lists: true}))
		}
		apply(s)
	}
	for _, fam := range families[1:] {
		n := rng.Intn(4)
		if fam == "set-file" || fam == "set-literal" {
			n = rng.Intn(3)
		}
		for i := 0; i < n; i++ {
			s := source{Family: fam}
			if fam == "set-json" && rng.Intn(2) == 0 {
				s.Obj = gen.Tree(rng, gen.TreeOpts{Keys: keys, Depth: 3, Nulls: true, Lists: true})
				apply(s)
				continue
			}
			ne := 1
			if fam != "set-literal" && rng.Intn(3) == 0 {
				ne = 2 + rng.Intn(2)
			}
			// expressions of one flag are applied left to right
			tmp := ref.CanonMap(cur)
			for e := 0; e < ne; e++ {
				op := gen.SetOpFor(rng, tmp, fam, rng.Intn(4) == 0, conflictPct)
				s.Ops = append(s.Ops, op)
				ref.ApplySet(tmp, op)
			}
			apply(s)
		}
	}
	return in
}

// applySource folds one source into the expected tree; conflict = type conflict zone.
func applySource(cur map[string]any, s source) (conflict bool) {
	replace := func(m map[string]any) {
		for k := range cur {
			delete(cur, k)
		}
		for k, v := range m {
			cur[k] = v
		}
	}
	switch {
	case s.Family == "file":
		// the documents of one file are merged among themselves first; the file then merges over what came before
		acc := map[string]any{}
		for _, d := range s.Docs {
			acc = ref.MergeKeep(ref.CanonMap(d), acc)
		}
		replace(ref.MergeKeep(acc, cur))
	case s.Obj != nil:
		replace(ref.MergeKeep(ref.CanonMap(s.Obj), cur))
	default:
		for _, op := range s.Ops {
			if ref.ApplySet(cur, op) {
				return true
			}
		}
	}
	return false
}

// contribution lists the leaf paths a source defines itself (display paths).
func contribution(s source) map[string]any {
	out := map[string]any{}
	switch {
	case s.Family == "file":
		acc := map[string]any{}
		for _, d := range s.Docs {
			acc = ref.MergeKeep(ref.CanonMap(d), acc)
		}
		ref.Flatten(acc, "", out)
	case s.Obj != nil:
		ref.Flatten(ref.CanonMap(s.Obj), "", out)
	default:
		for _, op := range s.Ops {
			p := ""
			for _, sg := range op.Path {
				if sg.IsIdx {
					p += fmt.Sprintf("[%d]", sg.Idx)
				} else {
					p = ref.PathJoin(p, sg.Key)
				}
			}
			ref.Flatten(ref.Canon(op.Val), p, out)
		}
	}
	return out
}

type builtFlags struct {
	opts  values.Options
	files map[string]string // path -> content (for the detail text and the unchanged check)
	desc  []string
	feats []string
}

func buildFlags(dir string, in flagInput, res *core.Result) builtFlags {
	b := builtFlags{files: map[string]string{}}
	nf := 0
	write := func(content string) string {
		nf++
		p := filepath.Join(dir, fmt.Sprintf("f%d.yaml", nf))
		if err := os.WriteFile(p, []byte(content), 0o600); err != nil {
			panic(err)
		}
		b.files[p] = content
		return p
	}
	for _, s := range in.Sources {
		switch {
		case s.Family == "file":
			var docs []string
			for _, d := range s.Docs {
				y, err := yaml.Marshal(d)
				if err != nil {
					panic(err)
				}
				docs = append(docs, string(y))
			}
			content := strings.Join(docs, "---\n")
			if len(docs) > 1 {
				res.Stat("flags_multidoc_files", 1)
			}
			p := write(content)
			b.opts.ValueFiles = append(b.opts.ValueFiles, p)
			b.desc = append(b.desc, fmt.Sprintf("-f <<%s>>", strings.ReplaceAll(strings.TrimSpace(content), "\n", "\\n")))
		case s.Obj != nil:
			j, _ := json.Marshal(s.Obj)
			txt := string(j)
			if len(txt)%2 == 0 {
				txt = "  " + txt + " " // MergeValues trims blanks before looking for '{'
			}
			b.opts.JSONValues = append(b.opts.JSONValues, txt)
			b.desc = append(b.desc, "--set-json '"+txt+"'")
		default:
			var exprs []string
			for _, op := range s.Ops {
				var e string
				var f ref.Features
				if s.Family == "set-file" {
					p := write(op.Val.(string))
					e, f = op.ExprWithValue(p)
				} else {
					e, f = op.Expr(s.Family)
				}
				exprs = append(exprs, e)
				if fs := f.String(); fs != "plain" {
					b.feats = append(b.feats, s.Family+":"+fs)
				}
			}
			flag := strings.Join(exprs, ",")
			switch s.Family {
			case "set-json":
				b.opts.JSONValues = append(b.opts.JSONValues, flag)
			case "set":
				b.opts.Values = append(b.opts.Values, flag)
			case "set-string":
				b.opts.StringValues = append(b.opts.StringValues, flag)
			case "set-file":
				b.opts.FileValues = append(b.opts.FileValues, flag)
			case "set-literal":
				b.opts.LiteralValues = append(b.opts.LiteralValues, flag)
			}
			b.desc = append(b.desc, "--"+s.Family+" '"+flag+"'")
		}
	}
	return b
}

func runFlags(res *core.Result, d caseData, verbose bool) {
	root, err := os.MkdirTemp("", "c04-flags-")
	if err != nil {
		panic(err)
	}
	defer os.RemoveAll(root)
	var sample any
	for i := 0; i < d.N; i++ {
		if d.Only >= 0 && i != d.Only {
			continue
		}
		rng := inputRng(d, i)
		in := genFlagInput(rng)
		dir := filepath.Join(root, fmt.Sprint(i))
		if err := os.Mkdir(dir, 0o700); err != nil {
			panic(err)
		}
		b := buildFlags(dir, in, res)
		res.Evals++

		// expected user values: left fold in the documented order; track who owns each path
		exp := map[string]any{}
		conflict := false
		type write struct {
			fam string
			val any
		}
		writes := map[string][]write{}
		collPairs := map[string]bool{}
		for _, s := range in.Sources {
			for p, v := range contribution(s) {
				if ws := writes[p]; len(ws) > 0 {
					collPairs[ws[len(ws)-1].fam+"<"+s.Family] = true
				}
				writes[p] = append(writes[p], write{s.Family, v})
			}
			if applySource(exp, s) {
				conflict = true
				break
			}
		}

		optsBefore := ref.J(b.opts)
		var got map[string]any
		var gerr error
		panicked := core.Guard(res, "values.Options.MergeValues on "+strings.Join(b.desc, " "), func() {
			got, gerr = b.opts.MergeValues(getter.Providers{})
		})
		os.RemoveAll(dir)
		if panicked {
			continue
		}
		input := func() string { return fmt.Sprintf("input #%d: helm ... %s", i, strings.Join(b.desc, " ")) }
		if verbose {
			fmt.Printf("%s\n  expected: %s\n  observed: %s err=%v (type-conflict zone: %v)\n", input(), ref.J(exp), ref.J(ref.Canon(got)), gerr, conflict)
		}
		if optsBefore != ref.J(b.opts) {
			res.Add("caller-input-modified", "values.Options slices", "MergeValues modified its Options | %s", input())
		}
		if conflict {
			res.Stat("flags_type_conflict_inputs(dont_care)", 1)
			if gerr == nil {
				// helm chose to produce a result: fine, the partial/forced state is not judged
			}
			continue
		}
		if gerr != nil {
			res.Add("documented-input-rejected", "MergeValues error on conflict-free input: "+firstWords(gerr.Error(), 4), "%v | %s | expected %s", gerr, input(), ref.J(exp))
			continue
		}
		var diffs []ref.Difference
		var compared int64
		ref.Diff(exp, ref.Canon(got), "", &diffs, &compared)
		res.Stat("flags_paths_compared", compared)
		// MergeValues output is the user-supplied layer: nulls must still be there (they delete defaults later)
		if !ref.Equal(exp, ref.Canon(got)) && len(diffs) == 0 {
			res.Add("user-null-lost", "explicit null dropped from MergeValues output", "expected %s observed %s | %s", ref.J(exp), ref.J(ref.Canon(got)), input())
		}
		for _, df := range diffs {
			if isEmptyTailShape(in, df.Path) {
				res.Add("set-changes-exactly-its-path", emptyTailClass, "%s | %s | expected %s observed %s", df, input(), ref.J(exp), ref.J(ref.Canon(got)))
				break
			}
			expOwner, actOwner := "none", "none"
			if ws := writes[df.Path]; len(ws) > 0 {
				expOwner = ws[len(ws)-1].fam
				for k := len(ws) - 2; k >= 0; k-- {
					if ref.Equal(ws[k].val, df.Act) {
						actOwner = ws[k].fam
						break
					}
				}
			}
			res.Add("precedence", fmt.Sprintf("%s: path owned by %s shows value of %s", df.Kind, expOwner, actOwner), "%s | %s | expected %s observed %s", df, input(), ref.J(exp), ref.J(ref.Canon(got)))
			break
		}
		if len(collPairs) > 0 {
			res.Stat("flags_inputs_with_collisions", 1)
			res.Stat("flags_colliding_family_pairs", int64(len(collPairs)))
			pl := gen.SortedKeys(collPairs)
			for _, p := range pl {
				res.Key("flags|collision %s", p)
			}
			if len(pl) >= 3 {
				res.Key("flags|%s", strings.Join(pl, " "))
			}
		}
		sort.Strings(b.feats)
		for _, f := range b.feats {
			res.Key("flags|expr %s", f)
		}
		res.Stat("flags_exprs_with_grammar_features", int64(len(b.feats)))
		if sample == nil && len(collPairs) >= 3 {
			sample = map[string]any{"stratum": "flags", "command_line": strings.Join(b.desc, " "), "colliding_pairs": ps(collPairs), "expected": exp, "observed": ref.Canon(got)}
		}
	}
	res.Sample = sample
}

// emptyTailClass: a recognised cause shape with its own signature — the last expression of a --set /
// --set-string line assigns an empty value to a key below a list index (`l[1].k=`): helm drops it.
const emptyTailClass = "--set/--set-string: empty value at the end of the line below a list index (a[i].k=) is dropped"

func emptyTailOp(fam string, ops []ref.SetOp) (string, bool) {
	if (fam != "set" && fam != "set-string") || len(ops) == 0 {
		return "", false
	}
	op := ops[len(ops)-1]
	if s, ok := op.Val.(string); !ok || s != "" {
		return "", false
	}
	idx := -1
	for i, sg := range op.Path {
		if sg.IsIdx {
			idx = i
		}
	}
	if idx < 0 || idx == len(op.Path)-1 {
		return "", false
	}
	return displayPath(ref.SetOp{Path: op.Path[:1]}), true
}

func isEmptyTailShape(in flagInput, path string) bool {
	for _, s := range in.Sources {
		if top, ok := emptyTailOp(s.Family, s.Ops); ok && (path == top || strings.HasPrefix(path, top+".") || strings.HasPrefix(path, top+"[")) {
			return true
		}
	}
	return false
}

func ps(m map[string]bool) []string { return gen.SortedKeys(m) }

func firstWords(s string, n int) string {
	f := strings.Fields(s)
	if len(f) > n {
		f = f[:n]
	}
	return strings.Join(f, " ")
}
