// Package c04: every value comes from the highest-precedence source that defines it.
//
// Three strata of generated inputs, all judged by the tiny reference in ref/merge.go + ref/setref.go:
//
//	flags   values.Options.MergeValues with real temp files: 0-3 -f files (multi-document included),
//	        --set-json (object and k=json form), --set, --set-string, --set-file, --set-literal, all
//	        aimed at one small key alphabet so that collisions between families are the norm.
//	grammar strvals.ParseInto / ParseIntoString / ParseJSON / ParseLiteralInto / ParseIntoFile on a
//	        pre-populated destination; structured operations (escaped keys, indexes incl. nested and
//	        sparse, typed literals, {a,b} lists) are printed in the documented grammar and the parsed
//	        result must equal the structured operation applied to a copy (whole-tree equality =
//	        "changes exactly the path it names and nothing else").
//	charts  chart trees to depth 3 with defaults at every level, parent sections for subcharts and
//	        user values with nulls and type flips; observed at chartutil.CoalesceValues (fresh chart)
//	        and at ProcessDependencies + ToRenderValues()["Values"] (the action pipeline), in every
//	        chart scope; plus non-mutation of chart defaults / caller maps and an aliasing probe
//	        (poison the result, re-check the inputs).
//
// Don't-care zones (nothing is demanded there):
//   - a user null on a path that has no default: helm keeps a nil, the property only speaks of removing
//     a default (ref.Diff accepts nil or absent where the reference has a null);
//   - a null that only masks a *parent's section* default (not the chart's own default) may stay nil;
//   - set-expressions whose path conflicts in type with existing data (scalar/null where a map or
//     list is needed, ...): helm must return an error or the reference result, never crash; the
//     partial state after an error is not judged;
//   - undocumented grammar is not generated: floats, +5, 1e3, empty lists {}, empty keys, negative
//     indexes, value lists in --set-file, `global` (C11 owns globals), subchart sections that are
//     not tables, import-values.
package c04

import (
	"fmt"
	"math/rand"

	"helm.sh/helm/v4/verifh/core"
	"helm.sh/helm/v4/verifh/env"
)

type caseData struct {
	Stratum string `json:"stratum"` // flags | grammar | charts
	Seed    int64  `json:"seed"`
	N       int    `json:"n"`
	// Only: replay aid — run just this input index
	Only int `json:"only,omitempty"`
}

func init() {
	core.Register(&core.Prop{
		ID:    "C04",
		Level: "exploration",
		Rule: "seeded inputs in three strata (flags: Options.MergeValues over real temp files and all six flag families; grammar: strvals parsers on a pre-populated destination vs a structured reference; charts: CoalesceValues / ProcessDependencies+ToRenderValues on chart trees to depth 3 with nulls, type flips, non-mutation and aliasing probes). " +
			"Each case batches several hundred inputs (evaluations counts inputs). distinct_nontrivial counts distinct shapes of inputs in which at least two sources define the same path (which family pairs collide), or the set-expression uses an escape / index / typed literal / list (feature combination per flag family), or a chart scope sees a null deletion / type flip / parent-section override (per depth).",
		Assumptions: []string{
			"the reference merge (ref.MergeKeep / ref.ApplyDefaults, 60 lines) and the structured set reference (ref.ApplySet, 90 lines) state the property's precedence rules",
			"numbers are compared numerically (json.Number, int64, float64 unified)",
			"an expected null accepts nil or absent (the property only speaks of removing a default)",
		},
		Gen:            genCases,
		Run:            run,
		Post:           post,
		CaseTimeoutSec: 600,
	})
}

func genCases(seed int64, tier string) []core.Case {
	rng := rand.New(rand.NewSource(seed*104729 + 4))
	nf, ng, nc, per := 16, 16, 16, 500
	if tier == "thorough" {
		nf, ng, nc, per = 160, 320, 320, 2500
	}
	var out []core.Case
	for i := 0; i < nf; i++ {
		out = append(out, core.Case{ID: fmt.Sprintf("flags-%d", i), Data: core.J(caseData{Stratum: "flags", Seed: rng.Int63(), N: per, Only: -1})})
	}
	for i := 0; i < ng; i++ {
		out = append(out, core.Case{ID: fmt.Sprintf("grammar-%d", i), Data: core.J(caseData{Stratum: "grammar", Seed: rng.Int63(), N: per * 4, Only: -1})})
	}
	for i := 0; i < nc; i++ {
		out = append(out, core.Case{ID: fmt.Sprintf("charts-%d", i), Data: core.J(caseData{Stratum: "charts", Seed: rng.Int63(), N: per, Only: -1})})
	}
	return out
}

func run(c core.Case, verbose bool) core.Result {
	env.Quiet()
	var d caseData
	core.U(c, &d)
	var res core.Result
	switch d.Stratum {
	case "flags":
		runFlags(&res, d, verbose)
	case "grammar":
		runGrammar(&res, d, verbose)
	case "charts":
		runCharts(&res, d, verbose)
	default:
		panic("unknown stratum " + d.Stratum)
	}
	return res
}

// inputRng derives the generator of input i of a case (so that a single input can be replayed).
func inputRng(d caseData, i int) *rand.Rand {
	return rand.New(rand.NewSource(d.Seed ^ int64(i+1)*0x9E3779B97F4A7C))
}

func post(a *core.Agg) string {
	need := map[string]int64{
		"flags_inputs_with_collisions":          200,
		"flags_paths_compared":                  5000,
		"grammar_exprs_with_escape":             500,
		"grammar_exprs_with_index":              500,
		"grammar_exprs_with_typed_literal":      500,
		"charts_null_deletions_checked":         200,
		"charts_scopes_compared":                2000,
		"charts_aliasing_probes":                500,
		"charts_default_lists_of_tables_probed": 500,
		"flags_multidoc_files":                  100,
	}
	for k, min := range need {
		if a.Stats[k] < min {
			return fmt.Sprintf("monitor saw too little: %s = %d < %d", k, a.Stats[k], min)
		}
	}
	return ""
}
