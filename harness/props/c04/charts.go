package c04

import (
	"fmt"
	"math/rand"
	"strings"

	"sigs.k8s.io/yaml"

	chart "helm.sh/helm/v4/pkg/chart/v2"
	chartutil "helm.sh/helm/v4/pkg/chart/v2/util"

	"helm.sh/helm/v4/verifh/core"
	"helm.sh/helm/v4/verifh/gen"
	"helm.sh/helm/v4/verifh/ref"
)

// node is one chart of a generated tree.
type node struct {
	Name     string
	Defaults map[string]any
	Children []*node
}

func (n *node) subNames() map[string]bool {
	m := map[string]bool{}
	for _, c := range n.Children {
		m[c.Name] = true
	}
	return m
}

var chartKeys = []string{"a", "b", "c", "k1", "m", "l"}

// section generates values for chart n as seen from above: its own keys plus sections for its children.
func section(rng *rand.Rand, n *node, nulls bool, density int) map[string]any {
	out := gen.Tree(rng, gen.TreeOpts{Keys: chartKeys, Depth: 3, Nulls: nulls, Lists: true, MaxKeys: 5})
	for _, c := range n.Children {
		if rng.Intn(100) < density {
			out[c.Name] = section(rng, c, nulls, density)
		}
	}
	return out
}

func genTree(rng *rand.Rand) (*node, map[string]any) {
	root := &node{Name: "top"}
	nc := rng.Intn(3)
	for i := 0; i < nc; i++ {
		c := &node{Name: fmt.Sprintf("s%d", i+1)}
		ng := rng.Intn(3)
		if ng == 2 && rng.Intn(2) == 0 {
			ng = 1
		}
		for j := 0; j < ng; j++ {
			c.Children = append(c.Children, &node{Name: fmt.Sprintf("g%d", j+1)})
		}
		root.Children = append(root.Children, c)
	}
	var fill func(n *node)
	fill = func(n *node) {
		// own defaults incl. (often) sections for the children: "the parent chart's section for a subchart"
		n.Defaults = section(rng, n, rng.Intn(4) == 0, 60)
		// lists of tables / lists of lists that no user value ever overrides (key "lt" is not in the
		// shared alphabet): the rendered values must not share them with the chart's stored defaults
		if rng.Intn(3) > 0 {
			n.Defaults["lt"] = []any{
				map[string]any{"name": n.Name + "-0", "ports": []any{float64(80), map[string]any{"p": float64(443)}}},
				[]any{"in", []any{"deep", map[string]any{"k": n.Name}}},
				"tail",
			}
			if rng.Intn(2) == 0 {
				n.Defaults["mt"] = map[string]any{"inner": []any{map[string]any{"a": float64(1)}, []any{float64(2)}}}
			}
		}
		for _, c := range n.Children {
			fill(c)
		}
	}
	fill(root)
	user := section(rng, root, true, 70)
	if rng.Intn(12) == 0 {
		user = map[string]any{}
	}
	if rng.Intn(2) == 0 {
		user["ul"] = []any{map[string]any{"u": []any{"x", map[string]any{"y": float64(1)}}}, []any{"z"}} // caller-side list of tables
	}
	// aim explicit nulls at paths that do have a default (own values.yaml of some chart of the tree)
	for k := rng.Intn(3); k > 0; k-- {
		n, sec := root, user
		for len(n.Children) > 0 && rng.Intn(2) == 0 {
			c := gen.Pick(rng, n.Children)
			next, ok := sec[c.Name].(map[string]any)
			if !ok {
				next = map[string]any{}
				sec[c.Name] = next
			}
			n, sec = c, next
		}
		defs := n.Defaults
		for depth := 0; depth < 3; depth++ {
			var ks []string
			for _, key := range gen.SortedKeys(defs) {
				if !n.subNames()[key] || depth > 0 {
					ks = append(ks, key)
				}
			}
			if len(ks) == 0 {
				break
			}
			key := gen.Pick(rng, ks)
			dm, isMap := defs[key].(map[string]any)
			if isMap && len(dm) > 0 && rng.Intn(2) == 0 {
				um, ok := sec[key].(map[string]any)
				if !ok {
					um = map[string]any{}
					sec[key] = um
				}
				defs, sec = dm, um
				continue
			}
			sec[key] = nil
			break
		}
	}
	return root, user
}

func (n *node) files(prefix string, out gen.Files) {
	var deps string
	if len(n.Children) > 0 {
		deps = "dependencies:\n"
		for _, c := range n.Children {
			deps += fmt.Sprintf("- name: %s\n  version: 0.1.0\n  repository: \"\"\n", c.Name)
		}
	}
	out[prefix+"Chart.yaml"] = fmt.Sprintf("apiVersion: v2\nname: %s\nversion: 0.1.0\n%s", n.Name, deps)
	y, err := yaml.Marshal(n.Defaults)
	if err != nil {
		panic(err)
	}
	out[prefix+"values.yaml"] = string(y)
	out[prefix+"templates/cm.yaml"] = "apiVersion: v1\nkind: ConfigMap\nmetadata:\n  name: {{ .Chart.Name }}\n"
	for _, c := range n.Children {
		c.files(prefix+"charts/"+c.Name+"/", out)
	}
}

// expectedScope is the reference: what chart n sees, given the section `in` handed down by its parent
// (user values at the root). Nulls meant for a subchart survive the parent's stage.
func expectedScope(n *node, in map[string]any) map[string]any {
	out := ref.ApplyDefaults(in, ref.CanonMap(n.Defaults), n.subNames())
	for _, c := range n.Children {
		sec, _ := out[c.Name].(map[string]any)
		if sec == nil {
			sec = map[string]any{}
		}
		out[c.Name] = expectedScope(c, sec)
	}
	return out
}

func (n *node) describe(indent string) string {
	s := fmt.Sprintf("%s%s values.yaml=%s\n", indent, n.Name, ref.J(ref.Canon(n.Defaults)))
	for _, c := range n.Children {
		s += c.describe(indent + "  ")
	}
	return s
}

type snap struct {
	path string
	ch   *chart.Chart
	json string
}

func snapshotCharts(c *chart.Chart, path string, out *[]snap) {
	*out = append(*out, snap{path, c, ref.J(ref.Canon(c.Values))})
	for _, d := range c.Dependencies() {
		snapshotCharts(d, path+"/"+d.Name(), out)
	}
}

func poison(v any) {
	switch t := v.(type) {
	case map[string]any:
		for _, x := range t {
			poison(x)
		}
		t["__poison"] = true
	case chartutil.Values:
		poison(map[string]any(t))
	case []any:
		// write through every element: tables inside lists, lists inside lists (any depth) get
		// poisoned in place first, then the scalar slots of the list itself are overwritten
		for i, x := range t {
			switch x.(type) {
			case map[string]any, []any, chartutil.Values:
				poison(x)
			default:
				t[i] = "__poison"
			}
		}
	}
}

// shapeStats classifies what a scope comparison exercised.
type shapeStats struct{ nullDel, nullKeep, flipUserScalarOverMap, flipUserMapOverScalar, override, parentSection int64 }

func classify(hi, lo map[string]any, st *shapeStats) {
	for k, hv := range hi {
		lv, has := lo[k]
		if !has {
			if hv == nil {
				st.nullKeep++
			}
			continue
		}
		hm, hok := hv.(map[string]any)
		lm, lok := lv.(map[string]any)
		switch {
		case hv == nil:
			st.nullDel++
		case hok && lok:
			classify(hm, lm, st)
		case hok && !lok:
			st.flipUserMapOverScalar++
		case !hok && lok:
			st.flipUserScalarOverMap++
		default:
			st.override++
		}
	}
}

func runCharts(res *core.Result, d caseData, verbose bool) {
	var sample any
	for i := 0; i < d.N; i++ {
		if d.Only >= 0 && i != d.Only {
			continue
		}
		rng := inputRng(d, i)
		root, user := genTree(rng)
		files := gen.Files{}
		root.files("", files)
		exp := expectedScope(root, ref.CanonMap(user))
		res.Evals++
		input := func() string {
			return fmt.Sprintf("input #%d: chart tree:\n%suser values=%s", i, root.describe("  "), ref.J(ref.Canon(user)))
		}
		if verbose {
			fmt.Printf("%s\n  expected render values: %s\n", input(), ref.J(exp))
		}

		// shape statistics per depth (which precedence situations this tree exercises)
		var st shapeStats
		var walk func(n *node, in map[string]any, depth int)
		walk = func(n *node, in map[string]any, depth int) {
			var s shapeStats
			classify(in, ref.CanonMap(n.Defaults), &s)
			for _, c := range n.Children {
				if us, ok := in[c.Name].(map[string]any); ok {
					if ds, ok := n.Defaults[c.Name].(map[string]any); ok {
						var ps shapeStats
						classify(us, ref.CanonMap(ds), &ps)
						s.parentSection += ps.override + ps.nullDel
					}
				}
			}
			for _, x := range []struct {
				n int64
				s string
			}{{s.nullDel, "null-deletes-default"}, {s.flipUserMapOverScalar, "map-over-scalar"}, {s.flipUserScalarOverMap, "scalar-over-map"}, {s.override, "override"}, {s.parentSection, "user-over-parent-section"}} {
				if x.n > 0 {
					res.Key("charts|depth%d|%s", depth, x.s)
				}
			}
			st.nullDel += s.nullDel
			st.nullKeep += s.nullKeep
			st.override += s.override
			st.parentSection += s.parentSection
			st.flipUserMapOverScalar += s.flipUserMapOverScalar + s.flipUserScalarOverMap
			full := ref.ApplyDefaults(in, ref.CanonMap(n.Defaults), n.subNames())
			for _, c := range n.Children {
				sec, _ := full[c.Name].(map[string]any)
				if sec == nil {
					sec = map[string]any{}
				}
				walk(c, sec, depth+1)
			}
		}
		walk(root, ref.CanonMap(user), 1)
		res.Stat("charts_null_deletions_checked", st.nullDel)
		res.Stat("charts_nulls_without_default(dont_care)", st.nullKeep)
		res.Stat("charts_overrides_of_defaults", st.override)
		res.Stat("charts_user_over_parent_section", st.parentSection)
		res.Stat("charts_type_flips", st.flipUserMapOverScalar)

		for _, route := range []string{"CoalesceValues", "ProcessDependencies+ToRenderValues"} {
			ch := files.Build()
			userCopy := ref.CanonMap(user) // the caller's map handed to helm
			userBefore := ref.J(userCopy)
			var got map[string]any
			var snaps []snap
			var gerr error
			panicked := core.Guard(res, route+" | "+input(), func() {
				if route == "CoalesceValues" {
					snapshotCharts(ch, ch.Name(), &snaps)
					var v chartutil.Values
					v, gerr = chartutil.CoalesceValues(ch, userCopy)
					got = v
				} else {
					if gerr = chartutil.ProcessDependencies(ch, userCopy); gerr != nil {
						return
					}
					// defaults are snapshotted after ProcessDependencies, which rewrites them by design
					snapshotCharts(ch, ch.Name(), &snaps)
					var top chartutil.Values
					top, gerr = chartutil.ToRenderValues(ch, userCopy, chartutil.ReleaseOptions{Name: "r", Namespace: "ns", Revision: 1, IsInstall: true}, nil)
					if gerr == nil {
						got, _ = asMap(top["Values"])
					}
				}
			})
			if panicked {
				continue
			}
			if gerr != nil {
				res.Add("documented-input-rejected", route+" error: "+firstWords(gerr.Error(), 4), "%v | %s", gerr, input())
				continue
			}
			gc := ref.Canon(got)
			stripGlobal(root, gc, res)
			var diffs []ref.Difference
			var compared int64
			ref.Diff(exp, gc, "", &diffs, &compared)
			res.Stat("charts_paths_compared", compared)
			res.Stat("charts_scopes_compared", int64(countNodes(root)))
			if len(diffs) > 0 {
				df := diffs[0]
				res.Add("chart-level-precedence", fmt.Sprintf("%s: %s in %s", route, df.Kind, scopeOf(root, df.Path)), "%s | %s | expected %s observed %s", df, input(), ref.J(exp), ref.J(gc))
			}
			// non-mutation of the caller's map and of every chart's stored defaults
			check := func(when string) {
				if ref.J(userCopy) != userBefore {
					res.Add("caller-map-modified", route+" "+when, "user map was %s now %s | %s", userBefore, ref.J(userCopy), input())
				}
				for _, s := range snaps {
					if now := ref.J(ref.Canon(s.ch.Values)); now != s.json {
						res.Add("chart-defaults-modified", fmt.Sprintf("%s %s (chart at depth %d)", route, when, strings.Count(s.path, "/")+1), "chart %s Values were %s now %s | %s", s.path, s.json, now, input())
						break
					}
				}
			}
			check("changed inputs")
			poison(got)
			check("result aliases inputs (poison written through the result became visible)")
			res.Stat("charts_aliasing_probes", int64(len(snaps)+1))
			res.Stat("charts_default_lists_of_tables_probed", int64(countListTables(snaps)))
		}
		if sample == nil && st.nullDel > 0 && st.parentSection > 0 && len(root.Children) > 0 {
			sample = map[string]any{"stratum": "charts", "tree": strings.Split(strings.TrimSpace(root.describe("")), "\n"), "user": ref.Canon(user), "expected_and_observed_render_values": exp}
		}
	}
	res.Sample = sample
}

// stripGlobal removes the (empty) `global` table helm adds to every subchart section; this stratum
// never sets globals (C11 owns them), so anything but an empty table there is reported.
func stripGlobal(n *node, scope any, res *core.Result) {
	m, ok := scope.(map[string]any)
	if !ok {
		return
	}
	if g, ok := m["global"]; ok {
		if gm, ok := g.(map[string]any); ok && len(gm) == 0 {
			delete(m, "global")
		}
	}
	for _, c := range n.Children {
		stripGlobal(c, m[c.Name], res)
	}
}

func countListTables(snaps []snap) int {
	n := 0
	for _, s := range snaps {
		if _, ok := s.ch.Values["lt"]; ok {
			n++
		}
	}
	return n
}

func asMap(v any) (map[string]any, bool) {
	switch t := v.(type) {
	case map[string]any:
		return t, true
	case chartutil.Values:
		return t, true
	}
	return nil, false
}

func countNodes(n *node) int {
	c := 1
	for _, x := range n.Children {
		c += countNodes(x)
	}
	return c
}

// scopeOf names the tree relation of a differing path: root scope, child scope, grandchild scope.
func scopeOf(root *node, path string) string {
	depth := 1
	n := root
	for _, seg := range strings.Split(path, ".") {
		var next *node
		for _, c := range n.Children {
			if c.Name == seg {
				next = c
			}
		}
		if next == nil {
			break
		}
		n = next
		depth++
	}
	return []string{"", "root scope", "subchart scope", "sub-subchart scope"}[depth]
}
