// Package c04: monitor for property C04 (see DESIGN.md section 3).
package c04
