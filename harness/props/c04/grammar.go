package c04

import (
	"fmt"
	"os"
	"path/filepath"
	"strings"

	"helm.sh/helm/v4/pkg/strvals"

	"helm.sh/helm/v4/verifh/core"
	"helm.sh/helm/v4/verifh/gen"
	"helm.sh/helm/v4/verifh/ref"
)

var setFamilies = []string{"set", "set", "set", "set-string", "set-json", "set-literal", "set-file"}

// runGrammar: one strvals parser call on a pre-populated destination per input.
func runGrammar(res *core.Result, d caseData, verbose bool) {
	root, err := os.MkdirTemp("", "c04-grammar-")
	if err != nil {
		panic(err)
	}
	defer os.RemoveAll(root)
	var sample any
	for i := 0; i < d.N; i++ {
		if d.Only >= 0 && i != d.Only {
			continue
		}
		rng := inputRng(d, i)
		fam := gen.Pick(rng, setFamilies)
		keys := append(append([]string{}, gen.PlainKeys...), gen.SpecialKeys...)
		dest := gen.Tree(rng, gen.TreeOpts{Keys: keys, Depth: 3, Nulls: true, Lists: true, MaxKeys: 5})
		if rng.Intn(6) == 0 {
			dest = map[string]any{}
		}
		conflictPct := 0
		if rng.Intn(12) == 0 {
			conflictPct = 40
		}
		ne := 1
		if fam != "set-literal" && rng.Intn(3) == 0 {
			ne = 2 + rng.Intn(2)
		}
		exp := ref.CanonMap(dest)
		conflict := false
		var ops []ref.SetOp
		var exprs []string
		var feats ref.Features
		fileContent := map[string]string{}
		for e := 0; e < ne; e++ {
			op := gen.SetOpFor(rng, exp, fam, true, conflictPct)
			ops = append(ops, op)
			var txt string
			var f ref.Features
			if fam == "set-file" {
				p := filepath.Join(root, fmt.Sprintf("v%d-%d", i, e))
				fileContent[p] = op.Val.(string)
				txt, f = op.ExprWithValue(p)
			} else {
				txt, f = op.Expr(fam)
			}
			exprs = append(exprs, txt)
			feats = orFeatures(feats, f)
			if sparseIn(exp, op) {
				feats.Sparse = true
			}
			if ref.ApplySet(exp, op) {
				conflict = true
				break
			}
		}
		line := strings.Join(exprs, ",")
		before := ref.J(ref.Canon(dest))
		got := ref.CanonMap(dest) // helm parses into this copy (its own Go types after parsing)
		for p, c := range fileContent {
			if err := os.WriteFile(p, []byte(c), 0o600); err != nil {
				panic(err)
			}
		}
		var perr error
		what := fmt.Sprintf("strvals %s %q into %s", fam, line, before)
		panicked := core.Guard(res, what, func() {
			switch fam {
			case "set":
				perr = strvals.ParseInto(line, got)
			case "set-string":
				perr = strvals.ParseIntoString(line, got)
			case "set-json":
				perr = strvals.ParseJSON(line, got)
			case "set-literal":
				perr = strvals.ParseLiteralInto(line, got)
			case "set-file":
				perr = strvals.ParseIntoFile(line, got, func(rs []rune) (interface{}, error) {
					b, err := os.ReadFile(string(rs))
					return string(b), err
				})
			}
		})
		for p := range fileContent {
			os.Remove(p)
		}
		res.Evals++
		if panicked {
			continue
		}
		fs := feats.String()
		input := func() string {
			return fmt.Sprintf("input #%d: --%s '%s' applied to %s (structured: %s)", i, fam, line, before, opsString(ops))
		}
		if verbose {
			fmt.Printf("%s\n  expected: %s\n  observed: %s err=%v (type-conflict zone: %v)\n", input(), ref.J(exp), ref.J(ref.Canon(got)), perr, conflict)
		}
		if conflict {
			res.Stat("grammar_type_conflict_inputs(dont_care)", 1)
			continue
		}
		if feats.Escape {
			res.Stat("grammar_exprs_with_escape", 1)
		}
		if feats.Index {
			res.Stat("grammar_exprs_with_index", 1)
		}
		if feats.Typed {
			res.Stat("grammar_exprs_with_typed_literal", 1)
		}
		if feats.List {
			res.Stat("grammar_exprs_with_brace_list", 1)
		}
		if feats.Sparse || feats.NestedIndex {
			res.Stat("grammar_exprs_with_nested_or_sparse_index", 1)
		}
		if fs != "plain" {
			res.Key("grammar|%s|%s", fam, fs)
		}
		if perr != nil {
			res.Add("documented-input-rejected", fmt.Sprintf("--%s expression using %s", fam, fs), "error %v | %s | expected %s", perr, input(), ref.J(exp))
			continue
		}
		gc := ref.Canon(got)
		if !ref.Equal(exp, gc) {
			var diffs []ref.Difference
			var n int64
			ref.Diff(exp, gc, "", &diffs, &n)
			where := "null handling"
			if top, ok := emptyTailOp(fam, ops); ok && len(diffs) > 0 && (diffs[0].Path == top || strings.HasPrefix(diffs[0].Path, top+".") || strings.HasPrefix(diffs[0].Path, top+"[")) {
				res.Add("set-changes-exactly-its-path", emptyTailClass, "%s | %s | expected %s observed %s", diffs[0], input(), ref.J(exp), ref.J(gc))
			} else if len(diffs) > 0 {
				where = diffs[0].String()
				named := false
				for _, op := range ops {
					if strings.HasPrefix(diffs[0].Path, displayPath(op)) {
						named = true
					}
				}
				kind := "the named path has the wrong value"
				if !named {
					kind = "a path other than the named one changed"
				}
				res.Add("set-changes-exactly-its-path", fmt.Sprintf("--%s expression using %s: %s", fam, fs, kind), "%s | %s | expected %s observed %s", where, input(), ref.J(exp), ref.J(gc))
			} else {
				res.Add("set-changes-exactly-its-path", fmt.Sprintf("--%s expression using %s: null/absent mismatch", fam, fs), "%s | expected %s observed %s", input(), ref.J(exp), ref.J(gc))
			}
			continue
		}
		var leafs = map[string]any{}
		ref.Flatten(gc, "", leafs)
		res.Stat("grammar_paths_compared", int64(len(leafs)))
		if sample == nil && feats.Escape && feats.Index && feats.Typed {
			sample = map[string]any{"stratum": "grammar", "flag": "--" + fam, "expression": line, "destination_before": ref.Canon(dest), "expected_and_observed": exp}
		}
	}
	res.Sample = sample
}

// sparseIn reports whether op indexes beyond the end of an existing (or new) list.
func sparseIn(root map[string]any, op ref.SetOp) bool {
	var node any = root
	for _, sg := range op.Path {
		switch t := node.(type) {
		case map[string]any:
			if sg.IsIdx {
				return false
			}
			node = t[sg.Key]
		case []any:
			if !sg.IsIdx {
				return false
			}
			if sg.Idx > len(t) {
				return true
			}
			if sg.Idx == len(t) {
				node = nil
			} else {
				node = t[sg.Idx]
			}
		default:
			if sg.IsIdx && sg.Idx > 0 {
				return true
			}
			node = nil
		}
	}
	return false
}

func orFeatures(a, b ref.Features) ref.Features {
	return ref.Features{Escape: a.Escape || b.Escape, Index: a.Index || b.Index, NestedIndex: a.NestedIndex || b.NestedIndex, Sparse: a.Sparse || b.Sparse,
		Typed: a.Typed || b.Typed, List: a.List || b.List, Unicode: a.Unicode || b.Unicode, Deep: a.Deep || b.Deep}
}

func displayPath(op ref.SetOp) string {
	p := ""
	for _, sg := range op.Path {
		if sg.IsIdx {
			p += fmt.Sprintf("[%d]", sg.Idx)
		} else {
			p = ref.PathJoin(p, sg.Key)
		}
	}
	return p
}

func opsString(ops []ref.SetOp) string {
	var p []string
	for _, o := range ops {
		p = append(p, fmt.Sprintf("%s := %s", o.PathString(), ref.J(o.Val)))
	}
	return strings.Join(p, " ; ")
}
