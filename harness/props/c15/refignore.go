package c15

import (
	"path"
	"strings"
)

// refIgnore: an independent reading of the .helmignore rules as documented in
// /repo/pkg/ignore/doc.go (plus the documented built-in default "ignore all dotfiles in
// templates/"). It shares no code with pkg/ignore; glob matching is the standard library's
// path.Match, which is what the documentation names ("See Go's path/filepath.Match").
//
//   - parsing is line by line; leading/trailing white space is dropped; empty lines and lines
//     starting with # are skipped; a leading UTF-8 BOM of the file is dropped
//   - a leading ! negates the match; a trailing / restricts the rule to directories
//   - a leading / roots the rule; a rule that contains a slash is matched against the whole
//     relative path, a rule without a slash against the base name only
//   - a rule set excludes a path when any rule excludes it; an excluded directory takes its
//     whole content with it
type refRule struct {
	raw      string
	neg, dir bool
	full     bool // match against the whole relative path instead of the base name
	pat      string
}

const refDefaultRule = `templates/.?*`

func refParse(text string) []refRule {
	var out []refRule
	text = strings.TrimPrefix(text, "\xEF\xBB\xBF")
	for _, line := range append(strings.Split(text, "\n"), refDefaultRule) {
		line = strings.TrimSpace(line)
		if line == "" || strings.HasPrefix(line, "#") {
			continue
		}
		r := refRule{raw: line, pat: line}
		if strings.HasPrefix(r.pat, "!") {
			r.neg, r.pat = true, r.pat[1:]
		}
		if strings.HasSuffix(r.pat, "/") {
			r.dir, r.pat = true, strings.TrimSuffix(r.pat, "/")
		}
		if strings.HasPrefix(r.pat, "/") {
			r.full, r.pat = true, strings.TrimPrefix(r.pat, "/")
		} else if strings.Contains(r.pat, "/") {
			r.full = true
		}
		out = append(out, r)
	}
	return out
}

func (r refRule) excludes(rel string, isDir bool) bool {
	matched := !r.dir || isDir
	if matched {
		target := rel
		if !r.full {
			target = path.Base(rel)
		}
		matched, _ = path.Match(r.pat, target)
	}
	return matched != r.neg
}

// refIgnored reports whether the regular file rel (slash separated, relative to the chart root)
// is excluded, and by which rule (and through which path: itself or an enclosing directory).
func refIgnored(rules []refRule, rel string) (bool, refRule, string) {
	parts := strings.Split(rel, "/")
	for i := 1; i <= len(parts); i++ {
		p := strings.Join(parts[:i], "/")
		for _, r := range rules {
			if r.excludes(p, i < len(parts)) {
				return true, r, p
			}
		}
	}
	return false, refRule{}, ""
}

// kind names the documented syntax element a rule uses (for witness classes and coverage keys).
func (r refRule) kind() string {
	switch {
	case r.raw == refDefaultRule:
		return "default-templates-dotfiles"
	case r.neg:
		return "negation"
	case r.dir:
		return "dir-only"
	case strings.HasPrefix(strings.TrimPrefix(r.raw, "!"), "/"):
		return "rooted"
	case r.full:
		return "path-glob"
	case strings.ContainsAny(r.pat, "*?["):
		if strings.Contains(r.pat, "[") {
			return "basename-charclass"
		}
		return "basename-glob"
	}
	return "basename-literal"
}
