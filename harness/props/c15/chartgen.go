package c15

import (
	"archive/tar"
	"bytes"
	"compress/gzip"
	"encoding/json"
	"fmt"
	"math/rand"
	"sort"
	"strings"
)

// node is one generated chart (root or dependency) before it is laid out on disk.
type node struct {
	Dir     string // directory name (root: source dir; dependency: charts/<Dir>)
	Name    string
	Version string
	V1      bool
	Tgz     bool              // dependency stored as charts/<Name>-<Version>.tgz
	Files   map[string][]byte // chart-root relative, without the charts/ sub tree
	Class   map[string]string // content class per file (evidence / witness text)
	Deps    []*node
	HasLock bool
}

var bom = []byte{0xEF, 0xBB, 0xBF}

func pick[T any](rng *rand.Rand, xs []T) T { return xs[rng.Intn(len(xs))] }

// jq renders s as a JSON string (a valid YAML double-quoted scalar); DEL and C1 controls, which
// YAML does not allow unescaped, are escaped as well.
func jq(s string) string {
	b, _ := json.Marshal(s)
	var o strings.Builder
	for _, r := range string(b) {
		if r == 0x7f || (r >= 0x80 && r <= 0x9f) {
			fmt.Fprintf(&o, "\\u%04x", r)
		} else {
			o.WriteRune(r)
		}
	}
	return o.String()
}

// ---------------------------------------------------------------- strings

var stringPool = []string{
	"plain text", "héllo wörld", "日本語のチャート", "emoji 🚀 rocket", "line one\nline two\n", "  leading and trailing  ",
	"colon: and # hash", "\"double\" and 'single' quotes", "null", "true", "1.0", "0x1F", "~", "- dash start", "@at", "`tick`",
	"{brace}", "[bracket]", "%percent", "!bang", "&anchor", "*star", "|pipe", ">gt", "back\\slash", "tab\there", "nbsp\u00a0inside",
	"line\u2028separator", "para\u2029separator", "zero\u200bwidth", "bom\ufeffinside", "nfd e\u0301", "nfc \u00e9", "rtl \u202eoverride",
	"crlf\r\nending", strings.Repeat("long-", 70), "", "😀", "a", "Ünïcödé", "https://example.com/a?b=c&d=e#f", "yes", "012", "1e3", "+1", ".5",
}

// yamlScalar renders s as a YAML scalar; JSON quoting is always valid YAML, plain style is used
// for harmless strings to vary the input form.
func yamlScalar(rng *rand.Rand, s string) string {
	plainOK := s != ""
	for _, r := range s {
		if !(r >= 'a' && r <= 'z' || r >= 'A' && r <= 'Z' || r == ' ' || r == '-' || r == '_' || r == '/' || r == '.') {
			plainOK = false
		}
	}
	switch strings.ToLower(strings.TrimSpace(s)) {
	case "null", "true", "false", "yes", "no", "on", "off", "y", "n", "~", "":
		plainOK = false
	}
	if plainOK && (s[0] == ' ' || s[0] == '-' || s[0] == '.' || s[len(s)-1] == ' ') {
		plainOK = false
	}
	if plainOK && rng.Intn(2) == 0 {
		return s
	}
	return jq(s)
}

// ---------------------------------------------------------------- content

func genContent(rng *rand.Rand) ([]byte, string) {
	text := pick(rng, []string{"hello\n", "key: value\nlist:\n- a\n- b\n", "{{ .Values.x }}\n", "# comment only\n", "Ünïcödé 日本語 🚀\n", "no trailing newline"})
	var data []byte
	var class string
	switch rng.Intn(12) {
	case 0:
		data, class = []byte{}, "empty"
	case 1:
		data, class = append(append([]byte{}, bom...), text...), "bom"
	case 2:
		data, class = []byte(strings.ReplaceAll(text+text, "\n", "\r\n")), "crlf"
	case 3:
		data, class = []byte("bin\x00\x01\x02\x00\xff\xfe"+text+"\x00"), "nul"
	case 4:
		data, class = []byte(text+"\xEF\xBB\xBF"+text+"\xEF\xBB\xBF"), "bom-inside"
	case 5:
		data = make([]byte, 64+rng.Intn(400))
		rng.Read(data)
		class = "random-bytes"
	case 6:
		data = bytes.Repeat([]byte(text), 1+rng.Intn(2000))
		class = "large"
	case 7:
		data, class = append(append([]byte{}, bom...), []byte("\x00after bom\r\n")...), "bom+nul+crlf"
	case 8:
		data, class = []byte("\x1f\x8b\x08 not really gzip \x00"), "gzip-magic"
	case 9:
		data, class = []byte("\xff\xfe\x00U\x00T\x00F\x001\x006\x00"), "utf16"
	default:
		data, class = []byte(text), "text"
	}
	// don't-care zone: content that still starts with a BOM after one BOM was stripped
	for bytes.HasPrefix(bytes.TrimPrefix(data, bom), bom) {
		data = append([]byte("x"), data...)
	}
	return data, class
}

func isBinaryClass(c string) bool {
	switch c {
	case "nul", "random-bytes", "bom+nul+crlf", "gzip-magic", "utf16":
		return true
	}
	return false
}

// ---------------------------------------------------------------- names

var dirPool = []string{"docs", "build", "tmp", "a", "a/b", "a/b/c", "conf.d", "files", "ünï cödé", "sp ace", ".dot", "crds", "data/bin", "ci", "cargo", "mast"}
var basePool = []string{"notes.txt", "README.md", "LICENSE", "secret.key", "a.txt", "b.txt", "c.txt", "d.txt", "x.md", "build", "tmp", "cargo",
	".gitignore", ".env", ".hidden.txt", "we[ird].txt", "日本.txt", "e\u0301.txt", "\u00e9.txt", "sp ace.txt", " lead.txt", "trail.txt ", "noext",
	"rudder.txt", "helm.txt", "UPPER.TXT", "data.bin", "empty", "#hash.txt", "!bang.txt", "semi;colon", "tiller.txt", "values.yaml", "Chart.yaml",
	"x.tgz", "plus+sign", "percent%41", "a=b&c", "..twodots", "dash-", "~tilde", "quote'\"", strings.Repeat("n", 150) + ".txt", strings.Repeat("L", 240)}
var tplPool = []string{"deployment.yaml", "service.yaml", "_helpers.tpl", "NOTES.txt", "tests/test-conn.yaml", "sub dir/x y.yaml", "ünï/ç.yaml", ".hidden",
	".dot.yaml", "deep/er/est/cm.yaml", "a.txt", "secret.key", "UPPER.YAML", strings.Repeat("t", 120) + ".yaml", ".dotdir/inner.yaml", "build/x.yaml"}

// add puts a file into m unless it collides with an existing file/dir path.
func add(m map[string][]byte, cls map[string]string, p string, data []byte, class string) bool {
	for q := range m {
		if q == p || strings.HasPrefix(q, p+"/") || strings.HasPrefix(p, q+"/") {
			return false
		}
	}
	m[p] = data
	cls[p] = class
	return true
}

var reservedTop = map[string]bool{"Chart.yaml": true, "Chart.lock": true, "values.yaml": true, "values.schema.json": true,
	"requirements.yaml": true, "requirements.lock": true, "templates": true, "charts": true, ".helmignore": true}

// ---------------------------------------------------------------- ignore rules

var ignorePool = []string{
	// base name literals and globs
	"secret.key", "*.key", "*.txt", "notes.*", "?.md", ".git*", ".env", "tiller.*", "x.tgz", "noext", "*.bin", "sp ace.txt", "日本.*", "L*",
	// character classes
	"[a-c].txt", "[!a-c].txt", "ru[c-e]?er.txt", "[A-Z]*.TXT", "we[[]ird].txt",
	// rooted
	"/notes.txt", "/docs", "/*.md", "/a/b", "/LICENSE", "/tmp", "/cargo/a.txt",
	// directories only
	"build/", "tmp/", "/docs/", "a/b/", ".dot/", "cargo/", "ci/", "ünï cödé/", "templates/tests/",
	// path globs
	"docs/*.txt", "a/b/*.md", "*/x.md", "a/*/c", "templates/*.txt", "templates/sub dir/*", "files/*", "data/bin/*.bin", "cargo/*.*", "conf.d/[a-c].txt",
	"charts/*/secret.key", "charts/*/templates/*.txt",
	// negation (everything that does not match is excluded)
	"!*", "!?*", "!*[!~]",
	// inline comment is NOT a comment
	"foo* # Any foo",
}

func genIgnore(rng *rand.Rand) string {
	var lines []string
	n := 1 + rng.Intn(6)
	for i := 0; i < n; i++ {
		r := pick(rng, ignorePool)
		switch rng.Intn(8) {
		case 0:
			r = "  " + r + "  "
		case 1:
			r = "\t" + r
		case 2:
			lines = append(lines, "# "+r)
		case 3:
			lines = append(lines, "")
		}
		lines = append(lines, r)
	}
	if rng.Intn(25) == 0 { // a negated rule that keeps only "dotted" names: most directories vanish
		lines = append(lines, "!*.*")
	}
	nl := "\n"
	if rng.Intn(5) == 0 {
		nl = "\r\n"
	}
	text := strings.Join(lines, nl)
	if rng.Intn(3) > 0 {
		text += nl
	}
	if rng.Intn(6) == 0 {
		text = string(bom) + text
	}
	return text
}

// ---------------------------------------------------------------- chart metadata

var chartNames = []string{"app", "my-chart", "sub1", "lib_x", "a.b", "UPPER", "x1", "chart with space", "чарт", "web", "db", "cache", "common", "z-9", "n0", "日本"}
var versions = []string{"0.1.0", "1.2.3", "1.0.0-beta.1", "2.0.0+build.5", "10.20.30-rc.1+exp.sha.5114f85", "v1.2.3", "1.2", "3"}

func depBlock(rng *rand.Rand, listed []*node, extraMissing bool) string {
	if len(listed) == 0 && !extraMissing {
		return ""
	}
	var b strings.Builder
	b.WriteString("dependencies:\n")
	type ent struct{ name, ver string }
	var ents []ent
	for _, d := range listed {
		ents = append(ents, ent{d.Name, d.Version})
	}
	if extraMissing {
		ents = append(ents, ent{"not-vendored", "9.9.9"})
	}
	for i, e := range ents {
		fmt.Fprintf(&b, "- name: %s\n", yamlScalar(rng, e.name))
		fmt.Fprintf(&b, "  version: %s\n", jq(pick(rng, []string{e.ver, "^" + strings.TrimPrefix(e.ver, "v"), ">=0.0.0-0", "*", "1.x"})))
		fmt.Fprintf(&b, "  repository: %s\n", jq(pick(rng, []string{"https://charts.example.com/stable", "file://../" + e.name, "@myrepo", "alias:myrepo", "oci://reg.example.com/ns", "", "https://ünï.example/チャート"})))
		if rng.Intn(2) == 0 {
			fmt.Fprintf(&b, "  condition: %s\n", jq(e.name+".enabled, global."+e.name))
		}
		if rng.Intn(2) == 0 {
			fmt.Fprintf(&b, "  tags: [%s, %s]\n", jq("front end"), jq(pick(rng, stringPool)))
		}
		if rng.Intn(3) == 0 {
			b.WriteString("  enabled: true\n")
		}
		if rng.Intn(2) == 0 {
			b.WriteString("  import-values:\n  - \"data\"\n  - child: \"a.b\"\n    parent: \"c\"\n")
		}
		if rng.Intn(3) == 0 {
			fmt.Fprintf(&b, "  alias: al-%d_%s\n", i, pick(rng, []string{"x", "Y", "9"}))
		}
	}
	return b.String()
}

func lockText(rng *rand.Rand, deps []*node) string {
	var b strings.Builder
	if len(deps) == 0 {
		b.WriteString("dependencies: []\n")
	} else {
		b.WriteString("dependencies:\n")
		for _, d := range deps {
			fmt.Fprintf(&b, "- name: %s\n  repository: %s\n  version: %s\n", jq(d.Name), jq(pick(rng, []string{"https://charts.example.com/stable", "file://../x", ""})), jq(d.Version))
		}
	}
	fmt.Fprintf(&b, "digest: sha256:%064x\n", rng.Int63())
	gen := pick(rng, []string{"2024-03-01T12:34:56.789012345+05:30", "2019-12-31T23:59:59Z", "2023-06-15T08:00:00.5-07:00", "2001-01-01T00:00:00.000000001Z", "2038-01-19T03:14:08+00:00"})
	fmt.Fprintf(&b, "generated: %s\n", jq(gen))
	return b.String()
}

func chartYAML(rng *rand.Rand, n *node, deps string) string {
	var lines []string
	put := func(k, v string) { lines = append(lines, k+": "+v) }
	if !(n.V1 && rng.Intn(6) == 0) { // apiVersion may be absent for v1 (Helm 2 charts)
		if n.V1 {
			put("apiVersion", "v1")
		} else {
			put("apiVersion", pick(rng, []string{"v2", "\"v2\""}))
		}
	}
	put("name", yamlScalar(rng, n.Name))
	put("version", pick(rng, []string{n.Version, jq(n.Version)}))
	opt := func(p int) bool { return rng.Intn(100) < p }
	if opt(70) {
		if opt(30) {
			lines = append(lines, "description: |-\n  first line: with colon\n  second line # not a comment\n\n  Ünïcödé 日本語 after a blank line")
		} else {
			put("description", yamlScalar(rng, pick(rng, stringPool)))
		}
	}
	if opt(50) {
		put("home", yamlScalar(rng, pick(rng, stringPool)))
	}
	if opt(50) {
		put("icon", jq("https://example.com/i.png?x="+pick(rng, stringPool)))
	}
	if opt(50) {
		put("appVersion", pick(rng, []string{"\"1.16.0\"", "1.16", "\"v2\"", "latest", jq(pick(rng, stringPool))}))
	}
	if opt(50) {
		put("kubeVersion", jq(pick(rng, []string{">=1.20.0-0", ">= 1.19.0 < 2.0.0", "^1.25", "*"})))
	}
	if opt(40) {
		put("type", pick(rng, []string{"application", "library", "\"\""}))
	}
	if opt(30) {
		put("deprecated", pick(rng, []string{"true", "false"}))
	}
	if opt(30) {
		put("condition", jq(pick(rng, stringPool)))
	}
	if opt(30) {
		put("tags", jq(pick(rng, stringPool)))
	}
	if opt(50) {
		var ks []string
		for i := rng.Intn(4); i >= 0; i-- {
			ks = append(ks, "- "+yamlScalar(rng, pick(rng, stringPool)))
		}
		if opt(15) {
			lines = append(lines, "keywords: []")
		} else {
			lines = append(lines, "keywords:\n"+strings.Join(ks, "\n"))
		}
	}
	if opt(50) {
		var ks []string
		for i := rng.Intn(3); i >= 0; i-- {
			ks = append(ks, "- "+jq("https://git.example.com/"+pick(rng, stringPool)))
		}
		lines = append(lines, "sources:\n"+strings.Join(ks, "\n"))
	}
	if opt(50) {
		var ms []string
		for i := rng.Intn(3); i >= 0; i-- {
			m := "- name: " + yamlScalar(rng, pick(rng, stringPool))
			if opt(60) {
				m += "\n  email: " + jq(pick(rng, []string{"a@example.com", "ünï@exämple.com", pick(rng, stringPool)}))
			}
			if opt(40) {
				m += "\n  url: " + jq(pick(rng, stringPool))
			}
			ms = append(ms, m)
		}
		lines = append(lines, "maintainers:\n"+strings.Join(ms, "\n"))
	}
	if opt(60) {
		var as []string
		seen := map[string]bool{}
		for i := rng.Intn(5); i >= 0; i-- {
			k := pick(rng, []string{"example.com/key", "ünï", "with space", "a.b/c-d_e", "artifacthub.io/changes", "n", "true", "1", "empty", "日本"})
			if seen[k] {
				continue
			}
			seen[k] = true
			v := jq(pick(rng, stringPool))
			if opt(15) {
				v = "|\n    - kind: added\n      description: \"multi: line\"\n    - kind: fixed\n"
			}
			as = append(as, "  "+jq(k)+": "+v)
		}
		lines = append(lines, "annotations:\n"+strings.Join(as, "\n"))
	}
	if deps != "" && !n.V1 {
		lines = append(lines, strings.TrimSuffix(deps, "\n"))
	}
	rng.Shuffle(len(lines), func(i, j int) { lines[i], lines[j] = lines[j], lines[i] })
	text := strings.Join(lines, "\n") + "\n"
	if opt(15) {
		text = "# leading comment\n---\n" + text
	}
	switch rng.Intn(10) {
	case 0:
		text = string(bom) + text
	case 1:
		text = strings.ReplaceAll(text, "\n", "\r\n")
	}
	return text
}

func valuesYAML(rng *rand.Rand) string {
	docs := []string{
		"# Default values\nreplicaCount: 1\nimage:\n  repository: nginx # inline comment\n  tag: \"\"\n  pullPolicy: IfNotPresent\n",
		"big: 12345678901234567890\nfloat: 1.50\nexp: 1e3\nneg: -0\nstr: \"007\"\nnul: null\nempty: {}\nlist: []\nnested:\n  - a: 1\n    b: [1, 2, {c: d}]\n  - ~\n",
		"anchors:\n  base: &base\n    x: 1\n    y: two\n  derived:\n    <<: *base\n    z: 3\nalias: *base\n",
		"unicode: \"日本語 🚀 \\u00e9\"\nmultiline: |\n  line 1\n  line 2\nfolded: >-\n  folded\n  text\n\"quoted key\": 'single ''quoted'''\n? complex\n: value\n",
		"global:\n  a: 1\nsub1:\n  enabled: true\ntags:\n  front end: false\n",
		"{}\n", "# only a comment\n", "a: 1\n---\nb: 2\na: {x: 1}\n", "a: 1   \nb:    2\t\n\n\n",
	}
	i := rng.Intn(len(docs))
	t := docs[i]
	if i < 5 && rng.Intn(3) == 0 { // block mappings can be extended by one more key
		t += fmt.Sprintf("extra%d: %s\n", rng.Intn(100), jq(pick(rng, stringPool)))
	}
	switch rng.Intn(8) {
	case 0:
		t = string(bom) + t
	case 1:
		t = strings.ReplaceAll(t, "\n", "\r\n")
	case 2:
		t = strings.TrimSuffix(t, "\n")
	}
	return t
}

func schemaJSON(rng *rand.Rand) string {
	t := pick(rng, []string{
		"{\n  \"$schema\": \"http://json-schema.org/draft-07/schema#\",\n  \"type\": \"object\",\n  \"properties\": {\"replicaCount\": {\"type\": \"integer\"}}\n}\n",
		"{\"title\":\"Ünïcödé 日本語\",\"description\":\"esc \\u00e9 \\n\",\"type\":\"object\"}",
		"  {  }  \r\n", "{\"a\":[1,2.50,1e3,null,true],\"b\":{}}\t\n", "true",
	})
	if rng.Intn(6) == 0 {
		t = string(bom) + t
	}
	return t
}

// genChart builds one chart tree. used keeps chart names unique within one tree (the archive
// layout charts/<name>/ identifies dependencies by name).
func genChart(rng *rand.Rand, depth int, used map[string]bool) *node {
	n := &node{Files: map[string][]byte{}, Class: map[string]string{}}
	for {
		n.Name = pick(rng, chartNames)
		if depth > 0 && rng.Intn(3) == 0 {
			n.Name = fmt.Sprintf("%s%d", pick(rng, []string{"dep", "lib-", "s"}), rng.Intn(1000))
		}
		if !used[n.Name] {
			used[n.Name] = true
			break
		}
	}
	n.Version = pick(rng, versions)
	n.V1 = rng.Intn(3) == 0
	n.Dir = n.Name
	if rng.Intn(3) == 0 {
		n.Dir = pick(rng, []string{"dir-", "src ", "чарт-"}) + n.Name // directory name need not be the chart name
	}
	if depth > 0 {
		n.Tgz = rng.Intn(2) == 0
	}
	// dependencies
	nd := 0
	if depth < 3 {
		nd = []int{0, 0, 1, 1, 2, 3}[rng.Intn(6)]
		if depth > 0 {
			nd = []int{0, 0, 0, 1, 2}[rng.Intn(5)]
		}
	}
	for i := 0; i < nd; i++ {
		n.Deps = append(n.Deps, genChart(rng, depth+1, used))
	}
	var listed []*node
	for _, d := range n.Deps {
		if rng.Intn(4) > 0 {
			listed = append(listed, d)
		}
	}
	deps := depBlock(rng, listed, depth == 0 && rng.Intn(40) == 0)
	n.Files["Chart.yaml"], n.Class["Chart.yaml"] = []byte(chartYAML(rng, n, deps)), "chart-yaml"
	if n.V1 && deps != "" {
		n.Files["requirements.yaml"], n.Class["requirements.yaml"] = []byte("# v1 requirements\n"+deps), "requirements"
	}
	if rng.Intn(2) == 0 {
		n.HasLock = true
		if n.V1 {
			n.Files["requirements.lock"], n.Class["requirements.lock"] = []byte(lockText(rng, listed)), "lock"
		} else {
			n.Files["Chart.lock"], n.Class["Chart.lock"] = []byte(lockText(rng, listed)), "lock"
		}
	}
	if rng.Intn(5) > 0 {
		n.Files["values.yaml"], n.Class["values.yaml"] = []byte(valuesYAML(rng)), "values"
	}
	if rng.Intn(3) == 0 {
		n.Files["values.schema.json"], n.Class["values.schema.json"] = []byte(schemaJSON(rng)), "schema"
	}
	for i := rng.Intn(5); i > 0; i-- {
		d, c := genContent(rng)
		add(n.Files, n.Class, "templates/"+pick(rng, tplPool), d, c)
	}
	for i := 1 + rng.Intn(8); i > 0; i-- {
		p := pick(rng, basePool)
		if rng.Intn(5) > 1 {
			p = pick(rng, dirPool) + "/" + p
		}
		if reservedTop[strings.SplitN(p, "/", 2)[0]] {
			continue
		}
		if strings.HasPrefix(p, "..") && (depth > 0 || rng.Intn(4) > 0) {
			// a ROOT-level name starting with ".." is kept rare and only in the top chart (cause shape
			// "archive loader rejects names that merely start with '..'"); nested ones are common
			continue
		}
		d, c := genContent(rng)
		add(n.Files, n.Class, p, d, c)
	}
	if len(n.Deps) > 0 && (depth == 0 && rng.Intn(6) == 0 || depth > 0 && rng.Intn(40) == 0) { // provenance files next to vendored archives are ordinary files
		d := n.Deps[0]
		add(n.Files, n.Class, "charts/"+d.Name+"-"+d.Version+".tgz.prov", []byte("-----BEGIN PGP SIGNED MESSAGE-----\nfake\n"), "text")
	}
	if depth == 0 && rng.Intn(10) < 6 || depth > 0 && rng.Intn(6) == 0 {
		n.Files[".helmignore"], n.Class[".helmignore"] = []byte(genIgnore(rng)), "helmignore"
	}
	return n
}

// flatten lays the chart out as root-relative path -> bytes (dependencies under charts/).
func (n *node) flatten() (map[string][]byte, map[string]string) {
	out, cls := map[string][]byte{}, map[string]string{}
	for p, d := range n.Files {
		out[p], cls[p] = d, n.Class[p]
	}
	for _, d := range n.Deps {
		sub, subcls := d.flatten()
		if d.Tgz {
			p := "charts/" + d.Name + "-" + d.Version + ".tgz"
			out[p], cls[p] = ownTarGz(sub, d.Name, int64(len(d.Name))), "dep-archive"
			continue
		}
		for p, b := range sub {
			out["charts/"+d.Dir+"/"+p], cls["charts/"+d.Dir+"/"+p] = b, subcls[p]
		}
	}
	return out, cls
}

// archivePath maps a root-relative source path to the entry name it must have in a package
// of the root chart ("" for the root prefix). Dependency directories are renamed to the chart
// name; a vendored .tgz is represented by the Chart.yaml of the unpacked dependency.
func (n *node) archivePath(rel string) string {
	if strings.HasPrefix(rel, "charts/") {
		rest := strings.TrimPrefix(rel, "charts/")
		for _, d := range n.Deps {
			if d.Tgz && rest == d.Name+"-"+d.Version+".tgz" {
				return n.Name + "/charts/" + d.Name + "/Chart.yaml"
			}
			if !d.Tgz && strings.HasPrefix(rest, d.Dir+"/") {
				return n.Name + "/charts/" + d.archivePath(strings.TrimPrefix(rest, d.Dir+"/"))
			}
		}
	}
	return n.Name + "/" + rel
}

func (n *node) shape() string {
	s := "v2"
	if n.V1 {
		s = "v1"
	}
	if n.HasLock {
		s += "+lock"
	}
	if len(n.Deps) > 0 {
		var ds []string
		for _, d := range n.Deps {
			k := "dir:"
			if d.Tgz {
				k = "tgz:"
			}
			ds = append(ds, k+d.shape())
		}
		sort.Strings(ds)
		s += "(" + strings.Join(ds, ",") + ")"
	}
	return s
}

// ownTarGz writes files as a gzip-compressed tar under prefix/ with this package's own writer
// (independent of chartutil.Save). variant steers incidental archive features.
func ownTarGz(files map[string][]byte, prefix string, variant int64) []byte {
	var names []string
	for p := range files {
		names = append(names, p)
	}
	sort.Strings(names)
	if variant%3 == 1 { // reverse order: Chart.yaml need not come first
		sort.Sort(sort.Reverse(sort.StringSlice(names)))
	}
	var buf bytes.Buffer
	zw := gzip.NewWriter(&buf)
	tw := tar.NewWriter(zw)
	if variant%2 == 0 { // directory entries as tar(1) would write them
		seen := map[string]bool{}
		tw.WriteHeader(&tar.Header{Name: prefix + "/", Typeflag: tar.TypeDir, Mode: 0o755})
		for _, p := range names {
			parts := strings.Split(p, "/")
			for i := 1; i < len(parts); i++ {
				d := strings.Join(parts[:i], "/")
				if !seen[d] {
					seen[d] = true
					tw.WriteHeader(&tar.Header{Name: prefix + "/" + d + "/", Typeflag: tar.TypeDir, Mode: 0o755})
				}
			}
		}
	}
	for _, p := range names {
		if err := tw.WriteHeader(&tar.Header{Name: prefix + "/" + p, Typeflag: tar.TypeReg, Mode: 0o600 + variant%64, Size: int64(len(files[p]))}); err != nil {
			panic(err)
		}
		tw.Write(files[p])
	}
	tw.Close()
	zw.Close()
	return buf.Bytes()
}
