package c15

import (
	"bytes"
	"encoding/json"
	"fmt"
	"sort"
	"strings"
	"unicode/utf8"

	chart "helm.sh/helm/v4/pkg/chart/v2"
)

// diff is one field-wise difference between two charts.
type diff struct {
	Field  string // stable: which part of the chart + how it differs + name/content shape
	Detail string
}

type cmpStats struct{ files, charts int64 }

type cmpOpts struct {
	allRaw        bool   // compare every Raw entry (same input bytes on both sides); else only values.yaml
	version, appv string // action.Package overrides applied to the right-hand side root (expected)
}

func canon(v any) string {
	b, err := json.Marshal(v)
	if err != nil {
		return "unmarshalable: " + err.Error()
	}
	return string(b)
}

// nameShape classifies a file name for witness classes.
func nameShape(n string) string {
	var tags []string
	base := n[strings.LastIndex(n, "/")+1:]
	if strings.Contains(n, "/") {
		tags = append(tags, "nested")
	}
	if strings.HasPrefix(base, "..") {
		tags = append(tags, "leading-dotdot")
	} else if strings.HasPrefix(base, ".") {
		tags = append(tags, "dotfile")
	}
	if strings.Contains(n, " ") {
		tags = append(tags, "space")
	}
	if len(n) != utf8.RuneCountInString(n) {
		tags = append(tags, "unicode")
	}
	if len(base) > 100 {
		tags = append(tags, "long")
	}
	if strings.ContainsAny(n, "[]*?!#;%&='\"~+") {
		tags = append(tags, "punct")
	}
	if len(tags) == 0 {
		return "plain"
	}
	return strings.Join(tags, "+")
}

func contentShape(a, b []byte) string {
	switch {
	case len(b) == 0:
		return "became empty"
	case bytes.Equal(bytes.ReplaceAll(a, bom, nil), bytes.ReplaceAll(b, bom, nil)):
		return "BOM bytes differ"
	case bytes.Equal(bytes.ReplaceAll(a, []byte("\r\n"), []byte("\n")), bytes.ReplaceAll(b, []byte("\r\n"), []byte("\n"))):
		return "line endings differ"
	case bytes.Contains(a, []byte{0}):
		return "binary content differs"
	}
	return "content differs"
}

func fileMap(fs []*chart.File) (map[string][]byte, []string) {
	m := map[string][]byte{}
	var dups []string
	for _, f := range fs {
		if _, ok := m[f.Name]; ok {
			dups = append(dups, f.Name)
		}
		m[f.Name] = f.Data
	}
	return m, dups
}

func clip(b []byte) string {
	if len(b) > 60 {
		return fmt.Sprintf("%q...(%d bytes)", b[:60], len(b))
	}
	return fmt.Sprintf("%q", b)
}

func cmpFiles(what string, a, b []*chart.File, at string, st *cmpStats, out *[]diff) {
	am, adup := fileMap(a)
	bm, bdup := fileMap(b)
	for _, d := range adup {
		*out = append(*out, diff{what + " duplicated in original", at + d})
	}
	for _, d := range bdup {
		*out = append(*out, diff{what + " duplicated [" + nameShape(d) + "]", at + d})
	}
	var names []string
	for n := range am {
		names = append(names, n)
	}
	for n := range bm {
		if _, ok := am[n]; !ok {
			names = append(names, n)
		}
	}
	sort.Strings(names)
	for _, n := range names {
		st.files++
		x, okx := am[n]
		y, oky := bm[n]
		switch {
		case (!oky || !okx) && strings.HasPrefix(n, "charts/") && strings.HasSuffix(n, ".prov"):
			// cause shape: the loader files every charts/**.prov under the TOP chart, so a .prov that
			// belonged to a nested dependency changes owner once the tree is flattened into one archive
			*out = append(*out, diff{what + " re-homed: .prov file below charts/ of a nested dependency", fmt.Sprintf("%s%q present before %v, after %v", at, n, okx, oky)})
		case !oky:
			*out = append(*out, diff{what + " missing [" + nameShape(n) + "]", fmt.Sprintf("%s%q (%d bytes) is missing", at, n, len(x))})
		case !okx:
			*out = append(*out, diff{what + " extra [" + nameShape(n) + "]", fmt.Sprintf("%s%q (%d bytes) is new", at, n, len(y))})
		case !bytes.Equal(x, y):
			*out = append(*out, diff{what + " bytes: " + contentShape(x, y), fmt.Sprintf("%s%q: %s != %s", at, n, clip(x), clip(y))})
		}
	}
}

// compareCharts compares b (the chart that went through the operation under test) with a.
func compareCharts(a, b *chart.Chart, o cmpOpts, at string, st *cmpStats, out *[]diff) {
	st.charts++
	if a.Metadata == nil || b.Metadata == nil {
		if a.Metadata != b.Metadata {
			*out = append(*out, diff{"metadata nil", at})
		}
		return
	}
	am := *a.Metadata
	if o.version != "" {
		am.Version = o.version
	}
	if o.appv != "" {
		am.AppVersion = o.appv
	}
	if x, y := canon(&am), canon(b.Metadata); x != y {
		field := "metadata"
		var ma, mb map[string]json.RawMessage
		json.Unmarshal([]byte(x), &ma)
		json.Unmarshal([]byte(y), &mb)
		var ks []string
		for k := range ma {
			if string(ma[k]) != string(mb[k]) {
				ks = append(ks, k)
			}
		}
		for k := range mb {
			if _, ok := ma[k]; !ok {
				ks = append(ks, k)
			}
		}
		sort.Strings(ks)
		*out = append(*out, diff{field + " fields " + strings.Join(ks, ","), fmt.Sprintf("%smetadata %s != %s", at, x, y)})
	}
	if x, y := canon(a.Values), canon(b.Values); x != y {
		*out = append(*out, diff{"parsed values", fmt.Sprintf("%svalues %s != %s", at, x, y)})
	}
	ar, _ := fileMap(a.Raw)
	br, _ := fileMap(b.Raw)
	if o.allRaw {
		cmpFiles("raw file", a.Raw, b.Raw, at, st, out)
	} else {
		x, okx := ar["values.yaml"]
		y, oky := br["values.yaml"]
		if okx != oky {
			*out = append(*out, diff{"raw values.yaml presence", fmt.Sprintf("%sraw values.yaml present %v -> %v", at, okx, oky)})
		} else if !bytes.Equal(x, y) {
			*out = append(*out, diff{"raw values.yaml bytes: " + contentShape(x, y), fmt.Sprintf("%sraw values.yaml %s != %s", at, clip(x), clip(y))})
		}
	}
	if (a.Schema == nil) != (b.Schema == nil) {
		*out = append(*out, diff{"schema presence", fmt.Sprintf("%sschema present %v -> %v", at, a.Schema != nil, b.Schema != nil)})
	} else if !bytes.Equal(a.Schema, b.Schema) {
		*out = append(*out, diff{"schema bytes: " + contentShape(a.Schema, b.Schema), fmt.Sprintf("%sschema %s != %s", at, clip(a.Schema), clip(b.Schema))})
	}
	switch {
	case (a.Lock == nil) != (b.Lock == nil):
		*out = append(*out, diff{fmt.Sprintf("lock presence (apiVersion %s)", a.Metadata.APIVersion), fmt.Sprintf("%slock present %v -> %v", at, a.Lock != nil, b.Lock != nil)})
	case a.Lock != nil:
		if !a.Lock.Generated.Equal(b.Lock.Generated) {
			*out = append(*out, diff{"lock generated time", fmt.Sprintf("%slock.generated %s != %s", at, a.Lock.Generated, b.Lock.Generated)})
		}
		if a.Lock.Digest != b.Lock.Digest || canon(a.Lock.Dependencies) != canon(b.Lock.Dependencies) {
			*out = append(*out, diff{"lock content", fmt.Sprintf("%slock %s != %s", at, canon(a.Lock), canon(b.Lock))})
		}
	}
	cmpFiles("template", a.Templates, b.Templates, at, st, out)
	cmpFiles("file", a.Files, b.Files, at, st, out)
	ad := map[string]*chart.Chart{}
	for _, d := range a.Dependencies() {
		ad[d.Name()] = d
	}
	seen := map[string]bool{}
	for _, d := range b.Dependencies() {
		if seen[d.Name()] {
			*out = append(*out, diff{"dependency duplicated", at + d.Name()})
			continue
		}
		seen[d.Name()] = true
		if x, ok := ad[d.Name()]; ok {
			compareCharts(x, d, cmpOpts{allRaw: false}, at+"charts/"+d.Name()+"/", st, out)
		} else {
			*out = append(*out, diff{"dependency extra", fmt.Sprintf("%sdependency %q is new", at, d.Name())})
		}
	}
	for n := range ad {
		if !seen[n] {
			*out = append(*out, diff{"dependency missing", fmt.Sprintf("%sdependency %q is missing", at, n)})
		}
	}
}
