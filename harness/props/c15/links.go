package c15

import (
	"math/rand"
	"os"
	"path"
	"path/filepath"
	"strings"
)

// Symlinked files and directories inside a generated chart directory. The directory loader
// follows them by design (the target's content appears under the LINK's path); what is judged is
// the ignore decision, which pkg/ignore documents as a decision on the path inside the chart,
// i.e. on the link's own path and name, never on the name of whatever it resolves to.
type linkSpec struct {
	Path    string            // chart-relative path of the symlink
	Dir     bool              // resolves to a directory
	Inside  string            // chart-relative target ("" = target outside the chart directory)
	ExtName string            // base name of the outside target (differs from the link's base name)
	Content map[string][]byte // files that become visible below Path ("" key for a file link)
}

var fileLinkNames = []string{"id_rsa", "secret.key", "notes.txt", "docs/id_rsa", "a/b/linked.md", "private.pem", "cargo/a.txt", "templates/linked.yaml", "README.md", "pubinfo", "conf.d/b.txt"}
var dirLinkNames = []string{"private", "build", "tmp", "docs/private", "cargo", "a/b", "files", "mirror", "ci"}
var extFileNames = []string{"key-material.dat", "outside.key", "plain.txt", "id_rsa.real", "x.md", "noext"}
var extDirNames = []string{"ext-dir", "vault", "build-output", "tmp.d", "docs"}

func collides(files map[string][]byte, p string) bool {
	for q := range files {
		if q == p || strings.HasPrefix(q, p+"/") || strings.HasPrefix(p, q+"/") {
			return true
		}
	}
	return false
}

// genLinks decides the symlinks of one chart (pure function of rng and the regular files) and
// returns them together with extra .helmignore lines that name them.
func genLinks(rng *rand.Rand, files map[string][]byte) ([]linkSpec, []string) {
	var out []linkSpec
	var rules []string
	taken := map[string][]byte{}
	for p, b := range files {
		taken[p] = b
	}
	n := 1 + rng.Intn(3)
	for i := 0; i < n; i++ {
		l := linkSpec{Dir: rng.Intn(2) == 0, Content: map[string][]byte{}}
		if l.Dir {
			l.Path = pick(rng, dirLinkNames)
		} else {
			l.Path = pick(rng, fileLinkNames)
		}
		if collides(taken, l.Path) {
			continue
		}
		// a link below a directory that another link mirrors would show up twice: keep them apart
		nested := false
		for _, o := range out {
			if o.Dir && o.Inside != "" && strings.HasPrefix(l.Path, o.Inside+"/") {
				nested = true
			}
			// never create anything THROUGH an earlier directory link (it would land in its target)
			if o.Dir && strings.HasPrefix(l.Path, o.Path+"/") {
				nested = true
			}
		}
		if nested {
			continue
		}
		inside := rng.Intn(3) == 0
		switch {
		case inside && !l.Dir:
			var cands []string
			for _, p := range sortedKeys(files) {
				if !strings.HasPrefix(p, "charts/") && p != ".helmignore" && path.Base(p) != path.Base(l.Path) {
					cands = append(cands, p)
				}
			}
			if len(cands) == 0 {
				continue
			}
			l.Inside = pick(rng, cands)
			l.Content[""] = files[l.Inside]
		case inside && l.Dir:
			seen := map[string]bool{}
			var cands []string
			for _, p := range sortedKeys(files) {
				d := strings.SplitN(p, "/", 2)
				if len(d) == 2 && d[0] != "charts" && d[0] != "templates" && !seen[d[0]] && d[0] != path.Base(l.Path) &&
					!strings.HasPrefix(l.Path+"/", d[0]+"/") {
					seen[d[0]] = true
					holdsLink := false
					for _, o := range out {
						if strings.HasPrefix(o.Path, d[0]+"/") {
							holdsLink = true
						}
					}
					if !holdsLink {
						cands = append(cands, d[0])
					}
				}
			}
			if len(cands) == 0 {
				continue
			}
			l.Inside = pick(rng, cands)
			for p, b := range files {
				if strings.HasPrefix(p, l.Inside+"/") {
					l.Content[strings.TrimPrefix(p, l.Inside+"/")] = b
				}
			}
		case l.Dir:
			for l.ExtName = pick(rng, extDirNames); l.ExtName == path.Base(l.Path); {
				l.ExtName = pick(rng, extDirNames)
			}
			for _, f := range []string{"inner.txt", "deep/er.key", "id_rsa", "x.md"}[:1+rng.Intn(4)] {
				d, _ := genContent(rng)
				l.Content[f] = d
			}
		default:
			for l.ExtName = pick(rng, extFileNames); l.ExtName == path.Base(l.Path); {
				l.ExtName = pick(rng, extFileNames)
			}
			l.Content[""], _ = genContent(rng)
		}
		// register what becomes visible, so that later links do not collide with it
		for rel, b := range l.Content {
			taken[strings.TrimSuffix(l.Path+"/"+rel, "/")] = b
		}
		out = append(out, l)
		// rules naming the link (slash-less, dir-only, rooted, path patterns) or, as a decoy, the
		// base name of what it resolves to (which must not decide anything)
		base := path.Base(l.Path)
		tbase := l.ExtName
		if l.Inside != "" {
			tbase = path.Base(l.Inside)
		}
		var opts []string
		if l.Dir {
			opts = []string{base + "/", base, "/" + l.Path + "/", l.Path + "/*", base[:1] + "*/", tbase + "/", tbase}
			if strings.Contains(l.Path, "/") {
				opts = append(opts, l.Path+"/", l.Path)
			}
		} else {
			opts = []string{base, base[:1] + "*", "/" + l.Path, "*" + path.Ext(base), tbase, "*" + path.Ext(tbase)}
			if strings.Contains(l.Path, "/") {
				opts = append(opts, l.Path, path.Dir(l.Path)+"/*")
			}
		}
		if rng.Intn(4) > 0 {
			r := pick(rng, opts)
			if r != "*" && r != "" {
				rules = append(rules, r)
			}
		}
	}
	return out, rules
}

// plant creates the outside targets below ext and the symlinks below src.
func plantLinks(rng *rand.Rand, links []linkSpec, src, ext string) error {
	for i, l := range links {
		at := filepath.Join(src, filepath.FromSlash(l.Path))
		if err := os.MkdirAll(filepath.Dir(at), 0o755); err != nil {
			return err
		}
		var target string
		if l.Inside != "" {
			target = filepath.Join(src, filepath.FromSlash(l.Inside))
			if rng.Intn(2) == 0 { // relative form
				if r, err := filepath.Rel(filepath.Dir(at), target); err == nil {
					target = r
				}
			}
		} else {
			target = filepath.Join(ext, string(rune('a'+i)), l.ExtName)
			if l.Dir {
				tree := map[string][]byte{}
				for rel, b := range l.Content {
					tree[rel] = b
				}
				if err := writeTree(target, tree); err != nil {
					return err
				}
			} else {
				if err := os.MkdirAll(filepath.Dir(target), 0o755); err != nil {
					return err
				}
				if err := os.WriteFile(target, l.Content[""], 0o644); err != nil {
					return err
				}
			}
		}
		if err := os.Symlink(target, at); err != nil {
			return err
		}
	}
	return nil
}
