// Package c15: monitor for property C15 (see DESIGN.md section 3).
package c15
