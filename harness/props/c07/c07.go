// Package c07: helm never takes over or deletes resources it does not own.
//
// Two case families, both running the real action layer against the simulated API server:
//
// "place": a chart of 1-6 resources to be created; every slot is pre-populated (or not) with an
// object of the same kind and name in one of nine ownership classes (absent / foreign / owned /
// label missing / release-name annotation missing / release-namespace annotation missing / label
// wrong / owned by another release name / owned by the same name in another namespace). The
// placement runs under install, install --replace over an uninstalled-with-history release, and
// an upgrade that adds the resources, each with and without TakeOwnership. A share of the
// placements gives slots an explicit metadata.namespace (ns2) other than the release namespace,
// with the pre-existing object living in that namespace, and runs the op with --atomic. Oracle:
//
//	took-over-unowned            the op succeeded although a to-be-created resource existed without
//	                             correct ownership metadata and take-ownership was not requested
//	mutation-before-refusal      a refused op sent a create/patch/replace/delete request for any resource
//	storage-write-before-refusal a refused op wrote a release record
//	refusal-changed-cluster/-ledger  store / raw ledger differ from the pre-op snapshot after a refusal
//	ownership-metadata-missing   a manifest resource the op created, patched or replaced lacks
//	                             app.kubernetes.io/managed-by=Helm or the meta.helm.sh/release-name /
//	                             release-namespace annotations of this release
//	manifest-names-unowned-object  after an install/upgrade that succeeded without take-ownership, a
//	                             live object named by the new revision's manifest (ANY of them, written
//	                             by the op or not) lacks this release's ownership metadata
//	delete-of-unnamed-object     a successful DELETE whose target is named in no manifest or hook of
//	                             any revision of the release operated on
//	delete-of-foreign-release-record  a storage delete of a record that is not this release's
//
//	mutated-foreign-object       (every op of every family, without take-ownership) a successful
//	                             PATCH/PUT/DELETE of an object that existed and did not carry this
//	                             release's ownership metadata right before the request (sim PreOwner),
//	                             unless it is a hook object or is named by the manifests the op started
//	                             from (deployed + latest revision: "updated, not created")
//
// "race": a foreign object X appears after the pre-flight check passed: stored out of band at the
// moment the pre-install / pre-upgrade hook's create request is received (install, upgrade adding
// X), or between an upgrade that dropped X and a rollback to the revision naming X. The op may
// fail or succeed but must not patch, replace or delete X (mutated-foreign-object on the request
// log, planted-object-changed on the store). Two more sequences plant X after a FAILED upgrade that
// added X but never created it (its create was rejected), then run the upgrade again with the same
// chart (must be refused: took-over-unowned) or with a chart that drops X (X must stay untouched).
// All 9 ownership classes x resource kinds.
//
// "hist": the drift histories of C02 (gen.DriftCase: install/upgrade/rollback/uninstall with
// failing ops, atomic, cleanup-on-fail, force, hooks with delete policies, out-of-band edits,
// bystanders and a second release) with the DELETE-target monitor on every op (successful or
// not) and the ownership-metadata check after every successful install/upgrade/rollback.
//
// Don't-care zones: CRDs from crds/ (not generated); resources present in both the old and the
// new manifest of an upgrade (updated, not created: no ownership check promised); a Namespace
// made by --create-namespace (not generated); an op that refuses although it could have proceeded
// (counted as unexpected_refusals, not a violation: the property only says when helm must refuse);
// hook objects (not "manifest resources") in the metadata clause; DELETE requests answered 404
// (nothing was deleted; counted); objects the op did not write in the metadata clause.
package c07

import (
	"encoding/json"
	"fmt"
	"math/rand"
	"sort"
	"strings"

	"sigs.k8s.io/yaml"

	"helm.sh/helm/v4/verifh/core"
	"helm.sh/helm/v4/verifh/env"
	"helm.sh/helm/v4/verifh/gen"
	"helm.sh/helm/v4/verifh/ref"
	"helm.sh/helm/v4/verifh/sim"
)

const (
	ns      = gen.DriftNS
	rel     = gen.DriftRel
	otherNS = gen.DriftOtherNS
)

var classNames = []string{"absent", "foreign (no ownership metadata)", "correctly owned", "managed-by label missing", "release-name annotation missing",
	"release-namespace annotation missing", "managed-by label wrong", "owned by another release name", "owned by the same release name in another namespace"}

const (
	clAbsent = 0
	clOwned  = 2
)

func init() {
	core.Register(&core.Prop{
		ID:    "C07",
		Level: "exploration",
		Rule: "place: every assignment of the 9 ownership classes to the to-be-created resources of charts with 1-2 (quick) / 1-3 (thorough) resource slots is enumerated, larger charts (up to 6 slots) are sampled; the enumerated placements are repeated, and the sampled ones mixed, with slots whose manifest document sets metadata.namespace to a second namespace where the pre-existing object lives, and with --atomic; each placement runs under install, install --replace over an uninstalled release with history, and upgrade adding the resources, with and without take-ownership, on memory/secrets/configmaps storage. race: for every ownership class and 3 (quick) / all 15 (thorough) resource kinds, a foreign object is planted while the pre-install/pre-upgrade hook is being created, between an upgrade that dropped the resource and a rollback to the revision naming it, or after a failed upgrade that added the resource but never created it (then the upgrade is retried with the same chart and with a chart dropping the resource). hist: seeded drift histories shared with C02 under the DELETE-target, foreign-mutation (PreOwner) and ownership-metadata monitors. " +
			"distinct_nontrivial counts distinct (scenario, take-ownership, atomic, sorted multiset of ownership classes, number of other-namespace slots, verdict) tuples plus distinct (op kind+flags, outcome, #deletes) shapes of history ops that deleted something.",
		Assumptions: []string{
			"the simulated API server applies requests like a real API server and logs every request with the operation's tag; release storage goes through the same log",
			"pre-existing objects are placed directly in the object store before the operation under test starts",
			"readiness and hook completion are scripted at kube.Interface.GetWaiter",
			"'named in a manifest or hook of the release' is evaluated on the raw ledger before and after the op and at the time of every DELETE request, parsed with sigs.k8s.io/yaml",
		},
		Exhaustive:     func(string) bool { return false },
		Gen:            genCases,
		Run:            run,
		Post:           post,
		CaseTimeoutSec: 300,
	})
}

type caseData struct {
	Mode    string `json:"mode"` // place | hist
	Slots   []int  `json:"slots,omitempty"`
	Classes []int  `json:"classes,omitempty"`
	Driver  string `json:"driver,omitempty"`
	// OtherNS[i]: slot i's manifest document carries an explicit metadata.namespace (ns2) that is
	// not the release namespace; its pre-existing object lives in that namespace.
	OtherNS []bool `json:"otherNS,omitempty"`
	// Atomic: the op under test runs with --atomic
	Atomic bool           `json:"atomic,omitempty"`
	DC     *gen.DriftCase `json:"dc,omitempty"`
	// Only restricts a placement to one "scenario/takeOwnership" combination (replay aid)
	Only string `json:"only,omitempty"`
}

var drivers = []string{"memory", "secrets", "configmaps"}

func genCases(seed int64, tier string) []core.Case {
	rng := rand.New(rand.NewSource(seed*15485863 + 7))
	var out []core.Case
	addNS := func(slots, classes []int, other []bool, atomic bool) {
		i := len(out)
		var o []bool
		for j := range slots {
			// a cluster-scoped kind has no namespace to differ in
			o = append(o, j < len(other) && other[j] && gen.PolPool[slots[j]].Kind != "ClusterRole")
		}
		out = append(out, core.Case{ID: fmt.Sprintf("place%d", i), Data: core.J(caseData{Mode: "place", Slots: append([]int(nil), slots...), Classes: append([]int(nil), classes...), Driver: drivers[i%3], OtherNS: o, Atomic: atomic})})
	}
	add := func(slots, classes []int) { addNS(slots, classes, nil, false) }
	pickSlots := func(n int) []int {
		p := rng.Perm(len(gen.PolPool))[:n]
		return p
	}
	nc := len(classNames)
	exhaust := 2
	sampled, hist := 150, 150
	if tier == "thorough" {
		exhaust = 3
		sampled, hist = 6000, 10000
	}
	for n := 1; n <= exhaust; n++ {
		total := 1
		for i := 0; i < n; i++ {
			total *= nc
		}
		for x := 0; x < total; x++ {
			cl := make([]int, n)
			y := x
			for i := 0; i < n; i++ {
				cl[i] = y % nc
				y /= nc
			}
			add(pickSlots(n), cl)
			// the same placement with resources that carry an explicit metadata.namespace other than
			// the release namespace (the pre-existing object lives there), with and without --atomic
			switch n {
			case 1:
				addNS(pickSlots(n), cl, []bool{true}, false)
				addNS(pickSlots(n), cl, []bool{true}, true)
			case 2:
				addNS(pickSlots(n), cl, [][]bool{{true, false}, {true, true}, {false, true}}[x%3], x%2 == 1)
			default:
				if x%4 == 0 {
					addNS(pickSlots(n), cl, []bool{x%8 == 0, true, x%3 == 0}, x%3 == 1)
				}
			}
		}
	}
	for i := 0; i < sampled; i++ {
		n := exhaust + 1 + rng.Intn(6-exhaust)
		cl := make([]int, n)
		for j := range cl {
			// bias towards absent/owned so that single offenders among many acceptable slots occur
			switch x := rng.Intn(10); {
			case x < 3:
				cl[j] = clAbsent
			case x < 6:
				cl[j] = clOwned
			default:
				cl[j] = rng.Intn(nc)
			}
		}
		other := make([]bool, n)
		for j := range other {
			other[j] = rng.Intn(10) < 3
		}
		addNS(pickSlots(n), cl, other, rng.Intn(4) == 0)
	}
	// race: every ownership class on a few (quick) / all (thorough) resource kinds
	perClass := 3
	if tier == "thorough" {
		perClass = len(gen.PolPool)
	}
	for cl := 0; cl < nc; cl++ {
		perm := rng.Perm(len(gen.PolPool))
		for j := 0; j < perClass; j++ {
			i := len(out)
			out = append(out, core.Case{ID: fmt.Sprintf("race%d", i), Data: core.J(caseData{Mode: "race", Slots: []int{perm[j]}, Classes: []int{cl}, Driver: drivers[i%3]})})
		}
	}
	for h := 0; h < hist; h++ {
		drv := drivers[h%3]
		dc := gen.NewDriftCase(rng, 5+rng.Intn(4), drv)
		out = append(out, core.Case{ID: fmt.Sprintf("hist%d-%s", h, drv), Data: core.J(caseData{Mode: "hist", DC: &dc})})
	}
	return out
}

func post(a *core.Agg) string {
	var msgs []string
	need := func(stat string, min int64) {
		if a.Stats[stat] < min {
			msgs = append(msgs, fmt.Sprintf("%s=%d < %d", stat, a.Stats[stat], min))
		}
	}
	need("refusals_expected", 300)
	need("refusals_observed", 300)
	need("acceptances_expected", 100)
	need("acceptances_observed", 80)
	need("adoptions_with_take_ownership", 50)
	need("refusal_requests_inspected", 1000)
	need("written_manifest_objects_metadata_checked", 500)
	need("delete_targets_checked", 200)
	need("hist_ops_monitored", 300)
	need("mutation_pre_owners_checked", 1000)
	need("race_foreign_objects_checked", 40)
	need("manifest_named_objects_ownership_checked", 1000)
	need("placements_with_explicit_other_namespace", 200)
	if len(msgs) > 0 {
		return "monitors observed too little: " + strings.Join(msgs, "; ")
	}
	return ""
}

func run(c core.Case, verbose bool) core.Result {
	env.Quiet()
	var d caseData
	core.U(c, &d)
	var res core.Result
	if verbose {
		gen.DriftTrace = func(r *sim.Req) {
			if r.Class == "mutation" || (r.Class == "storage" && r.Method != "GET") {
				b := string(r.Body)
				if len(b) > 300 {
					b = b[:300] + "..."
				}
				fmt.Printf("     >> %s %s %s %s %s\n", r.Agent, r.Class, r.Method, r.Path, b)
			}
		}
	}
	switch d.Mode {
	case "place":
		runPlace(&res, d, verbose)
	case "hist":
		runHist(&res, d, verbose)
	case "race":
		runRace(&res, d, verbose)
	}
	return res
}

// ---------------------------------------------------------------- place

func slotName(s int) string { return rel + "-" + gen.PolPool[s].Suffix }

func (d caseData) inOtherNS(i int) bool { return i < len(d.OtherNS) && d.OtherNS[i] }

// charts: vA = base resources only; vB = base + the slots under test.
func charts(d caseData) (vA, vB gen.Files) {
	mk := func(withSlots bool, content string) gen.Files {
		f := gen.Files{
			"Chart.yaml":          "apiVersion: v2\nname: place\nversion: 0.1.0\n",
			"values.yaml":         "k: v\n",
			"templates/base.yaml": gen.PolYAML("ConfigMap", "{{ .Release.Name }}-base", content, "{{ .Values.k | quote }}", nil),
		}
		// a resource of the old manifest that shares its NAME with the first new resource but has
		// another kind (resource identity is group+kind+namespace+name, not the name)
		shadowKind := "ConfigMap"
		if gen.PolPool[d.Slots[0]].Kind == "ConfigMap" {
			shadowKind = "ServiceAccount"
		}
		f["templates/shadow.yaml"] = gen.PolYAML(shadowKind, "{{ .Release.Name }}-"+gen.PolPool[d.Slots[0]].Suffix, content, "{{ .Values.k | quote }}", nil)
		if withSlots {
			for i, s := range d.Slots {
				sl := gen.PolPool[s]
				y := gen.PolYAML(sl.Kind, "{{ .Release.Name }}-"+sl.Suffix, "c1", "{{ .Values.k | quote }}", nil)
				if d.inOtherNS(i) {
					y = strings.Replace(y, "metadata:\n", "metadata:\n  namespace: "+otherNS+"\n", 1)
				}
				f["templates/"+sl.Suffix+".yaml"] = y
			}
		}
		return f
	}
	return mk(false, "c0"), mk(true, "c1")
}

// prepopulate stores the pre-existing objects and returns their keys by slot position.
func prepopulate(w *env.World, d caseData) map[int]string {
	keys := map[int]string{}
	for i, s := range d.Slots {
		cl := d.Classes[i]
		sl := gen.PolPool[s]
		if cl == clAbsent {
			if d.inOtherNS(i) {
				// one of the bystanders lives in ns2 under a release resource's name: "absent" means absent
				for j := range sim.Resources {
					if r := sim.Resources[j]; r.Kind == sl.Kind {
						w.Sim.Remove(sim.Key(r.Group, r.Plural, otherNS, slotName(s)))
					}
				}
			}
			continue
		}
		objNS := ns
		if d.inOtherNS(i) {
			objNS = otherNS
		}
		o := preObject(s, cl, objNS)
		k, err := w.Sim.Put(o)
		if err != nil {
			panic(err)
		}
		keys[i] = k
	}
	return keys
}

// preObject builds a pre-existing object for pool slot s in ownership class cl (not clAbsent).
func preObject(s, cl int, objNS string) map[string]any {
	sl := gen.PolPool[s]
	var o map[string]any
	if err := yaml.Unmarshal([]byte(gen.PolYAML(sl.Kind, slotName(s), "pre", `"pre"`, nil)), &o); err != nil {
		panic(err)
	}
	md := o["metadata"].(map[string]any)
	md["namespace"] = objNS
	labels := md["labels"].(map[string]any)
	ann := map[string]any{}
	md["annotations"] = ann
	labels[ref.ManagedByLabel] = "Helm"
	ann[ref.RelNameAnno] = rel
	ann[ref.RelNamespaceAnn] = ns
	switch cl {
	case 1:
		delete(labels, ref.ManagedByLabel)
		delete(md, "annotations")
	case 3:
		delete(labels, ref.ManagedByLabel)
	case 4:
		delete(ann, ref.RelNameAnno)
	case 5:
		delete(ann, ref.RelNamespaceAnn)
	case 6:
		labels[ref.ManagedByLabel] = "Tiller"
	case 7:
		ann[ref.RelNameAnno] = gen.DriftOther
	case 8:
		ann[ref.RelNamespaceAnn] = otherNS
	}
	return o
}

func recsEqual(a, b []env.Rec) bool {
	x, _ := json.Marshal(a)
	y, _ := json.Marshal(b)
	return string(x) == string(y)
}

func classMultiset(cl []int) string {
	c := append([]int(nil), cl...)
	sort.Ints(c)
	var p []string
	for _, x := range c {
		p = append(p, fmt.Sprint(x))
	}
	return strings.Join(p, "")
}

func runPlace(res *core.Result, d caseData, verbose bool) {
	vA, vB := charts(d)
	var offenders []int
	for i, cl := range d.Classes {
		if cl != clAbsent && cl != clOwned {
			offenders = append(offenders, i)
		}
	}
	describe := func() string {
		var p []string
		for i, s := range d.Slots {
			where := ""
			if d.inOtherNS(i) {
				where = " [manifest sets metadata.namespace=" + otherNS + "]"
			}
			p = append(p, fmt.Sprintf("%s/%s%s=%s", gen.PolPool[s].Kind, slotName(s), where, classNames[d.Classes[i]]))
		}
		return strings.Join(p, ", ")
	}
	if verbose {
		fmt.Println("placement:", describe(), "driver", d.Driver)
	}
	for _, scenario := range []string{"install", "install --replace over uninstalled release", "upgrade adding resources"} {
		for _, takeOwn := range []bool{false, true} {
			short := map[string]string{"install": "install", "install --replace over uninstalled release": "replace", "upgrade adding resources": "upgrade"}[scenario]
			tag := fmt.Sprintf("%s/%v", short, takeOwn)
			if d.Only != "" && d.Only != tag {
				continue
			}
			w := env.NewWorld(d.Driver, ns)
			gen.PutBystanders(w.Sim, 4)
			nt := gen.TrackNames(w, rel, ns, "op")
			op := env.Op{Kind: "install", TakeOwnership: takeOwn, Atomic: d.Atomic}
			switch scenario {
			case "install --replace over uninstalled release":
				w.Exec("pre-install", rel, env.Op{Kind: "install"}, vA.Build())
				w.Exec("pre-uninstall", rel, env.Op{Kind: "uninstall", KeepHistory: true}, nil)
				op.Replace = true
				res.Evals += 2
			case "upgrade adding resources":
				w.Exec("pre-install", rel, env.Op{Kind: "install"}, vA.Build())
				op.Kind = "upgrade"
				res.Evals++
			}
			prepopulate(w, d)
			s0 := w.Sim.Snapshot()
			l0, _ := w.Ledger(rel)
			nt.Add(l0)
			r := w.Exec("op", rel, op, vB.Build())
			res.Evals++
			s1 := w.Sim.Snapshot()
			l1, _ := w.Ledger(rel)
			nt.Add(l1)
			events := w.Sim.Done("op")
			expectRefuse := len(offenders) > 0 && !takeOwn
			detail := func() string {
				return fmt.Sprintf("driver %s | %s, take-ownership=%v atomic=%v | to-be-created resources: %s | err=%q | ledger before [%s] after [%s]", d.Driver, scenario, takeOwn, d.Atomic, describe(), r.ErrString(), env.LedgerString(l0), env.LedgerString(l1))
			}
			if verbose {
				fmt.Printf("%s take-ownership=%v: expect refusal=%v, err=%q, ledger [%s] -> [%s]\n", scenario, takeOwn, expectRefuse, r.ErrString(), env.LedgerString(l0), env.LedgerString(l1))
				for _, e := range events {
					if e.Class != "read" {
						fmt.Printf("     #%d %s %s %s/%s -> %d\n", e.N, e.Class, e.Method, e.Kind, e.Name, e.Code)
					}
				}
			}
			verdict := "accepted"
			if r.Err != nil {
				verdict = "refused"
			}
			to := "no take-ownership"
			if takeOwn {
				to = "take-ownership"
			}
			nOther := 0
			for i := range d.Slots {
				if d.inOtherNS(i) {
					nOther++
				}
			}
			if nOther > 0 {
				res.Stat("placements_with_explicit_other_namespace", 1)
			}
			res.Key("place|%s|%s|atomic=%v|%s|otherNS=%d|%s", scenario, to, d.Atomic, classMultiset(d.Classes), nOther, verdict)
			if expectRefuse {
				res.Stat("refusals_expected", 1)
				res.Stat("refusal_requests_inspected", int64(len(events)))
				if r.Err == nil {
					for _, i := range offenders {
						res.Add("took-over-unowned", scenario+" · existing object: "+classNames[d.Classes[i]], "%s/%s existed (%s) and the op succeeded without take-ownership | %s", gen.PolPool[d.Slots[i]].Kind, slotName(d.Slots[i]), classNames[d.Classes[i]], detail())
					}
				} else {
					res.Stat("refusals_observed", 1)
				}
				var muts, writes []string
				for _, e := range events {
					if e.Class == "mutation" {
						muts = append(muts, fmt.Sprintf("%s %s/%s->%d", e.Method, e.Kind, e.Name, e.Code))
					}
					if e.Class == "storage" && e.Method != "GET" {
						writes = append(writes, fmt.Sprintf("%s %s->%d", e.Method, e.Name, e.Code))
					}
				}
				if r.Err != nil && len(muts) > 0 {
					res.Add("mutation-before-refusal", scenario, "the refused op sent %v | %s", muts, detail())
				}
				if r.Err != nil && len(writes) > 0 {
					res.Add("storage-write-before-refusal", scenario, "the refused op wrote release records: %v | %s", writes, detail())
				}
				if r.Err != nil {
					res.Stat("refusal_snapshots_compared", 1)
					var diff []string
					for k, v := range s0 {
						if v1, ok := s1[k]; !ok {
							diff = append(diff, "deleted "+k)
						} else if v1 != v {
							diff = append(diff, "changed "+k)
						}
					}
					for k := range s1 {
						if _, ok := s0[k]; !ok {
							diff = append(diff, "created "+k)
						}
					}
					sort.Strings(diff)
					if len(diff) > 0 {
						res.Add("refusal-changed-cluster", scenario, "store differs after the refused op: %v | %s", diff, detail())
					}
					if !recsEqual(l0, l1) {
						res.Add("refusal-changed-ledger", scenario, "raw ledger differs after the refused op | %s", detail())
					}
				}
			} else {
				res.Stat("acceptances_expected", 1)
				if r.Err != nil {
					res.Stat("unexpected_refusals", 1)
					if verbose {
						fmt.Println("  (not a violation) op failed although nothing forced a refusal:", r.Err)
					}
				} else {
					res.Stat("acceptances_observed", 1)
					if takeOwn && len(offenders) > 0 {
						res.Stat("adoptions_with_take_ownership", 1)
					}
				}
			}
			if r.Err == nil {
				checkMetadata(res, events, s1, l1, scenario, detail)
				if !takeOwn {
					checkManifestOwnership(res, s1, l1, scenario, detail)
				}
			}
			checkDeletes(res, events, nt.Snapshot(), scenario, detail)
			checkForeignMutations(res, events, baseKeys(l0, op.Kind), nt.HookSnapshot(), takeOwn, scenario, detail)
			if res.Sample == nil && len(offenders) > 0 {
				res.Sample = map[string]any{"mode": "place", "driver": d.Driver, "scenario": scenario, "take_ownership": takeOwn, "resources": describe(), "expected": map[bool]string{true: "refuse", false: "accept"}[expectRefuse], "observed_error": r.ErrString(), "requests_of_op": len(events)}
			}
		}
	}
}

// checkManifestOwnership: after an install/upgrade that reported success without take-ownership,
// EVERY live object the new revision's manifest names carries this release's ownership metadata
// (helm either created/updated it, stamping it, or had to refuse because it existed unowned).
func checkManifestOwnership(res *core.Result, s1 map[string]string, l1 []env.Rec, opc string, detail func() string) {
	top := ref.TopRec(l1)
	if top == nil {
		return
	}
	docs, _ := ref.ParseManifest(top.Manifest, ns)
	for _, d := range docs {
		live := ref.DecodeObj(s1[d.Key])
		if d.Key == "" || live == nil {
			continue
		}
		res.Stat("manifest_named_objects_ownership_checked", 1)
		if p := ref.OwnershipProblems(live, rel, ns); len(p) > 0 {
			kc := "typed kind"
			if !d.Typed() {
				kc = "custom kind"
			}
			res.Add("manifest-names-unowned-object", opc+" · "+kc, "the op succeeded without take-ownership and the manifest of revision %d names %s, but the live object is not this release's: %s | %s", top.Revision, d, strings.Join(p, "; "), detail())
		}
	}
}

// checkMetadata: every manifest resource the op wrote carries this release's ownership metadata.
func checkMetadata(res *core.Result, events []sim.Event, s1 map[string]string, l1 []env.Rec, opc string, detail func() string) {
	top := ref.TopRec(l1)
	if top == nil {
		return
	}
	wrote := map[string]string{}
	for _, e := range events {
		if e.Class != "mutation" || e.Code >= 300 {
			continue
		}
		switch e.Method {
		case "POST":
			wrote[gen.EventKey(e)] = "created"
		case "PATCH", "PUT":
			if wrote[gen.EventKey(e)] == "" {
				wrote[gen.EventKey(e)] = "updated"
			}
		}
	}
	docs, _ := ref.ParseManifest(top.Manifest, ns)
	for _, d := range docs {
		how := wrote[d.Key]
		if d.Key == "" || how == "" {
			continue
		}
		live := ref.DecodeObj(s1[d.Key])
		if live == nil {
			continue // C02's business
		}
		res.Stat("written_manifest_objects_metadata_checked", 1)
		if p := ref.OwnershipProblems(live, rel, ns); len(p) > 0 {
			kc := "typed kind"
			if !d.Typed() {
				kc = "custom kind"
			}
			res.Add("ownership-metadata-missing", fmt.Sprintf("%s · %s · %s", opc, how, kc), "%s was %s by the op but: %s | %s", d, how, strings.Join(p, "; "), detail())
		}
	}
}

const ownOwner = "Helm|" + rel + "|" + ns

// baseKeys: the objects named by the manifests the op starts from, i.e. whose update or deletion
// is "updated, not created": for upgrade the deployed revision (the latest one when none is
// deployed), for rollback the latest and the deployed revision, for uninstall the latest one,
// for install nothing. A failed latest revision is NOT a base of an upgrade: helm may never have
// created what only that revision names.
func baseKeys(l0 []env.Rec, opKind string) map[string]bool {
	var base []env.Rec
	dep, top := ref.LatestDeployed(l0), ref.TopRec(l0)
	switch opKind {
	case "upgrade":
		if dep != nil {
			base = append(base, env.Rec{Manifest: dep.Manifest})
		} else if top != nil {
			base = append(base, env.Rec{Manifest: top.Manifest})
		}
	case "rollback":
		if dep != nil {
			base = append(base, env.Rec{Manifest: dep.Manifest})
		}
		if top != nil {
			base = append(base, env.Rec{Manifest: top.Manifest})
		}
	case "uninstall":
		if top != nil {
			base = append(base, env.Rec{Manifest: top.Manifest})
		}
	}
	return ref.ReleaseObjectKeys(nil, base, ns)
}

// checkForeignMutations: without take-ownership, no successful PATCH/PUT/DELETE may hit an object
// that existed and did not carry this release's ownership metadata right before the request
// (sim.Event.PreOwner) -- except hook objects (never stamped) and objects named by the manifests
// the op starts from (don't-care zone "updated, not created").
func checkForeignMutations(res *core.Result, events []sim.Event, base, hooks map[string]bool, takeOwn bool, opc string, detail func() string) {
	if takeOwn {
		return
	}
	for _, e := range events {
		if e.Class != "mutation" || e.Code >= 300 || e.Injected || (e.Method != "PATCH" && e.Method != "PUT" && e.Method != "DELETE") {
			continue
		}
		k := gen.EventKey(e)
		if hooks[k] {
			res.Stat("mutations_of_hook_objects_skipped", 1)
			continue
		}
		res.Stat("mutation_pre_owners_checked", 1)
		if e.PreOwner == "" || e.PreOwner == "-" || e.PreOwner == ownOwner {
			continue
		}
		if base[k] {
			res.Stat("mutations_of_unstamped_base_objects_dont_care", 1)
			continue
		}
		res.Add("mutated-foreign-object", opc+" · "+e.Method, "%s %s/%s (ns %q) -> %d although the object carried ownership %q (managed-by|release-name|release-namespace) right before the request, the op did not request take-ownership, and the manifests the op started from do not name it | %s", e.Method, e.Kind, e.Name, e.NS, e.Code, e.PreOwner, detail())
	}
}

// checkDeletes: the DELETE-target monitor.
func checkDeletes(res *core.Result, events []sim.Event, named map[string]bool, opc string, detail func() string) (deleted int) {
	for _, e := range events {
		if e.Method != "DELETE" {
			continue
		}
		if e.Class == "storage" {
			res.Stat("storage_deletes_checked", 1)
			if !strings.HasPrefix(e.Name, "sh.helm.release.v1."+rel+".v") && !strings.HasPrefix(e.Name, rel+".v") {
				res.Add("delete-of-foreign-release-record", opc, "storage delete of %q, which is not a record of release %q | %s", e.Name, rel, detail())
			}
			continue
		}
		if e.Class != "mutation" {
			continue
		}
		if e.Code >= 300 {
			res.Stat("delete_requests_answered_not_found_or_rejected", 1)
			continue
		}
		deleted++
		res.Stat("delete_targets_checked", 1)
		k := gen.EventKey(e)
		if !named[k] {
			role := "an object unrelated to any release"
			switch {
			case strings.HasPrefix(e.Name, gen.DriftOther+"-"):
				role = "an object of another release"
			case e.NS != ns && e.NS != "":
				role = "an object in another namespace"
			}
			res.Add("delete-of-unnamed-object", opc+" · "+role, "DELETE %s/%s (ns %q) succeeded but no manifest or hook of any revision of release %q names it | %s", e.Kind, e.Name, e.NS, rel, detail())
		}
	}
	return
}

// ---------------------------------------------------------------- hist

func runHist(res *core.Result, d caseData, verbose bool) {
	dc := *d.DC
	if verbose {
		fam := dc.Family()
		for v := range fam.Versions {
			fmt.Println("  chart", fam.Describe(v))
		}
	}
	var ops []string
	gen.RunDriftHistory(dc, func(w *env.World, o *gen.StepObs) {
		res.Evals++
		res.Stat("hist_ops_monitored", 1)
		res.Stat("hist_requests_inspected", int64(len(o.Events)))
		opc := o.Step.Op.Kind
		outcome := "ok"
		if o.Res.Err != nil {
			outcome = "failed"
		}
		detail := func() string {
			return fmt.Sprintf("driver %s | history: %s | op %d %s err=%q | ledger before [%s] after [%s]", dc.Driver, dc.String(), o.I, o.Step, o.Res.ErrString(), env.LedgerString(o.L0), env.LedgerString(o.L1))
		}
		if verbose {
			fmt.Printf("op %d: %s -> %s err=%q ledger [%s] -> [%s]\n", o.I, o.Step, outcome, o.Res.ErrString(), env.LedgerString(o.L0), env.LedgerString(o.L1))
			for _, e := range o.Events {
				if e.Class == "mutation" {
					fmt.Printf("     %s %s/%s -> %d\n", e.Method, e.Kind, e.Name, e.Code)
				}
			}
		}
		class := "hist: " + opc
		if o.Res.Err != nil {
			class += " (failed"
			if o.Step.Op.Atomic {
				class += ", atomic"
			}
			if o.Step.Op.CleanupOnFail {
				class += ", cleanup-on-fail"
			}
			class += ")"
		}
		n := checkDeletes(res, o.Events, o.Named, class, detail)
		checkForeignMutations(res, o.Events, baseKeys(o.L0, opc), o.NamedHooks, o.Step.Op.TakeOwnership, class, detail)
		if o.Success() && opc != "uninstall" {
			checkMetadata(res, o.Events, o.S1, o.L1, "hist: "+opc, detail)
			if opc != "rollback" && !o.Step.Op.TakeOwnership {
				checkManifestOwnership(res, o.S1, o.L1, "hist: "+opc, detail)
			}
		}
		// the second release's records and objects must survive every op
		if len(o.OtherL1) != len(o.OtherL0) {
			res.Add("delete-of-foreign-release-record", class, "the ledger of release %q changed from [%s] to [%s] | %s", gen.DriftOther, env.LedgerString(o.OtherL0), env.LedgerString(o.OtherL1), detail())
		}
		if n > 0 {
			fl := ""
			if o.Step.Op.Atomic {
				fl += "+atomic"
			}
			if o.Step.Op.CleanupOnFail {
				fl += "+cleanup"
			}
			if o.Step.Op.Force {
				fl += "+force"
			}
			if o.Step.Op.NoHooks {
				fl += "+nohooks"
			}
			res.Key("hist|%s%s|%s|deletes=%d", opc, fl, outcome, n)
		}
		ops = append(ops, fmt.Sprintf("%s -> %s (%d deletes checked)", o.Step, outcome, n))
	})
	res.Sample = map[string]any{"mode": "hist", "driver": dc.Driver, "ops": ops}
}

// ---------------------------------------------------------------- race

// runRace: a foreign object X shows up where the release is about to create X, after the
// pre-flight ownership check has passed:
//
//	install / upgrade adding X, with a pre-install / pre-upgrade hook: the harness stores X out of
//	  band at the moment the hook's create request is received;
//	rollback: revision 1 names X, revision 2 drops it (X is deleted), a stranger creates X, then
//	  rollback to revision 1 (rollback has no pre-flight check at all).
//
// The op may fail or succeed; in no case may it patch, replace or delete X (mutated-foreign-object
// on the request log, planted-object-changed on the store).
func runRace(res *core.Result, d caseData, verbose bool) {
	s, cl := d.Slots[0], d.Classes[0]
	sl := gen.PolPool[s]
	hook := gen.HookSpec{Name: "prehook", Kind: "ConfigMap", Events: []string{"pre-install", "pre-upgrade"}, Policies: []string{"before-hook-creation"}}
	mk := func(withX, withHook bool, content string) gen.Files {
		f := gen.Files{
			"Chart.yaml":          "apiVersion: v2\nname: race\nversion: 0.1.0\n",
			"values.yaml":         "k: v\n",
			"templates/base.yaml": gen.PolYAML("ConfigMap", "{{ .Release.Name }}-base", content, "{{ .Values.k | quote }}", nil),
		}
		if withX {
			f["templates/x.yaml"] = gen.PolYAML(sl.Kind, "{{ .Release.Name }}-"+sl.Suffix, "c1", "{{ .Values.k | quote }}", nil)
		}
		if withHook {
			f["templates/prehook.yaml"] = hook.YAML("{{ .Release.Name }}-prehook")
		}
		return f
	}
	for _, scenario := range []string{"install, object appears during the pre-install hook", "upgrade adding the resource, object appears during the pre-upgrade hook", "rollback to a revision naming an object that appeared meanwhile",
		"upgrade retried after a failed upgrade that never created the resource, object appeared meanwhile",
		"upgrade dropping the resource after a failed upgrade that never created it, object appeared meanwhile"} {
		if d.Only != "" && !strings.HasPrefix(scenario, d.Only) {
			continue
		}
		w := env.NewWorld(d.Driver, ns)
		gen.PutBystanders(w.Sim, 4)
		nt := gen.TrackNames(w, rel, ns, "op")
		planted := ""
		plant := func() {
			if cl == clAbsent || planted != "" {
				return
			}
			k, err := w.Sim.Put(preObject(s, cl, ns))
			if err != nil {
				panic(err)
			}
			planted = k
		}
		var op env.Op
		var ch gen.Files
		switch {
		case strings.HasPrefix(scenario, "install"):
			op, ch = env.Op{Kind: "install"}, mk(true, true, "c1")
		case strings.HasPrefix(scenario, "upgrade adding"):
			w.Exec("pre-install", rel, env.Op{Kind: "install"}, mk(false, false, "c0").Build())
			op, ch = env.Op{Kind: "upgrade"}, mk(true, true, "c1")
			res.Evals++
		case strings.HasPrefix(scenario, "rollback"):
			w.Exec("pre-install", rel, env.Op{Kind: "install"}, mk(true, false, "c1").Build())
			w.Exec("pre-upgrade", rel, env.Op{Kind: "upgrade"}, mk(false, false, "c0").Build())
			plant()
			op, ch = env.Op{Kind: "rollback", ToRev: 1}, mk(false, false, "c0")
			res.Evals += 2
		default:
			// revision 1 deployed without X; revision 2 adds X but the create of X is rejected, so
			// revision 2 is failed and helm never created X; then X appears; then the upgrade is run again
			w.Exec("pre-install", rel, env.Op{Kind: "install"}, mk(false, false, "c0").Build())
			xname := slotName(s)
			fl := w.Sim.AddFault(&sim.Fault{Match: func(r *sim.Req) bool {
				return r.Agent == "pre-failing-upgrade" && r.Method == "POST" && r.Res != nil && r.Res.Kind == sl.Kind && r.Name == xname
			}, Code: 500})
			fr := w.Exec("pre-failing-upgrade", rel, env.Op{Kind: "upgrade"}, mk(true, false, "c1").Build())
			w.Sim.ClearFaults()
			res.Evals += 2
			if fr.Err == nil || fl.Fired() == 0 {
				res.Inconclusive = "race scenario: the preparing upgrade did not fail at the create of the resource"
				continue
			}
			plant()
			op = env.Op{Kind: "upgrade"}
			if strings.HasPrefix(scenario, "upgrade retried") {
				ch = mk(true, false, "c1")
			} else {
				ch = mk(false, false, "c2")
			}
		}
		if strings.Contains(scenario, "hook") {
			inner := w.Sim.Gate
			w.Sim.Gate = func(r *sim.Req) {
				if r.Agent == "op" && r.Method == "POST" && r.Class == "mutation" && r.Name == rel+"-prehook" {
					plant() // the pre-flight check has passed; the hook is being created
				}
				inner(r)
			}
		}
		l0, _ := w.Ledger(rel)
		nt.Add(l0)
		r := w.Exec("op", rel, op, ch.Build())
		res.Evals++
		l1, _ := w.Ledger(rel)
		nt.Add(l1)
		events := w.Sim.Done("op")
		detail := func() string {
			return fmt.Sprintf("driver %s | %s | %s/%s planted as: %s | err=%q | ledger before [%s] after [%s]", d.Driver, scenario, sl.Kind, slotName(s), classNames[cl], r.ErrString(), env.LedgerString(l0), env.LedgerString(l1))
		}
		if verbose {
			fmt.Printf("%s: %s/%s planted as %s (key %q): err=%q ledger [%s] -> [%s]\n", scenario, sl.Kind, slotName(s), classNames[cl], planted, r.ErrString(), env.LedgerString(l0), env.LedgerString(l1))
			for _, e := range events {
				if e.Class == "mutation" {
					fmt.Printf("     %s %s/%s -> %d (pre-owner %q)\n", e.Method, e.Kind, e.Name, e.Code, e.PreOwner)
				}
			}
		}
		verdict := "op succeeded"
		if r.Err != nil {
			verdict = "op failed"
		}
		res.Stat("race_ops", 1)
		if cl != clAbsent {
			if planted == "" {
				res.Inconclusive = "race scenario: the object was never planted (" + scenario + ")"
				continue
			}
			res.Stat("race_objects_planted", 1)
			if cl != clOwned {
				res.Stat("race_foreign_objects_checked", 1)
				before := preObject(s, cl, ns)
				after := w.Sim.Get(planted)
				switch {
				case after == nil:
					res.Add("planted-object-changed", scenario+" · deleted", "the foreign object was deleted by the op | %s", detail())
				case len(ref.Subsumes(after, before, nil)) > 0 || ref.LiveLabelOr(after, ref.ManagedByLabel) != ref.LiveLabelOr(before, ref.ManagedByLabel) ||
					ref.LiveAnnotationOr(after, ref.RelNameAnno) != ref.LiveAnnotationOr(before, ref.RelNameAnno) || ref.LiveAnnotationOr(after, ref.RelNamespaceAnn) != ref.LiveAnnotationOr(before, ref.RelNamespaceAnn):
					b, _ := json.Marshal(after)
					res.Add("planted-object-changed", scenario+" · modified", "the foreign object was modified by the op; now %s | %s", b, detail())
				}
				if r.Err == nil && strings.HasPrefix(scenario, "upgrade retried") {
					// X is in the new manifest, not in the deployed one, and existed unowned before the op started
					res.Add("took-over-unowned", scenario+" · existing object: "+classNames[cl], "%s/%s existed (%s) and the op succeeded without take-ownership | %s", sl.Kind, slotName(s), classNames[cl], detail())
				}
				if r.Err == nil {
					res.Stat("race_ops_succeeded_with_foreign_object_present", 1)
				} else {
					res.Stat("race_ops_failed_with_foreign_object_present", 1)
				}
			}
		}
		checkDeletes(res, events, nt.Snapshot(), scenario, detail)
		checkForeignMutations(res, events, baseKeys(l0, op.Kind), nt.HookSnapshot(), false, scenario, detail)
		if r.Err == nil && op.Kind != "rollback" {
			checkManifestOwnership(res, w.Sim.Snapshot(), l1, scenario, detail)
		}
		// follow-up uninstall under the same monitors: what happens to the planted object afterwards
		stillThere := planted != "" && w.Sim.Get(planted) != nil
		ur := w.Exec("op-uninstall", rel, env.Op{Kind: "uninstall"}, nil)
		res.Evals++
		l2, _ := w.Ledger(rel)
		nt.Add(l2)
		uev := w.Sim.Done("op-uninstall")
		udetail := func() string {
			return detail() + fmt.Sprintf(" | follow-up uninstall err=%q ledger after [%s]", ur.ErrString(), env.LedgerString(l2))
		}
		checkDeletes(res, uev, nt.Snapshot(), scenario+", follow-up uninstall", udetail)
		checkForeignMutations(res, uev, baseKeys(l1, "uninstall"), nt.HookSnapshot(), false, scenario+", follow-up uninstall", udetail)
		res.Stat("race_followup_uninstalls", 1)
		if cl != clAbsent && cl != clOwned && stillThere && w.Sim.Get(planted) == nil {
			// by the letter of the property this is allowed (the object is named in the manifest of the
			// revision being uninstalled); recorded to make the consequence visible in the evidence
			if r.Err == nil {
				res.Stat("race_foreign_object_deleted_by_uninstall_after_successful_op", 1)
			} else {
				res.Stat("race_foreign_object_deleted_by_uninstall_after_failed_op", 1)
			}
		}
		if verbose {
			fmt.Printf("   follow-up uninstall: err=%q, planted object still present: %v\n", ur.ErrString(), planted != "" && w.Sim.Get(planted) != nil)
		}
		res.Key("race|%s|%s|%s", scenario, classNames[cl], verdict)
		if res.Sample == nil && cl != clAbsent && cl != clOwned {
			res.Sample = map[string]any{"mode": "race", "driver": d.Driver, "scenario": scenario, "object": sl.Kind + "/" + slotName(s), "planted_as": classNames[cl], "observed_error": r.ErrString(), "requests_of_op": len(events)}
		}
	}
}
