// Package c07: monitor for property C07 (see DESIGN.md section 3).
package c07
