// Package c03: a failed operation is contained; --atomic restores the last good state.
//
// What is executed: real action.Install/Upgrade/Rollback histories against the simulated API
// server. The last op of every history (the target) is first run fault-free (baseline); then it
// is re-executed once per SINGLE cluster-side fault: every cluster request of the baseline trace
// (create / patch / get / delete of every manifest resource and hook object) answered 500 once,
// every readiness wait failing, every hook readiness failing - for each combination of
// atomic x cleanup-on-fail x no-hooks (x replace for install). Earlier ops of a history may
// themselves carry one scripted failure, so that targets also run on histories containing
// failed / superseded-but-never-deployed revisions and a drifted cluster.
//
// Oracle clauses (all judged on the raw ledger, the object store and the request log):
//
//	fault-swallowed                    a rejected create/patch, a failed wait or a failed hook, yet Run returned nil
//	created-revision-left-<status>     op returned an error, the revision it created is not "failed"
//	previous-deployed-lost             install/upgrade (non-atomic) failed, a revision that was deployed is not any more
//	cleanup-left-created-resource      upgrade --cleanup-on-fail failed, an object first created by it still exists
//	atomic-upgrade-not-restored        no new highest deployed revision after a failed atomic upgrade
//	atomic-upgrade-wrong-manifest      ... its manifest differs from the most recent ever-deployed revision's
//	atomic-upgrade-cluster-mismatch    ... a resource of that manifest is missing or lacks a field it specifies
//	atomic-upgrade-leftover            ... a resource only the failed manifest names still exists
//	atomic-install-left-history        failed atomic install left records
//	atomic-install-left-resource       failed atomic install left a resource of its manifest
//
// Don't-care zones (deliberately unchecked):
//   - rollback's bookkeeping of the PREVIOUS revision when the rollback fails (the property says
//     "keeps deployed" only for install and upgrade);
//   - hook objects left behind; error texts; what a failed non-atomic op leaves in the cluster
//     (apart from the cleanup-on-fail clause); cleanup-on-fail of rollback (the property names upgrade);
//   - faults inside the compensating rollback / uninstall are not generated (single fault = the one
//     that triggered the compensation); storage faults are not generated (C01 does that);
//   - when the injected fault does not make the op fail (a rejected GET/DELETE that helm tolerates)
//     the execution is trivial: counted, not judged (ledger invariants are C01's business);
//   - a failure before the op created its revision record: only "nothing deployed was lost" is checked;
//   - resources with helm.sh/resource-policy: keep that survive the atomic rollback's prune step or the
//     atomic install's uninstall (documented helm behaviour, judged by C02) - but cleanup-on-fail still
//     has to delete a keep-annotated resource that the failed upgrade newly created; hooks carry before-hook-creation
//     (explicitly or by default) so that leftover hook objects never collide.
package c03

import (
	"fmt"
	"math/rand"
	"sort"
	"strings"

	chart "helm.sh/helm/v4/pkg/chart/v2"
	"helm.sh/helm/v4/verifh/core"
	"helm.sh/helm/v4/verifh/env"
	"helm.sh/helm/v4/verifh/gen"
	"helm.sh/helm/v4/verifh/ref"
	"helm.sh/helm/v4/verifh/sim"
)

const relName = "rel"
const ns = "ns1"

// hop is one op of a history prefix, optionally run with one scripted failure.
type hop struct {
	Op   env.Op `json:"op"`
	Fail string `json:"fail,omitempty"` // "" | wait (first readiness wait fails) | create (first manifest-resource POST answers 500)
}

func (h hop) String() string {
	if h.Fail != "" {
		return h.Op.String() + "!" + h.Fail
	}
	return h.Op.String()
}

type caseData struct {
	HSeed    int64  `json:"hseed"`
	Directed string `json:"directed,omitempty"` // name of a hand-written history (HSeed unused)
	Driver   string `json:"driver"`
	Atomic   bool   `json:"atomic,omitempty"`
	Cleanup  bool   `json:"cleanup,omitempty"`
	NoHooks  bool   `json:"noHooks,omitempty"`
	Replace  bool   `json:"replace,omitempty"`
	Only     string `json:"only,omitempty"` // replay aid: run only the fault with this id
}

func init() {
	core.Register(&core.Prop{
		ID:    "C03",
		Level: "fault_enumeration",
		Rule: "histories of length 1-4 (9 hand-written + seeded random ones over a 4-version chart family with hooks; prefix ops may carry one scripted failure) on memory/secrets(/configmaps) storage; the last op (install|upgrade|rollback) is run for every combination of atomic x cleanup-on-fail x no-hooks (x replace for install; rollback: cleanup x no-hooks) and, per combination, once per single fault: every cluster request of its fault-free trace answered 500 once, every wait call failing, every hook readiness failing. " +
			"distinct_nontrivial counts distinct (driver, op+flags, fault category, outcome, ledger shape after) tuples among executions in which the fault fired and the op failed.",
		Assumptions: []string{
			"the simulated API server (sim) applies requests like a real API server (CRUD, strategic/merge patch, 404/409)",
			"single-fault model: one injected fault per execution of the target op; no fault lands inside the compensating rollback/uninstall",
			"readiness (Wait/WatchUntilReady) is scripted at kube.Interface.GetWaiter",
			"faults are identified by (method, kind, name, occurrence) of the baseline trace, so goroutine scheduling inside kube.Client.perform does not change which request is hit",
			"ref.Subsumes / ref.ParseManifest (shared with C02) decide 'the cluster matches the manifest'",
		},
		Gen:            genCases,
		Run:            run,
		Post:           post,
		CaseTimeoutSec: 600,
	})
}

// ---------------------------------------------------------------- histories

type setup struct {
	fam    gen.Family
	prefix []hop
	target env.Op // flags filled in from the case
	desc   string
}

var hookKinds = []string{"ConfigMap", "Job", "Pod", "ServiceAccount"}

// safePolicies never leave a colliding object behind: before-hook-creation explicit or by default.
var safePolicies = [][]string{nil, {"before-hook-creation"}, {"before-hook-creation", "hook-succeeded"}, {"before-hook-creation", "hook-failed"}, {"before-hook-creation", "hook-succeeded", "hook-failed"}}

func addHooks(rng *rand.Rand, fam *gen.Family) {
	events := []string{"pre-install", "post-install", "pre-upgrade", "post-upgrade", "pre-rollback", "post-rollback", "pre-delete", "post-delete"}
	for v := range fam.Versions {
		n := rng.Intn(4)
		for i := 0; i < n; i++ {
			h := gen.HookSpec{Name: fmt.Sprintf("hook-%d", i), Kind: gen.Pick(rng, hookKinds)}
			seen := map[string]bool{}
			for j, ne := 0, 1+rng.Intn(4); j < ne; j++ {
				e := events[rng.Intn(len(events))]
				if !seen[e] {
					seen[e] = true
					h.Events = append(h.Events, e)
				}
			}
			if rng.Intn(2) == 0 {
				h.Weight = fmt.Sprint(rng.Intn(5) - 2)
			}
			h.Policies = gen.Pick(rng, safePolicies)
			fam.Versions[v].Hooks = append(fam.Versions[v].Hooks, h)
		}
	}
}

func vs(slots []int, content string, hooks ...gen.HookSpec) gen.VersionSpec {
	v := gen.VersionSpec{Slots: slots, Content: map[int]string{}, Keep: map[int]bool{}, DefK: "d" + content, Hooks: hooks}
	for _, s := range slots {
		v.Content[s] = content
	}
	return v
}

// directedFamily: v0 {cm-a cm-b dep wid} + install/rollback hooks; v1 {cm-a sec dep wid} (drops cm-b,
// adds sec, changes the rest) + upgrade hooks; v2 {cm-a svc}; v3 = v0's resources with other content
// except the Widget (custom kind), which is rendered as in v0.
func directedFamily() gen.Family {
	hA := gen.HookSpec{Name: "hook-a", Kind: "Job", Events: []string{"pre-install", "post-install", "pre-rollback", "post-rollback", "pre-delete"}, Weight: "1"}
	hB := gen.HookSpec{Name: "hook-b", Kind: "ConfigMap", Events: []string{"pre-upgrade", "post-upgrade", "pre-rollback"}, Policies: []string{"before-hook-creation", "hook-succeeded"}}
	hC := gen.HookSpec{Name: "hook-c", Kind: "Pod", Events: []string{"post-upgrade", "post-rollback"}, Weight: "-1", Policies: []string{"before-hook-creation", "hook-failed"}}
	v3 := vs([]int{0, 1, 5, 6}, "c3", hA, hB)
	v3.Content[6] = "c0" // the Widget is rendered exactly as in v0
	v4 := vs([]int{0, 1, 2, 5, 6}, "c1", hB, hC)
	v4.Keep[2] = true // adds a Secret annotated helm.sh/resource-policy: keep
	return gen.Family{Name: "fam", Versions: []gen.VersionSpec{
		vs([]int{0, 1, 5, 6}, "c0", hA),
		vs([]int{0, 2, 5, 6}, "c1", hB, hC),
		vs([]int{0, 3}, "c2", hB),
		v3,
		v4,
	}}
}

var directedNames = []string{"fresh-install", "replace-install", "grow-shrink-upgrade", "rollback-with-hooks", "never-deployed-superseded", "drifted-custom-resource", "nothing-deployed-after-failed-rollback", "upgrade-after-failed-install", "upgrade-adds-kept-resource"}

func mkSetup(d caseData) setup {
	var s setup
	if d.Directed != "" {
		s.fam = directedFamily()
		in := hop{Op: env.Op{Kind: "install", Chart: 0, Vals: map[string]any{"k": "ua"}}}
		switch d.Directed {
		case "fresh-install":
			s.target = env.Op{Kind: "install", Chart: 0}
		case "replace-install":
			s.prefix = []hop{in, {Op: env.Op{Kind: "uninstall", KeepHistory: true}}}
			s.target = env.Op{Kind: "install", Chart: 1}
		case "grow-shrink-upgrade":
			s.prefix = []hop{in}
			s.target = env.Op{Kind: "upgrade", Chart: 1, Vals: map[string]any{"k": "ub"}}
		case "rollback-with-hooks":
			s.prefix = []hop{in, {Op: env.Op{Kind: "upgrade", Chart: 1}}}
			s.target = env.Op{Kind: "rollback", ToRev: 1}
		case "never-deployed-superseded":
			// 1 deployed; 2 failed (wait); rollback->1 fails while updating: helm marks 2 superseded although
			// it never was deployed; the atomic upgrade must still restore revision 1's manifest.
			s.prefix = []hop{in, {Op: env.Op{Kind: "upgrade", Chart: 1}, Fail: "wait"}, {Op: env.Op{Kind: "rollback", ToRev: 1}, Fail: "create"}}
			s.target = env.Op{Kind: "upgrade", Chart: 2}
		case "nothing-deployed-after-failed-rollback":
			// 1 superseded, 2 superseded (was deployed), 3 failed (rollback whose update was rejected): no
			// revision is marked deployed, yet revision 2 is the most recent one that had been deployed
			s.prefix = []hop{in, {Op: env.Op{Kind: "upgrade", Chart: 1}}, {Op: env.Op{Kind: "rollback", ToRev: 1}, Fail: "create"}}
			s.target = env.Op{Kind: "upgrade", Chart: 2}
		case "upgrade-after-failed-install":
			// 1 failed: no revision ever was deployed, so --atomic finds nothing to roll back to; what
			// the upgrade newly creates must still be cleaned up with cleanup-on-fail
			s.prefix = []hop{{Op: env.Op{Kind: "install", Chart: 0}, Fail: "wait"}}
			s.target = env.Op{Kind: "upgrade", Chart: 1}
		case "upgrade-adds-kept-resource":
			// the new chart adds a resource with the keep policy: the atomic rollback leaves it alone,
			// cleanup-on-fail deletes it (it is newly created by this upgrade)
			s.prefix = []hop{in}
			s.target = env.Op{Kind: "upgrade", Chart: 4}
		case "drifted-custom-resource":
			// 2 failed at wait: the cluster (incl. the Widget) is at v1; the target renders the Widget as
			// revision 1 does, so neither the upgrade nor the atomic rollback sees a manifest difference
			s.prefix = []hop{in, {Op: env.Op{Kind: "upgrade", Chart: 1}, Fail: "wait"}}
			s.target = env.Op{Kind: "upgrade", Chart: 3}
		default:
			panic("unknown directed history " + d.Directed)
		}
		s.desc = "directed:" + d.Directed
	} else {
		rng := rand.New(rand.NewSource(d.HSeed))
		s.fam = gen.NewFamily(rng, gen.FamilyOpts{Versions: 4, MaxSlots: 7, Keep: true})
		addHooks(rng, &s.fam)
		vals := func() map[string]any {
			if rng.Intn(3) == 0 {
				return nil
			}
			return map[string]any{"k": []string{"ua", "ub", "uc"}[rng.Intn(3)]}
		}
		fail := func() string {
			switch rng.Intn(8) {
			case 0:
				return "wait"
			case 1:
				return "create"
			}
			return ""
		}
		install := func() hop { return hop{Op: env.Op{Kind: "install", Chart: rng.Intn(4), Vals: vals()}} }
		middle := func(revs *int) hop {
			if *revs >= 2 && rng.Intn(4) == 0 {
				h := hop{Op: env.Op{Kind: "rollback", ToRev: 1 + rng.Intn(*revs)}, Fail: fail()}
				*revs++
				return h
			}
			h := hop{Op: env.Op{Kind: "upgrade", Chart: rng.Intn(4), Vals: vals(), CleanupOnFail: rng.Intn(4) == 0}, Fail: fail()}
			*revs++
			return h
		}
		revs := 1
		switch x := rng.Intn(100); {
		case x < 20: // install
			switch rng.Intn(4) {
			case 0, 1: // fresh name
			case 2: // over an uninstalled release with kept history
				s.prefix = append(s.prefix, install())
				if rng.Intn(2) == 0 {
					s.prefix = append(s.prefix, middle(&revs))
				}
				s.prefix = append(s.prefix, hop{Op: env.Op{Kind: "uninstall", KeepHistory: true}})
			case 3: // over a failed install
				h := install()
				h.Fail = []string{"wait", "create"}[rng.Intn(2)]
				s.prefix = append(s.prefix, h)
			}
			s.target = env.Op{Kind: "install", Chart: rng.Intn(4), Vals: vals()}
		case x < 75: // upgrade
			first := install()
			if rng.Intn(6) == 0 {
				first.Fail = []string{"wait", "create"}[rng.Intn(2)] // upgrade over a failed install
			}
			s.prefix = append(s.prefix, first)
			for i, n := 0, rng.Intn(3); i < n; i++ {
				s.prefix = append(s.prefix, middle(&revs))
			}
			s.target = env.Op{Kind: "upgrade", Chart: rng.Intn(4), Vals: vals()}
		default: // rollback
			s.prefix = append(s.prefix, install())
			for i, n := 0, 1+rng.Intn(2); i < n; i++ {
				s.prefix = append(s.prefix, middle(&revs))
			}
			s.target = env.Op{Kind: "rollback"}
			if rng.Intn(3) > 0 {
				s.target.ToRev = 1 + rng.Intn(revs)
			}
		}
		s.desc = fmt.Sprintf("seed:%d", d.HSeed)
	}
	s.target.NoHooks = d.NoHooks
	switch s.target.Kind {
	case "install":
		s.target.Atomic, s.target.Replace = d.Atomic, d.Replace
	case "upgrade":
		s.target.Atomic, s.target.CleanupOnFail = d.Atomic, d.Cleanup
	case "rollback":
		s.target.CleanupOnFail = d.Cleanup
	}
	return s
}

func genCases(seed int64, tier string) []core.Case {
	nh, drivers := 10, []string{"memory", "secrets"}
	if tier == "thorough" {
		nh, drivers = 250, []string{"memory", "secrets", "configmaps"}
	}
	rng := rand.New(rand.NewSource(seed*104729 + 3))
	type hist struct {
		d    caseData
		name string
	}
	var hs []hist
	for _, n := range directedNames {
		hs = append(hs, hist{caseData{Directed: n}, "d-" + n})
	}
	for h := 0; h < nh; h++ {
		hs = append(hs, hist{caseData{HSeed: rng.Int63()}, fmt.Sprintf("h%d", h)})
	}
	var out []core.Case
	for _, h := range hs {
		kind := mkSetup(h.d).target.Kind
		for combo := 0; combo < 8; combo++ {
			d := h.d
			d.NoHooks = combo&1 != 0
			switch kind {
			case "install":
				d.Atomic, d.Replace = combo&2 != 0, combo&4 != 0
			case "upgrade":
				d.Atomic, d.Cleanup = combo&2 != 0, combo&4 != 0
			case "rollback":
				if combo&4 != 0 {
					continue
				}
				d.Cleanup = combo&2 != 0
			}
			for _, drv := range drivers {
				d.Driver = drv
				out = append(out, core.Case{ID: fmt.Sprintf("%s-%s-f%d", h.name, drv, combo), Data: core.J(d)})
			}
		}
	}
	return out
}

// ---------------------------------------------------------------- execution

func (s *setup) chartFor(op env.Op) *chart.Chart {
	if op.Kind == "install" || op.Kind == "upgrade" {
		return s.fam.Files(op.Chart).Build()
	}
	return nil
}

func isHookName(n string) bool { return strings.Contains(n, "-hook-") }

func (s *setup) execHop(w *env.World, agent string, h hop) env.OpResult {
	w.Script.Reset()
	switch h.Fail {
	case "wait":
		w.Script.FailWaitNth, w.Script.FailAgent = 1, agent
	case "create":
		w.Sim.AddFault(&sim.Fault{Match: func(r *sim.Req) bool {
			return r.Agent == agent && r.Method == "POST" && r.Class == "mutation" && !isHookName(r.Name)
		}, Nth: 1, Code: 500, Once: true})
	}
	r := w.Exec(agent, relName, h.Op, s.chartFor(h.Op))
	w.Sim.ClearFaults()
	w.Script.Reset()
	return r
}

// runPrefix executes the prefix in a fresh world; ever = revisions that were seen deployed.
func (s *setup) runPrefix(driver string, verbose bool) (*env.World, map[int]bool) {
	w := env.NewWorld(driver, ns)
	ever := map[int]bool{}
	for i, h := range s.prefix {
		r := s.execHop(w, fmt.Sprintf("pre%d", i), h)
		recs, _ := w.Ledger(relName)
		if len(recs) == 0 {
			ever = map[int]bool{}
		}
		for _, rec := range recs {
			if rec.Status == "deployed" {
				ever[rec.Revision] = true
			}
		}
		if verbose {
			fmt.Printf("  prefix op %d %s err=%q -> ledger [%s]\n", i, h, r.ErrString(), env.LedgerString(recs))
		}
	}
	return w, ever
}

// call is one cluster request of the baseline trace, identified independently of its position.
type call struct {
	Method, Kind, Name string
	Occ                int // occurrence among the identical (method, kind, name) requests of the op
	Cat                string
}

type fault struct {
	Type string // req | wait | watch
	C    call
	J    int
	Cat  string
}

func (f fault) ID() string {
	switch f.Type {
	case "req":
		return fmt.Sprintf("req:%s/%s/%s#%d", f.C.Method, f.C.Kind, f.C.Name, f.C.Occ)
	}
	return fmt.Sprintf("%s:%d", f.Type, f.J)
}

func hookEvent(opKind string, post bool) string {
	p := "pre-"
	if post {
		p = "post-"
	}
	return p + opKind
}

// enumerate derives the single-fault list from the baseline trace of the target op.
func enumerate(log []sim.Event, opKind string) []fault {
	var out []fault
	occ := map[string]int{}
	waitSeen := false
	waits, watches := 0, 0
	for _, e := range log {
		if e.Agent != "op" {
			continue
		}
		if e.Phase == "note" && e.Note == "call" {
			switch e.What {
			case "Wait", "WaitWithJobs":
				waitSeen = true
				waits++
				out = append(out, fault{Type: "wait", J: waits, Cat: "wait"})
			case "WatchUntilReady":
				watches++
				out = append(out, fault{Type: "watch", J: watches, Cat: "hook-ready(" + hookEvent(opKind, waitSeen) + ")"})
			}
			continue
		}
		if e.Phase != "done" || (e.Class != "mutation" && e.Class != "read") {
			continue
		}
		id := e.Method + "/" + e.Kind + "/" + e.Name
		occ[id]++
		c := call{Method: e.Method, Kind: e.Kind, Name: e.Name, Occ: occ[id]}
		verb := map[string]string{"POST": "create", "PATCH": "patch", "PUT": "patch", "GET": "get", "DELETE": "delete"}[e.Method]
		if isHookName(e.Name) {
			c.Cat = "hook-" + verb + "(" + hookEvent(opKind, waitSeen) + ")"
		} else {
			c.Cat = "resource-" + verb
		}
		out = append(out, fault{Type: "req", C: c, Cat: c.Cat})
	}
	return out
}

// mustFail: fault categories after which the property demands an error (the others - rejected
// GET/DELETE - may be tolerated by helm; then the execution is trivial).
func mustFail(cat string) bool {
	return cat == "resource-create" || cat == "resource-patch" || cat == "wait" || strings.HasPrefix(cat, "hook-create") || strings.HasPrefix(cat, "hook-ready")
}

func opTag(op env.Op) string {
	s := op.Kind
	if op.Atomic {
		s += "+atomic"
	}
	if op.CleanupOnFail {
		s += "+cleanup"
	}
	if op.NoHooks {
		s += "+nohooks"
	}
	if op.Replace {
		s += "+replace"
	}
	return s
}

func shape(recs []env.Rec) string {
	var p []string
	for _, r := range recs {
		p = append(p, r.Status)
	}
	return strings.Join(p, ",")
}

type observation struct {
	op           env.Op
	r            env.OpResult
	before       []env.Rec
	after        []env.Rec
	snapBefore   map[string]string
	log          []sim.Event // whole log of the world
	ever         map[int]bool
	baseManifest string // manifest the fault-free run of the target recorded ("" if unknown)
}

func storageCreates(log []sim.Event) int {
	return len(ref.CreatedRevisions(log, "op"))
}

func docKeys(docs []ref.Doc) map[string]ref.Doc {
	m := map[string]ref.Doc{}
	for _, d := range docs {
		if d.Key != "" {
			m[d.Key] = d
		}
	}
	return m
}

// judgeFailure applies the containment clauses to an op that returned an error.
func judgeFailure(res *core.Result, w *env.World, o observation, cat string, detail func() string) {
	op := o.op
	class := opTag(op) + " | " + cat
	res.Stat("failed_ops_judged", 1)
	maxB := ref.MaxRev(o.before)
	var created []env.Rec
	for _, a := range o.after {
		if a.Revision > maxB {
			created = append(created, a)
		}
	}
	madeRecord := storageCreates(o.log) > 0
	failedManifest := o.baseManifest
	if len(created) > 0 {
		failedManifest = created[0].Manifest
	}
	failedDocs, _ := ref.ParseManifest(failedManifest, ns)

	// cleanup-on-fail (upgrade): objects first created by this op, named by its manifest
	cleanupCheck := func(exempt map[string]ref.Doc) {
		if op.Kind != "upgrade" || !op.CleanupOnFail {
			return
		}
		seen := map[string]bool{}
		for _, e := range o.log {
			if e.Agent != "op" || e.Phase != "done" || e.Method != "POST" || e.Class != "mutation" || e.Code != 201 || isHookName(e.Name) {
				continue
			}
			for _, d := range failedDocs {
				if d.Kind != e.Kind || d.Name != e.Name || d.Key == "" || seen[d.Key] {
					continue
				}
				seen[d.Key] = true
				if _, existed := o.snapBefore[d.Key]; existed {
					continue
				}
				if _, ok := exempt[d.Key]; ok {
					continue
				}
				res.Stat("cleanup_created_resources_checked", 1)
				if d.HasPolicy {
					res.Stat("cleanup_created_resources_checked:keep-annotated", 1)
				}
				if op.Atomic && len(o.ever) == 0 {
					res.Stat("cleanup_created_resources_checked:atomic-without-restorable-revision", 1)
				}
				if w.Sim.Get(d.Key) != nil {
					res.Add("cleanup-left-created-resource", class, "%s was first created by this upgrade (POST 201, absent before) and still exists after the failed upgrade with cleanup-on-fail | %s", d, detail())
				}
			}
		}
	}
	keepsDeployed := func() {
		if op.Kind != "install" && op.Kind != "upgrade" {
			return
		}
		for _, b := range o.before {
			if b.Status != "deployed" {
				continue
			}
			res.Stat("deployed_kept_checked", 1)
			now := ref.Find(o.after, b.Revision)
			st := "gone"
			if now != nil {
				st = now.Status
			}
			if st != "deployed" {
				res.Add("previous-deployed-lost", class, "revision %d was deployed before the failed %s and is now %s | %s", b.Revision, op.Kind, st, detail())
			}
		}
	}
	createdFailed := func(rec env.Rec) {
		res.Stat("created_revisions_checked", 1)
		if rec.Status != "failed" {
			res.Add("created-revision-left-"+rec.Status, class, "the %s returned an error but the revision %d it created is recorded as %q (desc %q) | %s", op.Kind, rec.Revision, rec.Status, rec.Desc, detail())
		}
	}

	switch {
	case op.Kind == "install" && op.Atomic && madeRecord:
		res.Stat("atomic_installs_checked", 1)
		if len(o.after) != 0 {
			res.Add("atomic-install-left-history", class, "failed atomic install left records [%s] | %s", env.LedgerString(o.after), detail())
		}
		for _, d := range failedDocs {
			if d.Key == "" {
				continue
			}
			if kept(d, w.Sim.Get(d.Key)) {
				res.Stat("kept_resources_exempted", 1)
				continue // documented: resources with the keep policy are left alone by uninstall
			}
			res.Stat("atomic_install_resources_checked", 1)
			if w.Sim.Get(d.Key) != nil {
				res.Add("atomic-install-left-resource", class, "failed atomic install left %s of its manifest in the cluster | %s", d, detail())
			}
		}
		return
	case op.Kind == "upgrade" && op.Atomic && madeRecord:
		var good *env.Rec
		for i := range o.before {
			if o.ever[o.before[i].Revision] && (good == nil || o.before[i].Revision > good.Revision) {
				good = &o.before[i]
			}
		}
		if good == nil {
			break // nothing was ever deployed: nothing to restore, plain clauses apply
		}
		res.Stat("atomic_restorations_compared", 1)
		goodDocs, _ := ref.ParseManifest(good.Manifest, ns)
		goodKeys, failedKeys := docKeys(goodDocs), docKeys(failedDocs)
		drops := "new chart keeps every resource of the restored revision"
		for k := range goodKeys {
			if _, ok := failedKeys[k]; !ok {
				drops = "new chart drops a resource of the restored revision"
			}
		}
		// cause shapes of the two restoration clauses: where the fault landed relative to the update's
		// prune step, and what the history / the new chart look like
		phase := "fault after the update (wait / post-upgrade hook)"
		switch {
		case cat == "no injected fault":
			phase = cat
		case cat == "resource-delete":
			phase = "fault in the update's prune step"
		case strings.HasPrefix(cat, "resource-") || strings.HasSuffix(cat, "(pre-upgrade)"):
			phase = "fault before the update's prune step (pre-upgrade hook / create / patch / get)"
		}
		histShape := "every later superseded revision had been deployed"
		for _, b := range o.before {
			if b.Revision > good.Revision && b.Status == "superseded" && !o.ever[b.Revision] {
				histShape = "history holds a later superseded revision that never was deployed"
			}
		}
		depShape := "no revision was marked deployed before the op"
		if ref.LatestDeployed(o.before) != nil {
			depShape = "a revision was marked deployed before the op"
		}
		if len(created) >= 2 {
			depShape += " | the compensating rollback was started and failed"
		} else {
			depShape += " | no compensating rollback was started"
		}
		if len(created) >= 2 && created[1].Manifest != good.Manifest {
			res.Add("atomic-upgrade-wrong-manifest", opTag(op)+" | "+histShape, "the atomic rollback created revision %d whose manifest differs from that of revision %d, the most recent revision that had been deployed (ever deployed: %v) | %s", created[1].Revision, good.Revision, keysOf(o.ever), detail())
			return
		}
		top := ref.TopRec(o.after)
		if top == nil || top.Status != "deployed" || len(created) == 0 || top.Revision <= created[0].Revision {
			res.Add("atomic-upgrade-not-restored", opTag(op)+" | "+phase+" | "+drops+" | "+depShape, "failed atomic upgrade did not end with a new highest deployed revision: ledger after [%s] (last good revision %d) | %s", env.LedgerString(o.after), good.Revision, detail())
			return
		}
		if top.Manifest != good.Manifest {
			res.Add("atomic-upgrade-wrong-manifest", opTag(op)+" | "+histShape, "the new deployed revision %d has a manifest that differs from that of revision %d, the most recent revision that had been deployed (ever deployed: %v) | %s", top.Revision, good.Revision, keysOf(o.ever), detail())
			return
		}
		createdFailed(created[0])
		for _, d := range goodDocs {
			if d.Key == "" {
				continue
			}
			res.Stat("atomic_restored_objects_compared", 1)
			// cause shape: kind class, and whether the object already differed from the last good manifest
			// before this op (drift left by an earlier failed op)
			mclass := opTag(op) + " | built-in kind"
			if !d.Typed() {
				mclass = opTag(op) + " | custom (unstructured) kind"
			}
			if prev := ref.DecodeObj(o.snapBefore[d.Key]); prev == nil || len(ref.Subsumes(prev, d.Obj, d.Res)) > 0 {
				mclass += " | object already differed from the last good manifest before the op"
			} else {
				mclass += " | object matched the last good manifest before the op"
			}
			live := w.Sim.Get(d.Key)
			if live == nil {
				res.Add("atomic-upgrade-cluster-mismatch", mclass, "%s of the restored manifest (revision %d) is missing from the cluster | %s", d, good.Revision, detail())
				continue
			}
			if diffs := ref.Subsumes(live, d.Obj, d.Res); len(diffs) > 0 {
				res.Add("atomic-upgrade-cluster-mismatch", mclass, "%s does not carry the restored manifest's fields: %s | %s", d, strings.Join(diffs, "; "), detail())
			}
		}
		for k, d := range failedKeys {
			if _, ok := goodKeys[k]; ok {
				continue
			}
			if kept(d, w.Sim.Get(k)) {
				res.Stat("kept_resources_exempted", 1)
				continue // documented: the update's prune step never deletes objects with the keep policy (C02); newly created ones are judged by the cleanup clause
			}
			res.Stat("atomic_leftovers_checked", 1)
			if w.Sim.Get(k) != nil {
				res.Add("atomic-upgrade-leftover", class, "%s is named only by the failed manifest and still exists after the atomic rollback | %s", d, detail())
			}
		}
		cleanupCheck(goodKeys)
		return
	}
	// plain containment
	if len(created) > 0 {
		createdFailed(created[0])
	}
	if !(op.Atomic && madeRecord) {
		keepsDeployed()
	}
	cleanupCheck(nil)
}

// kept reports whether the manifest document or the live object carries helm.sh/resource-policy: keep.
func kept(d ref.Doc, live map[string]any) bool {
	if d.HasPolicy && strings.TrimSpace(d.Policy) == "keep" {
		return true
	}
	if live != nil {
		if v, ok := ref.LiveAnnotation(live, ref.PolicyAnno); ok && strings.TrimSpace(v) == "keep" {
			return true
		}
	}
	return false
}

func keysOf(m map[int]bool) []int {
	var k []int
	for r := range m {
		k = append(k, r)
	}
	sort.Ints(k)
	return k
}

func run(c core.Case, verbose bool) core.Result {
	env.Quiet()
	var d caseData
	core.U(c, &d)
	var res core.Result
	s := mkSetup(d)
	target := s.target
	var hp []string
	for _, h := range s.prefix {
		hp = append(hp, h.String())
	}
	hist := strings.Join(append(hp, target.String()), " ; ")
	if verbose {
		fmt.Printf("case %s driver %s history: %s\n", s.desc, d.Driver, hist)
	}

	// ---- baseline
	w, ever := s.runPrefix(d.Driver, verbose)
	before, _ := w.Ledger(relName)
	snapBefore := w.Sim.Snapshot()
	w.Script.Reset()
	br := w.Exec("op", relName, target, s.chartFor(target))
	res.Evals += int64(len(s.prefix) + 1)
	baseAfter, _ := w.Ledger(relName)
	baseLog := w.Sim.Log()
	baseManifest := ""
	if t := ref.TopRec(baseAfter); t != nil && t.Revision > ref.MaxRev(before) {
		baseManifest = t.Manifest
	}
	if verbose {
		fmt.Printf("baseline target %s err=%q ledger [%s] -> [%s]\n", target, br.ErrString(), env.LedgerString(before), env.LedgerString(baseAfter))
		for _, e := range baseLog {
			if e.Agent != "op" {
				continue
			}
			if e.Phase == "done" && e.Class != "discovery" {
				fmt.Printf("  seq %d %s %s %s/%s -> %d\n", e.Seq, e.Class, e.Method, e.Kind, e.Name, e.Code)
			}
			if e.Phase == "note" {
				fmt.Printf("  seq %d %s %s %v %s\n", e.Seq, e.What, e.Note, e.Names, e.Err)
			}
		}
	}
	res.Sample = map[string]any{"driver": d.Driver, "history": hist, "ledger_before_target": env.LedgerString(before), "baseline_error": br.ErrString()}
	if br.Err != nil {
		// the op fails without any injected fault (refused, or a natural rejection): containment still applies
		res.Stat("baselines_failing_without_fault", 1)
		detail := func() string {
			return fmt.Sprintf("driver %s | history: %s | no injected fault, err=%q | ledger before [%s] after [%s]", d.Driver, hist, br.ErrString(), env.LedgerString(before), env.LedgerString(baseAfter))
		}
		judgeFailure(&res, w, observation{op: target, r: br, before: before, after: baseAfter, snapBefore: snapBefore, log: baseLog, ever: ever}, "no injected fault", detail)
		return res
	}
	res.Stat("baselines_succeeding", 1)
	faults := enumerate(baseLog, target.Kind)
	res.Stat("fault_positions_enumerated", int64(len(faults)))
	var sampleOutcomes []string

	// ---- one execution per single fault
	for _, f := range faults {
		if d.Only != "" && d.Only != f.ID() {
			continue
		}
		w, ever := s.runPrefix(d.Driver, false)
		before, _ := w.Ledger(relName)
		snapBefore := w.Sim.Snapshot()
		w.Script.Reset()
		var fl *sim.Fault
		switch f.Type {
		case "req":
			cc := f.C
			fl = w.Sim.AddFault(&sim.Fault{Match: func(r *sim.Req) bool {
				return r.Agent == "op" && r.Method == cc.Method && r.Name == cc.Name && r.Res != nil && r.Res.Kind == cc.Kind && r.Class != "storage"
			}, Nth: cc.Occ, Code: 500, Once: true})
		case "wait":
			w.Script.FailWaitNth, w.Script.FailAgent = f.J, "op"
		case "watch":
			w.Script.FailWatchNth, w.Script.FailAgent = f.J, "op"
		}
		if verbose && d.Only != "" {
			ww := w
			w.Sim.Gate = func(r *sim.Req) {
				if r.Method == "PATCH" {
					fmt.Printf("    PATCH %s body %s\n      live before: %v\n", r.Name, string(r.Body), ww.Sim.Get(r.Key()))
				}
			}
		}
		r := w.Exec("op", relName, target, s.chartFor(target))
		w.Sim.ClearFaults()
		w.Script.Reset()
		res.Evals += int64(len(s.prefix) + 1)
		after, _ := w.Ledger(relName)
		log := w.Sim.Log()
		fired := fl == nil || fl.Fired() > 0
		if fl == nil {
			fired = false
			for _, e := range log {
				if e.Agent == "op" && e.Phase == "note" && e.Note == "ret" && e.Err != "" {
					fired = true
				}
			}
		}
		detail := func() string {
			return fmt.Sprintf("driver %s | history: %s | target %s with single fault %s [%s] err=%q | ledger before [%s] after [%s]", d.Driver, hist, target, f.ID(), f.Cat, r.ErrString(), env.LedgerString(before), env.LedgerString(after))
		}
		if verbose {
			fmt.Printf("fault %-45s [%s] fired=%v err=%q ledger after [%s]\n", f.ID(), f.Cat, fired, r.ErrString(), env.LedgerString(after))
		}
		if verbose && d.Only != "" {
			for _, e := range log {
				if e.Agent != "op" {
					continue
				}
				if e.Phase == "done" && e.Class != "discovery" {
					fmt.Printf("    seq %d %s %s %s/%s -> %d injected=%v\n", e.Seq, e.Class, e.Method, e.Kind, e.Name, e.Code, e.Injected)
				}
				if e.Phase == "note" {
					fmt.Printf("    seq %d %s %s %v %s\n", e.Seq, e.What, e.Note, e.Names, e.Err)
				}
			}
		}
		if !fired {
			res.Stat("faults_not_reached", 1)
			continue
		}
		res.Stat("faults_fired:"+strings.SplitN(f.Cat, "(", 2)[0], 1)
		if r.Err == nil {
			if mustFail(f.Cat) {
				res.Add("fault-swallowed", opTag(target)+" | "+f.Cat, "the op returned nil although the cluster rejected a call / readiness failed | %s", detail())
			}
			res.Stat("faults_tolerated_op_succeeded(trivial)", 1)
			continue
		}
		nv := len(res.Violations)
		judgeFailure(&res, w, observation{op: target, r: r, before: before, after: after, snapBefore: snapBefore, log: log, ever: ever, baseManifest: baseManifest}, f.Cat, detail)
		res.Key("%s|%s|%s|%s", d.Driver, opTag(target), f.Cat, shape(after))
		if len(sampleOutcomes) < 6 {
			sampleOutcomes = append(sampleOutcomes, fmt.Sprintf("%s [%s] -> ledger [%s], %d alarms", f.ID(), f.Cat, env.LedgerString(after), len(res.Violations)-nv))
		}
	}
	res.Sample.(map[string]any)["faults_enumerated"] = len(faults)
	res.Sample.(map[string]any)["some_fault_outcomes"] = sampleOutcomes
	return res
}

func post(a *core.Agg) string {
	var miss []string
	for _, k := range []string{"failed_ops_judged", "created_revisions_checked", "deployed_kept_checked", "atomic_restorations_compared", "atomic_restored_objects_compared", "atomic_installs_checked", "cleanup_created_resources_checked", "cleanup_created_resources_checked:keep-annotated", "cleanup_created_resources_checked:atomic-without-restorable-revision", "faults_fired:wait", "faults_fired:hook-ready", "faults_fired:hook-create", "faults_fired:resource-create", "faults_fired:resource-patch"} {
		if a.Stats[k] == 0 {
			miss = append(miss, k)
		}
	}
	if len(miss) > 0 {
		return "monitors observed no event of kind: " + strings.Join(miss, ", ")
	}
	return ""
}
