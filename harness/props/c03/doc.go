// Package c03: monitor for property C03 (see DESIGN.md section 3).
package c03
