package c19

import (
	"bufio"
	"bytes"
	"crypto/ecdsa"
	"crypto/elliptic"
	"crypto/rand"
	"crypto/tls"
	"crypto/x509"
	"crypto/x509/pkix"
	"encoding/pem"
	"io"
	"math/big"
	"net"
	"net/http"
	"os"
	"strings"
	"sync"
	"time"
)

// reqLog is one request as it arrived at the capture proxy.
type reqLog struct {
	Seq       int
	Method    string
	Scheme    string // http (absolute-URI proxy request) | https (inside a CONNECT tunnel)
	Authority string // host[:port] the client addressed (absolute URI / CONNECT target)
	Path      string // request URI (path?query)
	HostHdr   string
	Auth      string // Authorization header ("" if none)
}

func (r reqLog) URL() string { return r.Scheme + "://" + r.Authority + r.Path }

// plan tells the proxy what to answer in the current sub-case.
type plan struct {
	index     []byte
	chart     []byte
	prov      []byte
	redirects map[string]string // lower-cased authority + path  ->  Location
}

// capProxy is a forward proxy on 127.0.0.1 that answers every request itself: all made-up host
// names "exist". Plain HTTP arrives as absolute-URI requests, HTTPS as CONNECT which is answered
// and terminated with a throw-away CA.
type capProxy struct {
	mu       sync.Mutex
	log      []reqLog
	seq      int
	total    int64
	connects int64
	plan     *plan
	addr     string
	caPEM    []byte
	caCert   *x509.Certificate
	caKey    *ecdsa.PrivateKey
	leafKey  *ecdsa.PrivateKey
	certs    map[string]*tls.Certificate
}

var (
	proxyOnce sync.Once
	theProxy  *capProxy
	proxyErr  error
)

// getProxy starts the proxy once per worker process and points the process environment at it.
// It must run before the first use of http.ProxyFromEnvironment (which caches the environment).
func getProxy() (*capProxy, error) {
	proxyOnce.Do(func() {
		p := &capProxy{certs: map[string]*tls.Certificate{}}
		if proxyErr = p.initCA(); proxyErr != nil {
			return
		}
		ln, err := net.Listen("tcp", "127.0.0.1:0")
		if err != nil {
			proxyErr = err
			return
		}
		p.addr = ln.Addr().String()
		for _, k := range []string{"NO_PROXY", "no_proxy", "REQUEST_METHOD", "http_proxy", "https_proxy"} {
			os.Unsetenv(k)
		}
		os.Setenv("HTTP_PROXY", "http://"+p.addr)
		os.Setenv("HTTPS_PROXY", "http://"+p.addr)
		os.Setenv("NO_PROXY", "")
		srv := &http.Server{Handler: p}
		go srv.Serve(ln)
		theProxy = p
	})
	return theProxy, proxyErr
}

func (p *capProxy) initCA() error {
	var err error
	if p.caKey, err = ecdsa.GenerateKey(elliptic.P256(), rand.Reader); err != nil {
		return err
	}
	if p.leafKey, err = ecdsa.GenerateKey(elliptic.P256(), rand.Reader); err != nil {
		return err
	}
	tpl := &x509.Certificate{
		SerialNumber: big.NewInt(1), Subject: pkix.Name{CommonName: "verif throw-away CA"},
		NotBefore: time.Now().Add(-time.Hour), NotAfter: time.Now().Add(48 * time.Hour),
		IsCA: true, BasicConstraintsValid: true, KeyUsage: x509.KeyUsageCertSign | x509.KeyUsageDigitalSignature,
	}
	der, err := x509.CreateCertificate(rand.Reader, tpl, tpl, &p.caKey.PublicKey, p.caKey)
	if err != nil {
		return err
	}
	if p.caCert, err = x509.ParseCertificate(der); err != nil {
		return err
	}
	p.caPEM = pem.EncodeToMemory(&pem.Block{Type: "CERTIFICATE", Bytes: der})
	return nil
}

func (p *capProxy) certFor(name string) (*tls.Certificate, error) {
	name = strings.ToLower(strings.TrimSuffix(name, "."))
	p.mu.Lock()
	defer p.mu.Unlock()
	if c, ok := p.certs[name]; ok {
		return c, nil
	}
	tpl := &x509.Certificate{
		SerialNumber: big.NewInt(int64(len(p.certs) + 2)), Subject: pkix.Name{CommonName: name},
		NotBefore: time.Now().Add(-time.Hour), NotAfter: time.Now().Add(48 * time.Hour),
		KeyUsage: x509.KeyUsageDigitalSignature, ExtKeyUsage: []x509.ExtKeyUsage{x509.ExtKeyUsageServerAuth},
	}
	if ip := net.ParseIP(name); ip != nil {
		tpl.IPAddresses = []net.IP{ip}
	} else {
		tpl.DNSNames = []string{name}
	}
	der, err := x509.CreateCertificate(rand.Reader, tpl, p.caCert, &p.leafKey.PublicKey, p.caKey)
	if err != nil {
		return nil, err
	}
	c := &tls.Certificate{Certificate: [][]byte{der}, PrivateKey: p.leafKey}
	p.certs[name] = c
	return c, nil
}

func (p *capProxy) setPlan(pl *plan) {
	p.mu.Lock()
	p.plan = pl
	p.log = nil
	p.mu.Unlock()
}

// take returns and clears the log.
func (p *capProxy) take() []reqLog {
	p.mu.Lock()
	l := p.log
	p.log = nil
	p.mu.Unlock()
	return l
}

func (p *capProxy) record(r reqLog) *plan {
	p.mu.Lock()
	p.seq++
	p.total++
	r.Seq = p.seq
	p.log = append(p.log, r)
	pl := p.plan
	p.mu.Unlock()
	return pl
}

// answer decides status, headers and body for a request.
func answer(pl *plan, r reqLog) (int, http.Header, []byte) {
	h := http.Header{}
	h.Set("Connection", "close")
	if pl == nil {
		return 503, h, []byte("no plan")
	}
	path := r.Path
	if i := strings.IndexAny(path, "?#"); i >= 0 {
		path = path[:i]
	}
	if loc, ok := pl.redirects[strings.ToLower(r.Authority)+path]; ok {
		h.Set("Location", loc)
		return 302, h, nil
	}
	switch {
	case strings.HasSuffix(path, "index.yaml"):
		h.Set("Content-Type", "application/x-yaml")
		return 200, h, pl.index
	case strings.HasSuffix(path, ".tgz"):
		h.Set("Content-Type", "application/gzip")
		return 200, h, pl.chart
	case strings.HasSuffix(path, ".prov"):
		h.Set("Content-Type", "text/plain")
		return 200, h, pl.prov
	}
	return 404, h, []byte("not found")
}

func (p *capProxy) ServeHTTP(w http.ResponseWriter, r *http.Request) {
	if r.Method == http.MethodConnect {
		p.serveConnect(w, r)
		return
	}
	if !r.URL.IsAbs() {
		http.Error(w, "not a proxy request", 400)
		return
	}
	rl := reqLog{Method: r.Method, Scheme: r.URL.Scheme, Authority: r.URL.Host, Path: r.URL.RequestURI(), HostHdr: r.Host, Auth: r.Header.Get("Authorization")}
	pl := p.record(rl)
	code, hdr, body := answer(pl, rl)
	for k, v := range hdr {
		w.Header()[k] = v
	}
	w.WriteHeader(code)
	w.Write(body)
}

func (p *capProxy) serveConnect(w http.ResponseWriter, r *http.Request) {
	target := r.Host
	hj, ok := w.(http.Hijacker)
	if !ok {
		http.Error(w, "no hijack", 500)
		return
	}
	conn, _, err := hj.Hijack()
	if err != nil {
		return
	}
	defer conn.Close()
	p.mu.Lock()
	p.connects++
	p.mu.Unlock()
	io.WriteString(conn, "HTTP/1.1 200 Connection established\r\n\r\n")
	host := target
	if h, _, err := net.SplitHostPort(target); err == nil {
		host = h
	}
	tc := tls.Server(conn, &tls.Config{GetCertificate: func(chi *tls.ClientHelloInfo) (*tls.Certificate, error) {
		name := chi.ServerName
		if name == "" {
			name = host
		}
		return p.certFor(name)
	}})
	tc.SetDeadline(time.Now().Add(30 * time.Second))
	if err := tc.Handshake(); err != nil {
		return
	}
	defer tc.Close()
	br := bufio.NewReader(tc)
	req, err := http.ReadRequest(br)
	if err != nil {
		return
	}
	io.Copy(io.Discard, req.Body)
	rl := reqLog{Method: req.Method, Scheme: "https", Authority: target, Path: req.URL.RequestURI(), HostHdr: req.Host, Auth: req.Header.Get("Authorization")}
	pl := p.record(rl)
	code, hdr, body := answer(pl, rl)
	resp := &http.Response{StatusCode: code, ProtoMajor: 1, ProtoMinor: 1, Header: hdr, Body: io.NopCloser(bytes.NewReader(body)), ContentLength: int64(len(body)), Close: true, Request: req}
	resp.Write(tc)
}
