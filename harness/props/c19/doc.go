// Package c19: monitor for property C19 (see DESIGN.md section 3).
package c19
