// Package c19: repository credentials are sent only to the repository's own host.
//
// Observation point: a capture proxy on 127.0.0.1 (proxy.go). The worker sets HTTP_PROXY /
// HTTPS_PROXY to it (NO_PROXY empty) before its first HTTP use, so every request helm makes to the
// made-up host names (repo.example.test, evil.test, ...) arrives there with all headers: plain
// HTTP as absolute-URI requests, HTTPS through CONNECT terminated with a throw-away CA (cases pass
// the CA file / repo caFile). The proxy serves index files, chart archives, .prov files and
// scripted 302 redirects and logs (method, absolute URL, Host, Authorization).
//
// Oracle (refOrigin): with pass-credentials off, no logged request whose Authorization header
// carries the sub-case's nonce password may have an origin (scheme, lower-cased host, effective
// port) different from the origin of the repository URL the credentials were configured for.
//
// Don't-care zones: credentials omitted on same-origin spellings helm does not recognise (host
// case, explicit default port) — fail closed; redirects to the same host on another port or to a
// sub-domain follow net/http's own forwarding rule and are not generated (only redirects to
// unrelated domains are); a trailing dot of a host name is ignored when comparing origins;
// Authorization derived by net/http from URL userinfo (it never contains the nonce);
// Proxy-Authorization; OCI registries; what an entry point returns.
package c19

import (
	"crypto/sha1"
	"encoding/base64"
	"fmt"
	"io"
	"log"
	"log/slog"
	"math/rand"
	"net/url"
	"os"
	"path/filepath"
	"sort"
	"strings"
	"sync"
	"time"

	"sigs.k8s.io/yaml"

	"helm.sh/helm/v4/pkg/action"
	chart "helm.sh/helm/v4/pkg/chart/v2"
	chartutil "helm.sh/helm/v4/pkg/chart/v2/util"
	"helm.sh/helm/v4/pkg/cli"
	"helm.sh/helm/v4/pkg/downloader"
	"helm.sh/helm/v4/pkg/getter"
	"helm.sh/helm/v4/pkg/repo"
	"helm.sh/helm/v4/verifh/core"
)

type caseData struct {
	Seed  int64 `json:"seed"`
	First int   `json:"first"` // global number of the first pair of this case
	N     int   `json:"n"`
	Only  int   `json:"only,omitempty"` // replay aid: run only pair number Only (1-based within the case)
}

func init() {
	core.Register(&core.Prop{
		ID:    "C19",
		Level: "exploration",
		Rule: "repository URL forms (scheme, port, explicit default port, host case, path, query) × chart URL forms as written in index.yaml (relative, absolute same origin, default-port / host-case respellings, other scheme / host / sub- / super-domain / suffix / prefix host / port / IP, userinfo, fragment and query tricks, scheme-relative, trailing dot, redirects of chart and index to an unrelated domain), with/without pass-credentials, optionally a second configured repository listing the same URL (credential-less on the chart's host, or with its own credentials and pass-credentials off on an unrelated host while the first repository / the caller has pass-credentials on); per pair the nonce credentials are configured for the repository and the pair runs through HTTPGetter.Get, ChartRepository.DownloadIndexFile, ChartDownloader.DownloadTo (repo/chart ref, absolute URL), ChartPathOptions.LocateChart --repo, action.Pull (--repo and repo/chart), Manager.Update and Manager.Build; plus reuse sequences: ONE action.Pull run for five chart arguments in a row (repo/chart with credentials, an absolute URL no repository owns, a chart of a second credentialed repository, another unowned URL, the first repository again) and ONE Manager for Update, Build, Update. " +
			"distinct_nontrivial counts (entry point, URL-difference class, pass-credentials, cross-origin request observed, credentials observed) tuples with at least one request captured.",
		Assumptions: []string{
			"net/http honours HTTP_PROXY/HTTPS_PROXY for the made-up host names, so the proxy sees every request helm sends (checked: per entry point the share of runs with captured requests)",
			"net/url is the trusted parser for computing origins; net/http's own redirect rule (drop Authorization on a cross-domain redirect) is part of the trusted base",
			"HTTPS is observed through CONNECT + throw-away CA; entry points that cannot be given a CA file for a foreign host simply fail the handshake (fewer observations, no verdict)",
		},
		Gen:            genCases,
		Run:            run,
		Post:           post,
		CaseTimeoutSec: 600,
	})
}

func genCases(seed int64, tier string) []core.Case {
	ncases, per := 96, 16
	if tier == "thorough" {
		ncases, per = 1200, 25
	}
	rng := rand.New(rand.NewSource(seed*32452843 + 19))
	off := rng.Intn(1 << 20)
	var out []core.Case
	for i := 0; i < ncases; i++ {
		out = append(out, core.Case{ID: fmt.Sprintf("pairs%04d", i), Data: core.J(caseData{Seed: rng.Int63(), First: off + i*per, N: per})})
	}
	return out
}

// ---------------------------------------------------------------- URL pairs (gen.URLPair)

const repoHost = "repo.example.test"

var repoForms = []string{
	"http://repo.example.test",
	"http://repo.example.test/",
	"http://repo.example.test/charts",
	"http://repo.example.test/charts/",
	"http://repo.example.test:8080/charts",
	"http://repo.example.test:80/charts",
	"http://Repo.Example.TEST/charts",
	"https://repo.example.test/charts",
	"https://repo.example.test:443/charts",
	"https://repo.example.test:8443",
	"http://repo.example.test/a/b/c",
	"http://repo.example.test/charts?channel=stable",
}

type chartForm struct {
	diff string
	mk   func(scheme, authority, host, port string) string
}

const file = "dep-1.0.0.tgz"

func flipScheme(s string) string {
	if s == "http" {
		return "https"
	}
	return "http"
}
func defPort(s string) string {
	if s == "https" {
		return "443"
	}
	return "80"
}

var chartForms = []chartForm{
	{"relative-file", func(s, a, h, p string) string { return file }},
	{"relative-dir", func(s, a, h, p string) string { return "pkgs/" + file }},
	{"relative-rooted", func(s, a, h, p string) string { return "/root/" + file }},
	{"relative-dotdot", func(s, a, h, p string) string { return "../" + file }},
	{"absolute-same-origin", func(s, a, h, p string) string { return s + "://" + a + "/dl/" + file }},
	{"absolute-same-origin-query", func(s, a, h, p string) string { return s + "://" + a + "/dl/" + file + "?sig=abc" }},
	{"same-origin-default-port-respelled", func(s, a, h, p string) string {
		switch {
		case p == "":
			return s + "://" + h + ":" + defPort(s) + "/dl/" + file
		case p == defPort(s):
			return s + "://" + h + "/dl/" + file
		}
		return s + "://" + a + "/dl/" + file
	}},
	{"same-origin-host-case-respelled", func(s, a, h, p string) string {
		nh := strings.ToUpper(h)
		if nh == h {
			nh = strings.ToLower(h)
		}
		if p != "" {
			nh += ":" + p
		}
		return s + "://" + nh + "/dl/" + file
	}},
	{"same-host-trailing-dot", func(s, a, h, p string) string {
		nh := h + "."
		if p != "" {
			nh += ":" + p
		}
		return s + "://" + nh + "/dl/" + file
	}},
	{"other-scheme", func(s, a, h, p string) string { return flipScheme(s) + "://" + h + "/dl/" + file }},
	{"other-scheme-same-port-number", func(s, a, h, p string) string {
		if p == "" {
			p = defPort(s)
		}
		return flipScheme(s) + "://" + h + ":" + p + "/dl/" + file
	}},
	{"other-host", func(s, a, h, p string) string { return s + "://evil.test/dl/" + file }},
	{"other-host-same-port", func(s, a, h, p string) string {
		if p == "" {
			return s + "://cdn.other.test/dl/" + file
		}
		return s + "://cdn.other.test:" + p + "/dl/" + file
	}},
	{"sub-domain", func(s, a, h, p string) string { return s + "://cdn." + strings.ToLower(h) + "/dl/" + file }},
	{"super-domain", func(s, a, h, p string) string { return s + "://example.test/dl/" + file }},
	{"host-as-prefix-of-other", func(s, a, h, p string) string { return s + "://" + strings.ToLower(h) + ".evil.test/dl/" + file }},
	{"host-as-suffix-of-other", func(s, a, h, p string) string { return s + "://x" + strings.ToLower(h) + "/dl/" + file }},
	{"other-port", func(s, a, h, p string) string { return s + "://" + h + ":8081/dl/" + file }},
	{"port-dropped-or-added", func(s, a, h, p string) string {
		if p == "" || p == defPort(s) {
			return s + "://" + h + ":8080/dl/" + file
		}
		return s + "://" + h + "/dl/" + file
	}},
	{"ip-literal", func(s, a, h, p string) string { return s + "://192.0.2.7/dl/" + file }},
	{"userinfo-host-trick", func(s, a, h, p string) string { return s + "://" + h + "@evil.test/dl/" + file }},
	{"userinfo-hostport-trick", func(s, a, h, p string) string { return s + "://" + h + ":80@evil.test/dl/" + file }},
	{"fragment-trick", func(s, a, h, p string) string { return s + "://evil.test/dl/" + file + "#@" + h + "/" }},
	{"query-trick", func(s, a, h, p string) string { return s + "://evil.test/dl/" + file + "?@" + h + "/" + file }},
	{"scheme-relative", func(s, a, h, p string) string { return "//evil.test/dl/" + file }},
	{"encoded-host", func(s, a, h, p string) string { return s + "://repo%2Eexample.test/dl/" + file }},
	{"backslash-trick", func(s, a, h, p string) string { return s + "://evil.test\\@" + h + "/dl/" + file }},
	{"redirect-chart-to-unrelated-domain", func(s, a, h, p string) string { return "redir/" + file }},
	{"redirect-chart-to-unrelated-domain-other-scheme", func(s, a, h, p string) string { return "redir2/" + file }},
	{"redirect-index-to-unrelated-domain", func(s, a, h, p string) string { return "http://mirror.evil.test/pool/" + file }},
}

type pairSpec struct {
	RepoURL   string
	ChartRef  string
	Diff      string
	PassCreds bool
	Sibling   string // URL of a second configured repository (no credentials) on the chart's origin, or ""
	Alias     bool
	User      string
	Pass      string
	// Mirror: URL of a second configured repository on an unrelated origin that has its OWN
	// credentials (User2/Pass2) and pass-credentials off, is listed first and whose index lists the
	// same absolute chart url.
	Mirror string
	User2  string
	Pass2  string
}

func genPair(k int, rng *rand.Rand) pairSpec {
	r := repoForms[k%len(repoForms)]
	cf := chartForms[(k/len(repoForms))%len(chartForms)]
	u, _ := url.Parse(r)
	ps := pairSpec{RepoURL: r, Diff: cf.diff}
	ps.ChartRef = cf.mk(u.Scheme, u.Host, u.Hostname(), u.Port())
	ps.PassCreds = rng.Intn(5) == 0
	ps.Alias = rng.Intn(4) == 0
	nonce := fmt.Sprintf("%08x", rng.Uint32())
	ps.User, ps.Pass = "user-"+nonce, "pw-"+nonce+"-secret"
	if cu, err := url.Parse(ps.ChartRef); err == nil && cu.IsAbs() && cu.Host != "" && rng.Intn(3) == 0 {
		if o1, ok1 := originOfURL(ps.ChartRef); ok1 {
			if o2, _ := originOfURL(r); o1 != o2 {
				ps.Sibling = cu.Scheme + "://" + cu.Host + "/mirror"
				ps.Diff += "+second-repo-lists-url"
			}
		}
	}
	if cu, err := url.Parse(ps.ChartRef); err == nil && cu.IsAbs() && cu.Host != "" && ps.Sibling == "" && rng.Intn(3) == 0 {
		if o1, ok1 := originOfURL(ps.ChartRef); ok1 {
			if o2, _ := originOfURL(r); o1 != o2 {
				ps.Mirror = u.Scheme + "://mirror.corp.test/charts"
				n2 := fmt.Sprintf("%08x", rng.Uint32())
				ps.User2, ps.Pass2 = "mirror-"+n2, "mpw-"+n2+"-secret"
				ps.PassCreds = rng.Intn(2) == 0
				ps.Diff += "+credentialed-second-repo-lists-url"
			}
		}
	}
	return ps
}

// ---------------------------------------------------------------- refOrigin

type origin struct{ scheme, host, port string }

func (o origin) String() string { return o.scheme + "://" + o.host + ":" + o.port }

func originOfURL(s string) (origin, bool) {
	u, err := url.Parse(s)
	if err != nil || u.Scheme == "" || u.Host == "" {
		return origin{}, false
	}
	o := origin{scheme: strings.ToLower(u.Scheme), host: strings.TrimSuffix(strings.ToLower(u.Hostname()), "."), port: u.Port()}
	if o.port == "" {
		o.port = defPort(o.scheme)
	}
	return o, true
}

func originOfReq(r reqLog) (origin, bool) { return originOfURL(r.Scheme + "://" + r.Authority + "/") }

func carries(auth, pass string) bool {
	if auth == "" {
		return false
	}
	if strings.Contains(auth, pass) {
		return true
	}
	if f := strings.Fields(auth); len(f) == 2 {
		if b, err := base64.StdEncoding.DecodeString(f[1]); err == nil && strings.Contains(string(b), pass) {
			return true
		}
	}
	return false
}

// ---------------------------------------------------------------- worker-wide fixtures

var (
	fixOnce    sync.Once
	chartBytes []byte
	fixErr     error
)

func fixtures() ([]byte, error) {
	fixOnce.Do(func() {
		d, err := os.MkdirTemp("", "c19-fix-")
		if err != nil {
			fixErr = err
			return
		}
		defer os.RemoveAll(d)
		p, err := chartutil.Save(&chart.Chart{Metadata: &chart.Metadata{APIVersion: "v2", Name: "dep", Version: "1.0.0"}}, d)
		if err != nil {
			fixErr = err
			return
		}
		chartBytes, fixErr = os.ReadFile(p)
	})
	return chartBytes, fixErr
}

func quiet() {
	log.SetOutput(io.Discard)
	slog.SetDefault(slog.New(slog.NewTextHandler(io.Discard, nil)))
}

func httpGetters() getter.Providers {
	return getter.Providers{{Schemes: []string{"http", "https"}, New: func(o ...getter.Option) (getter.Getter, error) {
		return getter.NewHTTPGetter(append(o, getter.WithTimeout(30*time.Second))...)
	}}}
}

// ---------------------------------------------------------------- run

type exec struct {
	pl     *plan
	res    *core.Result
	px     *capProxy
	ps     pairSpec
	n      int
	repoO  origin
	dir    string
	ca     string
	keys   map[string]bool
	verb   bool
	anyReq bool
	// seq2: during reuse sequences, the nonce password and origin of the sequence's second
	// credentialed repository (pass-credentials off)
	seq2Pass string
	seq2O    origin
}

func run(c core.Case, verbose bool) core.Result {
	quiet()
	var d caseData
	core.U(c, &d)
	var res core.Result
	px, err := getProxy()
	if err != nil {
		res.Inconclusive = "capture proxy: " + err.Error()
		return res
	}
	cb, err := fixtures()
	if err != nil {
		res.Inconclusive = "fixtures: " + err.Error()
		return res
	}
	dir, err := os.MkdirTemp("", "c19-")
	if err != nil {
		res.Inconclusive = err.Error()
		return res
	}
	defer os.RemoveAll(dir)
	for _, k := range []string{"HELM_CACHE_HOME", "HELM_CONFIG_HOME", "HELM_DATA_HOME"} {
		os.Setenv(k, filepath.Join(dir, "home", k))
	}
	ca := filepath.Join(dir, "ca.pem")
	os.WriteFile(ca, px.caPEM, 0o644)
	keys := map[string]bool{}
	for j := 0; j < d.N; j++ {
		rng := rand.New(rand.NewSource(d.Seed + int64(j)*104729))
		ps := genPair(d.First+j, rng)
		if d.Only != 0 && d.Only != j+1 {
			continue
		}
		x := &exec{res: &res, px: px, ps: ps, n: j + 1, dir: filepath.Join(dir, fmt.Sprintf("p%d", j)), ca: ca, keys: keys, verb: verbose}
		os.MkdirAll(x.dir, 0o755)
		x.runPair(cb)
		os.RemoveAll(x.dir)
		if res.Sample == nil && ps.Sibling == "" {
			res.Sample = map[string]any{"repository_url": ps.RepoURL, "chart_url_in_index": ps.ChartRef, "difference": ps.Diff, "pass_credentials": ps.PassCreds}
		}
	}
	return res
}

func (x *exec) describe() string {
	s := fmt.Sprintf("pair #%d: repository %q (credentials %s:%s, pass-credentials=%v) chart url in index %q [%s]", x.n, x.ps.RepoURL, x.ps.User, x.ps.Pass, x.ps.PassCreds, x.ps.ChartRef, x.ps.Diff)
	if x.ps.Sibling != "" {
		s += fmt.Sprintf(" second configured repository %q (no credentials) lists the same url", x.ps.Sibling)
	}
	if x.ps.Mirror != "" {
		s += fmt.Sprintf(" second configured repository %q (listed first, own credentials %s:%s, pass-credentials=false) lists the same url", x.ps.Mirror, x.ps.User2, x.ps.Pass2)
	}
	return s
}

func reqKind(r reqLog) string {
	p := r.Path
	if i := strings.IndexAny(p, "?#"); i >= 0 {
		p = p[:i]
	}
	switch {
	case strings.HasSuffix(p, "index.yaml"):
		return "index"
	case strings.HasSuffix(p, ".tgz"):
		return "chart"
	case strings.HasSuffix(p, ".prov"):
		return "provenance"
	}
	return "other"
}

// step runs one entry point and judges the requests it caused.
func (x *exec) step(ep string, f func() error) {
	x.px.take()
	var err error
	core.Guard(x.res, ep, func() { err = f() })
	logd := x.px.take()
	res := x.res
	res.Evals++
	res.Stat("runs_"+ep, 1)
	if len(logd) > 0 {
		res.Stat("runs_with_requests_"+ep, 1)
	}
	cross, creds := false, false
	for _, r := range logd {
		res.Stat("requests_captured_at_proxy", 1)
		if r.Scheme == "https" {
			res.Stat("https_requests_captured", 1)
		}
		o, ok := originOfReq(r)
		foreign := !ok || o != x.repoO
		has := carries(r.Auth, x.ps.Pass)
		if foreign {
			cross = true
			res.Stat("cross_origin_requests_observed", 1)
		}
		if r.Auth != "" && !has {
			res.Stat("requests_with_other_authorization", 1)
		}
		if has {
			creds = true
			res.Stat("requests_with_credentials", 1)
			if !foreign {
				res.Stat("requests_with_credentials_same_origin", 1)
			}
		}
		if x.ps.Mirror != "" && carries(r.Auth, x.ps.Pass2) {
			// the second repository's credentials: configured for its origin, pass-credentials off
			res.Stat("requests_with_second_repository_credentials", 1)
			if mo, _ := originOfURL(x.ps.Mirror); !ok || o != mo {
				res.Add("credentials-sent-to-foreign-origin", fmt.Sprintf("%s · credentials of a second configured repository (pass-credentials off) sent to another origin · %s request", ep, reqKind(r)),
					"%s %s carried the credentials of the second repository; request origin %s, that repository's origin %s | %s | entry point %s returned err=%v",
					r.Method, r.URL(), o, mo, x.describe(), ep, err)
			}
		}
		if x.seq2Pass != "" && carries(r.Auth, x.seq2Pass) {
			res.Stat("requests_with_second_repository_credentials", 1)
			if !ok || o != x.seq2O {
				res.Add("credentials-sent-to-foreign-origin", fmt.Sprintf("%s · credentials of the sequence's second repository (pass-credentials off) sent to another origin · %s request", ep, reqKind(r)),
					"%s %s carried the credentials of the second repository; request origin %s, that repository's origin %s | %s | entry point %s returned err=%v",
					r.Method, r.URL(), o, x.seq2O, x.describe(), ep, err)
			}
		}
		if has && foreign {
			if x.ps.PassCreds {
				res.Stat("credentials_forwarded_under_pass_credentials", 1)
			} else {
				var all []string
				for _, q := range logd {
					a := "-"
					if carries(q.Auth, x.ps.Pass) {
						a = "CREDENTIALS"
					} else if q.Auth != "" {
						a = "other-auth"
					}
					all = append(all, fmt.Sprintf("%s %s [%s]", q.Method, q.URL(), a))
				}
				res.Add("credentials-sent-to-foreign-origin", fmt.Sprintf("%s · %s · %s request", ep, x.diffClass(ep, r, o), reqKind(r)),
					"%s %s carried the repository credentials; request origin %s, repository origin %s | %s | entry point %s returned err=%v | requests of this step: %s",
					r.Method, r.URL(), o, x.repoO, x.describe(), ep, err, strings.Join(all, " ; "))
			}
		}
	}
	if len(logd) > 0 {
		k := fmt.Sprintf("%s|%s|pc=%v|cross=%v|creds=%v", ep, x.ps.Diff, x.ps.PassCreds, cross, creds)
		if !x.keys[k] {
			x.keys[k] = true
			res.Keys = append(res.Keys, k)
		}
	}
	if x.verb {
		fmt.Printf("  %-40s err=%v\n", ep, err)
		for _, r := range logd {
			a := r.Auth
			if carries(a, x.ps.Pass) {
				a = "Basic <nonce credentials>"
			}
			fmt.Printf("      #%d %s %s Host=%s Authorization=%q\n", r.Seq, r.Method, r.URL(), r.HostHdr, a)
		}
	}
}

// diffClass names the cause shape of a foreign request: which origin component differs from the
// repository's, whether the request follows a scripted redirect, and whether a second configured
// repository lists the url (only where the entry point reads the repository configuration).
func (x *exec) diffClass(ep string, r reqLog, o origin) string {
	c := "same host, other port"
	switch {
	case o.host != x.repoO.host:
		c = "foreign host"
	case o.scheme != x.repoO.scheme:
		c = "same host, other scheme"
	}
	if x.pl != nil {
		for _, loc := range x.pl.redirects {
			if strings.EqualFold(loc, r.URL()) {
				c += ", after redirect"
			}
		}
	}
	if x.ps.Sibling != "" && !strings.Contains(ep, "--repo") && ep != "HTTPGetter.Get" {
		c += ", url also listed by a second configured repository"
	}
	return c
}

func (x *exec) indexBytes() []byte {
	doc := map[string]any{
		"apiVersion": "v1", "generated": "2024-01-02T03:04:05Z",
		"entries": map[string]any{"dep": []any{
			map[string]any{"name": "dep", "version": "0.9.0", "apiVersion": "v2", "urls": []any{"dep-0.9.0.tgz"}},
			map[string]any{"name": "dep", "version": "1.0.0", "apiVersion": "v2", "urls": []any{x.ps.ChartRef}},
		}},
	}
	b, err := yaml.Marshal(doc)
	if err != nil {
		panic(err)
	}
	return b
}

func (x *exec) runPair(chartArchive []byte) {
	ps := x.ps
	var ok bool
	if x.repoO, ok = originOfURL(ps.RepoURL); !ok {
		x.res.Inconclusive = "generator produced an unparsable repository URL " + ps.RepoURL
		return
	}
	ru, _ := url.Parse(ps.RepoURL)
	base := strings.ToLower(ru.Host) + strings.TrimSuffix(ru.Path, "/")
	pl := &plan{index: x.indexBytes(), chart: chartArchive, prov: []byte("-----BEGIN PGP SIGNED MESSAGE-----\nnot a real provenance file\n"), redirects: map[string]string{}}
	switch {
	case strings.HasPrefix(ps.Diff, "redirect-chart-to-unrelated-domain-other-scheme"):
		pl.redirects[base+"/redir2/"+file] = flipScheme(ru.Scheme) + "://downloads.evil.test/landing/" + file
		pl.redirects[base+"/redir2/"+file+".prov"] = flipScheme(ru.Scheme) + "://downloads.evil.test/landing/" + file + ".prov"
	case strings.HasPrefix(ps.Diff, "redirect-chart"):
		pl.redirects[base+"/redir/"+file] = ru.Scheme + "://downloads.evil.test/landing/" + file
		pl.redirects[base+"/redir/"+file+".prov"] = ru.Scheme + "://downloads.evil.test/landing/" + file + ".prov"
	case strings.HasPrefix(ps.Diff, "redirect-index"):
		pl.redirects[base+"/index.yaml"] = "http://mirror.evil.test/pool/index.yaml"
	}
	x.px.setPlan(pl)
	x.pl = pl
	if x.verb {
		fmt.Printf("---- %s\n", x.describe())
	}

	// ---- configuration as `helm repo add --username --password [--pass-credentials]` leaves it
	entry := &repo.Entry{Name: "myrepo", URL: ps.RepoURL, Username: ps.User, Password: ps.Pass, PassCredentialsAll: ps.PassCreds, CAFile: x.ca}
	rf := repo.NewFile()
	var sib *repo.Entry
	if ps.Mirror != "" {
		sib = &repo.Entry{Name: "pubmirror", URL: ps.Mirror, Username: ps.User2, Password: ps.Pass2, CAFile: x.ca}
		rf.Add(sib)
	}
	if ps.Sibling != "" {
		sib = &repo.Entry{Name: "pubmirror", URL: ps.Sibling, CAFile: x.ca}
		rf.Add(sib)
	}
	rf.Add(entry)
	repoCfg := filepath.Join(x.dir, "repositories.yaml")
	cache := filepath.Join(x.dir, "cache")
	os.MkdirAll(cache, 0o755)
	if err := rf.WriteFile(repoCfg, 0o644); err != nil {
		x.res.Inconclusive = err.Error()
		return
	}
	emptyCfg := filepath.Join(x.dir, "empty-repositories.yaml")
	repo.NewFile().WriteFile(emptyCfg, 0o644)
	settings := &cli.EnvSettings{PluginsDirectory: filepath.Join(x.dir, "plugins"), RepositoryConfig: repoCfg, RepositoryCache: cache, RegistryConfig: filepath.Join(x.dir, "registry.json")}
	flagSettings := &cli.EnvSettings{PluginsDirectory: filepath.Join(x.dir, "plugins"), RepositoryConfig: emptyCfg, RepositoryCache: filepath.Join(x.dir, "cache-flags"), RegistryConfig: filepath.Join(x.dir, "registry.json")}
	os.MkdirAll(flagSettings.RepositoryCache, 0o755)
	resolved, rerr := repo.ResolveReferenceURL(ps.RepoURL, ps.ChartRef)

	// ---- E1 HTTPGetter.Get with options
	x.step("HTTPGetter.Get", func() error {
		g, err := getter.NewHTTPGetter(getter.WithURL(ps.RepoURL), getter.WithBasicAuth(ps.User, ps.Pass), getter.WithPassCredentialsAll(ps.PassCreds),
			getter.WithTLSClientConfig("", "", x.ca), getter.WithTimeout(30*time.Second))
		if err != nil {
			return err
		}
		idx, _ := repo.ResolveReferenceURL(ps.RepoURL, "index.yaml")
		_, e1 := g.Get(idx)
		if rerr != nil {
			return rerr
		}
		_, e2 := g.Get(resolved)
		_, e3 := g.Get(resolved + ".prov")
		return firstErr(e1, e2, e3)
	})

	// ---- E2 repository index download (fills the cache like `helm repo update`)
	for _, e := range []*repo.Entry{sib, entry} {
		if e == nil {
			continue
		}
		x.step("ChartRepository.DownloadIndexFile", func() error {
			r, err := repo.NewChartRepository(e, httpGetters())
			if err != nil {
				return err
			}
			r.CachePath = cache
			_, err = r.DownloadIndexFile()
			return err
		})
	}
	if _, err := os.Stat(filepath.Join(cache, "myrepo-index.yaml")); err != nil {
		// the index could not be fetched (e.g. redirect scenario failed): place it, as an earlier update would have
		os.WriteFile(filepath.Join(cache, "myrepo-index.yaml"), pl.index, 0o644)
	}
	if sib != nil {
		if _, err := os.Stat(filepath.Join(cache, "pubmirror-index.yaml")); err != nil {
			os.WriteFile(filepath.Join(cache, "pubmirror-index.yaml"), pl.index, 0o644)
		}
	}

	// ---- E3 ChartDownloader.DownloadTo
	x.step("DownloadTo(repo/chart)", func() error {
		dl := downloader.ChartDownloader{Out: io.Discard, Verify: downloader.VerifyLater, Getters: httpGetters(), RepositoryConfig: repoCfg, RepositoryCache: cache}
		dest := filepath.Join(x.dir, "d1")
		os.MkdirAll(dest, 0o755)
		_, _, err := dl.DownloadTo("myrepo/dep", "1.0.0", dest)
		return err
	})
	if rerr == nil {
		x.step("DownloadTo(absolute-url)", func() error {
			dl := downloader.ChartDownloader{Out: io.Discard, Verify: downloader.VerifyLater, Getters: httpGetters(), RepositoryConfig: repoCfg, RepositoryCache: cache,
				Options: []getter.Option{getter.WithTLSClientConfig("", "", x.ca)}}
			dest := filepath.Join(x.dir, "d2")
			os.MkdirAll(dest, 0o755)
			_, _, err := dl.DownloadTo(resolved, "", dest)
			return err
		})
	}
	if rerr == nil && ps.Mirror != "" {
		// `helm pull <absolute url> --username --password --pass-credentials`: the caller's own
		// (unchecked) credentials with pass-credentials on; the owning repository's credentials
		// replace them and must stay scoped to that repository.
		x.step("DownloadTo(absolute-url, caller --pass-credentials)", func() error {
			dl := downloader.ChartDownloader{Out: io.Discard, Verify: downloader.VerifyLater, Getters: httpGetters(), RepositoryConfig: repoCfg, RepositoryCache: cache,
				Options: []getter.Option{getter.WithTLSClientConfig("", "", x.ca), getter.WithBasicAuth("caller", "caller-own-password"), getter.WithPassCredentialsAll(true)}}
			dest := filepath.Join(x.dir, "d2b")
			os.MkdirAll(dest, 0o755)
			_, _, err := dl.DownloadTo(resolved, "", dest)
			return err
		})
	}

	// ---- E4 ChartPathOptions.LocateChart with --repo --username --password
	x.step("LocateChart(--repo)", func() error {
		o := action.ChartPathOptions{RepoURL: ps.RepoURL, Username: ps.User, Password: ps.Pass, PassCredentialsAll: ps.PassCreds, CaFile: x.ca, Version: "1.0.0"}
		_, err := o.LocateChart("dep", flagSettings)
		return err
	})
	x.step("LocateChart(repo/chart)", func() error {
		o := action.ChartPathOptions{CaFile: x.ca, Version: "1.0.0"}
		_, err := o.LocateChart("myrepo/dep", settings)
		return err
	})

	// ---- E5 action.Pull
	x.step("Pull(--repo)", func() error {
		p := action.NewPull(action.WithConfig(&action.Configuration{}))
		p.Settings = flagSettings
		p.RepoURL, p.Username, p.Password, p.PassCredentialsAll, p.CaFile, p.Version = ps.RepoURL, ps.User, ps.Pass, ps.PassCreds, x.ca, "1.0.0"
		p.VerifyLater = true
		p.DestDir = filepath.Join(x.dir, "d3")
		os.MkdirAll(p.DestDir, 0o755)
		_, err := p.Run("dep")
		return err
	})
	x.step("Pull(repo/chart)", func() error {
		p := action.NewPull(action.WithConfig(&action.Configuration{}))
		p.Settings = settings
		p.Version = "1.0.0"
		p.VerifyLater = true
		p.DestDir = filepath.Join(x.dir, "d4")
		os.MkdirAll(p.DestDir, 0o755)
		_, err := p.Run("myrepo/dep")
		return err
	})

	// ---- E6 dependency manager
	parent := filepath.Join(x.dir, "parent")
	os.MkdirAll(parent, 0o755)
	depRepo := ps.RepoURL
	if ps.Alias {
		depRepo = "@myrepo"
	}
	cy, _ := yaml.Marshal(map[string]any{"apiVersion": "v2", "name": "parent", "version": "0.1.0",
		"dependencies": []any{map[string]any{"name": "dep", "version": "1.0.0", "repository": depRepo}}})
	os.WriteFile(filepath.Join(parent, "Chart.yaml"), cy, 0o644)
	mk := func() *downloader.Manager {
		return &downloader.Manager{Out: io.Discard, ChartPath: parent, Verify: downloader.VerifyLater, Getters: httpGetters(), RepositoryConfig: repoCfg, RepositoryCache: cache}
	}
	x.step("Manager.Update", func() error { return mk().Update() })
	x.step("Manager.Build", func() error { return mk().Build() })

	// ---- E7 one object reused for several charts in a row (`helm pull a b c` keeps one action.Pull):
	// repo/chart of the credentialed repository, an absolute URL no configured repository owns, a chart
	// of a second credentialed repository, another unowned URL, the first repository again. Every
	// credential set stays scoped to its own repository's origin.
	seqDir := filepath.Join(x.dir, "seq")
	seqCache := filepath.Join(seqDir, "cache")
	os.MkdirAll(seqCache, 0o755)
	second := &repo.Entry{Name: "second", URL: ru.Scheme + "://second.corp.test/charts", Username: "seq2user", Password: fmt.Sprintf("seq2pw-%x-secret", sha1.Sum([]byte(ps.Pass)))[:30], CAFile: x.ca}
	sf := repo.NewFile()
	sf.Add(entry, second)
	seqCfg := filepath.Join(seqDir, "repositories.yaml")
	sf.WriteFile(seqCfg, 0o644)
	os.WriteFile(filepath.Join(seqCache, "myrepo-index.yaml"), pl.index, 0o644)
	idx2, _ := yaml.Marshal(map[string]any{"apiVersion": "v1", "generated": "2024-01-02T03:04:05Z",
		"entries": map[string]any{"dep": []any{map[string]any{"name": "dep", "version": "0.9.0", "apiVersion": "v2", "urls": []any{"dep-0.9.0.tgz"}}}}})
	os.WriteFile(filepath.Join(seqCache, "second-index.yaml"), idx2, 0o644)
	x.seq2Pass = second.Password
	x.seq2O, _ = originOfURL(second.URL)
	defer func() { x.seq2Pass = "" }()
	type call struct{ label, ref, version string }
	calls := []call{
		{"1st call repo/chart", "myrepo/dep", "1.0.0"},
		{"2nd call unowned absolute url", ru.Scheme + "://files.unowned.test/pub/other-2.0.0.tgz", ""},
		{"3rd call repo/chart of a second credentialed repository", "second/dep", "0.9.0"},
		{"4th call unowned absolute url", flipScheme(ru.Scheme) + "://cdn.elsewhere.test/x/thing-3.0.0.tgz", ""},
		{"5th call repo/chart of the first repository", "myrepo/dep", "0.9.0"},
	}
	seqSettings := &cli.EnvSettings{PluginsDirectory: filepath.Join(x.dir, "plugins"), RepositoryConfig: seqCfg, RepositoryCache: seqCache, RegistryConfig: filepath.Join(x.dir, "registry.json")}
	pull := action.NewPull(action.WithConfig(&action.Configuration{}))
	pull.Settings = seqSettings
	pull.CaFile = x.ca
	pull.VerifyLater = true
	pull.DestDir = filepath.Join(seqDir, "pulled")
	os.MkdirAll(pull.DestDir, 0o755)
	for _, cl := range calls {
		x.step("one action.Pull reused · "+cl.label, func() error {
			pull.Version = cl.version
			_, err := pull.Run(cl.ref)
			return err
		})
	}
	// (One ChartDownloader value reused for several DownloadTo calls is deliberately not part of the
	// check: DownloadTo/ResolveChartVersion append to c.Options by design, no helm entry point reuses
	// a downloader — Pull.Run, LocateChart and Manager.downloadAll build a fresh one per chart.)
	mgr := mk()
	for i, f := range []func() error{mgr.Update, mgr.Build, mgr.Update} {
		x.step(fmt.Sprintf("one Manager reused · call %d", i+1), f)
	}
}

func firstErr(es ...error) error {
	for _, e := range es {
		if e != nil {
			return e
		}
	}
	return nil
}

func post(a *core.Agg) string {
	var msgs []string
	if a.Stats["requests_captured_at_proxy"] < 2000 {
		msgs = append(msgs, fmt.Sprintf("only %d requests arrived at the capture proxy", a.Stats["requests_captured_at_proxy"]))
	}
	if a.Stats["cross_origin_requests_observed"] < 100 {
		msgs = append(msgs, fmt.Sprintf("only %d cross-origin requests observed (minimum 100)", a.Stats["cross_origin_requests_observed"]))
	}
	if a.Stats["requests_with_credentials_same_origin"] < 100 {
		msgs = append(msgs, fmt.Sprintf("positive control: only %d same-origin requests carried the credentials", a.Stats["requests_with_credentials_same_origin"]))
	}
	var eps []string
	for k := range a.Stats {
		if strings.HasPrefix(k, "runs_") && !strings.HasPrefix(k, "runs_with_requests_") {
			eps = append(eps, strings.TrimPrefix(k, "runs_"))
		}
	}
	sort.Strings(eps)
	for _, ep := range eps {
		if a.Stats["runs_with_requests_"+ep]*2 < a.Stats["runs_"+ep] {
			msgs = append(msgs, fmt.Sprintf("entry point %s: requests captured in only %d of %d runs", ep, a.Stats["runs_with_requests_"+ep], a.Stats["runs_"+ep]))
		}
	}
	return strings.Join(msgs, "; ")
}
