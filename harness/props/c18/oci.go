package c18

// OCI route: the registry's tag list stands in for the index. A registry stub on 127.0.0.1 answers
// `GET /v2/` and `GET /v2/<repo>/tags/list` with a configurable page size and Link-header
// pagination; a real registry.Client (plain HTTP) is pointed at it and the same refSemver oracle
// judges Client.Tags (all valid semver tags, newest first), GetTagMatchingVersionOrConstraint on
// that list, Client.ValidateReference and the oci:// branch of internal/resolver.Resolve.

import (
	"encoding/json"
	"fmt"
	"io"
	"math/rand"
	"net"
	"net/http"
	"net/url"
	"os"
	"path/filepath"
	"sort"
	"strconv"
	"strings"
	"sync"

	"github.com/Masterminds/semver/v3"

	"helm.sh/helm/v4/internal/resolver"
	chart "helm.sh/helm/v4/pkg/chart/v2"
	"helm.sh/helm/v4/pkg/registry"
	"helm.sh/helm/v4/verifh/core"
)

type tagRepo struct {
	tags []string
	page int
}

type tagRegistry struct {
	mu    sync.Mutex
	repos map[string]tagRepo
	host  string
	reqs  int64
	pages int64
}

var (
	regOnce sync.Once
	reg     *tagRegistry
	regErr  error
)

func getRegistry() (*tagRegistry, error) {
	regOnce.Do(func() {
		r := &tagRegistry{repos: map[string]tagRepo{}}
		ln, err := net.Listen("tcp", "127.0.0.1:0")
		if err != nil {
			regErr = err
			return
		}
		r.host = ln.Addr().String()
		go http.Serve(ln, r)
		reg = r
	})
	return reg, regErr
}

func (r *tagRegistry) set(repo string, tr *tagRepo) {
	r.mu.Lock()
	if tr == nil {
		delete(r.repos, repo)
	} else {
		r.repos[repo] = *tr
	}
	r.mu.Unlock()
}

func (r *tagRegistry) ServeHTTP(w http.ResponseWriter, q *http.Request) {
	w.Header().Set("Connection", "close")
	w.Header().Set("Docker-Distribution-Api-Version", "registry/2.0")
	p := q.URL.Path
	if p == "/v2/" || p == "/v2" {
		w.Header().Set("Content-Type", "application/json")
		io.WriteString(w, "{}")
		return
	}
	if !strings.HasPrefix(p, "/v2/") || !strings.HasSuffix(p, "/tags/list") {
		http.Error(w, `{"errors":[{"code":"UNSUPPORTED"}]}`, 404)
		return
	}
	name := strings.TrimSuffix(strings.TrimPrefix(p, "/v2/"), "/tags/list")
	r.mu.Lock()
	tr, ok := r.repos[name]
	r.reqs++
	r.mu.Unlock()
	if !ok {
		w.Header().Set("Content-Type", "application/json")
		w.WriteHeader(404)
		io.WriteString(w, `{"errors":[{"code":"NAME_UNKNOWN","message":"repository name not known to registry"}]}`)
		return
	}
	start := 0
	if last := q.URL.Query().Get("last"); last != "" {
		for i, t := range tr.tags {
			if t == last {
				start = i + 1
			}
		}
	}
	n := tr.page
	if qn, err := strconv.Atoi(q.URL.Query().Get("n")); err == nil && qn > 0 && qn < n {
		n = qn
	}
	end := start + n
	if end > len(tr.tags) {
		end = len(tr.tags)
	}
	page := tr.tags[start:end]
	if end < len(tr.tags) && len(page) > 0 {
		w.Header().Set("Link", fmt.Sprintf("</v2/%s/tags/list?last=%s&n=%d>; rel=\"next\"", name, url.QueryEscape(page[len(page)-1]), tr.page))
		r.mu.Lock()
		r.pages++
		r.mu.Unlock()
	}
	w.Header().Set("Content-Type", "application/json")
	if page == nil {
		page = []string{}
	}
	json.NewEncoder(w).Encode(map[string]any{"name": name, "tags": page})
}

var tagOK = func(s string) bool {
	if s == "" || len(s) > 128 {
		return false
	}
	for i, c := range s {
		ok := c == '_' || (c >= '0' && c <= '9') || (c >= 'a' && c <= 'z') || (c >= 'A' && c <= 'Z') || (i > 0 && (c == '.' || c == '-'))
		if !ok {
			return false
		}
	}
	return true
}

// ociTags turns the version strings of a chart spec into a registry tag list: '+' becomes '_' (as
// helm pushes), strings that are no legal tag are dropped, tags are unique; a few extra tags make
// sure there is more than one page.
func ociTags(rng *rand.Rand, cs chartSpec) []string {
	seen := map[string]bool{}
	var out []string
	add := func(v string) {
		t := strings.ReplaceAll(v, "+", "_")
		// a string the strict parser takes but the lenient one refuses (e.g. "2.0.0-rc..1") is an
		// inconsistency inside the trusted semver library: not generated
		if _, e1 := semver.StrictNewVersion(v); e1 == nil {
			if _, e2 := semver.NewVersion(v); e2 != nil {
				return
			}
		}
		if tagOK(t) && !seen[t] {
			seen[t] = true
			out = append(out, t)
		}
	}
	for _, e := range cs.Entries {
		if e.Version != "" {
			add(e.Version)
		}
	}
	for i := rng.Intn(6); i > 0; i-- {
		add(genVersion(rng))
	}
	for _, t := range []string{"latest", "1.10.0", "1.9.0", "2.0.0-rc.1", "stable"} {
		if rng.Intn(3) == 0 {
			add(t)
		}
	}
	if rng.Intn(2) == 0 {
		sort.Strings(out) // what real registries do
	} else {
		rng.Shuffle(len(out), func(i, j int) { out[i], out[j] = out[j], out[i] })
	}
	return out
}

var pageSizes = []int{1, 2, 3, 100}

func ociRoute(res *core.Result, rng *rand.Rand, sp indexSpec, cs chartSpec, dir string, j int, verbose bool) {
	rg, err := getRegistry()
	if err != nil {
		res.Inconclusive = "registry stub: " + err.Error()
		return
	}
	os.Setenv("DOCKER_CONFIG", filepath.Join(dir, "docker"))
	os.Setenv("HELM_CONFIG_HOME", filepath.Join(dir, "helmcfg"))
	client, err := registry.NewClient(registry.ClientOptPlainHTTP(), registry.ClientOptWriter(io.Discard), registry.ClientOptCredentialsFile(filepath.Join(dir, "registry-config.json")))
	if err != nil {
		res.Inconclusive = "registry.NewClient: " + err.Error()
		return
	}
	tags := ociTags(rng, cs)
	page := pageSizes[rng.Intn(len(pageSizes))]
	repoPath := fmt.Sprintf("w%d/i%d/%s", os.Getpid(), j, cs.Name)
	rg.set(repoPath, &tagRepo{tags: tags, page: page})
	defer rg.set(repoPath, nil)
	ref := rg.host + "/" + repoPath
	pages := (len(tags) + page - 1) / page
	shape := "single-page"
	if pages > 1 {
		shape = "paginated"
	}
	detail := func() string {
		return fmt.Sprintf("registry repository %s serving tags %v in pages of %d (%d pages)", ref, tags, page, pages)
	}

	// reference: helm's documented tag handling — '_' back to '+', strict semantic versions only
	var valid []refEntry
	for _, t := range tags {
		if v, err := semver.StrictNewVersion(strings.ReplaceAll(t, "_", "+")); err == nil {
			valid = append(valid, refEntry{v.String(), v, true})
		}
	}

	// ---- Client.Tags: all valid tags, newest first
	var got []string
	var terr error
	if guard(res, "registry.Client.Tags", sp, detail, func() { got, terr = client.Tags(ref) }) {
		return
	}
	res.Stat("oci_tag_lists_fetched", 1)
	res.Stat("oci_tag_lists_"+shape, 1)
	res.Evals++
	class := fmt.Sprintf("tag list %s", shape)
	if terr != nil {
		res.Add("oci-tags-error", class, "Client.Tags failed: %v | %s", terr, detail())
		return
	}
	want := versionsOf(valid)
	sort.Strings(want)
	g2 := append([]string(nil), got...)
	sort.Strings(g2)
	if strings.Join(want, "\x00") != strings.Join(g2, "\x00") {
		res.Add("oci-tags-differ-from-valid-tags", class, "Client.Tags returned %v, valid semantic-version tags are %v | %s", got, want, detail())
		return
	}
	for i := 1; i < len(got); i++ {
		a, e1 := semver.NewVersion(got[i-1])
		b, e2 := semver.NewVersion(got[i])
		if e1 != nil || e2 != nil || a.Compare(b) < 0 {
			res.Add("oci-tags-not-sorted-newest-first", class, "Client.Tags returned %v: %q stands before %q | %s", got, got[i-1], got[i], detail())
			break
		}
	}
	res.Key("oci|Tags|%s|page=%d", shape, page)
	if verbose {
		fmt.Printf("  OCI %s page=%d tags=%v -> Tags=%v\n", ref, page, tags, got)
	}

	// ---- queries: through Tags+GetTagMatching, ValidateReference and resolver.Resolve (oci://)
	qs := genQueries(rng, chartSpec{Name: cs.Name, Entries: entriesOf(valid)}, 5)
	if len(qs) > 9 {
		qs = qs[:9]
	}
	for _, q := range qs {
		qDetail := func() string { return fmt.Sprintf("query %q (%s) | %s", q.q, q.kind, detail()) }
		qclass := fmt.Sprintf("query=%s %s", q.kind, class)

		// (1) the documented pipeline: Tags -> GetTagMatchingVersionOrConstraint
		exp := refQuery(valid, q.q, true, false)
		var tl []string
		var tag string
		var gerr error
		if !guard(res, "Client.Tags+GetTagMatching", sp, qDetail, func() {
			if tl, gerr = client.Tags(ref); gerr == nil {
				tag, gerr = registry.GetTagMatchingVersionOrConstraint(tl, q.q)
			}
		}) {
			out := judge(res, "oci-tags-match", qclass, exp, q.q, tag, gerr, qDetail)
			res.Stat("oci_queries_compared", 1)
			res.Key("oci|GetTag|%s|%s|%s", shape, q.kind, out)
			res.Evals++
		}

		// (2) Client.ValidateReference (helm pull/install oci://... --version q): an explicit
		// semantic version is taken as is (no tag lookup); otherwise the best tag
		if _, perr := semver.NewVersion(q.q); perr != nil {
			u, _ := url.Parse("oci://" + ref)
			var ru *url.URL
			var verr error
			if !guard(res, "Client.ValidateReference", sp, qDetail, func() { ru, verr = client.ValidateReference("oci://"+ref, q.q, u) }) {
				gotTag := ""
				if verr == nil && ru != nil {
					if i := strings.LastIndexByte(ru.Path, ':'); i >= 0 {
						gotTag = strings.ReplaceAll(ru.Path[i+1:], "_", "+")
					}
				}
				vexp := exp
				if len(valid) == 0 {
					vexp = expectation{wantErr: true}
				}
				out := judge(res, "oci-validate-reference", qclass, vexp, q.q, gotTag, verr, qDetail)
				res.Stat("oci_queries_compared", 1)
				res.Key("oci|ValidateReference|%s|%s|%s", shape, q.kind, out)
				res.Evals++
			}
		}

		// (3) resolver.Resolve for an oci:// dependency ("" is not a range; an explicit version is locked as is)
		if q.q == "" {
			continue
		}
		if _, perr := semver.NewVersion(q.q); perr == nil {
			continue // an explicit version is locked without consulting the tag list (don't-care)
		}
		rexp := refQuery(valid, q.q, false, false)
		dep := &chart.Dependency{Name: cs.Name, Version: q.q, Repository: "oci://" + rg.host + "/" + strings.TrimSuffix(repoPath, "/"+cs.Name)}
		var lock *chart.Lock
		var rerr error
		if guard(res, "resolver.Resolve(oci)", sp, qDetail, func() {
			lock, rerr = resolver.New(dir, dir, client).Resolve([]*chart.Dependency{dep}, map[string]string{cs.Name: dep.Repository})
		}) {
			continue
		}
		gotV := ""
		if rerr == nil && lock != nil && len(lock.Dependencies) == 1 && lock.Dependencies[0] != nil {
			gotV = lock.Dependencies[0].Version
		}
		if rexp.wantErr && rerr == nil && gotV == q.q {
			// Don't-care: when no tag satisfies, the oci branch of Resolve hands the range through
			// unchanged (the later download then fails on it); the property text only says which
			// version is locked when one satisfies.
			res.Stat("oci_resolve_unsatisfiable_range_passed_through", 1)
			continue
		}
		out := judge(res, "oci-resolve", qclass, rexp, q.q, gotV, rerr, qDetail)
		res.Stat("oci_queries_compared", 1)
		res.Key("oci|Resolve|%s|%s|%s", shape, q.kind, out)
		res.Evals++
		if verbose {
			fmt.Printf("    oci %q -> tag %q (%v), lock %q (%v)\n", q.q, tag, gerr, gotV, rerr)
		}
	}
}

func entriesOf(es []refEntry) []entrySpec {
	var out []entrySpec
	for _, e := range es {
		out = append(out, entrySpec{Kind: "valid", Version: e.s, URLs: true})
	}
	return out
}
